"""C19 — runtime attribute/class/object-reference helpers honour their contract."""
import html
from . import common
from .common import hx, unhx
from .strings_pool import rand_string

LEVEL_NOTE = ("theorems are about Runtime/Rt.v (hand-written model of runtime.go helpers); the model is tied to the code "
              "by running both on the same argument lists; Go map iteration order is sampled by repeating each call")


def gen_val(rng, for_attr):
    r = rng.random()
    if r < 0.08:
        return "O%d" % rng.randint(0, 5)
    kinds = "BM" if for_attr else "SLB"
    if rng.random() < 0.12:
        kinds = "SLBM"  # the kind the other helper supports: must be an error here
    k = rng.choice(kinds)
    if k == "S":
        return "S" + hx(rand_string(rng))
    if k == "L":
        return "L" + ",".join(hx(rand_string(rng)) for _ in range(rng.randint(0, 4)))
    n = rng.randint(0, 8)
    keys = []
    if rng.random() < 0.3:
        # related names: equal up to letter case, a prefix / extension of one another, differing in a trailing blank -
        # the entries an order that is not the plain byte order (or a comparison that is not total) would confuse
        base = rng.choice(["disabled", "data-mode", "Id", "a", "class", "x-y", "aria-Label", "é"])
        pool = sorted({base, base.upper(), base.lower(), base.capitalize(), base.swapcase(), base.title(), base + "x", base[:-1] or "b",
                       base + " ", " " + base, base + "-", base.replace("-", "_")})
        rng.shuffle(pool)
        keys = pool[:min(n, len(pool))]
        if k == "M":
            vals = ["on", "ON", "On", "1", "", "a b"]
            return "M" + ",".join("%s:%s" % (hx(x), hx(rng.choice(vals[:3]) if rng.random() < 0.7 else rng.choice(vals))) for x in keys)
    while len(keys) < n:
        s = rand_string(rng)
        if s not in keys:
            keys.append(s)
    if k == "B":
        return "B" + ",".join("%s:%d" % (hx(x), rng.random() < 0.7) for x in keys)
    return "M" + ",".join("%s:%s" % (hx(x), hx(rand_string(rng))) for x in keys)


def parse_val(s):
    body = s[1:]
    parts = body.split(",") if body else []
    if s[0] == "S":
        return ("S", unhx(body))
    if s[0] == "L":
        return ("L", [unhx(p) for p in parts])
    if s[0] == "B":
        return ("B", [(unhx(p.split(":")[0]), p.split(":")[1] == "1") for p in parts])
    if s[0] == "M":
        return ("M", [(unhx(p.split(":")[0]), unhx(p.split(":")[1])) for p in parts])
    return ("O", None)


def go_unescape(b):
    return html.unescape(b.decode("utf-8", "surrogateescape")).encode("utf-8", "surrogateescape")


def has_meta(b):
    return any(c in b for c in b'<>"\'')


def oracle(line, res):
    """Contract predicate evaluated on the implementation's result alone (independent of the Coq model)."""
    f = line.split(" ")
    op, args = f[0], f[1:]
    if res.startswith("nondet"):
        return "result differs between repeated calls on equal arguments: " + res
    if res.startswith("panic"):
        return "panic: " + res
    if op in ("classlist", "attrlist"):
        vals = [parse_val(a) for a in args]
        sup = "SLB" if op == "classlist" else "BM"
        if any(k not in sup for k, _ in vals):
            return None if res == "err" else "unsupported argument type did not yield an error: " + res
        if not res.startswith("ok "):
            return "supported arguments gave " + res
        out = unhx(res[3:])
        if op == "classlist":
            items = []
            for k, v in vals:
                if k == "S" and v:
                    items.append(v)
                elif k == "L":
                    items += [x for x in v if x]
                elif k == "B":
                    items += sorted(x for x, b in v if b and x)
            if has_meta(out):
                return "class list contains an unescaped metacharacter"
            exp = b" ".join(items)
            if go_unescape(out) != exp:
                return "class list decodes to %r, expected %r" % (go_unescape(out), exp)
            return None
        entries = []
        for k, v in vals:
            if k == "B":
                entries += [("b", x, None) for x, b in v if b]
            else:
                entries += [("s", x, y) for x, y in v if y]
        # parse the output: entries are separated by single spaces, but keys may contain spaces;
        # compare against the contract's rendering of each entry, sorted bytewise
        rendered = sorted((go_escape(x) if y is None else go_escape(x) + b'="' + go_escape(y) + b'"') for _, x, y in entries)
        if out != b" ".join(rendered):
            return "attribute list %r, expected %r" % (out, b" ".join(rendered))
        return None
    if op in ("objid", "objclass"):
        i, c, prefix = args[0], args[1], [unhx(p) for p in args[2:]]
        out = unhx(res[3:]) if res.startswith("ok ") else None
        if out is None:
            return "object reference helper gave " + res
        parts = prefix[:1]
        if op == "objid":
            if i == "-":
                return None if out == b"" else "value without ObjectID yielded %r" % out
            if c != "-":
                parts = parts + [unhx(c)]
            parts = parts + [unhx(i)]
            if has_meta(out):
                return "object id contains an unescaped metacharacter"
            return None if go_unescape(out) == b"_".join(parts) else "object id %r, expected (escaped) %r" % (out, b"_".join(parts))
        if c == "-":
            return None if out == b"" else "value without ObjectClass yielded %r" % out
        parts = parts + [unhx(c)]
        # ObjectClass is escaped by BuildClassList, through which generated code always passes it
        return None if out == b"_".join(parts) else "object class %r, expected %r" % (out, b"_".join(parts))
    return None


def go_escape(b):
    return (b.replace(b"&", b"&amp;").replace(b"'", b"&#39;").replace(b"<", b"&lt;").replace(b">", b"&gt;").replace(b'"', b"&#34;"))


def gen_cases(rng, n):
    cases = []
    for _ in range(n):
        r = rng.random()
        if r < 0.4:
            cases.append("classlist " + " ".join(gen_val(rng, False) for _ in range(rng.randint(0, 4))))
        elif r < 0.8:
            cases.append("attrlist " + " ".join(gen_val(rng, True) for _ in range(rng.randint(0, 4))))
        else:
            i = hx(rand_string(rng)) if rng.random() < 0.8 else "-"
            c = hx(rand_string(rng)) if rng.random() < 0.7 else "-"
            pre = [hx(rand_string(rng)) for _ in range(rng.choice([0, 0, 1, 1, 2]))]
            cases.append(" ".join([rng.choice(["objid", "objclass"]), i, c] + pre).strip())
    return [c.rstrip() for c in cases]


CORPUS = [
    "classlist S78 B613c:1,62:0,63:1",
    "classlist B7a:1,79:1,78:1,77:1,76:1,75:1,74:1,73:1",   # F29: order must not follow map iteration
    "classlist L~,61,~,62",                                  # F30: blank slice items
    "classlist S223e3c7363726970743e",                       # F03: escaped
    "attrlist M61:~,62:63",                                  # F31: empty value omitted
    "attrlist M61:31,62:32 B63:1,64:0",
    "attrlist B44697361626c6564:1,64697361626c6564:1",        # seeded C19-m3: names equal up to case must still come in byte order
    "attrlist M446174612d4d6f6465:6f6e,646174612d6d6f6465:4f4e B6964:1",
    "attrlist S61", "classlist M61:62", "classlist O0", "attrlist O1 M61:62",
    "objid 31 75736572 70", "objid 223e - ", "objid - 63", "objclass 31 63 70 71", "objclass 31 -",
]


def run(chk):
    br = common.build_all()
    chk.proof_step(br)
    n = 3000 if chk.tier == "quick" else 60000
    chk.rule = ("argument lists for BuildClassList / BuildAttributeList / ObjectID / ObjectClass generated from one PRNG "
                "(0-4 arguments; strings over HTML metacharacters, quotes, backslash, controls, multi-byte runes, marker look-alikes; "
                "maps of 0-8 entries, 30% of them with related names (equal up to letter case, prefixes / extensions, trailing blanks) and case-equal values; nil-like empties; unsupported types); each call repeated 24x to sample map order; "
                "non-trivial = at least one non-empty argument; distinct by case text")
    cases = CORPUS + gen_cases(chk.rng, n)
    if br.go_ok and br.coq_ok:
        impl = common.run_lines_parallel(common.IMPLRUN, cases)
        model = common.run_lines_parallel(common.DRIVER, cases)
        for line, ri, rm in zip(cases, impl, model):
            f = line.split(" ")
            chk.case(line, nontrivial=len(f) > 1 and any(len(a) > 1 for a in f[1:]),
                     sample={"case": line, "impl": ri, "model": rm})
            chk.count(f[0])
            chk.count("result:" + ri.split(" ")[0])
            why = oracle(line, ri)
            if why:
                chk.violation("oracle", why, input=line, impl=ri, model=rm)
            elif ri != rm:
                chk.broke("correspondence", "L-RUNTIME", "model and implementation disagree", input=line, impl=ri, model=rm)
            else:
                chk.traces += 1
    return chk.finish(level="proof", level_note=LEVEL_NOTE)


def replay(r):
    line = r.get("input")
    ri = common.run_lines(common.IMPLRUN, [line])[0]
    rm = common.run_lines(common.DRIVER, [line])[0]
    print("case :", line)
    print("impl :", ri)
    print("model:", rm)
    why = oracle(line, ri)
    print("oracle:", why or "holds")
    return 1 if why or ri != rm else 0
