"""L-RENDER: compile generated template files with the real compiler, build the generated Go
together with a data-driven main in a scratch module (replace goht => /repo), and render
templates for given environments and destination-writer behaviours."""
import json, os, re, shutil, subprocess, tempfile
from . import common
from .common import hx, unhx

MAIN_GO = r'''package main

import (
	"bufio"
	"context"
	"encoding/hex"
	"encoding/json"
	"errors"
	"fmt"
	"io"
	"os"
	"strings"
	"sync"

	"github.com/stackus/goht"
)

type Env struct {
	S    []string
	B    []bool
	N    []int
	SS   [][]string
	M    map[string]string
	MB   map[string]bool
	Fail []bool
	O0   any
	O1   any
	O2   any
	BadA any // argument for @attributes: a map, or an unsupported value when Fail[4]
	BadC any // argument for a dynamic class list: a string, or an unsupported value when Fail[5]
}

var errInjected = errors.New("injected failure")

// mayFail is the failing call of the fragment language: usable where (string, error) is accepted
func mayFail(E *Env, i int) (string, error) {
	if i < len(E.Fail) && E.Fail[i] {
		return "", fmt.Errorf("site %d: %w", i, errInjected)
	}
	return fmt.Sprintf("[ok%d]", i), nil
}

// dec returns a copy of E with N[0] decremented (bounded recursion in generated templates)
func dec(E *Env) *Env {
	c := *E
	c.N = append([]int{}, E.N...)
	if len(c.N) > 0 {
		c.N[0]--
	}
	return &c
}

type objBoth struct{ id, class string }

func (o objBoth) ObjectID() string    { return o.id }
func (o objBoth) ObjectClass() string { return o.class }

type objID struct{ id string }

func (o objID) ObjectID() string { return o.id }

type objClass struct{ class string }

func (o objClass) ObjectClass() string { return o.class }

type objNone struct{}

type objSpec struct {
	ID    *string `json:"id"`
	Class *string `json:"class"`
}

func mkObj(s objSpec) any {
	switch {
	case s.ID != nil && s.Class != nil:
		return objBoth{*s.ID, *s.Class}
	case s.ID != nil:
		return objID{*s.ID}
	case s.Class != nil:
		return objClass{*s.Class}
	}
	return objNone{}
}

type envJSON struct {
	S    []string
	B    []bool
	N    []int
	SS   [][]string
	M    map[string]string
	MB   map[string]bool
	Fail []bool
	O    []objSpec
}

// recWriter records every Write call and can be told to fail or write short at call k
type recWriter struct {
	writes [][]byte
	failAt int // 1-based; 0 = never
	short  bool
}

func (w *recWriter) Write(p []byte) (int, error) {
	k := len(w.writes) + 1
	if w.failAt == k {
		if w.short {
			n := len(p) / 2
			w.writes = append(w.writes, append([]byte{}, p[:n]...))
			return n, io.ErrShortWrite
		}
		w.writes = append(w.writes, nil)
		return 0, errInjected
	}
	w.writes = append(w.writes, append([]byte{}, p...))
	return len(p), nil
}

type ctxKeyT int

var _ goht.Template

func renderOnce(name string, env *Env, mode string) string {
	f, ok := registry[name]
	if !ok {
		return "no-such-template"
	}
	w := &recWriter{}
	if strings.HasPrefix(mode, "fail") {
		fmt.Sscanf(mode[4:], "%d", &w.failAt)
	} else if strings.HasPrefix(mode, "short") {
		fmt.Sscanf(mode[5:], "%d", &w.failAt)
		w.short = true
	}
	var err error
	func() {
		defer func() {
			if r := recover(); r != nil {
				err = fmt.Errorf("panic: %v", r)
			}
		}()
		err = f(env).Render(context.WithValue(context.Background(), ctxKeyT(1), "parent"), w)
	}()
	parts := make([]string, len(w.writes))
	for i, b := range w.writes {
		if len(b) == 0 {
			parts[i] = "~"
		} else {
			parts[i] = hex.EncodeToString(b)
		}
	}
	status := "ok"
	if err != nil {
		status = "err"
		if errors.Is(err, errInjected) || errors.Is(err, io.ErrShortWrite) {
			status = "err-wraps-cause"
		}
		if strings.HasPrefix(err.Error(), "panic:") {
			status = "panic:" + hex.EncodeToString([]byte(err.Error()))
		}
	}
	return status + " " + strings.Join(parts, ",")
}

func decodeEnv(s string) *Env {
	var ej envJSON
	if err := json.Unmarshal([]byte(s), &ej); err != nil {
		panic(err)
	}
	e := &Env{S: ej.S, B: ej.B, N: ej.N, SS: ej.SS, M: ej.M, MB: ej.MB, Fail: ej.Fail}
	objs := []any{objNone{}, objNone{}, objNone{}}
	for i := range ej.O {
		if i < 3 {
			objs[i] = mkObj(ej.O[i])
		}
	}
	e.O0, e.O1, e.O2 = objs[0], objs[1], objs[2]
	e.BadA, e.BadC = map[string]string{"ok": "1"}, "cls"
	if len(e.Fail) > 4 && e.Fail[4] {
		e.BadA = 42
	}
	if len(e.Fail) > 5 && e.Fail[5] {
		e.BadC = 42
	}
	return e
}

func main() {
	in := bufio.NewReaderSize(os.Stdin, 1<<22)
	out := bufio.NewWriterSize(os.Stdout, 1<<20)
	defer out.Flush()
	for {
		line, err := in.ReadString('\n')
		line = strings.TrimRight(line, "\n")
		if line != "" {
			f := strings.SplitN(line, " ", 4)
			// <op> <template> <mode> <envjson>
			switch f[0] {
			case "render":
				fmt.Fprintln(out, renderOnce(f[1], decodeEnv(f[3]), f[2]))
			case "concurrent":
				// <op> <template,template,...> <goroutines x rounds> <envjson>: every template rendered
				// repeatedly from many goroutines; reports the distinct outputs seen per template
				names := strings.Split(f[1], ",")
				var g, rounds int
				fmt.Sscanf(f[2], "%dx%d", &g, &rounds)
				env := decodeEnv(f[3])
				seen := make([]map[string]int, len(names))
				var mu sync.Mutex
				for i := range seen {
					seen[i] = map[string]int{}
				}
				var wg sync.WaitGroup
				for w := 0; w < g; w++ {
					wg.Add(1)
					go func(w int) {
						defer wg.Done()
						for r := 0; r < rounds; r++ {
							for k := range names {
								i := (k + w + r) % len(names)
								res := renderOnce(names[i], env, "buf")
								mu.Lock()
								seen[i][res]++
								mu.Unlock()
							}
						}
					}(w)
				}
				wg.Wait()
				parts := make([]string, len(names))
				for i := range names {
					var keys []string
					for k := range seen[i] {
						keys = append(keys, k)
					}
					parts[i] = strings.Join(keys, "&")
				}
				fmt.Fprintln(out, strings.Join(parts, "|"))
			default:
				fmt.Fprintln(out, "unknown-op")
			}
			out.Flush() // one result per line, written whole: when the process dies the results so far are not lost
		}
		if err != nil {
			break
		}
	}
}
'''


class Batch:
    """one scratch module holding the generated code of many template files"""

    def __init__(self, race=False):
        self.dir = tempfile.mkdtemp(prefix="verif-render-")
        self.files = {}      # file key -> template text
        self.rejected = {}   # file key -> compile result line (the compiler refused the template)
        self.build_errors = {}  # file key -> go build message
        self.names = []      # template names registered
        self.race = race
        self.bin = None

    def close(self):
        shutil.rmtree(self.dir, ignore_errors=True)

    def add(self, key, text, names):
        self.files[key] = (text, names)

    def build(self):
        env = common.goenv()
        if self.race:
            env["CGO_ENABLED"] = "1"
        keys = sorted(self.files)
        lines = ["clipath " + hx(self.files[k][0]) for k in keys]
        res = common.run_lines_parallel(common.IMPLRUN, lines)
        gen = {}
        for k, r in zip(keys, res):
            f = r.split("|")
            if f[0] != "ok" or f[2] != "ok":
                self.rejected[k] = r
            else:
                gen[k] = unhx(f[1])
        open(os.path.join(self.dir, "go.mod"), "w").write(
            "module rt\n\ngo 1.21.4\n\nrequire github.com/stackus/goht v0.0.0\n\nreplace github.com/stackus/goht => %s\n" % common.REPO)
        shutil.copy(os.path.join(common.REPO, "go.sum"), os.path.join(self.dir, "go.sum"))
        open(os.path.join(self.dir, "main.go"), "w").write(MAIN_GO)
        for k, code in gen.items():
            open(os.path.join(self.dir, "gen_%s.go" % k), "wb").write(code)
        for attempt in range(6):
            live = [k for k in gen if k not in self.build_errors]
            names = [n for k in live for n in self.files[k][1]]
            reg = "package main\n\nimport \"github.com/stackus/goht\"\n\nvar _ goht.Template\n\nvar registry = map[string]func(*Env) goht.Template{\n"
            reg += "".join('\t"%s": %s,\n' % (n, n) for n in names) + "}\n"
            open(os.path.join(self.dir, "registry.go"), "w").write(reg)
            cmd = ["go", "build"] + (["-race"] if self.race else []) + ["-gcflags=-e", "-o", "rt.bin", "."]
            rc, out = common.sh(cmd, cwd=self.dir, env=env, timeout=900)
            if rc == 0:
                self.names = names
                self.bin = os.path.join(self.dir, "rt.bin")
                return True
            bad = set(re.findall(r"gen_(\w+)\.go:\d+", out))
            if not bad:
                raise RuntimeError("render harness does not build:\n" + out[-3000:])
            for k in bad:
                msgs = [l for l in out.split("\n") if ("gen_%s.go" % k) in l]
                self.build_errors[k] = "\n".join(msgs[:6])
                os.remove(os.path.join(self.dir, "gen_%s.go" % k))
        raise RuntimeError("render harness still does not build after dropping failing files")

    def run(self, lines, timeout=600):
        """One result line per input line.  The render process can die on an input (a fatal Go error such as stack exhaustion
        by endless recursion cannot be recovered inside the harness): that input gets the result `crash:<first line of the
        report>` — a failure of the rendered program, to be judged by the caller like any other status — and the remaining
        lines are run in a fresh process.  After 6 deaths the remaining lines get `notrun` (callers drop them)."""
        import subprocess
        out, rest, deaths = [], list(lines), 0
        while rest:
            if deaths >= 6:
                out.extend(["notrun"] * len(rest))
                break
            try:
                p = subprocess.run([self.bin], input="\n".join(rest) + "\n", stdout=subprocess.PIPE, stderr=subprocess.PIPE,
                                   text=True, timeout=timeout)
                got = p.stdout.split("\n")
                err = p.stderr
            except subprocess.TimeoutExpired as e:
                got = (e.stdout.decode("utf-8", "replace") if isinstance(e.stdout, bytes) else (e.stdout or "")).split("\n")
                err = "timeout: the render process did not finish"
            if got and got[-1] == "":
                got.pop()
            if len(got) >= len(rest):
                out.extend(got[:len(rest)])
                break
            # the process died while working on line len(got) (a partial last line cannot occur: results are written whole)
            deaths += 1
            reason = next((l for l in err.split("\n") if l.strip()), "no report").strip()[:120].replace(" ", "_")
            out.extend(got)
            out.append("crash:" + reason)
            rest = rest[len(got) + 1:]
        return out


def env_json(env, objs=None):
    d = {k: env[k] for k in ("S", "B", "N", "SS", "M", "MB", "Fail")}
    d["O"] = objs or []
    return json.dumps(d, ensure_ascii=False, separators=(",", ":"))


def parse_render(res):
    """(status, [writes]) of a render result line"""
    f = res.split(" ", 1)
    writes = []
    if len(f) > 1 and f[1]:
        writes = [unhx(x) for x in f[1].split(",")]
    return f[0], writes
