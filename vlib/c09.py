"""C09 — LSP positions, ranges and URIs translate between template and generated file."""
import json
from . import common, lproxy
from .lproxy import U1, U2, UP, VALID, INVALID

LEVEL_NOTE = ("every overridden request method is exercised at mapped and unmapped positions with scripted downstream answers; the "
              "expected downstream position and the expected translation of every returned range are recomputed from the real source map "
              "of a fresh compilation of the buffer")

POS_METHODS = ["completion", "hover", "definition", "declaration", "typeDefinition", "implementation", "references", "signatureHelp",
               "prepareRename", "onTypeFormatting", "moniker"]
LOC_METHODS = {"definition", "declaration", "typeDefinition", "implementation", "references"}   # answers carry URIs
RANGE_METHODS = {"completion", "hover", "prepareRename", "onTypeFormatting"}                       # answers are ranges in the requesting file
ANS_METHODS = ["codeLens", "codeAction"]


def translate(c, loc):
    """a range of generated file coordinates through the map t2s of compiled buffer c (ends mapped independently)"""
    s = c.t2s.get((loc["sl"], loc["sc"]), (loc["sl"], loc["sc"]))
    e = c.t2s.get((loc["el"], loc["ec"]), (loc["el"], loc["ec"]))
    return dict(loc, sl=s[0], sc=s[1], el=e[0], ec=e[1])


def make_answers(rng, cs):
    """scripted downstream answers: ranges inside mapped text of the requesting file, across two mapped fragments, in boilerplate,
    in another generated file, in a plain Go file"""
    out = []
    for u, c in cs.items():
        keys = sorted(c.t2s)
        if not keys:
            continue
        for _ in range(2):
            a = rng.choice(keys)
            same = [k for k in keys if k[0] == a[0] and k[1] >= a[1]]
            b = rng.choice(same)
            out.append({"uri": u + ".go", "sl": a[0], "sc": a[1], "el": b[0], "ec": b[1]})
        a, b = rng.choice(keys), rng.choice(keys)
        if a > b:
            a, b = b, a
        out.append({"uri": u + ".go", "sl": a[0], "sc": a[1], "el": b[0], "ec": b[1]})
        out.append({"uri": u + ".go", "sl": 0, "sc": 3, "el": 0, "ec": 9})          # header boilerplate
        out.append({"uri": u + ".go", "sl": a[0], "sc": a[1], "el": a[0] + 1, "ec": 0})
    out.append({"uri": UP, "sl": 4, "sc": 2, "el": 4, "ec": 8})
    out.append({"uri": "file:///w/other/c.goht.go", "sl": 1, "sc": 1, "el": 1, "ec": 2})   # a generated file that is not open
    return out


def run(chk):
    br = common.build_all()
    chk.proof_step(br)
    quick = chk.tier == "quick"
    rng = chk.rng
    if br.go_ok:
        chk.rule = ("%d position methods + code lens / code action x positions of two open templates (mapped: %s per method, unmapped: several) "
                    "x scripted answers with ranges inside mapped text, across fragments, in boilerplate, in the other generated file, in a "
                    "plain .go file and in a generated file that is not open; after random open/change prefixes; non-trivial = request on an "
                    "open template; distinct by history" % (len(POS_METHODS), "every position" if not quick else "a sample"))
        hs, metas = [], []
        docs = [VALID[0], VALID[1], VALID[3], lproxy.SHIFTED]
        comp = lproxy.compile_all(docs + INVALID[:3])
        for round_ in range(12 if quick else 200):
            t1, t2 = rng.choice(docs), rng.choice(docs)
            prefix = [{"op": "open", "uri": U1, "version": 1, "text": rng.choice(docs + INVALID[:3])},
                      {"op": "change", "uri": U1, "version": 2, "text": t1},
                      {"op": "open", "uri": U2, "version": 1, "text": t2}]
            cs = {U1: comp[t1], U2: comp[t2]}
            answers = make_answers(rng, cs)
            reqs = []
            for m in POS_METHODS:
                c = cs[U1]
                poss = sorted(c.s2t) if not quick else lproxy.mapped_positions(c, rng, 6)
                for (l, ch) in poss:
                    ans = [rng.choice(answers) for _ in range(rng.randint(0, 3))]
                    reqs.append({"op": "req", "method": m, "uri": U1, "line": l, "char": ch, "answer": ans, "nil_answer": rng.random() < 0.1})
                for (l, ch) in lproxy.unmapped_positions(c, rng, 3):
                    reqs.append({"op": "req", "method": m, "uri": U1, "line": l, "char": ch, "answer": [rng.choice(answers)]})
            for m in ANS_METHODS:
                for _ in range(6):
                    ans = [rng.choice(answers) for _ in range(rng.randint(1, 3))]
                    reqs.append({"op": "req", "method": m, "uri": U1, "line": 0, "char": 0, "answer": ans})
            rng.shuffle(reqs)
            hs.append(prefix + reqs)
            metas.append((cs, len(prefix)))
        traces = lproxy.run_histories(hs)
        nbad = 0
        for h, (cs, npre), tr in zip(hs, metas, traces):
            for e, items in zip(h[npre:], tr[npre:]):
                chk.case(json.dumps(e) + str(id(cs)), nontrivial=True)
                m = e["method"]
                chk.count("method:" + m)
                c = cs[e["uri"]]
                ds = [i for i in items if i["k"] == "ds"]
                ret = [i for i in items if i["k"] == "ret"][-1]
                why = None
                if ret.get("panic"):
                    why = "the proxy panicked: " + ret["panic"]
                elif m in POS_METHODS:
                    tgt = c.s2t.get((e["line"], e["char"]))
                    if tgt is None:
                        if ds:
                            why = "unmapped position %d:%d: the Go language server was consulted (%s)" % (e["line"], e["char"], ds)
                        elif ret.get("err"):
                            why = "unmapped position: the client got an error instead of an empty answer"
                        elif ret.get("locs"):
                            why = "unmapped position: the answer is not empty"
                    else:
                        exp = [(m, e["uri"] + ".go", tgt[0], tgt[1])]
                        got = [(i["m"], i["uri"], i.get("line", 0), i.get("char", 0)) for i in ds]
                        if got != exp:
                            why = "request %s at %d:%d: downstream was asked %s, expected %s" % (m, e["line"], e["char"], got, exp)
                if not why and (m in POS_METHODS and c.s2t.get((e["line"], e["char"])) is not None or m in ANS_METHODS) and not e.get("nil_answer"):
                    ans = e.get("answer", [])
                    if m in LOC_METHODS:
                        exp = []
                        for a in ans:
                            if a["uri"].endswith(".goht.go"):
                                gu = a["uri"][:-3]
                                cc = cs.get(gu)
                                t = translate(cc, a) if cc else dict(a)
                                t["uri"] = gu
                                exp.append(t)
                            else:
                                exp.append(dict(a))
                        got = ret.get("locs") or []
                        if got != exp:
                            why = "%s: returned locations %s, expected %s" % (m, got, exp)
                    elif m in RANGE_METHODS or m == "codeLens":
                        use = ans[:1] if m in ("hover", "prepareRename") else ans
                        exp = [dict(translate(c, a), uri="") for a in use]
                        got = ret.get("locs") or []
                        if got != exp:
                            why = "%s: returned ranges %s, expected %s" % (m, got, exp)
                    elif m == "codeAction":
                        exp = []
                        for a in ans:
                            if a["uri"].endswith(".goht.go"):
                                gu = a["uri"][:-3]
                                cc = cs.get(gu)
                                t = translate(cc, a) if cc else dict(a)
                                t["uri"] = gu
                                exp.append(t)
                            else:
                                exp.append(dict(a))
                        if len(ans) > 1:
                            exp.append({"uri": "rename:file:///w/old.go", "sl": 0, "sc": 0, "el": 0, "ec": 0})
                        got = ret.get("locs") or []
                        if got != exp:
                            why = "codeAction: returned edits %s, expected %s" % (got, exp)
                        elif ans:
                            d = translate(c, ans[0])
                            gd = ret.get("diags") or []
                            if [(x["sl"], x["sc"], x["el"], x["ec"]) for x in gd] != [(d["sl"], d["sc"], d["el"], d["ec"])]:
                                why = "codeAction: diagnostic range %s, expected %s" % (gd, d)
                if why:
                    nbad += 1
                    if nbad <= 3:
                        chk.violation("oracle", why, history=h[:npre] + [e])
                else:
                    chk.traces += 1
        if br.coq_ok:
            lproxy.correspondence(chk, hs, traces)
        chk.samples = [{"request": hs[0][3]}]
    return chk.finish(level="proof", level_note=LEVEL_NOTE)


def replay(r):
    from . import c08
    return c08.replay(r)
