"""C13 — renders are isolated: no state leaks across renders or goroutines."""
import copy, subprocess
from . import common, gen_tmpl, render, lrender
from .c12 import FailGen, FailReached
from .gen_tmpl import X

LEVEL_NOTE = ("every render of a history (successful, failed and very large renders interleaved) and every render of 16 goroutines running "
              "concurrently must equal the template's isolated output (the denotation, which the same run validates); the concurrent part "
              "is built with the Go race detector, whose reports are supporting evidence for 'no data race' (a statement about the Go "
              "memory model that the Coq model of the buffer pool cannot exhibit)")


def expected(d, n, env):
    try:
        return ("ok", d.render(n, env).encode("utf-8"), d.render_inband(n, env).encode("utf-8"), d.raw(n, env))
    except FailReached as fr:
        return ("fail", None, None, None)


def run(chk):
    br = common.build_all()
    chk.proof_step(br)
    quick = chk.tier == "quick"
    rng = chk.rng
    nfiles = 30 if quick else 300
    chk.rule = ("a pool of generated templates (children blocks, whitespace marks, failing sites, dynamic class lists and @attributes) "
                "rendered (a) in random histories that interleave successful, failing and >64 KiB renders, (b) repeatedly from 16 goroutines "
                "at once under the race detector; each result compared with the template's isolated output; non-trivial = a render that "
                "follows a failed or a large render, or a concurrent batch; distinct by history position / batch")
    if br.go_ok and br.coq_ok:
        files = {}
        for i in range(nfiles):
            g = FailGen(rng, prefix="F%d" % i)
            files["f%d" % i] = g.file()
        big_tmpl = {"name": "BIGT0", "layout": False, "body": [
            ("for", 0, "x1", [("el", {"tag": "p", "id": None, "classes": [], "attrs": [], "marks": "", "void": False, "attrs_cmd": None,
                                        "class_attr": ("dyn", [X("x1", lambda e, l: [l["x1"]] if l["x1"] else [])]), "objref": None, "layout": "one"},
                               ("script", X("x1", lambda e, l: l["x1"]), None), None)], "short")]}
        files["big"] = {"package": "main", "templates": [big_tmpl]}
        b = lrender.make_batch(files, race=True)
        try:
            lrender.report_build_problems(chk, b, files)
            live = [(k, f, t["name"]) for k, f in files.items() if k not in b.rejected and k not in b.build_errors for t in f["templates"]]
            den = {k: gen_tmpl.Denote(f, lrender.OBJS, attr_space=False) for k, f in files.items()}
            # (a) histories
            hist = []
            for _ in range(600 if quick else 20000):
                k, f, n = rng.choice(live)
                env = gen_tmpl.gen_env(rng)
                env["Fail"] = [rng.random() < 0.25 for _ in range(6)]
                mode = "buf"
                if k == "big":
                    env["SS"] = [["0123456789abcdefghijklmnopqrstuvwxyz-%d" % j for j in range(rng.choice([3, 2600]))], []]
                    env["Fail"] = [False] * 6
                    mode = rng.choice(["buf", "fail1"])
                hist.append((k, f, n, env, mode))
            lines = ["render %s %s %s" % (n, mode, render.env_json(env, lrender.OBJS)) for k, f, n, env, mode in hist]
            p = subprocess.run([b.bin], input="\n".join(lines) + "\n", stdout=subprocess.PIPE, stderr=subprocess.PIPE, text=True, timeout=900)
            res = p.stdout.split("\n")[:len(lines)]
            if len(res) != len(lines) or res[-1] == "" and len(lines) and False:
                chk.broke("correspondence", "L-RENDER", "render harness produced %d results for %d cases: %s" % (len(res), len(lines), p.stderr[-500:]))
            nbad = 0
            prev_special = False
            for (k, f, n, env, mode), rline in zip(hist, res):
                st, writes = render.parse_render(rline)
                exp = expected(den[k], n, env)
                chk.case("hist:" + n + repr(env) + mode + str(prev_special), nontrivial=prev_special)
                chk.count("history-render")
                why = None
                if mode == "fail1":
                    if not st.startswith("err"):
                        why = "writer failure not reported"
                elif exp[0] == "fail":
                    if not st.startswith("err") or writes:
                        why = "a failing render returned %s with %d writes" % (st, len(writes))
                else:
                    got = b"".join(writes)
                    if st != "ok" or (got != exp[1] and not (got == exp[2] and gen_tmpl.lookalike_formed(exp[3]))):
                        why = "in this history the template renders differently from its isolated output (status %s)" % st
                if why:
                    nbad += 1
                    if nbad <= 3:
                        chk.violation("oracle", why, input_text=gen_tmpl.print_file(f), template=n, env=env,
                                      got=b"".join(writes).decode("utf-8", "replace")[:600], expected=(exp[1] or b"").decode("utf-8", "replace")[:600])
                else:
                    chk.traces += 1
                prev_special = (mode == "fail1") or exp[0] == "fail" or (k == "big" and len(env["SS"][0]) > 100)
            # (b) concurrency under the race detector
            for round_ in range(6 if quick else 60):
                env = gen_tmpl.gen_env(rng)
                env["Fail"] = [False] * 6
                pick = [x for x in live if x[0] != "big"]
                rng.shuffle(pick)
                pick = pick[:24]
                names = [n for _, _, n in pick]
                line = "concurrent %s %dx%d %s" % (",".join(names), 16, 6 if quick else 20, render.env_json(env, lrender.OBJS))
                p = subprocess.run([b.bin], input=line + "\n", stdout=subprocess.PIPE, stderr=subprocess.PIPE, text=True, timeout=900,
                                   env=dict(common.goenv(), GORACE="halt_on_error=0"))
                out = p.stdout.strip("\n").split("|")
                chk.case("conc:" + line, nontrivial=True)
                chk.count("concurrent-batch")
                if "DATA RACE" in p.stderr:
                    chk.violation("oracle", "the race detector reports a data race between concurrent renders", stderr=p.stderr[:3000], env=env, templates=names)
                    continue
                for (k, f, n), o in zip(pick, out):
                    exp = expected(den[k], n, env)
                    seen = o.split("&")
                    ok = True
                    for s in seen:
                        st, writes = render.parse_render(s)
                        got = b"".join(writes)
                        if exp[0] == "fail":
                            ok = ok and st.startswith("err") and not writes
                        else:
                            ok = ok and st == "ok" and (got == exp[1] or (got == exp[2] and gen_tmpl.lookalike_formed(exp[3])))
                    if not ok or len(seen) != 1:
                        chk.violation("oracle", "concurrent renders of %s gave %d distinct results, not all equal to its isolated output" % (n, len(seen)),
                                      input_text=gen_tmpl.print_file(f), template=n, env=env, results=[s[:200] for s in seen[:4]])
                    else:
                        chk.traces += 1
            # L-POOL: the Coq model of the pool protocol against GetBuffer / WriteString / Bytes / ReleaseBuffer
            sched = []
            for _ in range(400 if quick else 10000):
                live, steps, nxt = {}, [], 1
                for _ in range(rng.randint(3, 25)):
                    k = rng.random()
                    if k < 0.3 or not live:
                        steps.append("G%d:%d" % (nxt, rng.randint(0, 3)) if rng.random() < 0.7 else "G%d" % nxt)
                        live[nxt] = True
                        nxt += 1
                    elif k < 0.75:
                        r = rng.choice(sorted(live))
                        steps.append("W%d:%s" % (r, common.hx(rng.choice(["<p>", "x", " \n", "~☢<", ">☢~", "</p>", "é"]))))
                    else:
                        r = rng.choice(sorted(live))
                        steps.append("F%d:%d" % (r, rng.random() < 0.7))
                        del live[r]
                sched.append("pool " + ",".join(steps))
            ia = common.run_lines(common.IMPLRUN, sched)
            ma = common.run_lines_parallel(common.DRIVER, sched)
            for l, a, m in zip(sched, ia, ma):
                chk.case(l)
                chk.count("pool-schedule")
                if a != m:
                    chk.broke("correspondence", "L-POOL", "Runtime/Pool.v and the real buffer pool disagree", input=l, impl=a, model=m)
                else:
                    chk.traces += 1
            chk.samples = [{"history_length": len(hist), "first": lines[0][:200]}, {"concurrent": "16 goroutines x rounds over 24 templates"}]
        finally:
            b.close()
    return chk.finish(level="proof", level_note=LEVEL_NOTE)


def replay(r):
    print(r.get("input_text"))
    print(r.get("detail"))
    print("env:", r.get("env"))
    print("got:", r.get("got"), "expected:", r.get("expected"), r.get("stderr", "")[:1500])
    return 1
