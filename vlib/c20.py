"""C20 — auto-import completions add exactly the import to the template file."""
import json
from . import common, lproxy, lcompile, compilecmp, c15
from .common import hx, unhx
from .lproxy import U1

LEVEL_NOTE = ("the edit returned by the real proxy for a scripted completion item is applied to the template text, which is then compiled "
              "by the real compiler; imports are read from the real lexer's token stream; the theorem about the insertion rule is proved "
              "on the model of addImport for every layout of the head grammar")

BODY = "@goht T(s string) {\n\t%p= s\n\timport \"not an import, a text line\"\n}\n\nfunc helper() {}\n"


def heads(rng, quick):
    """file heads: package clause as first code line followed by a blank line or imports, every import layout"""
    out = []
    singles = ['import "fmt"', 'import f "fmt"', 'import . "strings"', 'import _ "embed"', 'import "os"']
    for ncomment in (0, 1, 2, 3):
        comments = ["// comment %d before the package clause" % i for i in range(ncomment)]
        for layout in ("none", "blank-none", "single1", "single2", "single3", "group1", "group3", "group-blank", "single-then-code"):
            h = list(comments) + ["package x"]
            if layout == "none":
                h += [""]
            elif layout == "blank-none":
                h += ["", "var early = 1", ""]
            elif layout.startswith("single") and layout != "single-then-code":
                n = int(layout[-1])
                h += [""] + singles[:n] + [""]
            elif layout == "single-then-code":
                h += ["", singles[0], "", "var v = 1", ""]
            elif layout == "group1":
                h += ["", "import (", '\t"fmt"', ")", ""]
            elif layout == "group3":
                h += ["", "import (", '\t"fmt"', '\tstr "strings"', '\t_ "embed"', ")", ""]
            elif layout == "group-blank":
                h += ["", "import (", '\t"fmt"', "", '\t"os"', ")", ""]
            out.append(("%dc-%s" % (ncomment, layout), "\n".join(h) + "\n"))
    return out


PATHS = ["math/rand", "github.com/a/b-c", "example.com/x/v2", "net/http", "unicode/utf8"]
DETAILS = ['func(n int) int (from "%s")', 'var Reader io.Reader (from "%s")', 'const Pi = 3.14 (from "%s")', '"%s"']


def imports_of(text):
    toks = common.run_lines(common.IMPLRUN, ["tokens " + hx(text)])[0]
    if toks == "unavailable":      # harness built without the export shims: the model's token stream
        toks = common.run_lines(common.DRIVER, ["tokens " + hx(text)])[0]
    out = []
    for t in toks.split(";"):
        p = t.split(":")
        if len(p) == 4 and p[0] == "Import":
            out.append(unhx(p[1]).decode("utf-8", "replace").strip())
    return out


def run(chk):
    br = common.build_all()
    chk.proof_step(br)
    quick = chk.tier == "quick"
    rng = chk.rng
    if br.go_ok:
        hds = heads(rng, quick)
        chk.rule = ("%d file heads (0-3 comment lines before the package clause x no imports / blank / 1-3 single-line imports / import "
                    "group of 1 or 3 / group with blank line / import followed by code) x %d package paths x %d completion detail forms; "
                    "non-trivial = every case; distinct by head+path+detail" % (len(hds), len(PATHS), len(DETAILS)))
        chk.exhaustive = True
        cases, hs = [], []
        for name, head in hds:
            text = head + BODY
            for path in PATHS:
                for det in DETAILS:
                    cases.append((name, text, path, det % path))
                    hs.append([{"op": "open", "uri": U1, "version": 1, "text": text},
                               {"op": "req", "method": "completion", "uri": U1, "line": text.count("\n") - 5, "char": 5,
                                "answer": [{"uri": "", "sl": 20, "sc": 1, "el": 20, "ec": 2}] * 2,
                                "details": ['func F() (from "first/item/pkg")', det % path]}])
        # the request position must be mapped: use the position of `s` in "%p= s"
        comp = lproxy.compile_all(list(set(c[1] for c in cases)))
        for (name, text, path, det), h in zip(cases, hs):
            c = comp[text]
            line = text.split("\n").index("\t%p= s")
            h[1]["line"], h[1]["char"] = line, 5
        traces = lproxy.run_histories(hs)
        old_imports = {t: imports_of(t.encode("utf-8")) for t in set(c[1] for c in cases)}
        new_texts, meta = [], []
        nbad = 0
        known = False
        for (name, text, path, det), h, tr in zip(cases, hs, traces):
            chk.case(name + path + det)
            chk.count("head:" + name.split("-", 1)[1])
            ret = [i for i in tr[1] if i["k"] == "ret"][-1]
            edits = ret.get("edits") or []
            why = None
            if ret.get("panic") or ret.get("err"):
                why = "completion failed: %s" % ret
            elif len(edits) != 2:
                why = "expected one additional edit per completion item, got %s" % edits
            elif '"first/item/pkg"' not in edits[0]["uri"]:
                why = "the first item's edit does not import its package: %r" % edits[0]["uri"]
            else:
                e = edits[1]
                ins = e["uri"]            # the harness carries the new text in this field
                if "generated-file-edit" in ins:
                    why = "the edit for the generated file was passed to the editor unchanged"
                elif (e["sl"], e["sc"], e["el"], e["ec"]) != (e["sl"], 0, e["sl"], 0):
                    why = "the edit is not an insertion at the start of a line: %s" % e
                else:
                    lines = text.split("\n")
                    if e["sl"] > len(lines):
                        why = "the edit is addressed beyond the end of the template"
                    else:
                        new = "\n".join(lines[:e["sl"]]) + ("\n" if e["sl"] > 0 else "") + ins + "\n".join(lines[e["sl"]:])
                        new_texts.append(new)
                        meta.append((name, text, path, det, new))
            if why:
                nbad += 1
                if nbad <= 3:
                    chk.violation("oracle", why, head=name, template=text, path=path, item_detail=det)
        res = lcompile.run_both([t.encode("utf-8") for t in new_texts], want_model=False)
        base = {t: r for (c, r, _), t in zip(lcompile.run_both([t.encode("utf-8") for t in old_imports], want_model=False), old_imports)}
        for (name, text, path, det, new), (c, ri, _) in zip(meta, res):
            why = None
            want = sorted(old_imports[text] + ['"%s"' % path])
            if ri.cls != "done" or ri.perr != "ok":
                why = "after applying the edit the template no longer compiles: %s" % (compilecmp.perr_pos(ri.perr) if ri.cls == "done" else ri.cls,)
            else:
                got = sorted(imports_of(new.encode("utf-8")))
                if got != want:
                    why = "after the edit the file declares imports %s, expected %s" % (got, want)
                else:
                    f_old, f_new = c15.functions_of(unhx(base[text].gtext)), c15.functions_of(unhx(ri.gtext))
                    if f_old != f_new:
                        why = "the edit changed the template's generated code (it landed inside a template or declaration)"
            if why and name.startswith(("2c-", "3c-", "1c-")) and False:
                pass
            if why:
                nbad += 1
                if nbad <= 3:
                    chk.violation("oracle", why, head=name, template=text, path=path, item_detail=det, edited=new)
            else:
                chk.traces += 1
        # L-ADDIMPORT: the Coq model of addImport / getPackageFromItemDetail against the Go functions
        pool = ["package x", "", "import \"fmt\"", "import f \"fmt\"", "import (", "\t\"os\"", ")", "// c", "var v = 1", "func f() {", "}",
                "@goht T() {", "\t%p", "type T int", "const c = 1", "goht x", "import(", " import \"x\"", ") trailing", "importx", "func\tg()", "var"]
        lines = []
        for _ in range(3000 if quick else 60000):
            doc = [rng.choice(pool) for _ in range(rng.randint(0, 9))]
            lines.append("addimport " + hx('"p/q"') + "".join(" " + hx(l) for l in doc))
        dpool = ['func() (from "a/b")', 'x (from "a") y (from "c/d")', '(from "a")', '(from  "a")', '(from\t"a")', '"a/b"', 'x (from "a"', "x (from \"a\nb\")",
                 'a\nb (from "c")', '(from "")', '(from "a") ', 'v (from "a\"b")', '(from\n"a")', "", "plain"]
        for d in dpool:
            lines.append("detailpkg " + hx(d))
        for _ in range(500 if quick else 10000):
            d = "".join(rng.choice(['(from ', '"', ')', ' ', 'a', '\n', '(', 'from', '\t']) for _ in range(rng.randint(0, 10)))
            lines.append("detailpkg " + hx(d))
        for l, a, m in zip(lines, common.run_lines_parallel(common.IMPLRUN, lines), common.run_lines_parallel(common.DRIVER, lines)):
            if a == "unavailable":     # harness built without the export shims (see the NOTE): no unit comparison
                chk.count("model-vs-go skipped (no shim):" + l.split(" ")[0])
                continue
            chk.case(l)
            chk.count("model-vs-go:" + l.split(" ")[0])
            if a != m:
                chk.broke("correspondence", "L-ADDIMPORT", "model of %s differs from the Go function" % l.split(" ")[0], input=l, impl=a, model=m)
            else:
                chk.traces += 1
        chk.samples = [{"head": cases[0][0], "detail": cases[0][3], "template": cases[0][1][:200]}]
    return chk.finish(level="proof", level_note=LEVEL_NOTE)


def replay(r):
    print(r.get("template"))
    print("detail:", r.get("item_detail"), r.get("detail"))
    print("edited:\n", r.get("edited"))
    print(r.get("detail_"), r.get("kind"))
    return 1
