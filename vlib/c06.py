"""C06 — the compiler is total: no input makes it panic, hang or deadlock."""
import time
from . import common, lcompile, inputs, compilecmp

LEVEL_NOTE = ("theorems are about the lexer/parser model; totality of the implementation is observed in a subprocess with "
              "recover and a watchdog; wall-clock growth is measured, not proved; Go stack/heap limits are not modelled")

# witnesses of defects repaired by fix: commits (kept so that a regression is reported again)
CORPUS = [
    b"@goht T() {\n\t%a{@attributes",                                     # F13 skip() at EOF panicked
    b"package x\n@goht (u User)",                                          # F12 signature at EOF spun
    b"package x\nimport (\n" + b"".join(b'\t"p%d"\n' % i for i in range(70)) + b")\n@goht T() {\n\t%p\n}\n",  # F11 >64 imports deadlocked
    b"package x\n@goht T() {\n\t-#\n\t\th\xc3\xa9ll\xc3\xb3\n\t%p x\n}\n",  # F33
    b"@goht T() {\n\t%p{a ? \"" + "é".encode() * 17 + b"\"}\n}\n",
    b"@goht T() {\n\t%p #{\"a\\tb\"}\n}\n",
]


def families(n):
    """size-scaling families"""
    imp = b"package x\nimport (\n" + b"".join(b'\t"p%d"\n' % i for i in range(n)) + b")\n@goht T() {\n\t%p\n}\n"
    attrs = b"@goht T() {\n\t%p{" + b", ".join(b'a%d: "v"' % i for i in range(n)) + b"}\n}\n"
    nest = b"@goht T() {\n" + b"".join(b"\t" * (i + 1) + b"%div\n" for i in range(min(n, 1500))) + b"}\n"
    tmpls = b"package x\n" + b"".join(b"@goht T%d() {\n\t%%p x\n}\n\n" % i for i in range(n))
    lines = b"@goht T() {\n" + b"".join(b"\t%%p line %d #{x}\n" % i for i in range(n)) + b"}\n"
    interp = b"@goht T() {\n\t%p " + b" ".join(b"t#{x%d}" % i for i in range(n)) + b"\n}\n"
    return {"imports": imp, "attributes": attrs, "nesting": nest, "templates": tmpls, "lines": lines, "interpolations": interp}


def run(chk):
    br = common.build_all()
    chk.proof_step(br)
    quick = chk.tier == "quick"
    base = lcompile.valid_corpus(chk.rng, 40 if quick else 400)
    cases, step = lcompile.neighbours(chk.rng, base, chk.tier, 14000 if quick else 300000)
    cases = CORPUS + base + cases + inputs.random_bytes(chk.rng, 1500 if quick else 30000)
    for b in base[:: (3 if quick else 1)]:
        cases += inputs.random_mutations(b, chk.rng, 6 if quick else 60)
    chk.exhaustive = step == 1
    chk.rule = ("every %s prefix, single-byte deletion and structural-token insertion of %d valid files (repository templates, "
                "their tab-indented forms, generator output), random mutations and random bytes incl. invalid UTF-8; "
                "size-scaling families; non-trivial = non-empty input; distinct by content" % (
                    "(step 1: exhaustive)" if step == 1 else "%d-th" % step, len(base)))
    if br.go_ok and br.coq_ok:
        first = None
        for triples in lcompile.run_both_chunks(cases):
            for c, ri, rm in triples:
                chk.case(c.hex(), nontrivial=len(c) > 0)
                chk.count("impl:" + ri.cls + (":accepted" if ri.cls == "done" and ri.perr == "ok" else ""))
                if ri.cls != "done":
                    chk.violation("oracle", "the compiler did not return: " + ri.raw[:200], input_hex=common.hx(c),
                                  input_text=c.decode("utf-8", "replace")[:600], outcome=ri.cls)
                elif ri.cerr not in ("ok",) and not ri.cerr.startswith("err:"):
                    chk.violation("oracle", "code generation for the (partial) tree crashed", input_hex=common.hx(c))
            if first is None:
                first = [{"input": c.decode("utf-8", "replace")[:120], "outcome": ri.cls, "error": (compilecmp.perr_pos(ri.perr) or ["none"])[0]}
                         for c, ri, rm in triples[7:12]]
            lcompile.correspondence(chk, triples, ("cls",))
            del triples
        chk.samples = first or []
        # the executable model runs the parser's loop on a budget smaller than the one of the termination theorem
        # (C06_parse_terminates, C06_budgets_do_not_matter); on the smaller inputs of this corpus the model is also run with the
        # proved budgets (9(n+1) for the pump, 460(n+1)+2 for the loop) and must give the same outcome, tree, error and code
        small = [c for c in cases if len(c) <= 1200]
        small = small[:: max(1, len(small) // (800 if quick else 20000))]
        lines_small = [common.hx(c) for c in small]
        a = common.run_lines_parallel(common.DRIVER, ["compile " + h for h in lines_small])
        b = common.run_lines_parallel(common.DRIVER, ["compilebig " + h for h in lines_small])
        for c, x, y in zip(small, a, b):
            chk.count("budget:executable model vs proved budgets")
            if x != y:
                chk.broke("correspondence", "L-BUDGET", "the executable model (small parser budget) and the model under the proved budgets differ",
                          input_hex=common.hx(c), executable=x[:200], proved=y[:200])
            else:
                chk.traces += 1
        chk.notes.append("executable model = model under the budgets of the termination theorem on %d inputs of at most 1200 bytes" % len(small))
        # scaling families (implementation only; timing is supporting evidence, the hard oracle is the watchdog)
        sizes = [200, 400, 800] if quick else [500, 1000, 2000, 4000]
        timing = {}
        for n in sizes:
            fam = families(n)
            for name, data in fam.items():
                t0 = time.time()
                r = common.run_lines(common.IMPLRUN, ["digest " + common.hx(data)], timeout=300)[0]
                dt = time.time() - t0
                timing.setdefault(name, []).append((n, round(dt, 3)))
                chk.case("family:%s:%d" % (name, n))
                chk.count("family")
                if r in ("hang",) or r.startswith("panic"):
                    chk.violation("oracle", "size-scaling family %s n=%d: %s" % (name, n, r), family=name, n=n)
        for name, pts in timing.items():
            # low-degree polynomial: doubling n must not multiply the time by more than ~8 (cubic) plus slack
            for (n1, t1), (n2, t2) in zip(pts, pts[1:]):
                if t2 > 8 * t1 + 1.0:
                    chk.violation("oracle", "compile time of family %s grows faster than cubic: n=%d %.2fs -> n=%d %.2fs" % (name, n1, t1, n2, t2),
                                  family=name)
        chk.extra["family_timing_s"] = timing
    return chk.finish(level="proof", level_note=LEVEL_NOTE)


def replay(r):
    data = common.unhx(r["input_hex"]) if "input_hex" in r else families(r["n"])[r["family"]]
    for c, ri, rm in lcompile.run_both([data]):
        print("input:", data[:300])
        print("impl :", ri.cls, ri.perr if ri.cls == "done" else ri.raw[:200])
        print("model:", rm.cls, rm.perr if rm.cls == "done" else "")
        return 0 if ri.cls == "done" and rm.cls == ri.cls else 1
