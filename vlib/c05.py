"""C05 — @render/@children: nested content goes exactly where the callee places it."""
from . import common, gen_tmpl, render, lrender

LEVEL_NOTE = ("lexically scoped denotation (a block is a closure over the caller's environment, variables and own children; a call without "
              "block passes empty children) against the real pipeline on generated call graphs; the Coq side proves the children-slot "
              "discipline of the runtime model (Runtime/Children.v)")


class CallGen(gen_tmpl.Gen):
    def node(self, depth, ctx):
        r = self.rng
        if depth < self.maxdepth and self.templates and r.random() < 0.45:
            return self.n_render(depth, ctx)
        if ctx.get("layout") and r.random() < 0.3:
            return ("children",)
        k = r.choice(["el", "text", "script", "if", "for", "el"])
        if depth >= self.maxdepth and k in ("if", "for"):
            k = "el"
        return getattr(self, "n_" + k)(depth, ctx)

    def file(self):
        r = self.rng
        self.templates = []
        n = r.randint(3, 5)
        for i in range(n):
            layout = r.random() < 0.7
            t = self.template(i, layout=layout)
            if layout:
                # layouts that use their children zero, one or several times
                uses = r.choice([0, 1, 1, 2])
                body = [x for x in t["body"] if x != ("children",)]
                for _ in range(uses):
                    body.insert(r.randint(0, len(body)), ("children",))
                t["body"] = body
            self.templates.append(t)
        # a recursive template bounded by E.N[0], with and without a block
        name = "%sR" % self.prefix
        inner_block = [("text", [("s", "depth")]), ("children",)] if r.random() < 0.6 else None
        rec = {"name": name, "layout": True, "body": [
            ("el", {"tag": "i", "id": None, "classes": [], "attrs": [], "marks": "", "void": False, "attrs_cmd": None, "class_attr": None,
                    "objref": None, "layout": "one"}, ("script", gen_tmpl.X("E.N[0]", lambda e, l: e["N"][0], "int"), "%d"), None),
            ("children",),
            ("if", gen_tmpl.X("E.N[0] > 0", lambda e, l: e["N"][0] > 0, "bool"), [("render", name, inner_block, "dec")], [], None, "short"),
        ]}
        self.templates.append(rec)
        # a page that calls the recursive template with a block using the caller's scope
        self.loopvars = []
        page = self.template(n + 1, layout=False)
        page["body"].append(("render", name, [("text", [("s", "leaf "), ("i", self.str_expr(), None)])]))
        self.templates.append(page)
        return {"package": "main", "templates": list(self.templates)}


def gen_skeleton(rng, prefix):
    """templates made of text lines, @children and @render with / without blocks only: the exact shape the Coq model
    Runtime/Children.v speaks about; returns (abstract file, program in the model's encoding)"""
    n = rng.randint(2, 5)
    names = ["%sS%d" % (prefix, i) for i in range(n)]
    counter = [0]

    def block(depth, allowed):
        nodes, enc = [], []
        for _ in range(rng.randint(1, 3)):
            k = rng.random()
            if k < 0.35 or depth > 3 or not allowed:
                counter[0] += 1
                t = "t%d" % counter[0]
                nodes.append(("text", [("s", t)]))
                enc.append("L" + common.hx(t + "\n"))
            elif k < 0.6:
                nodes.append(("children",))
                enc.append("C")
            else:
                j = rng.choice(allowed)
                if rng.random() < 0.6:
                    b, e = block(depth + 1, allowed)
                    nodes.append(("render", names[j], b))
                    enc.append("B%d(%s)" % (j, ",".join(e)))
                else:
                    nodes.append(("render", names[j], None))
                    enc.append("R%d" % j)
        return nodes, enc

    templates, prog = [], []
    for i in range(n):
        body, enc = block(1, list(range(i)))     # calls go to earlier templates: no recursion without a bound
        templates.append({"name": names[i], "layout": True, "body": body})
        prog.append(",".join(enc))
    return {"package": "main", "templates": templates}, "|".join(prog)


def skeleton_correspondence(chk, rng, n):
    """the Coq model of the children protocol against the real runtime and emitter"""
    files, progs = {}, {}
    for i in range(n):
        f, prog = gen_skeleton(rng, "K%d" % i)
        files["k%d" % i] = f
        progs["k%d" % i] = prog
    b = lrender.make_batch(files)
    try:
        env = gen_tmpl.gen_env(rng)
        cases = [(k, idx, t["name"]) for k, f in files.items() if k not in b.rejected and k not in b.build_errors for idx, t in enumerate(f["templates"])]
        res = b.run(["render %s buf %s" % (name, render.env_json(env)) for _, _, name in cases])
    finally:
        b.close()
    model = common.run_lines_parallel(common.DRIVER, ["children %d %s" % (idx, progs[k]) for k, idx, _ in cases])
    for (k, idx, name), r, m in zip(cases, res, model):
        st, w = render.parse_render(r)
        got = "ok " + common.hx(b"".join(w))
        chk.case("skeleton:" + progs[k] + str(idx))
        chk.count("children-model-program")
        if st != "ok" or got != m:
            chk.broke("correspondence", "L-CHILDREN", "Runtime/Children.v and the real runtime disagree", program=progs[k], entry=idx,
                      template=gen_tmpl.print_file(files[k]), impl=got, model=m)
        else:
            chk.traces += 1


def run(chk):
    br = common.build_all()
    chk.proof_step(br)
    quick = chk.tier == "quick"
    rng = chk.rng
    nfiles = 150 if quick else 4000
    chk.rule = ("generated call graphs: layouts using @children 0/1/2 times, pages nesting @render inside children blocks, blocks that use "
                "loop variables and values of the caller, forwarding of a template's own children inside a block, calls without block under "
                "a layout that was given children, recursion bounded by a parameter with and without blocks; x 4 environments; non-trivial = "
                "template containing a @render with a block; distinct by template+env")
    if br.go_ok and br.coq_ok:
        files = {}
        for i in range(nfiles):
            g = CallGen(rng, prefix="F%d" % i, maxdepth=3)
            files["f%d" % i] = g.file()
        b = lrender.make_batch(files)
        try:
            lrender.report_build_problems(chk, b, files)
            recs = lrender.run_envs(b, files, lambda f, t: [gen_tmpl.gen_env(rng) for _ in range(4)], as_built=True)
        finally:
            b.close()
        nbad = 0
        for r in recs:
            t = next(t for t in r.file["templates"] if t["name"] == r.tname)
            kinds = gen_tmpl.uses(t["body"], None)
            chk.case(gen_tmpl.print_file(r.file) + r.tname + repr(r.env), nontrivial="render+block" in kinds)
            for k in kinds & {"render", "render+block", "children"}:
                chk.count("uses:" + k)
            if r.status == "ok" and r.got == r.ideal:
                chk.traces += 1
                continue
            if lrender.lookalike_known(chk, r):
                continue
            nbad += 1
            if nbad <= 3:
                chk.violation("oracle", "nested content is not rendered where (and only where) the callee places it (status %s)" % r.status,
                              input_text=gen_tmpl.print_file(r.file), template=r.tname, env=r.env,
                              expected=r.ideal.decode("utf-8", "replace"), got=r.got.decode("utf-8", "replace"))
        if recs:
            r = recs[-1]
            chk.samples.append({"template": gen_tmpl.print_file(r.file)[:700], "entry": r.tname, "rendered": r.got.decode("utf-8", "replace")[:300]})
        lrender.compile_correspondence(chk, files, ("cls", "perr", "gtext"))
        skeleton_correspondence(chk, rng, 200 if quick else 5000)
    return chk.finish(level="proof", level_note=LEVEL_NOTE)


def replay(r):
    print(r.get("input_text"))
    print("entry:", r.get("template"), "env:", r.get("env"))
    print("expected:", repr(r.get("expected")))
    print("got     :", repr(r.get("got")))
    return 1
