"""C02 — dynamic values cannot change document structure (HTML escaping)."""
import copy
from html.parser import HTMLParser
from . import common, gen_tmpl, render, lrender
from .gen_tmpl import esc

LEVEL_NOTE = ("two oracles on the real pipeline: exact bytes against the denotation (which escapes every dynamic site except the "
              "explicitly unescaped forms), and an independent tokenizer (Python html.parser) comparing the event stream for adversarial "
              "values with the stream for neutral placeholders; browser-grade HTML5 parsing is not modelled")

ADV = ["<", ">", "&", '"', "'", "<script>alert(1)</script>", '" onmouseover="x', "' onclick='y", "</p>", "</div><b>", "a&amp;b", "&#34;", "&lt;",
       "\\", "\\\"", "`", "a\tb", "a\nb", "\x00", "\x7f", "é", "世界", "☢", "~☢", "☢~", "~☢<", ">☢~", "~☢ <", "x~☢", "☢~x", "-->", "<!--", "{{x}}", "#{y}", "%s", "]]>", " ", "  lead", "trail  ", "=", "/"]


class Tok(HTMLParser):
    def __init__(self):
        super().__init__(convert_charrefs=True)
        self.ev = []
        self.cdata = 0

    def handle_starttag(self, tag, attrs):
        self.ev.append(("start", tag, tuple(attrs)))
        if tag in ("script", "style"):
            self.cdata += 1

    def handle_endtag(self, tag):
        self.ev.append(("end", tag))
        if tag in ("script", "style") and self.cdata:
            self.cdata -= 1

    def handle_data(self, data):
        kind = "cdata" if self.cdata else "text"
        if self.ev and self.ev[-1][0] == kind:
            self.ev[-1] = (kind, self.ev[-1][1] + data)
        else:
            self.ev.append((kind, data))

    def handle_comment(self, data):
        self.ev.append(("comment", data))

    def handle_decl(self, decl):
        self.ev.append(("decl", decl))


STRUCT_DOCS = set()


class StructTok(HTMLParser):
    """projection of html.parser's events onto the event alphabet of Proofs/HtmlTokProofs.v"""
    def __init__(self):
        super().__init__(convert_charrefs=True)
        self.out = []

    @staticmethod
    def name(n):
        return "".join("n%02x" % b for b in n.encode("utf-8"))

    def handle_starttag(self, tag, attrs):
        self.out.append("o" + self.name(tag) + "".join("a" + self.name(k) for k, _ in attrs) + "t")

    def handle_startendtag(self, tag, attrs):
        self.handle_starttag(tag, attrs)

    def handle_endtag(self, tag):
        self.out.append("c" + self.name(tag) + "t")


def py_structure(text):
    low = text.lower()
    if "<!" in low or "<?" in low or "<script" in low or "<style" in low or "<textarea" in low or "<title" in low or "\ufffd" in text:
        return None
    t = StructTok()
    try:
        t.feed(text)
        t.close()
    except Exception:
        return None
    return "".join(t.out)


def events(html_text):
    t = Tok()
    t.feed(html_text)
    t.close()
    return t.ev


def placeholder_env(env):
    """same shape and same emptiness, every non-empty string replaced by a distinct neutral token"""
    sub = {}
    n = [0]

    def ph(v):
        if v == "":
            return ""
        n[0] += 1
        p = "zqph%dx" % n[0]
        sub[p] = v
        return p

    e2 = copy.deepcopy(env)
    e2["S"] = [ph(v) for v in env["S"]]
    e2["SS"] = [[ph(v) for v in l] for l in env["SS"]]
    e2["M"] = {k: ph(v) for k, v in env["M"].items()}
    return e2, sub


def subst(s, sub, f=lambda v: v):
    for p, v in sub.items():
        s = s.replace(p, f(v))
    return s


def same_structure(ev_adv, ev_ph, sub):
    """None if the event stream for the adversarial values is the placeholder stream with the values substituted"""
    if len(ev_adv) != len(ev_ph):
        return "different number of parse events: %d vs %d" % (len(ev_adv), len(ev_ph))
    for a, p in zip(ev_adv, ev_ph):
        if a[0] != p[0]:
            return "event kind %s vs %s" % (a[0], p[0])
        if a[0] == "start":
            if a[1] != p[1]:
                return "element %s vs %s" % (a[1], p[1])
            if len(a[2]) != len(p[2]):
                return "element <%s>: attributes %r vs %r" % (a[1], a[2], p[2])
            for (an, av), (pn, pv) in zip(a[2], p[2]):
                if an != pn:
                    return "attribute name %r vs %r" % (an, pn)
                if (av or "") != subst(pv or "", sub):
                    return "attribute %s value %r, expected %r" % (an, av, subst(pv or "", sub))
        elif a[0] == "end":
            if a[1] != p[1]:
                return "end tag %s vs %s" % (a[1], p[1])
        elif a[0] == "text":
            if a[1] != subst(p[1], sub):
                return "text %r, expected %r" % (a[1], subst(p[1], sub))
        elif a[0] == "cdata":
            if a[1] != subst(p[1], sub, esc):
                return "script/style text %r, expected %r" % (a[1], subst(p[1], sub, esc))
        elif a[0] == "comment":
            if a[1] != subst(p[1], sub, esc) and a[1] != subst(p[1], sub):
                return "comment %r vs %r" % (a[1], p[1])
    return None


def adv_env(rng, harmless_keys):
    env = gen_tmpl.gen_env(rng, strings=ADV + ["", "plain", "a b"])
    if harmless_keys:
        # for the tokenizer comparison map keys stay harmless: a key of an @attributes map is an attribute *name*, which
        # HTML escaping cannot protect against white space or '='
        env["M"] = {k: rng.choice(ADV) for k in rng.sample(["k1", "k2", "data-z", "title2"], rng.randint(0, 4))}
        env["MB"] = {k: rng.random() < 0.6 for k in rng.sample(["on", "off", "x-y", "d_e"], rng.randint(0, 4))}
    else:
        keys = ["k1", "k2", '"><b>', "a<b", "x'y", "q\"q", "d&e", "é", "☢~"]
        env["M"] = {k: rng.choice(ADV) for k in rng.sample(keys, rng.randint(0, 4))}
        env["MB"] = {k: rng.random() < 0.7 for k in rng.sample(keys + [""], rng.randint(0, 4))}
    return env


def is_lookalike(v):
    return "☢" in v


def run(chk):
    br = common.build_all()
    chk.proof_step(br)
    quick = chk.tier == "quick"
    rng = chk.rng
    nfiles = 160 if quick else 4000
    chk.rule = ("generated templates containing every kind of dynamic site (= expr, #{expr} with and without verb, dynamic attribute value, "
                "@attributes map values, dynamic class list from string / slice / map, object reference, != and ! text, interpolation in every "
                "filter) in every context (element text, attribute, class list, filter body, children block through @render, next to an "
                "unescaped node) x 4 environments drawn from %d adversarial strings (HTML metacharacters, quotes, backslashes, controls, "
                "multi-byte runes, marker look-alikes); non-trivial = template with a dynamic site; distinct by template+env" % len(ADV))
    if br.go_ok and br.coq_ok:
        for half, no_raw in (("mixed", False), ("escaped-only", True)):
            files = {}
            for i in range(nfiles // 2):
                g = gen_tmpl.Gen(rng, prefix="F%d" % i, no_raw=no_raw)
                files["f%d" % i] = g.file()
            b = lrender.make_batch(files)
            try:
                lrender.report_build_problems(chk, b, files)
                envs = {}

                def envs_for(f, t):
                    out = []
                    for _ in range(4):
                        e = adv_env(rng, no_raw)
                        out.append(e)
                    return out

                recs = lrender.run_envs(b, files, envs_for)
                # placeholder runs for the escaped-only half
                ph_res = {}
                if no_raw:
                    lines, meta = [], []
                    for i, r in enumerate(recs):
                        e2, sub = placeholder_env(r.env)
                        lines.append("render %s buf %s" % (r.tname, render.env_json(e2, lrender.OBJS)))
                        meta.append((i, sub))
                    for (i, sub), res in zip(meta, b.run(lines)):
                        st, w = render.parse_render(res)
                        ph_res[i] = (b"".join(w).decode("utf-8", "replace"), sub, st)
            finally:
                b.close()
            nbad = 0
            for i, r in enumerate(recs):
                t = next(t for t in r.file["templates"] if t["name"] == r.tname)
                kinds = gen_tmpl.uses(t["body"], None)
                dyn = bool(kinds & {"script", "uscript", "utext", "attr:dyn", "class_attr:dyn", "@attributes", "objref", "inline:script", "inline:uscript"}) or "#{" in gen_tmpl.print_file(r.file)
                chk.case(gen_tmpl.print_file(r.file) + r.tname + repr(r.env), nontrivial=dyn)
                chk.count(half)
                if r.status == "ok" and len(STRUCT_DOCS) < 60000:
                    STRUCT_DOCS.add(r.got)
                why = None
                if not (r.status == "ok" and r.got == r.ideal):
                    if lrender.lookalike_known(chk, r) or lrender.attrs_blank_known(chk, r):
                        continue
                    why = "rendered bytes differ from the denotation (status %s): a dynamic value is not escaped / not inserted exactly where the site is" % r.status
                elif no_raw and i in ph_res:
                    ph_out, sub, st = ph_res[i]
                    if any(is_lookalike(v) for v in sub.values()):
                        chk.count("tokenizer-skipped-lookalike")
                    else:
                        why2 = same_structure(events(r.got.decode("utf-8", "replace")), events(ph_out), sub)
                        chk.count("tokenizer-compared")
                        if why2:
                            why = "document structure depends on a dynamic value: " + why2
                if why:
                    nbad += 1
                    if nbad <= 3:
                        chk.violation("oracle", why, input_text=gen_tmpl.print_file(r.file), template=r.tname, env=r.env,
                                      expected=r.ideal.decode("utf-8", "replace"), got=r.got.decode("utf-8", "replace"))
                else:
                    chk.traces += 1
            if recs and len(chk.samples) < 3:
                r = recs[-1]
                chk.samples.append({"template": gen_tmpl.print_file(r.file)[:400], "env": r.env, "rendered": r.got.decode("utf-8", "replace")[:300]})
            lrender.compile_correspondence(chk, files, ("cls", "perr", "gtext"))
        # known finding F42: `!= @render X()` with a nested block — the unescaped context leaks into the block
        if br.go_ok:
            wb = render.Batch()
            wtext = ("package main\n\n@goht W42X(E *Env) {\n\t= @children\n}\n\n@goht W42(E *Env) {\n\t!= @render W42X(E)\n\t\t%p= E.S[0]\n"
                     "\t= @render W42X(E)\n\t\t%i= E.S[0]\n}\n")
            try:
                wb.add("w42", wtext, ["W42X", "W42"])
                wb.build()
                if "w42" in wb.rejected or "w42" in wb.build_errors:
                    chk.notes.append("F42 witness is no longer accepted by the compiler: " + str(wb.rejected.get("w42") or wb.build_errors.get("w42"))[:200])
                else:
                    env = gen_tmpl.gen_env(rng)
                    env["S"][0] = '<b>&"'
                    st, w = render.parse_render(wb.run(["render W42 buf " + render.env_json(env, lrender.OBJS)])[0])
                    got = b"".join(w)
                    chk.case("F42-witness", nontrivial=True)
                    if st == "ok" and got == b"<p>&lt;b&gt;&amp;&#34;</p>\n<i>&lt;b&gt;&amp;&#34;</i>\n":
                        chk.notes.append("known finding F42 no longer reproduces")
                        chk.traces += 1
                    elif st == "ok" and got == b'<p><b>&"</p>\n<i>&lt;b&gt;&amp;&#34;</i>\n':
                        for kf in common.load_known():
                            if kf["property"] == "C02" and kf["id"] == "F42" and kf["status"] == "open" and kf not in chk.known_seen:
                                chk.known_seen.append(kf)
                        chk.count("known-F42")
                    else:
                        chk.violation("oracle", "a value inside the block of a render command is neither escaped once nor inserted verbatim (status %s)" % st,
                                      input_text=wtext, env=env, expected="<p>&lt;b&gt;&amp;&#34;</p>\n<i>&lt;b&gt;&amp;&#34;</i>\n", got=got.decode("utf-8", "replace"))
            finally:
                wb.close()
        # S-HTMLTOK: the tokenizer of Proofs/HtmlTokProofs.v is a reading of "document structure", not a model of goht code; it is
        # validated here against an independent HTML tokenizer (Python html.parser) on the documents the real pipeline rendered.
        # A disagreement says nothing about goht: it is counted and announced, never reported as a violation.
        if br.go_ok and br.coq_ok and STRUCT_DOCS:
            docs = sorted(STRUCT_DOCS)[:3000 if quick else 40000]
            res = common.run_lines_parallel(common.DRIVER, ["htmlstruct " + common.hx(d) for d in docs])
            differ = 0
            for d, m in zip(docs, res):
                want = py_structure(d.decode("utf-8", "replace"))
                f = m.split(" ")
                got = (f[1].lower() if len(f) == 3 else "") if m.startswith("ok") else m
                if m.startswith("ok") and f[-1] != "D":
                    want = None        # the document ends inside a tag (an unescaped value opened one): html.parser then reports text
                if want is None:
                    chk.count("htmltok-spec:not-comparable")
                elif got.strip() == want:
                    chk.count("htmltok-spec:agrees-with-html.parser")
                else:
                    differ += 1
                    chk.count("htmltok-spec:differs-from-html.parser")
                    if differ <= 2:
                        note = "S-HTMLTOK: tokenizer specification and html.parser differ on %r: %s vs %s" % (d[:120], got.strip()[:80], want[:80])
                        chk.notes.append(note)
                        print("NOTE: " + note)
        # model and implementation of html.EscapeString on the adversarial strings
        lines = ["escape " + common.hx(s) for s in ADV]
        for s, a, m in zip(ADV, common.run_lines(common.IMPLRUN, lines), common.run_lines(common.DRIVER, lines)):
            chk.case("escape:" + s)
            if a != m:
                chk.broke("correspondence", "L-RUNTIME", "html_escape model differs from goht.EscapeString", input=s, impl=a, model=m)
            else:
                chk.traces += 1
    return chk.finish(level="proof", level_note=LEVEL_NOTE)


def replay(r):
    print(r.get("input_text"))
    print("env:", r.get("env"))
    print("expected:", r.get("expected"))
    print("got     :", r.get("got"))
    return 1
