"""Parsing and comparison of the `compile` results of the model (driver) and the implementation."""
from .common import unhx


class Res:
    __slots__ = ("cls", "perr", "tree", "ctext", "cerr", "s2t", "t2s", "gtext", "gerr", "raw", "adds", "unique")


def _table(s):
    rows = []
    if s:
        for r in s.split(";"):
            a = r.split(",")
            rows.append((int(a[0]), int(a[1]), int(a[2]), int(a[3])))
    return rows


def parse_impl(line):
    r = Res()
    r.raw = line
    f = line.split("|")
    r.cls = f[0].split(" ")[0]
    if r.cls != "done":
        return r
    r.perr, r.tree, r.ctext, r.cerr = f[1], f[2], f[3], f[4]
    r.s2t = {(a, b): (c, d) for a, b, c, d in _table(f[5])}
    r.t2s = {(a, b): (c, d) for a, b, c, d in _table(f[6])}
    r.gtext, r.gerr = f[7], f[8]
    return r


def parse_model(line):
    """The model prints the insertions in order; a later insertion overwrites (SourceMap is a Go map)."""
    r = Res()
    r.raw = line
    f = line.split("|")
    r.cls = f[0]
    if r.cls != "done":
        return r
    r.perr, r.tree, r.ctext, r.cerr = f[1], f[2], f[3], f[4]
    r.s2t, r.t2s = {}, {}
    for sl, sc, tl, tc in _table(f[5]):
        r.s2t[(sl, sc)] = (tl, tc)
        r.t2s[(tl, tc)] = (sl, sc)
    r.gtext, r.gerr = f[6], f[7]
    r.adds = []
    r.unique = f[9] if len(f) > 9 else None
    if len(f) > 8 and f[8]:
        for a in f[8].split(";"):
            p = a.split(",")
            r.adds.append((unhx(p[0]), int(p[1]), int(p[2]), int(p[3]), int(p[4])))
    return r


FIELDS = ("cls", "perr", "tree", "ctext", "cerr", "s2t", "t2s", "gtext", "gerr")


def diff(m, i, fields=FIELDS):
    if m.cls != i.cls:
        return ["cls"]
    if m.cls != "done":
        return []
    out = [f for f in fields if getattr(m, f) != getattr(i, f)]
    if "perr" in out:
        # handleNode builds the error with fmt.Errorf(<lexer message>): a '%' in the message is then
        # treated as a verb ("%!x(MISSING)").  The model keeps the plain message; positions must agree.
        pi, pm = perr_pos(i.perr), perr_pos(m.perr)
        if pi and pm and pi[:3] == pm[:3] and (b"%!" in pi[3] or (b"%%" in pm[3] and pi[3].replace(b"%%", b"%") == pm[3].replace(b"%%", b"%"))):
            # ... or as an escaped percent sign ("%%" comes out as "%")
            out.remove("perr")
    return out


def perr_pos(perr):
    """(kind, line, col, message) of a parse error field"""
    if perr == "ok":
        return None
    p = perr.split(":")
    if p[0] == "pos":
        return ("pos", int(p[1]), int(p[2]), unhx(p[3]))
    return ("plain", None, None, unhx(p[1]))
