"""Byte-level input streams for the compiler checks: the repository's own templates, every
prefix / single-byte deletion / structural-token insertion of a file, random mutations."""
import glob, os
from . import common

STRUCT_TOKENS = [b"{", b"}", b"(", b")", b"#{", b'"', b"`", b"[", b"]", b"@", b"\n", b"\t", b" ", b"\\", b"%", b"#", b".",
                 b"=", b"-", b"/", b":", b"!", b"<", b">", b",", b"?", b"'", b"\r", b"\xc3\xa9", b"\xff", b"-#", b"= @render ", b"@goht "]


def repo_templates():
    files = sorted(glob.glob(os.path.join(common.REPO, "**", "*.goht"), recursive=True))
    return [(os.path.relpath(f, common.REPO), open(f, "rb").read()) for f in files]


def prefixes(data, step=1):
    return [data[:i] for i in range(0, len(data) + 1, step)]


def deletions(data, step=1):
    return [data[:i] + data[i + 1:] for i in range(0, len(data), step)]


def insertions(data, rng, per_offset=1, step=1):
    out = []
    for i in range(0, len(data) + 1, step):
        for _ in range(per_offset):
            out.append(data[:i] + rng.choice(STRUCT_TOKENS) + data[i:])
    return out


def random_mutations(data, rng, n):
    out = []
    for _ in range(n):
        b = bytearray(data)
        for _ in range(rng.randint(1, 4)):
            k = rng.random()
            pos = rng.randint(0, len(b)) if b else 0
            if k < 0.3 and b:
                del b[min(pos, len(b) - 1)]
            elif k < 0.6:
                b[pos:pos] = rng.choice(STRUCT_TOKENS)
            elif k < 0.8 and b:
                b[min(pos, len(b) - 1)] = rng.randint(0, 255)
            elif b:
                a = rng.randint(0, len(b))
                c = min(len(b), a + rng.randint(1, 20))
                b[pos:pos] = b[a:c]
        out.append(bytes(b))
    return out


def random_bytes(rng, n, maxlen=60):
    alphabet = b"\t\n %#.{}()[]\"`'=-/:!<>@\\,?abcxyz01~" + bytes([0xc3, 0xa9, 0xe2, 0x98, 0xa2, 0xff, 0x00, 0x0d])
    out = []
    for _ in range(n):
        ln = rng.randint(0, maxlen)
        head = rng.choice([b"", b"", b"@goht T() {\n\t", b"package x\n@goht T() {\n", b"@goht T() {\n\t%a{", b"import (\n"])
        out.append(head + bytes(rng.choice(alphabet) for _ in range(ln)))
    return out
