"""C12 — Render is all-or-nothing and reports every failure."""
import copy
from . import common, gen_tmpl, render, lrender
from .gen_tmpl import X

LEVEL_NOTE = ("failing sites are injected one at a time (a dynamic expression returning an error, a runtime helper given an unsupported "
              "value, inside a nested template, inside a children block) and the destination writer is made to fail or write short at its "
              "first call; whether a failing site is reached is decided by the denotation; the destination's Write calls are recorded")


class FailReached(Exception):
    def __init__(self, site):
        self.site = site


def may_fail(i):
    def ev(e, l):
        if e["Fail"][i]:
            raise FailReached(i)
        return "[ok%d]" % i
    return X("mayFail(E, %d)" % i, ev)


def bad_attrs():
    def ev(e, l):
        if e["Fail"][4]:
            raise FailReached(4)
        return {"ok": "1"}
    return X("E.BadA", ev)


def bad_class():
    def ev(e, l):
        if e["Fail"][5]:
            raise FailReached(5)
        return ["cls"]
    return X("E.BadC", ev)


class FailGen(gen_tmpl.Gen):
    """generated templates with failing sites sprinkled over every construct"""

    def node(self, depth, ctx):
        r = self.rng
        k = r.random()
        if k < 0.18:
            return ("uscript", may_fail(r.randint(0, 3)))
        if k < 0.24:
            return ("utext", [("s", "t "), ("i", may_fail(r.randint(0, 3)), None)])
        return super().node(depth, ctx)

    def n_el(self, depth, ctx):
        n = super().n_el(depth, ctx)
        e = n[1]
        k = self.rng.random()
        if k < 0.12:
            # an unsupported value alone, or followed / preceded by a supported one
            e["attrs_cmd"] = self.rng.choice([[bad_attrs()], [bad_attrs(), "E.M"], ["E.MB", bad_attrs()], [bad_attrs(), "E.MB", "E.M"]])
        elif k < 0.24 and e["objref"] is None:
            e["class_attr"] = ("dyn", [bad_class()])
        return n


def gen_fail_skeleton(rng, prefix):
    """templates made of text lines, fallible `!=` lines, @children and @render with / without blocks: the shape the Coq
    model Runtime/Render.v speaks about; returns (abstract file, program in the model's encoding)"""
    n = rng.randint(2, 5)
    names = ["%sS%d" % (prefix, i) for i in range(n)]
    counter = [0]

    def block(depth, allowed):
        nodes, enc = [], []
        for _ in range(rng.randint(1, 3)):
            k = rng.random()
            if k < 0.25 or depth > 3:
                counter[0] += 1
                t = "t%d" % counter[0]
                nodes.append(("text", [("s", t)]))
                enc.append("L" + common.hx(t + "\n"))
            elif k < 0.5:
                site = rng.randint(0, 3)
                nodes.append(("uscript", may_fail(site)))
                enc.append("D%d:%s" % (site, common.hx("[ok%d]\n" % site)))
            elif k < 0.65 or not allowed:
                nodes.append(("children",))
                enc.append("C")
            else:
                j = rng.choice(allowed)
                if rng.random() < 0.6:
                    b, e = block(depth + 1, allowed)
                    nodes.append(("render", names[j], b))
                    enc.append("B%d(%s)" % (j, ",".join(e)))
                else:
                    nodes.append(("render", names[j], None))
                    enc.append("R%d" % j)
        return nodes, enc

    templates, prog = [], []
    for i in range(n):
        body, enc = block(1, list(range(i)))
        templates.append({"name": names[i], "layout": True, "body": body})
        prog.append(",".join(enc))
    return {"package": "main", "templates": templates}, "|".join(prog)


def skeleton_correspondence(chk, rng, n):
    """the Coq model of Render (Runtime/Render.v) against the real compiler and runtime: same status, same bytes accepted
    by the destination call by call, for every failing-site set tried and every destination behaviour"""
    files, progs = {}, {}
    for i in range(n):
        f, prog = gen_fail_skeleton(rng, "R%d" % i)
        files["r%d" % i] = f
        progs["r%d" % i] = prog
    b = lrender.make_batch(files)
    try:
        lrender.report_build_problems(chk, b, files)
        base = gen_tmpl.gen_env(rng)
        cases = []
        for k, f in files.items():
            if k in b.rejected or k in b.build_errors:
                continue
            for idx, t in enumerate(f["templates"]):
                bits = ["0000"] + [("0" * s + "1" + "0" * (3 - s)) for s in range(4)] + ["".join(rng.choice("01") for _ in range(4))]
                for fb in bits:
                    for mode in (["buf", "fail1", "short1"] if fb == "0000" else ["buf", rng.choice(["fail1", "short1"])]):
                        cases.append((k, idx, t["name"], fb, mode))
        lines = []
        for k, idx, name, fb, mode in cases:
            env = copy.deepcopy(base)
            env["Fail"] = [c == "1" for c in fb] + [False, False]
            lines.append("render %s %s %s" % (name, mode, render.env_json(env, lrender.OBJS)))
        res = b.run(lines)
    finally:
        b.close()
    model = common.run_lines_parallel(common.DRIVER, ["rendermodel %d %s %s %s" % (idx, mode, fb, progs[k]) for k, idx, _, fb, mode in cases])
    nbad = 0
    for (k, idx, name, fb, mode), r, m in zip(cases, res, model):
        st, w = render.parse_render(r)
        mst, _, macc = m.partition(" ")
        mw = [common.unhx(x) for x in macc.split(",")] if macc else []
        chk.case("render-skeleton:" + progs[k] + str(idx) + fb + mode, nontrivial=(mst != "ok"))
        chk.count("render-model-" + ("ok" if mst == "ok" else mst[:8]))
        same_status = (st == "ok") == (mst == "ok") and st.startswith("err") == mst.startswith("err")
        if not same_status or [bytes(x) for x in w] != [bytes(x) for x in mw]:
            nbad += 1
            if nbad <= 3:
                chk.broke("correspondence", "L-RENDER", "Runtime/Render.v and the real compiler+runtime disagree", program=progs[k], entry=idx,
                          failing_sites=fb, mode=mode, template=gen_tmpl.print_file(files[k]), impl=r[:300], model=m[:300])
        else:
            chk.traces += 1


def run(chk):
    br = common.build_all()
    chk.proof_step(br)
    quick = chk.tier == "quick"
    rng = chk.rng
    nfiles = 140 if quick else 3000
    chk.rule = ("generated call graphs with failing sites at dynamic expressions (a call returning an error), helper calls (unsupported "
                "@attributes / class values), inside nested templates and children blocks; for every template: no failure, each single "
                "failing site, and the writer failing / writing short at its first call; non-trivial = a run in which a failure occurs; "
                "distinct by template+env+mode")
    if br.go_ok and br.coq_ok:
        files = {}
        for i in range(nfiles):
            g = FailGen(rng, prefix="F%d" % i)
            files["f%d" % i] = g.file()
        big_tmpl = {"name": "BIGT0", "layout": False, "body": [
            ("for", 0, "x1", [("el", {"tag": "p", "id": None, "classes": [], "attrs": [], "marks": "", "void": False, "attrs_cmd": None,
                                        "class_attr": None, "objref": None, "layout": "one"},
                               ("script", X("x1", lambda e, l: l["x1"]), None), None)], "short")]}
        files["big"] = {"package": "main", "templates": [big_tmpl]}
        b = lrender.make_batch(files)
        try:
            lrender.report_build_problems(chk, b, files)
            cases = []
            for k, f in files.items():
                if k in b.rejected or k in b.build_errors:
                    continue
                d = gen_tmpl.Denote(f, lrender.OBJS, attr_space=False)
                for t in f["templates"]:
                    base = gen_tmpl.gen_env(rng)
                    base["Fail"] = [False] * 6
                    variants = [(base, "buf")]
                    for site in range(6):
                        e = copy.deepcopy(base)
                        e["Fail"][site] = True
                        variants.append((e, "buf"))
                    variants.append((base, "fail1"))
                    variants.append((base, "short1"))
                    for env, mode in variants:
                        cases.append((f, t["name"], env, mode, d))
                    if k != "big" and rng.random() < 0.15 and "big" not in b.rejected and "big" not in b.build_errors:
                        # a document well over 64 KiB whose final write fails (or succeeds), then a small render
                        bigenv = copy.deepcopy(base)
                        bigenv["SS"] = [["0123456789abcdefghijklmnopqrstuvwxyz-%d" % j for j in range(2600)], []]
                        dbig = gen_tmpl.Denote(files["big"], lrender.OBJS, attr_space=False)
                        cases.append((files["big"], "BIGT0", bigenv, rng.choice(["fail1", "buf", "short1"]), dbig))
                        cases.append((f, t["name"], base, "buf", d))
            lines = ["render %s %s %s" % (n, mode, render.env_json(env, lrender.OBJS)) for f, n, env, mode, d in cases]
            res = b.run(lines)
        finally:
            b.close()
        nbad = 0
        for (f, n, env, mode, d), rline in zip(cases, res):
            st, writes = render.parse_render(rline)
            try:
                ideal = d.render(n, env).encode("utf-8")
                inband = d.render_inband(n, env).encode("utf-8")
                reached = None
            except FailReached as fr:
                ideal, inband, reached = None, None, fr.site
            failing = reached is not None or mode != "buf"
            chk.case(gen_tmpl.print_file(f) + n + repr(env) + mode, nontrivial=failing)
            chk.count("site-failure" if reached is not None else ("writer-" + mode if mode != "buf" else "no-failure"))
            why = None
            if reached is not None:
                if not st.startswith("err"):
                    why = "failing site %d was reached but Render returned %s" % (reached, st)
                elif writes:
                    why = "Render failed at site %d after writing %d chunk(s) to the destination" % (reached, len(writes))
                elif reached < 4 and st != "err-wraps-cause":
                    why = "the returned error does not wrap the cause"
            elif mode != "buf":
                if st != "err-wraps-cause":
                    why = "destination writer failed (%s) but Render returned %s" % (mode, st)
                elif len(writes) != 1:
                    why = "destination received %d Write calls although the first one failed" % len(writes)
            else:
                got = b"".join(writes)
                if st != "ok":
                    why = "no failure injected but Render returned " + st
                elif got != ideal:
                    if got == inband and gen_tmpl.lookalike_formed(d.raw(n, env)):
                        chk.count("known-F04-lookalike")
                        continue
                    why = "Render returned nil but the destination did not receive the complete document"
                elif len(writes) != 1:
                    why = "the document reached the destination in %d Write calls" % len(writes)
            if why:
                nbad += 1
                if nbad <= 3:
                    chk.violation("oracle", why, input_text=gen_tmpl.print_file(f), template=n, env=env, mode=mode, result=rline[:300])
            else:
                chk.traces += 1
        chk.samples = [{"template": gen_tmpl.print_file(cases[0][0])[:500], "entry": cases[0][1], "mode": cases[0][3], "result": res[0][:80]}]
        lrender.compile_correspondence(chk, files, ("cls", "perr", "gtext"))
        skeleton_correspondence(chk, rng, 60 if quick else 1500)
    return chk.finish(level="proof", level_note=LEVEL_NOTE)


def replay(r):
    print(r.get("input_text"))
    print("entry:", r.get("template"), "mode:", r.get("mode"), "env:", r.get("env"))
    print(r.get("detail"), r.get("result"))
    return 1
