"""Shared machinery of the goht verification checks (see DESIGN.md section 6)."""
import fcntl, hashlib, json, os, random, re, subprocess, sys, time

VERIF = os.path.dirname(os.path.dirname(os.path.abspath(__file__)))
REPO = os.environ.get("VERIF_REPO", "/repo")
BUILD = os.path.join(VERIF, "build")
COQ = os.path.join(VERIF, "coq")
BIN = os.path.join(BUILD, "bin")
DRIVER = os.path.join(BUILD, "ocaml", "driver")
IMPLRUN = os.path.join(BIN, "ov_implrun")
NCPU = os.cpu_count() or 4

TRUSTED_BASE = [
    "Coq 8.16.1 kernel and vm_compute (no native_compute)",
    "hand-written Gallina model of the goht code (coq/Base, Compiler, Runtime, Proxy, Cli), tied to /repo by the differential correspondence run of this check",
    "translator harness/cmd/constgen (regenerates coq/Gen/Consts.v from /repo on every run)",
    "extraction with ExtrOcamlBasic only (bool, option, unit, list, prod, sumbool, sumor mapped; andb/orb inlined); N, Z, positive, nat stay inductive; OCaml 4.13.1",
    "ocaml/driver.ml, harness/cmd/* and vlib/*.py (I/O, generation, canonicalisation, comparison)",
]


def goenv():
    e = dict(os.environ)
    e.update(GOFLAGS="-mod=mod", GOPROXY="off", GOSUMDB="off", GOTOOLCHAIN="local", CGO_ENABLED="0")
    e.setdefault("GOCACHE", os.path.join(BUILD, "gocache"))
    return e


def sh(cmd, cwd=None, env=None, timeout=1200, input=None):
    p = subprocess.run(cmd, cwd=cwd, env=env, timeout=timeout, input=input, stdout=subprocess.PIPE,
                       stderr=subprocess.STDOUT, text=True, shell=isinstance(cmd, str))
    return p.returncode, p.stdout


class BuildResult:
    def __init__(self):
        self.coq_ok = True
        self.coq_log = ""
        self.go_ok = True
        self.go_log = ""
        self.consts_changed = False
        self.notes = []


def _newer(src_paths, target):
    if not os.path.exists(target):
        return True
    t = os.path.getmtime(target)
    return any(os.path.getmtime(p) > t for p in src_paths if os.path.exists(p))


def _walk(dirpath, suffixes):
    out = []
    for root, _, files in os.walk(dirpath):
        for f in files:
            if f.endswith(suffixes):
                out.append(os.path.join(root, f))
    return out


def build_all(need_overlay=False):
    """Rebuild whatever is stale: Gen/Consts.v from /repo, the Coq project, the extracted
    driver, and the Go harness against /repo's current working tree."""
    os.makedirs(BUILD, exist_ok=True)
    os.makedirs(BIN, exist_ok=True)
    br = BuildResult()
    lock = open(os.path.join(BUILD, ".lock"), "w")
    fcntl.flock(lock, fcntl.LOCK_EX)
    try:
        env = goenv()
        hdir = os.path.join(VERIF, "harness")
        # go.sum of the harness module follows /repo's
        try:
            src = open(os.path.join(REPO, "go.sum")).read()
            dst = os.path.join(hdir, "go.sum")
            if not os.path.exists(dst) or open(dst).read() != src:
                open(dst, "w").write(src)
        except OSError:
            pass
        # 1. harness binaries (built from /repo's working tree through the replace directive)
        for name in sorted(os.listdir(os.path.join(hdir, "cmd")) if os.path.isdir(os.path.join(hdir, "cmd")) else []):
            rc, out = sh(["go", "build", "-o", os.path.join(BIN, name), "./cmd/" + name], cwd=hdir, env=env)
            if rc != 0:
                br.go_ok = False
                br.go_log += "go build ./cmd/%s failed:\n%s\n" % (name, out[-3000:])
        # 2. overlay binaries (packages that must live inside the goht module)
        ov = os.path.join(hdir, "overlay")
        if os.path.isdir(ov):
            rc, out = build_overlay(env)
            if rc != 0:
                br.go_ok = False
                br.go_log += "overlay build failed:\n%s\n" % out[-3000:]
            elif SHIM_NOTE:
                br.notes.append(SHIM_NOTE)
        # 3. regenerate constants
        constgen = os.path.join(BIN, "constgen")
        gen = os.path.join(COQ, "Gen", "Consts.v")
        if os.path.exists(constgen):
            rc, out = sh([constgen, REPO], env=env)
            if rc != 0:
                # the translator could not locate a table (renamed, moved, no longer a literal).  That alone says nothing about the
                # property: fall back to the constants recorded in the repository of the checks, say so in the evidence, and let the
                # correspondence run decide -- it compares the model built on them with the current code on every input of the check
                rec = os.path.join(COQ, "Gen", "Consts.recorded.v")
                if os.path.exists(rec):
                    br.notes.append("constgen could not regenerate the constant tables from /repo (%s); the recorded tables "
                                    "(coq/Gen/Consts.recorded.v) were used and the correspondence run ties them to the current code"
                                    % " ".join(out.split())[-300:])
                    out = open(rec).read()
                    old = open(gen).read() if os.path.exists(gen) else None
                    if old != out:
                        open(gen, "w").write(out)
                else:
                    br.coq_ok = False
                    br.coq_log += "constgen failed (a table the model depends on is missing or no longer a literal):\n" + out[-3000:]
            else:
                old = open(gen).read() if os.path.exists(gen) else None
                if old != out:
                    open(gen, "w").write(out)
                    br.consts_changed = old is not None
        # 4. Coq project
        mk = os.path.join(COQ, "Makefile.coq")
        if _newer([os.path.join(COQ, "_CoqProject")], mk):
            sh(["coq_makefile", "-f", "_CoqProject", "-o", "Makefile.coq"], cwd=COQ)
        rc, out = sh(["timeout", "1500", "make", "-f", "Makefile.coq", "-j%d" % NCPU], cwd=COQ)
        if rc != 0:
            br.coq_ok = False
            br.coq_log += out[-6000:]
        # 5. extraction + driver
        odir = os.path.join(BUILD, "ocaml")
        os.makedirs(odir, exist_ok=True)
        vos = _walk(COQ, (".vo",))
        mls = _walk(os.path.join(VERIF, "ocaml"), (".ml",))
        if br.coq_ok and _newer(vos + mls + [os.path.join(COQ, "Extract", "Extract.v")], DRIVER):
            rc, out = sh(["coqc", "-Q", COQ, "GV", os.path.join(COQ, "Extract", "Extract.v")], cwd=odir)
            if rc != 0:
                br.coq_ok = False
                br.coq_log += "extraction failed:\n" + out[-3000:]
            else:
                for m in mls:
                    open(os.path.join(odir, os.path.basename(m)), "w").write(open(m).read())
                rc, out = sh("ocamlfind ocamlopt -O3 -unboxed-types 2>/dev/null; ocamlfind ocamlopt -w -a -package str -linkpkg model.mli model.ml driver_ext.ml driver.ml -o driver",
                             cwd=odir)
                if rc != 0 or not os.path.exists(DRIVER):
                    br.coq_ok = False
                    br.coq_log += "driver build failed:\n" + out[-3000:]
    finally:
        fcntl.flock(lock, fcntl.LOCK_UN)
        lock.close()
    return br


def build_overlay(env):
    """Build harness files that must be compiled inside the goht module (internal packages)
    with `go build -tags verif -overlay`; /repo itself is not modified."""
    ov = os.path.join(VERIF, "harness", "overlay")
    repl = {}
    mains = []
    for root, _, files in os.walk(ov):
        for f in files:
            if not f.endswith(".go"):
                continue
            rel = os.path.relpath(os.path.join(root, f), ov)
            repl[os.path.join(REPO, rel)] = os.path.join(root, f)
            if f == "main.go":
                mains.append(os.path.dirname(rel))
    ovj = os.path.join(BUILD, "overlay.json")
    json.dump({"Replace": repl}, open(ovj, "w"))
    log = ""
    rcs = 0
    global SHIM_NOTE
    SHIM_NOTE = None
    for m in mains:
        name = "ov_" + os.path.basename(m)
        rc, out = sh(["go", "build", "-tags", "verif,verifshim", "-overlay", ovj, "-o", os.path.join(BIN, name), "./" + m],
                     cwd=REPO, env=env)
        if rc != 0:
            # the export shims name unexported identifiers of /repo; a refactoring that renames one of them says nothing about a
            # property: build without the shims (the three operations that need them answer "unavailable")
            rc2, out2 = sh(["go", "build", "-tags", "verif", "-overlay", ovj, "-o", os.path.join(BIN, name), "./" + m],
                           cwd=REPO, env=env)
            if rc2 == 0:
                SHIM_NOTE = ("the harness's export shims into unexported functions of /repo no longer compile (%s); built without them: "
                             "token-level oracles use the model's token stream, the unit comparison of addImport is skipped, "
                             "everything else runs through the exported API" % " ".join(out.split())[-200:])
                rc, out = rc2, out2
        rcs |= rc
        log += out
    return rcs, log


SHIM_NOTE = None


FORBIDDEN = re.compile(r"\b(Admitted|admit|Axiom|Axioms|Parameter|Parameters|Conjecture|Hypothesis|Variable)\b|Unset Guard|bypass_check|type-in-type|impredicative-set|Admit Obligations")


def scan_forbidden():
    """Lines of the Coq development that declare an axiom or switch off a check.
    `Variable`/`Hypothesis` are allowed only inside a Section (checked textually)."""
    bad = []
    for path in _walk(COQ, (".v",)):
        depth = 0
        incomment = 0
        for i, line in enumerate(open(path), 1):
            code = re.sub(r"\(\*.*?\*\)", "", line)
            if re.match(r"\s*Section\b", code):
                depth += 1
            if re.match(r"\s*End\b", code) and depth > 0:
                depth -= 1
            m = FORBIDDEN.search(code)
            if m:
                if m.group(1) in ("Variable", "Hypothesis") and depth > 0:
                    continue
                if "(*" in line and line.strip().startswith("(*"):
                    continue
                bad.append("%s:%d: %s" % (os.path.relpath(path, VERIF), i, line.strip()))
    return bad


def property_obligations(pid):
    """Compile Properties/<pid>.v on its own, return (expected names, closed names, axioms text, log)."""
    path = os.path.join(COQ, "Properties", pid + ".v")
    src = open(path).read()
    m = re.search(r"OBLIGATIONS:(.*?)\*\)", src, re.S)
    expected = m.group(1).split() if m else []
    rc, out = sh(["timeout", "600", "coqc", "-Q", COQ, "GV", "-w", "-notation-overridden", path], cwd=COQ)
    declared = re.findall(r"^\s*(?:Theorem|Example|Corollary|Lemma)\s+(\w+)", src, re.M)
    printed = re.findall(r"^\s*Print Assumptions\s+(\w+)\s*\.", src, re.M)
    # output has one block per Print Assumptions, in order
    blocks = re.split(r"(?=Closed under the global context|Axioms:)", out)
    blocks = [b for b in blocks if b.startswith("Closed under") or b.startswith("Axioms:")]
    closed, axioms = [], {}
    if rc == 0:
        for name, blk in zip(printed, blocks):
            if blk.startswith("Closed under"):
                closed.append(name)
            else:
                axioms[name] = blk.strip()
                closed.append(name)  # proved, but relies on the listed axioms
    missing = [n for n in expected if n not in declared or n not in closed]
    return {"expected": expected, "closed": [n for n in expected if n in closed], "missing": missing,
            "axioms": axioms, "rc": rc, "log": out[-4000:],
            "assumptions_printed": "\n".join("%s: %s" % (n, "Closed under the global context" if n not in axioms else axioms[n])
                                             for n in printed if n in closed)}


def run_lines(binary, lines, timeout=1200, cwd=None, env=None):
    """Feed one case per line to a line-protocol binary; returns the list of result lines."""
    if not lines:
        return []
    p = subprocess.run([binary], input="\n".join(lines) + "\n", stdout=subprocess.PIPE, stderr=subprocess.PIPE,
                       text=True, timeout=timeout, cwd=cwd, env=env)
    out = p.stdout.split("\n")
    if out and out[-1] == "":
        out.pop()
    if len(out) != len(lines):
        raise RuntimeError("%s: %d inputs, %d outputs (rc=%s)\n%s" % (binary, len(lines), len(out), p.returncode, p.stderr[-2000:]))
    return out


def run_lines_parallel(binary, lines, shards=None, timeout=1200):
    from concurrent.futures import ThreadPoolExecutor
    shards = shards or NCPU
    if len(lines) < 64:
        return run_lines(binary, lines, timeout)
    n = (len(lines) + shards - 1) // shards
    parts = [lines[i:i + n] for i in range(0, len(lines), n)]
    with ThreadPoolExecutor(len(parts)) as ex:
        res = list(ex.map(lambda p: run_lines(binary, p, timeout), parts))
    return [x for r in res for x in r]


def hx(s):
    if isinstance(s, str):
        s = s.encode("utf-8", "surrogateescape")
    return s.hex() if s else "~"


def unhx(h):
    return b"" if h in ("~", "") else bytes.fromhex(h)


def load_known():
    p = os.path.join(VERIF, "known_findings.json")
    return json.load(open(p)) if os.path.exists(p) else []


class Check:
    """Collects what one check run did and turns it into verdict + evidence."""

    def __init__(self, pid, tier, seed):
        self.pid, self.tier, self.seed = pid, tier, seed
        self.t0 = time.time()
        self.rng = random.Random(seed * 1000003 + int(pid[1:]))
        self.evaluations = 0
        self.nontrivial = set()
        self.samples = []
        self.traces = 0
        self.violations = []       # dicts: kind, detail, input...
        self.broken = []           # proof / correspondence breaks (dicts)
        self.known_seen = []
        self.distribution = {}
        self.notes = []
        self.obl = None
        self.exhaustive = False
        self.rule = ""
        self.extra = {}
        # replay files of earlier runs of this property are stale
        import glob
        for old in glob.glob(os.path.join(VERIF, "replays", pid + "-*.json")):
            try:
                os.remove(old)
            except OSError:
                pass

    def count(self, key, n=1):
        self.distribution[key] = self.distribution.get(key, 0) + n

    def case(self, canonical, nontrivial=True, sample=None):
        self.evaluations += 1
        if nontrivial:
            self.nontrivial.add(hashlib.sha1(canonical.encode("utf-8", "surrogateescape")).digest()[:8])
        if sample is not None and len(self.samples) < 6:
            self.samples.append(sample)

    def violation(self, kind, detail, **data):
        self.violations.append(dict(kind=kind, detail=detail, **data))

    def broke(self, kind, name, detail, **data):
        self.broken.append(dict(kind=kind, name=name, detail=detail, **data))

    def proof_step(self, br):
        """Common proof-side obligations: the project builds, the property file's theorems are
        all closed, and nothing in the development declares an axiom."""
        if not br.go_ok:
            self.broke("correspondence", "harness-build", "the Go harness does not build against /repo: " + br.go_log[-1500:])
        for nt in getattr(br, "notes", []):
            if nt not in self.notes:
                self.notes.append(nt)
                print("NOTE: " + nt)
        if not br.coq_ok:
            self.broke("proof", "coq-build", br.coq_log[-3000:])
            self.obl = {"expected": [], "closed": [], "missing": ["<build failed>"], "axioms": {}, "assumptions_printed": ""}
            return
        self.obl = property_obligations(self.pid)
        if self.obl["missing"]:
            self.broke("proof", ",".join(self.obl["missing"]), "theorems not closed: " + self.obl["log"][-1500:])
        bad = scan_forbidden()
        if bad:
            self.broke("proof", "forbidden-declaration", "; ".join(bad[:5]))

    def finish(self, level="proof", level_note="", search_fn=None):
        """Verdict, evidence file, VIOLATION / KNOWN-FINDING lines; returns the exit code."""
        os.makedirs(os.path.join(VERIF, "evidence"), exist_ok=True)
        os.makedirs(os.path.join(VERIF, "replays"), exist_ok=True)
        rc = 0
        out_lines = []
        replay_n = 0

        def write_replay(obj):
            nonlocal replay_n
            replay_n += 1
            path = os.path.join(VERIF, "replays", "%s-%d.json" % (self.pid, replay_n))
            obj = dict(property=self.pid, seed=self.seed, tier=self.tier, **obj)
            json.dump(obj, open(path, "w"), indent=1, default=str)
            return path

        for v in self.violations[:5]:
            path = write_replay(v)
            out_lines.append("VIOLATION property=%s replay=%s" % (self.pid, path))
            rc = 1
        if not self.violations and self.broken:
            found = None
            if search_fn is not None:
                try:
                    found = search_fn()
                except Exception as e:  # the search is best effort
                    self.notes.append("intensified search failed: %r" % (e,))
            if found:
                path = write_replay(dict(found, because=self.broken[:3]))
                out_lines.append("VIOLATION property=%s replay=%s" % (self.pid, path))
            else:
                path = write_replay(dict(kind="no-failing-input-found", broken=self.broken[:5]))
                out_lines.append("VIOLATION property=%s replay=%s no-failing-input-found" % (self.pid, path))
            rc = 1
        for k in self.known_seen:
            out_lines.append("KNOWN-FINDING: property=%s %s %s" % (self.pid, k["id"], k["text"]))
        obl = self.obl or {"expected": [], "closed": [], "axioms": {}, "assumptions_printed": ""}
        cov = {
            "obligations": max(1, len(obl["expected"])),
            "discharged": len(obl["closed"]),
            "checker_cmd": "make -C coq -f Makefile.coq && coqc -Q coq GV coq/Properties/%s.v (Print Assumptions under every theorem)" % self.pid,
            "trusted_base": TRUSTED_BASE,
            "theorems": obl["expected"],
            "assumptions_printed": obl.get("assumptions_printed", ""),
            "axioms": obl.get("axioms", {}),
            "evaluations": self.evaluations,
            "distinct_nontrivial": len(self.nontrivial),
            "rule": self.rule,
            "samples": self.samples or ["<none>"],
            "traces_validated_against_impl": self.traces,
            "distribution": self.distribution,
            "known_findings_seen": [k["id"] for k in self.known_seen],
            "broken": self.broken[:5],
            "exhaustive": self.exhaustive,
            "notes": self.notes,
        }
        cov.update(self.extra)
        ev = {
            "property_id": self.pid, "tier": self.tier, "seed": self.seed, "level": level,
            "coverage": cov,
            "assumptions": [level_note] if level_note else [],
            "wall_s": round(time.time() - self.t0, 2),
            "violations": len(self.violations) + (1 if (self.broken and not self.violations) else 0),
        }
        json.dump(ev, open(os.path.join(VERIF, "evidence", self.pid + ".json"), "w"), indent=1, default=str)
        for l in out_lines:
            print(l)
        print("%s %s tier=%s seed=%d evaluations=%d distinct=%d obligations=%d/%d wall=%.1fs" % (
            self.pid, "FAIL" if rc else "ok", self.tier, self.seed, self.evaluations, len(self.nontrivial),
            len(obl["closed"]), len(obl["expected"]), time.time() - self.t0))
        sys.stdout.flush()
        return rc


def match_known(pid, classify):
    """known findings of this property that are open; classify(entry) -> bool decided by caller"""
    return [k for k in load_known() if k["property"] == pid and k["status"] == "open"]
