"""Adversarial string pools shared by the generators."""
META = ['<', '>', '&', '"', "'", '`', '\\', '{', '}', '#', '%', ' ', '\t', '=', '/', ';']
WORDS = ['a', 'b', 'foo', 'bar', 'x1', 'data-x', 'é', '世界', '☢', '~☢<', '>☢~', '&amp;', '&#39;', '&lt;', 'a b', '']


def rand_string(rng, maxlen=6, allow_empty=True):
    k = rng.random()
    if k < 0.08 and allow_empty:
        return ''
    if k < 0.3:
        return rng.choice([w for w in WORDS if w or allow_empty])
    n = rng.randint(1, maxlen)
    out = []
    for _ in range(n):
        r = rng.random()
        if r < 0.4:
            out.append(rng.choice(META))
        elif r < 0.8:
            out.append(rng.choice('abcxyz019-_'))
        elif r < 0.9:
            out.append(rng.choice(['é', 'ß', '世', '☢', '😀']))
        else:
            out.append(rng.choice(['\n', '\x00', '\x7f', '\x1b']))
    return ''.join(out)
