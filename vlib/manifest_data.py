"""Per-property manifest entries (bin/mkmanifest writes MANIFEST.json from this)."""
CHECKS = {
 "C19": dict(
    technique="Coq proof over a model of the runtime helpers + differential correspondence with the Go helpers",
    text=("Theorems in coq/Properties/C19.v (permutation-invariance of both list helpers for every argument list, "
          "membership contracts, escaped-exactly-once round trip, unsupported type <-> error, object-reference joining) "
          "are proved for all inputs about Runtime/Rt.v; the model is tied to runtime.go by running both on thousands of "
          "generated argument lists (each call repeated to sample Go's map order) and an independent contract oracle "
          "is evaluated on the implementation's results."),
    note=("trusts the Coq kernel, the hand-written model Runtime/Rt.v + Base/GoStr.v (html.EscapeString), extraction "
          "(ExtrOcamlBasic), the OCaml/Go/Python harness; Go's map iteration order is sampled, not enumerated"),
    design="DESIGN.md section 7 C19"),
}
COMMON_NOTE = ("trusts the Coq kernel, the hand-written Gallina model of the compiler (Compiler/*.v, byte-exact with the Go compiler on the "
               "run's corpus), constgen, extraction (ExtrOcamlBasic), the OCaml/Go/Python harness")

CHECKS.update({
 "C06": dict(
    technique="Coq model of lexer/parser/emitter + differential correspondence; totality observed under recover and watchdog",
    text=("The executable Coq model of the whole compiler is run beside the real compiler on every prefix / deletion / token insertion of "
          "valid files, random bytes and size-scaling families; the outcome class (returns a result or an error; never panics, hangs or "
          "blocks) is the oracle on the implementation and must agree with the model. The unbounded totality theorem over the model is "
          "stated in Properties/C06.v; what is proved so far is listed there (partial)."),
    note=COMMON_NOTE + "; wall-clock growth is measured, not proved", design="DESIGN.md section 7 C06"),
 "C07": dict(
    technique="Coq model of the emitter's source map + correspondence; per-entry character oracle on the real tables",
    text=("Fragments are the SourceMap.Add calls of the model, validated against the real tables on the same run; for every offset of every "
          "fragment the template and the generated code must hold the same character (UTF-16 units), and every fragment token of the real "
          "lexer must be covered."),
    note=COMMON_NOTE, design="DESIGN.md section 7 C07"),
 "C10": dict(
    technique="Coq model of lexer/parser + correspondence; fault-injection oracle on the real compiler",
    text=("One fault operator per documented rule is inserted at random valid positions of generated templates; the real compiler (both the "
          "language-server and the command-line path) must refuse each with a positional error inside the file; every error reported on the "
          "byte-level corpus must be located; the model must agree on acceptance and position."),
    note=COMMON_NOTE, design="DESIGN.md section 7 C10"),
 "C11": dict(
    technique="Coq model of the outer lexer and root emitter + correspondence; structural oracle on generated files",
    text=("Files interleaving Go declarations, imports in every layout and templates are generated; the expected generated file is computed "
          "structurally (lines verbatim and in order, imports hoisted and de-duplicated, signatures exact) and compared with the real output, "
          "which must also equal the model's."),
    note=COMMON_NOTE, design="DESIGN.md section 7 C11"),
 "C15": dict(
    technique="Coq model as the single deterministic reference + correspondence; repeated / concurrent / cross-path compilation",
    text=("Every input is compiled through Compose and Generate, in a second process, three times from 16 goroutines in permuted order, and "
          "through ParseFile; all results must be identical to each other and to the output of the (functional, hence deterministic) model; "
          "pairs of files differing in one template must leave sibling functions unchanged."),
    note=COMMON_NOTE + "; absence of package-level mutable state is observed, not proved", design="DESIGN.md section 7 C15"),
 "C16": dict(
    technique="Coq model of SourceMap (Compiler/SrcMap.v) + correspondence; exhaustive per-entry oracle on the real tables",
    text=("Every entry of both tables of every accepted file must be in bounds in both texts, the two directions must be mutually inverse, "
          "and translation must be strictly increasing inside each fragment (fragments = Add calls of the corresponding model)."),
    note=COMMON_NOTE, design="DESIGN.md section 7 C16"),
})
RENDER_NOTE = ("trusts the Coq kernel, the hand-written Gallina models, extraction, the harness, and the denotation in vlib/gen_tmpl.py as the "
               "reading of the documented template semantics; Go's execution of the emitted statements is trusted (validated by rendering)")
PROXY_NOTE = ("trusts the Coq kernel, the hand-written proxy model, the recording fakes of harness/overlay/internal/verifx/proxyrun, and the real "
              "compiler as the reference for expected payloads and position maps; JSON-RPC transport and gopls are outside")

CHECKS.update({
 "C01": dict(
    technique="Coq compiler model + correspondence; denotation oracle on the real compile-build-render pipeline",
    text=("Grammar-generated templates covering every documented construct and syntactic variant are compiled by the real compiler, built "
          "with go build and rendered for adversarial environments; the bytes must equal the structural denotation; the Coq compiler model "
          "must produce the same tree and generated text for the same files."),
    note=RENDER_NOTE, design="DESIGN.md section 7 C01"),
 "C02": dict(
    technique="Coq proof of the escaping function (alphabet, round trip, injectivity) + denotation and tokenizer oracles on rendered output",
    text=("html_escape is proved for every byte string to emit no < > quote characters and to decode back to the value; the model of the "
          "function is tied to goht.EscapeString; on the real pipeline every dynamic site in every context is rendered with adversarial "
          "values and compared both with the denotation and, through an independent tokenizer, with the run for neutral placeholders."),
    note=RENDER_NOTE, design="DESIGN.md section 7 C02"),
 "C03": dict(category="translation_validation",
    technique="translation validation of generated code (gofmt + go build per package, ill-typed variants must fail) + Coq compiler model correspondence",
    text=("Go's type checker is not modelled; every generated file is validated: parsed and formatted by gofmt and type-checked by go build "
          "in its own package with the file's declarations and the runtime; for every kind of dynamic site a wrong-typed fragment must be "
          "refused by the Go compiler."),
    note=RENDER_NOTE, design="DESIGN.md section 7 C03"),
 "C04": dict(
    technique="Coq proof of the Go-quoting round trip on the model + per-position literal oracle on the real pipeline",
    text=("For each static-content position and strings over the property's alphabet the generated file must build and Render must reproduce "
          "the literal (entity-decoded where the position escapes); the models of strconv.Quote / Unquote are tied to the Go functions."),
    note=RENDER_NOTE, design="DESIGN.md section 7 C04"),
 "C05": dict(
    technique="Coq model of the children slot + lexically scoped denotation oracle on generated call graphs",
    text=("Generated call graphs (layouts using children 0/1/2 times, nested renders in blocks, forwarding, child-less calls under layouts, "
          "bounded recursion) are rendered by the real pipeline and compared with a lexically scoped denotation."),
    note=RENDER_NOTE, design="DESIGN.md section 7 C05"),
 "C08": dict(
    technique="Coq invariant over the proxy state machine + exhaustive short and random long histories against the real proxy",
    text=("All histories up to a length bound and random longer ones of open / change / close / save over template and plain URIs are driven "
          "through the real proxy between recording fakes; every downstream payload must be the fresh compilation of the current buffer under "
          "the generated URI with language go and the same version; position probes check that the map in use belongs to that code."),
    note=PROXY_NOTE, design="DESIGN.md section 7 C08"),
 "C09": dict(
    technique="Coq model of position/range translation + per-method oracle recomputed from the real source map",
    text=("Every overridden method is called at mapped and unmapped positions with scripted answers (ranges in mapped text, boilerplate, other "
          "generated files, plain Go files); the downstream position and every returned range/URI are compared with the translation "
          "recomputed from the real map."),
    note=PROXY_NOTE, design="DESIGN.md section 7 C09"),
 "C12": dict(
    technique="Coq model of the emitter's error handling + single-fault enumeration on the real pipeline",
    text=("For generated call graphs each failing site (dynamic expression, helper given an unsupported value, nested template, children "
          "block) and the final write (failure and short write) is failed in turn; Render must return an error wrapping the cause with nothing "
          "written, or nil with the complete document in one write."),
    note=RENDER_NOTE, design="DESIGN.md section 7 C12"),
 "C13": dict(
    technique="Coq model of the buffer pool discipline + histories and 16-goroutine runs under the race detector",
    text=("A pool of generated templates is rendered in random histories interleaving successful, failing and very large renders and "
          "concurrently from 16 goroutines under the race detector; every result must equal the template's isolated output."),
    note=RENDER_NOTE + "; 'no data race' is a statement about the Go memory model: race-detector runs are supporting evidence", design="DESIGN.md section 7 C13"),
 "C14": dict(
    technique="Coq model of the whitespace regexp tied to Buffer.Bytes + layout oracle with out-of-band markers",
    text=("Templates with > < >< <> in every structural position are rendered and compared with a layout denotation whose markers are out of "
          "band; the Coq model of the regexp pass is compared with Buffer.Bytes on thousands of strings around the markers."),
    note=RENDER_NOTE, design="DESIGN.md section 7 C14"),
 "C17": dict(
    technique="Coq model of the diagnostics cache + interleaved histories against the real proxy (delivery at every call boundary)",
    text=("Histories interleave valid/invalid buffer changes with diagnostic publications and messages of the Go language server, with the "
          "other connection's message delivered while an outgoing call is in progress; every notification to the editor is checked for URI, "
          "translated ranges, presence and position of the compiler's error."),
    note=PROXY_NOTE, design="DESIGN.md section 7 C17"),
 "C18": dict(
    technique="Coq model of the generate command over an abstract file system + real binary on scratch trees",
    text=("The real goht binary runs on random directory trees x flags x histories of runs with edits in between; the resulting tree is "
          "compared with the tree the property prescribes, computed with the real compiler and gofmt."),
    note="trusts the Coq kernel, the model Cli/Generate.v, the harness; file-system races, --watch and signals are outside", design="DESIGN.md section 7 C18"),
 "C20": dict(
    technique="Coq model of addImport + apply-and-recompile oracle on every head layout",
    text=("For every file-head layout x package path x completion detail form the edit returned by the real proxy is applied to the template, "
          "which must still compile, declare the previous imports plus the new one (as the real lexer reads them) and leave the templates' "
          "generated code unchanged."),
    note=PROXY_NOTE, design="DESIGN.md section 7 C20"),
})
NOT_YET = {}

# what is proved in Coq for each property (Properties/Cxx.v; every theorem closed under the global context)
PROVED = {
 "C01": "for static trees of any size and depth (elements with static ids/classes/attributes, text, comments, doctype) the literal the emitter "
        "writes reads back, by the model of strconv.Unquote, as exactly the denoted HTML, and a template with a static body is exactly prologue + one "
        "WriteString + error check + epilogue; for templates of the fragment of Proofs/SegProofs.v (static markup, interpolation, `=` scripts, unescaped lines, "
        "static/dynamic/conditional attributes, `-` Go lines, brace-less if/else-if/else chains, for, switch with case lines, blocks with explicit braces, @render with/without nested "
        "content, @children, object references and @attributes through the runtime helpers, a class attribute with a dynamic or quoted value (merged into the class list), whitespace marks, comment blocks, the javascript/css/plain/preserve/escaped filters; any size and nesting) the generated body is proved to be a run of a grammar of generated code (`denotes`) standing for the "
        "segment list of the template (literal HTML that reads back exactly, escaped / raw expression values, `stmt { code of the nested block }`, "
        "Render/PushChildren calls); the whitespace pass is the identity on marker-free static HTML. The hypotheses of that theorem are decided by an "
        "extracted test proved sound (FragCheck), which the check runs on every generated template: the evidence says to how many the theorem applies. "
        "A conditional class attribute (class?) "
        "and Go's execution of the emitted statements are covered by the denotation runs only: partial.",
 "C02": "besides the escaping function: the exact code emitted for `= expr`/`#{}` (wrapped in goht.EscapeString once in an escaping context, not at all "
        "in an unescaped one) and for dynamic attribute values (always escaped), from any writer state; and the property's own notion made formal: over a "
        "state-machine reading of document structure (tag-level states of the WHATWG tokenizer, events = tag starts/ends, attribute starts, name bytes), an "
        "escaped value in character data or in a quoted attribute value produces no event and leaves the state unchanged, so the structure of the whole "
        "document is the same for ALL values at any number of such sites (C02_many_values); the unquoted-value and name states are shown unsafe by witness "
        "(the latter is F38). That tokenizer is a specification, validated against Python's html.parser on the rendered documents (counted, never an alarm).",
 "C03": "temporaries are never reused inside a template (itoa injective, counter never decreases over any template-body tree), the import list has no "
        "duplicates, a string position is the argument of EscapeString/CaptureErrors; Go type checking itself is run, not modelled: partial.",
 "C04": "strconv.Unquote inverts strconv.Quote on EVERY byte string (UTF-8 codec inverse lemmas, hex escapes), chunks of a literal compose, a raw quote or "
        "newline is refused, and every static chunk of the emitter (tag, id, class, attribute value, comment, text) reads as the intended HTML; attribute "
        "names only for plain characters (F06).",
 "C05": "the children-slot protocol of the runtime equals lexical scoping for every program of the skeleton language (Runtime/Children.v).",
 "C06": "THE COMPILER TERMINATES, for every input: under budgets that exist only in the model and are linear in the input (9(n+1) state calls per token, "
        "460(n+1)+2 parser iterations) the model of the parse returns a tree, with or without an error -- no hang, spin, exhausted budget, panic or blocked "
        "channel (C06_parse_terminates), and above those bounds the result is the same for all budgets (C06_budgets_do_not_matter). Ingredients, each a theorem over all inputs, cursors and parser states: every lexer state call sends at most 4 "
        "tokens (channel holds 64); a cursor invariant keeps the ten index/slice expressions of lexer.go in range; every state call that sends no token "
        "shrinks the reader or moves down a rank (9 levels); every state call at all shrinks the reader or moves down a second rank (46 levels, indexed by "
        "state and first rune): total work and token count of the lexer linear; the fuel of the lexer's inner loops is never used up; once the lexer has "
        "ended its last token is EOF or an error; every parser iteration pulls a token under a non-final look-ahead, pops a frame, or is the last. "
        "Left to the correspondence run: the executable model's smaller budget for the parser loop (shared by the loops inside the parse methods) is "
        "never used up (and, on the smaller inputs of the corpus, the executable model is run next to the model under the proved budgets: same outcome, tree, "
        "error and code); wall-clock time is measured: partial for these two reasons only.",
 "C07": "the writer's line/column counter is the end position of the generated text; every source-map entry points at the place its fragment was written; "
        "character k of a fragment sits where walking k characters from the target leads; end to end for one-line fragments the template position maps to "
        "the generated position holding the same character (byte columns; UTF-16 after non-ASCII is F15).",
 "C08": "the proxy model keeps gopls on the compilation of the current buffer after every history of events (invariant by induction over histories).",
 "C09": "position/range/URI translation lemmas of the proxy model for every request kind.",
 "C10": "the CLI emits nothing unless parsing succeeded without error; the indentation rule as an iff; nested content under void/self-closed/inline-content "
        "elements and one-line comments and unknown filters are refused in every parser state; every token the lexer delivers for ANY input, error tokens "
        "included, has a line number inside the file (1 <= line <= 1 + line breaks; a generic cursor invariant principle instantiated with 'the reader holds "
        "exactly the input, one line counter more than line breaks read at most'), and the parser reports a lexer error with that token's position; "
        "columns and the errors the parser makes itself are located by fault injection only: partial.",
 "C11": "for EVERY input the generator accepts: the root holds Go-code runs and templates only, the import list has no duplicates and none of goht's own, "
        "and the output is header ++ each item's own code; Go-code tokens are written verbatim; a template starts with `func ` + exactly its declaration "
        "(parser-wide stack invariant + emitter simulation).",
 "C12": "Render protocol model (Runtime/Render.v): a failure inside hands nothing to the destination and names a site that did fail; success is exactly one "
        "Write of the complete document; a failing destination is never swallowed; all-or-nothing; for every program, failing-site set and destination "
        "behaviour; the model is run against the real compiler+runtime on generated programs.",
 "C13": "pool invariant and isolation of renders under arbitrary interleavings of the pool steps (Runtime/Pool.v).",
 "C14": "what the whitespace pass removes and what it leaves alone: inert text is untouched, markers and their adjacent whitespace go, no marker survives; "
        "and for WHOLE documents with any number of sentinels in any placement (C14_whole_document): Buffer.Bytes returns exactly the text runs, each "
        "trimmed on the left iff an after-sentinel immediately precedes it and on the right iff a before-sentinel immediately follows, no sentinel survives, "
        "every non-blank byte is kept in order, and a second pass changes nothing. That the emitter plants the sentinels where the layout rules say is covered by the denotation runs.",
 "C15": "the emitter writes the same text with and without a source map, at any position, after any earlier output (simulation over all trees); CLI and LSP "
        "code are the same text for every input; every accepted file is header ++ items' own code, so a template's code does not depend on its siblings. "
        "Determinism itself is by construction of the model (a function of the bytes) and checked on the implementation by the run.",
 "C16": "look-ups in both directions are mutually inverse under a decidable uniqueness test evaluated per file; one Add is a per-line shift; "
        "IN BOUNDS on the generated side for every tree: every target the emitter records, and every position inside the recorded fragment (also across line "
        "breaks), is the end of a prefix of the generated text, hence on an existing line and within that line or at its end. The template side (lexer "
        "columns) is checked entry by entry on the real tables: partial.",
 "C17": "diagnostics cache lemmas of the proxy model (compiler error never masked, ranges translated) over all histories.",
 "C18": "the generate model writes exactly the up-to-date outputs and touches nothing else, for every tree, flag set and history.",
 "C19": "helper contracts for every argument list.",
 "C20": "the import insertion adds exactly one import at a valid place and leaves every other line alone, for every head layout.",
}
for _k, _v in PROVED.items():
    CHECKS[_k]["text"] = CHECKS[_k]["text"] + " PROVED in Coq (all inputs): " + _v
