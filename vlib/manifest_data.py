"""Per-property manifest entries (bin/mkmanifest writes MANIFEST.json from this)."""
CHECKS = {
 "C19": dict(
    technique="Coq proof over a model of the runtime helpers + differential correspondence with the Go helpers",
    text=("Theorems in coq/Properties/C19.v (permutation-invariance of both list helpers for every argument list, "
          "membership contracts, escaped-exactly-once round trip, unsupported type <-> error, object-reference joining) "
          "are proved for all inputs about Runtime/Rt.v; the model is tied to runtime.go by running both on thousands of "
          "generated argument lists (each call repeated to sample Go's map order) and an independent contract oracle "
          "is evaluated on the implementation's results."),
    note=("trusts the Coq kernel, the hand-written model Runtime/Rt.v + Base/GoStr.v (html.EscapeString), extraction "
          "(ExtrOcamlBasic), the OCaml/Go/Python harness; Go's map iteration order is sampled, not enumerated"),
    design="DESIGN.md section 7 C19"),
}
NOT_YET = {}
