"""Per-property manifest entries (bin/mkmanifest writes MANIFEST.json from this)."""
CHECKS = {
 "C19": dict(
    technique="Coq proof over a model of the runtime helpers + differential correspondence with the Go helpers",
    text=("Theorems in coq/Properties/C19.v (permutation-invariance of both list helpers for every argument list, "
          "membership contracts, escaped-exactly-once round trip, unsupported type <-> error, object-reference joining) "
          "are proved for all inputs about Runtime/Rt.v; the model is tied to runtime.go by running both on thousands of "
          "generated argument lists (each call repeated to sample Go's map order) and an independent contract oracle "
          "is evaluated on the implementation's results."),
    note=("trusts the Coq kernel, the hand-written model Runtime/Rt.v + Base/GoStr.v (html.EscapeString), extraction "
          "(ExtrOcamlBasic), the OCaml/Go/Python harness; Go's map iteration order is sampled, not enumerated"),
    design="DESIGN.md section 7 C19"),
}
COMMON_NOTE = ("trusts the Coq kernel, the hand-written Gallina model of the compiler (Compiler/*.v, byte-exact with the Go compiler on the "
               "run's corpus), constgen, extraction (ExtrOcamlBasic), the OCaml/Go/Python harness")

CHECKS.update({
 "C06": dict(
    technique="Coq model of lexer/parser/emitter + differential correspondence; totality observed under recover and watchdog",
    text=("The executable Coq model of the whole compiler is run beside the real compiler on every prefix / deletion / token insertion of "
          "valid files, random bytes and size-scaling families; the outcome class (returns a result or an error; never panics, hangs or "
          "blocks) is the oracle on the implementation and must agree with the model. The unbounded totality theorem over the model is "
          "stated in Properties/C06.v; what is proved so far is listed there (partial)."),
    note=COMMON_NOTE + "; wall-clock growth is measured, not proved", design="DESIGN.md section 7 C06"),
 "C07": dict(
    technique="Coq model of the emitter's source map + correspondence; per-entry character oracle on the real tables",
    text=("Fragments are the SourceMap.Add calls of the model, validated against the real tables on the same run; for every offset of every "
          "fragment the template and the generated code must hold the same character (UTF-16 units), and every fragment token of the real "
          "lexer must be covered."),
    note=COMMON_NOTE, design="DESIGN.md section 7 C07"),
 "C10": dict(
    technique="Coq model of lexer/parser + correspondence; fault-injection oracle on the real compiler",
    text=("One fault operator per documented rule is inserted at random valid positions of generated templates; the real compiler (both the "
          "language-server and the command-line path) must refuse each with a positional error inside the file; every error reported on the "
          "byte-level corpus must be located; the model must agree on acceptance and position."),
    note=COMMON_NOTE, design="DESIGN.md section 7 C10"),
 "C11": dict(
    technique="Coq model of the outer lexer and root emitter + correspondence; structural oracle on generated files",
    text=("Files interleaving Go declarations, imports in every layout and templates are generated; the expected generated file is computed "
          "structurally (lines verbatim and in order, imports hoisted and de-duplicated, signatures exact) and compared with the real output, "
          "which must also equal the model's."),
    note=COMMON_NOTE, design="DESIGN.md section 7 C11"),
 "C15": dict(
    technique="Coq model as the single deterministic reference + correspondence; repeated / concurrent / cross-path compilation",
    text=("Every input is compiled through Compose and Generate, in a second process, three times from 16 goroutines in permuted order, and "
          "through ParseFile; all results must be identical to each other and to the output of the (functional, hence deterministic) model; "
          "pairs of files differing in one template must leave sibling functions unchanged."),
    note=COMMON_NOTE + "; absence of package-level mutable state is observed, not proved", design="DESIGN.md section 7 C15"),
 "C16": dict(
    technique="Coq model of SourceMap (Compiler/SrcMap.v) + correspondence; exhaustive per-entry oracle on the real tables",
    text=("Every entry of both tables of every accepted file must be in bounds in both texts, the two directions must be mutually inverse, "
          "and translation must be strictly increasing inside each fragment (fragments = Add calls of the corresponding model)."),
    note=COMMON_NOTE, design="DESIGN.md section 7 C16"),
})
NOT_YET = {}
