"""Grammar-directed generator of well-formed goht template files, their printed text (with
syntactic variants) and their *denotation*: the HTML each template must render to for a given
environment.  The denotation is written from the documented meaning of each construct
(README + property statements) and does not look at the compiler.

Templates have the signature  T<k>(E *Env)  with
    type Env struct { S []string; B []bool; N []int; SS [][]string; M map[string]string;
                      MB map[string]bool; Fail []bool; O0, O1, O2 any }
Embedded Go fragments are drawn from a tiny expression language (class X below) that knows
both its Go text and its value."""
import html as _html

NUKE_AFTER = "~☢<"
NUKE_BEFORE = ">☢~"
# out-of-band stand-ins for the two markers inside the denotation (private-use code points)
M_AFTER = "\ue000"
M_BEFORE = "\ue001"


def esc(s):
    return (s.replace("&", "&amp;").replace("'", "&#39;").replace("<", "&lt;").replace(">", "&gt;").replace('"', "&#34;"))


class X:
    """an expression: go text + evaluation"""

    def __init__(self, go, fn, typ="string"):
        self.go, self.fn, self.typ = go, fn, typ

    def ev(self, env, loc):
        return self.fn(env, loc)


def goq(s):
    """a Go interpreted string literal for s"""
    out = ['"']
    for ch in s:
        o = ord(ch)
        if ch == '"':
            out.append('\\"')
        elif ch == "\\":
            out.append("\\\\")
        elif ch == "\n":
            out.append("\\n")
        elif ch == "\t":
            out.append("\\t")
        elif o < 32 or o == 127:
            out.append("\\x%02x" % o)
        else:
            out.append(ch)
    out.append('"')
    return "".join(out)


class Gen:
    def __init__(self, rng, ntemplates=None, features=None, maxdepth=3, strings=None, prefix="", no_raw=False, only=None):
        self.rng = rng
        self.no_raw = no_raw
        self.only = only
        self.prefix = prefix
        self.maxdepth = maxdepth
        self.features = features  # None = everything
        self.strings = strings or ["a", "b c", "<b>", 'q"q', "it's", "a&b", "x\\y", "{z}", "#h", "%p", "é", "世界", "`t`", "plain", "x > y"]
        self.loopvars = []
        self.nvars = 0
        self.templates = []
        self.ntemplates = ntemplates

    def has(self, f):
        return self.features is None or f in self.features

    # ---------- expressions ----------
    def str_expr(self):
        r = self.rng
        k = r.random()
        if self.loopvars and k < 0.3:
            v = r.choice(self.loopvars)
            return X(v, lambda e, l, v=v: l[v])
        if k < 0.65:
            i = r.randint(0, 3)
            return X("E.S[%d]" % i, lambda e, l, i=i: e["S"][i])
        if k < 0.75:
            s = r.choice(self.strings)
            return X(goq(s), lambda e, l, s=s: s)
        if k < 0.85:
            key = r.choice(["k1", "k2", "zz"])
            return X('E.M[%s]' % goq(key), lambda e, l, key=key: e["M"].get(key, ""))
        a, b = self.str_expr_simple(), self.str_expr_simple()
        return X("%s + %s" % (a.go, b.go), lambda e, l, a=a, b=b: a.ev(e, l) + b.ev(e, l))

    def str_expr_simple(self):
        i = self.rng.randint(0, 3)
        return X("E.S[%d]" % i, lambda e, l, i=i: e["S"][i])

    def bool_expr(self):
        r = self.rng
        k = r.random()
        if k < 0.5:
            i = r.randint(0, 2)
            return X("E.B[%d]" % i, lambda e, l, i=i: e["B"][i], "bool")
        if k < 0.7:
            i = r.randint(0, 2)
            return X("!E.B[%d]" % i, lambda e, l, i=i: not e["B"][i], "bool")
        if k < 0.9:
            i, c = r.randint(0, 2), r.randint(0, 3)
            return X("E.N[%d] > %d" % (i, c), lambda e, l, i=i, c=c: e["N"][i] > c, "bool")
        i = r.randint(0, 3)
        return X('E.S[%d] != ""' % i, lambda e, l, i=i: e["S"][i] != "", "bool")

    def int_expr(self):
        i = self.rng.randint(0, 2)
        return X("E.N[%d]" % i, lambda e, l, i=i: e["N"][i], "int")

    # ---------- text pieces ----------
    def static_text(self, first):
        r = self.rng
        words = ["hello", "world", "a < b", "1 & 2", 'say "hi"', "it's", "back\\slash", "tab\there", "{brace}", "50%", "é", "世界", "x=y", "a.b", "q?", "semi;colon", "`tick`", "[br]"]
        s = r.choice(words)
        if first:
            # a text line must not start with a character that introduces another construct
            while s[0] in "%#.\\!-=/:@" or s.startswith(" "):
                s = r.choice(words)
        return s

    def pieces(self, allow_interp=True, first_static=True, allow_escape=True):
        r = self.rng
        n = r.randint(1, 3)
        out = []
        for k in range(n):
            c = r.random()
            if allow_interp and c < 0.35:
                if r.random() < 0.25:
                    if r.random() < 0.5:
                        out.append(("i", self.int_expr(), "%d"))
                    else:
                        out.append(("i", self.str_expr_simple(), r.choice(["%s", "%v"] if self.no_raw else ["%s", "%q", "%v", "%5s"])))
                else:
                    out.append(("i", self.str_expr(), None))
            elif allow_interp and allow_escape and c < 0.42:
                out.append(("e",))  # \#{  -> literal #{
            else:
                out.append(("s", self.static_text(first_static and not out)))
        # avoid two adjacent static pieces being glued ambiguously: join them with a space
        res = []
        for p in out:
            if res and res[-1][0] == "s" and p[0] == "s":
                res[-1] = ("s", res[-1][1] + " " + p[1])
            else:
                res.append(p)
        if first_static and res[0][0] != "s":
            res.insert(0, ("s", self.static_text(True)))
        return res

    # ---------- nodes ----------
    def node(self, depth, ctx):
        r = self.rng
        kinds = ["el", "el", "el", "text", "script", "if", "for", "comment", "filter", "stmt", "rcomment", "utext", "uscript", "switch"]
        if ctx.get("layout"):
            kinds += ["children", "children"]
        if self.templates and depth < self.maxdepth:
            kinds += ["render", "render"]
        if depth == 1 and not ctx.get("seen_doctype") and r.random() < 0.1:
            ctx["seen_doctype"] = True
            return ("doctype",)
        k = r.choice(kinds)
        if self.no_raw and k in ("utext", "uscript"):
            k = "script"
        if depth >= self.maxdepth and k in ("if", "for", "switch", "render"):
            k = "el"
        return getattr(self, "n_" + k)(depth, ctx)

    def block(self, depth, ctx, lo=1, hi=3):
        b = [self.node(depth, ctx) for _ in range(self.rng.randint(lo, hi))]
        if all(n[0] == "rcomment" for n in b):
            # a block holding nothing but ruby-style comments is an empty Go block (known finding F35)
            b.append(self.n_text(depth, ctx))
        return b

    def n_children(self, depth, ctx):
        return ("children",)

    def n_text(self, depth, ctx):
        return ("text", self.pieces())

    def n_utext(self, depth, ctx):
        return ("utext", self.pieces())

    def n_script(self, depth, ctx):
        r = self.rng
        if r.random() < 0.25:
            if r.random() < 0.5:
                return ("script", self.int_expr(), "%d")
            return ("script", self.str_expr_simple(), r.choice(["%s", "%v"] if self.no_raw else ["%s", "%q", "%v"]))
        return ("script", self.str_expr(), None)

    def n_uscript(self, depth, ctx):
        return ("uscript", self.str_expr())

    def n_stmt(self, depth, ctx):
        self.nvars += 1
        return ("stmt", "_ = %d" % self.nvars)

    def n_rcomment(self, depth, ctx):
        r = self.rng
        nested = [r.choice(["nested ignored", "%p not rendered", "= E.S[0]", "\tdeeper"]) for _ in range(r.randint(0, 2))]
        return ("rcomment", r.choice(["", " a ruby comment", " TODO: é"]), nested)

    def n_comment(self, depth, ctx):
        r = self.rng
        if r.random() < 0.6 or depth >= self.maxdepth:
            return ("comment", r.choice(["a comment", "x < y & z", 'quote " here', "back\\slash", "é"]), None)
        return ("comment", None, self.block(depth + 1, dict(ctx, in_comment=True), 1, 2))

    def n_filter(self, depth, ctx):
        r = self.rng
        kind = r.choice(["plain", "escaped", "preserve", "javascript", "css"])
        if self.no_raw and kind in ("plain", "preserve"):
            kind = "escaped"
        lines = []
        for _ in range(r.randint(1, 3)):
            if kind in ("javascript", "css"):
                base = r.choice(["var x = 1;", ".c { color: red; }", 'console.log("hi");', "a < b && c > d", "// é"])
                ps = [("s", base)]
                if r.random() < 0.3:
                    ps.append(("i", self.str_expr(), None))
            else:
                ps = self.pieces(first_static=False, allow_escape=False)
                # a filter line may start with anything except white space
                if ps[0][0] == "s" and ps[0][1][:1] in (" ", "\t"):
                    ps[0] = ("s", "x" + ps[0][1])
            lines.append(ps)
        return ("filter", kind, lines)

    def n_if(self, depth, ctx):
        r = self.rng
        style = r.choice(["short", "short", "braces"])
        elifs = []
        els = None
        if r.random() < 0.35:
            elifs.append((self.bool_expr(), self.block(depth + 1, ctx, 1, 2)))
        if r.random() < 0.5:
            els = self.block(depth + 1, ctx, 1, 2)
        return ("if", self.bool_expr(), self.block(depth + 1, ctx, 1, 2), elifs, els, style)

    def n_for(self, depth, ctx):
        r = self.rng
        i = r.randint(0, 1)
        self.nvars += 1
        v = "x%d" % self.nvars
        self.loopvars.append(v)
        body = [("stmt", "_ = " + v)] + self.block(depth + 1, ctx, 1, 2)
        self.loopvars.pop()
        return ("for", i, v, body, r.choice(["short", "short", "braces"]))

    def n_switch(self, depth, ctx):
        r = self.rng
        i = r.randint(0, 2)
        cases = [(c, self.block(depth + 2, ctx, 1, 1)) for c in sorted(r.sample([0, 1, 2, 3], r.randint(1, 2)))]
        default = self.block(depth + 2, ctx, 1, 1) if r.random() < 0.5 else None
        return ("switch", i, cases, default)

    def n_render(self, depth, ctx):
        r = self.rng
        target = r.choice(self.templates)
        children = None
        if r.random() < 0.6:
            children = self.block(depth + 1, ctx, 1, 2)
        return ("render", target["name"], children)

    def attr(self):
        r = self.rng
        name = r.choice(["href", "title", "data-x", "lang", "rel", "type", "value", "alt"])
        qname = None
        if r.random() < 0.2:
            name = r.choice(["@click", ":bind", "x-on:y", "aria-label"])
            qname = r.choice(['"', "`"])
        elif r.random() < 0.1:
            qname = '"'
        k = r.random()
        if k < 0.35:
            v = r.choice(["v", "a b", "x<y", 'q"q', "it's", "a&b", "b\\s", "é", "{c}", "#d", "t\tt"])
            q = "`" if ('"' not in v and "\\" not in v and r.random() < 0.3) else '"'
            return ("static", name, qname, v, q)
        if k < 0.65:
            if r.random() < 0.2:
                return ("dyn", name, qname, self.int_expr(), "%d")
            return ("dyn", name, qname, self.str_expr(), None)
        if k < 0.8:
            return ("bool", name, qname)
        return ("cond", name, qname, self.bool_expr())

    def n_el(self, depth, ctx):
        r = self.rng
        e = {"tag": None, "id": None, "classes": [], "attrs": [], "marks": "", "void": False, "attrs_cmd": None,
             "class_attr": None, "objref": None, "layout": r.choice(["one", "one", "multi", "padded"])}
        if r.random() < 0.75:
            e["tag"] = r.choice(["p", "div", "span", "a", "b", "i", "ul", "li", "section", "h1", "custom-el", "x:y"])
        if r.random() < 0.3:
            e["id"] = r.choice(["main", "a-b", "x1", "é", "i&d"])
        for _ in range(r.choice([0, 0, 1, 2])):
            e["classes"].append(r.choice(["c1", "c-2", "big", "é", "x_y"]))
        if e["tag"] is None and e["id"] is None and not e["classes"]:
            e["classes"].append("only")
        if self.has("attrs") and r.random() < 0.45:
            seen = set()
            for _ in range(r.randint(1, 3)):
                a = self.attr()
                if a[1] in seen:
                    continue
                seen.add(a[1])
                e["attrs"].append(a)
            if r.random() < 0.15:
                e["class_attr"] = ("static", r.choice(["k1 k2", "k<3", 'q"']))
            elif r.random() < 0.15:
                i = r.randint(0, 1)
                e["class_attr"] = ("dyn", [X("E.S[%d]" % i, lambda en, l, i=i: [en["S"][i]] if en["S"][i] else []),
                                           X("E.SS[0]", lambda en, l: [x for x in en["SS"][0] if x]),
                                           X("E.MB", lambda en, l: sorted(k for k, v in en["MB"].items() if v and k))][:r.randint(1, 3)])
            if r.random() < 0.15:
                e["attrs_cmd"] = r.choice([["E.M"], ["E.MB"], ["E.M", "E.MB"]])
        if self.has("objref") and r.random() < 0.08:
            e["objref"] = r.randint(0, 2)
        if r.random() < 0.12 and not self.no_raw:
            # (the tokenizer comparison of C02 runs without marks: white space from a value next to a mark is removed by design)
            e["marks"] = r.choice([">", "<", "><", "<>"])
        k = r.random()
        if e["tag"] in ("br", "hr", "img") or (k < 0.08):
            if k < 0.04:
                e["tag"] = r.choice(["br", "hr", "img", "input", "meta"])
                e["void"] = "builtin"
            else:
                e["void"] = "slash"
            if "<" in e["marks"]:
                e["marks"] = e["marks"].replace("<", "")
            return ("el", e, None, None)
        if k < 0.45:
            c = r.random()
            if c < 0.6:
                content = ("text", self.pieces(first_static=False))
                # inline text directly after the tag must not start with a character the tag line gives meaning to
                p0 = content[1][0]
                if p0[0] == "s" and p0[1][0] in "#.[{=!/<>-":
                    content[1][0] = ("s", "t " + p0[1])
            elif c < 0.8:
                content = self.n_script(depth, ctx)
            elif c < 0.9 and not e["marks"] and not self.no_raw:
                # (after a whitespace-removal mark only `=`, `/` or text may follow)
                content = self.n_uscript(depth, ctx)
            elif c < 0.9:
                content = self.n_script(depth, ctx)
            elif e["marks"] or self.no_raw:
                content = ("text", [("s", "marked")])
            else:
                content = ("utext", self.pieces(first_static=False))
                p0 = content[1][0]
                if p0[0] == "s" and p0[1][0] in "=":
                    content[1][0] = ("s", "t " + p0[1])
            return ("el", e, content, None)
        if k < 0.75 and depth < self.maxdepth:
            return ("el", e, None, self.block(depth + 1, ctx, 1, 3))
        return ("el", e, None, None)

    # ---------- files ----------
    def template(self, idx, layout=False):
        name = "%sT%d" % (self.prefix, idx)
        ctx = {"layout": layout}
        self.loopvars = []
        body = self.block(1, ctx, 1, 4)
        if layout and not any(n == ("children",) for n in body):
            body.insert(self.rng.randint(0, len(body)), ("children",))
        t = {"name": name, "body": body, "layout": layout}
        return t

    def file(self):
        n = self.ntemplates or self.rng.randint(1, 4)
        self.templates = []
        for i in range(n):
            t = self.template(i, layout=(self.rng.random() < 0.4))
            self.templates.append(t)
        return {"package": "main", "templates": list(self.templates)}


# ---------------------------------------------------------------- printing

def print_pieces(ps):
    out = []
    for p in ps:
        if p[0] == "s":
            out.append(p[1])
        elif p[0] == "e":
            out.append("\\#{")
        else:
            out.append("#{%s%s}" % ((p[2] + " ") if p[2] else "", p[1].go))
    return "".join(out)


def print_attr(a, rng=None):
    kind, name, qn = a[0], a[1], a[2]
    nm = (qn + name + qn) if qn else name
    if kind == "static":
        v, q = a[3], a[4]
        if q == "`":
            return "%s: `%s`" % (nm, v)
        return "%s: %s" % (nm, goq(v))
    if kind == "dyn":
        return "%s: #{%s%s}" % (nm, (a[4] + " ") if a[4] else "", a[3].go)
    if kind == "bool":
        return nm
    return "%s ? #{%s}" % (nm, a[3].go)


def print_el_head(e, ind):
    s = ""
    if e["tag"]:
        s += "%" + e["tag"]
    if e["id"]:
        s += "#" + e["id"]
    for c in e["classes"]:
        s += "." + c
    if e["objref"] is not None:
        s += "[E.O%d]" % e["objref"]
    items = [print_attr(a) for a in e["attrs"]]
    if e["class_attr"]:
        if e["class_attr"][0] == "static":
            items.append("class: " + goq(e["class_attr"][1]))
        else:
            items.append("class: #{%s}" % ", ".join(x.go for x in e["class_attr"][1]))
    if e["attrs_cmd"]:
        items.append("@attributes: #{%s}" % ", ".join(m.go if isinstance(m, X) else m for m in e["attrs_cmd"]))
    if items:
        if e["layout"] == "multi":
            s += "{\n" + "".join(ind + "\t" + it + ",\n" for it in items) + ind + "}"
        elif e["layout"] == "padded":
            s += "{ " + " , ".join(items) + " }"
        else:
            s += "{" + ", ".join(items) + "}"
    s += e["marks"]
    if e["void"] == "slash":
        s += "/"
    return s


def print_content(c):
    k = c[0]
    if k == "text":
        return print_pieces(c[1])
    if k == "script":
        return "= %s%s" % ((c[2] + " ") if c[2] else "", c[1].go)
    if k == "uscript":
        return "!= " + c[1].go
    if k == "utext":
        return "! " + print_pieces(c[1])
    raise ValueError(k)


def print_nodes(nodes, depth, out):
    ind = "\t" * depth
    for n in nodes:
        k = n[0]
        if k == "doctype":
            out.append(ind + "!!!")
        elif k == "el":
            e, content, children = n[1], n[2], n[3]
            head = print_el_head(e, ind)
            if content is not None:
                sep = "" if content[0] in ("script", "uscript", "utext") else " "
                out.append(ind + head + sep + print_content(content))
            else:
                out.append(ind + head)
            if children:
                print_nodes(children, depth + 1, out)
        elif k in ("text", "script", "uscript", "utext"):
            out.append(ind + print_content(n))
        elif k == "stmt":
            out.append(ind + "- " + n[1])
        elif k == "rcomment":
            out.append(ind + "-#" + n[1])
            for l in n[2]:
                out.append(ind + "\t" + l)
        elif k == "comment":
            if n[1] is not None:
                out.append(ind + "/ " + n[1])
            else:
                out.append(ind + "/")
                print_nodes(n[2], depth + 1, out)
        elif k == "filter":
            out.append(ind + ":" + n[1])
            for ps in n[2]:
                out.append(ind + "\t" + print_pieces(ps))
        elif k == "if":
            _, cond, then, elifs, els, style = n
            if style == "short":
                out.append(ind + "- if " + cond.go)
                print_nodes(then, depth + 1, out)
                for c, b in elifs:
                    out.append(ind + "- else if " + c.go)
                    print_nodes(b, depth + 1, out)
                if els is not None:
                    out.append(ind + "- else")
                    print_nodes(els, depth + 1, out)
            else:
                out.append(ind + "- if " + cond.go + " {")
                print_nodes(then, depth + 1, out)
                for c, b in elifs:
                    out.append(ind + "- } else if " + c.go + " {")
                    print_nodes(b, depth + 1, out)
                if els is not None:
                    out.append(ind + "- } else {")
                    print_nodes(els, depth + 1, out)
                out.append(ind + "- }")
        elif k == "for":
            _, i, v, body, style = n
            hdr = "- for _, %s := range E.SS[%d]" % (v, i)
            if style == "short":
                out.append(ind + hdr)
                print_nodes(body, depth + 1, out)
            else:
                out.append(ind + hdr + " {")
                print_nodes(body, depth + 1, out)
                out.append(ind + "- }")
        elif k == "switch":
            _, i, cases, default = n
            out.append(ind + "- switch E.N[%d]" % i)
            for c, b in cases:
                out.append(ind + "\t- case %d:" % c)
                print_nodes(b, depth + 2, out)
            if default is not None:
                out.append(ind + "\t- default:")
                print_nodes(default, depth + 2, out)
        elif k == "render":
            out.append(ind + "= @render %s(%s)" % (n[1], "dec(E)" if len(n) > 3 and n[3] == "dec" else "E"))
            if n[2]:
                print_nodes(n[2], depth + 1, out)
        elif k == "children":
            out.append(ind + "= @children")
        elif k == "raw":
            # fault injection: lines printed as they are behind the block's indentation
            for l in n[1]:
                if l.startswith("\x01"):
                    out.append(" " + ind[1:] + l[1:])    # the first tab of the indentation replaced by a space
                else:
                    out.append(ind + l)
        else:
            raise ValueError(k)


GO_PRELUDE = """
type Env struct {
	S    []string
	B    []bool
	N    []int
	SS   [][]string
	M    map[string]string
	MB   map[string]bool
	Fail []bool
	O0   any
	O1   any
	O2   any
}
"""


def print_file(f, with_prelude=False, pkg=True):
    out = []
    if pkg and f.get("package"):
        out.append("package " + f["package"])
        out.append("")
    if with_prelude:
        out.append(GO_PRELUDE.strip("\n"))
        out.append("")
    for t in f["templates"]:
        out.append("@goht %s(E *Env) {" % t["name"])
        print_nodes(t["body"], 1, out)
        out.append("}")
        out.append("")
    return "\n".join(out)


# ---------------------------------------------------------------- denotation

def fmt_verb(verb, v):
    if verb == "%d":
        return "%d" % v
    if verb == "%s" or verb == "%v":
        return str(v) if not isinstance(v, bool) else ("true" if v else "false")
    if verb == "%5s":
        return "%5s" % v
    if verb == "%q":
        return goq(v)
    raise ValueError(verb)


class Denote:
    """structural meaning of a template: the exact bytes Render must write"""

    def __init__(self, file, objs=None, attr_space=True):
        """attr_space=False gives the document as the code is built today: the list of an @attributes command is written without the
        blank that separates it from what precedes it (known finding F38)"""
        self.templates = {t["name"]: t for t in file["templates"]}
        self.objs = objs or []
        self.attr_space = attr_space

    def pieces(self, ps, env, loc, escaped, static_escape=False):
        out = []
        for p in ps:
            if p[0] == "s":
                out.append(esc(p[1]) if static_escape else p[1])
            elif p[0] == "e":
                out.append("#{")
            else:
                v = p[1].ev(env, loc)
                s = fmt_verb(p[2], v) if p[2] else v
                out.append(esc(s) if escaped else s)
        return "".join(out)

    def content(self, c, env, loc):
        k = c[0]
        if k == "text":
            return self.pieces(c[1], env, loc, True)
        if k == "script":
            v = c[1].ev(env, loc)
            return esc(fmt_verb(c[2], v) if c[2] else v)
        if k == "uscript":
            return c[1].ev(env, loc)
        if k == "utext":
            return self.pieces(c[1], env, loc, False)
        raise ValueError(k)

    def attrs(self, e, env, loc):
        out = ""
        if e["objref"] is not None:
            o = self.objs[e["objref"]]
            if o.get("id") is not None:
                parts = ([o["class"]] if o.get("class") is not None else []) + [o["id"]]
                ident = "_".join(parts)
                if ident != "":
                    out += ' id="%s"' % esc(ident)
        if e["id"]:
            out += ' id="%s"' % esc(e["id"])
        classes = list(e["classes"])
        dynamic = False
        if e["objref"] is not None:
            dynamic = True
        if e["class_attr"] and e["class_attr"][0] == "dyn":
            dynamic = True
        if not dynamic:
            if e["class_attr"]:
                classes.append(e["class_attr"][1])
            if classes:
                out += ' class="%s"' % esc(" ".join(classes))
        else:
            items = [c for c in classes]
            if e["objref"] is not None:
                o = self.objs[e["objref"]]
                if o.get("class") is not None and o["class"] != "":
                    items.append(o["class"])
            if e["class_attr"]:
                if e["class_attr"][0] == "static":
                    if e["class_attr"][1] != "":
                        items.append(e["class_attr"][1])
                else:
                    for x in e["class_attr"][1]:
                        items += x.ev(env, loc)
            out += ' class="%s"' % esc(" ".join(items))
        for a in e["attrs"]:
            kind, name = a[0], a[1]
            if kind == "static":
                if a[3] == "":
                    out += " " + name
                else:
                    out += ' %s="%s"' % (name, esc(a[3]))
            elif kind == "dyn":
                v = a[3].ev(env, loc)
                out += ' %s="%s"' % (name, esc(fmt_verb(a[4], v) if a[4] else v))
            elif kind == "bool":
                out += " " + name
            else:
                if a[3].ev(env, loc):
                    out += " " + name
        if e["attrs_cmd"]:
            entries = []
            for m in e["attrs_cmd"]:
                if isinstance(m, X):
                    d = m.ev(env, loc)
                    for k, v in d.items():
                        if isinstance(v, bool):
                            if v:
                                entries.append(esc(k))
                        elif v != "":
                            entries.append('%s="%s"' % (esc(k), esc(v)))
                elif m == "E.M":
                    entries += ['%s="%s"' % (esc(k), esc(v)) for k, v in env["M"].items() if v != ""]
                else:
                    entries += [esc(k) for k, v in env["MB"].items() if v]
            if entries:
                # the list is a run of attributes: a blank separates it from the tag name or the attribute before it
                # (compiler/testdata/attributes.html); the generated code writes none (F38): attr_space=False
                out += (" " if self.attr_space else "") + " ".join(sorted(entries, key=lambda s: s.encode("utf-8")))
        return out

    def nodes(self, nodes, env, loc, children):
        return "".join(self.node(n, env, loc, children) for n in nodes)

    def node(self, n, env, loc, children):
        k = n[0]
        if k == "doctype":
            return "<!DOCTYPE html>\n"
        if k == "el":
            e, content, kids = n[1], n[2], n[3]
            tag = e["tag"] or "div"
            s = ""
            if ">" in e["marks"]:
                s += M_BEFORE
            s += "<" + tag + self.attrs(e, env, loc) + ">"
            if e["void"]:
                return s
            if "<" in e["marks"]:
                s += M_AFTER
            if content is not None:
                s += self.content(content, env, loc)
            elif kids:
                s += "\n" + self.nodes(kids, env, loc, children)
            if "<" in e["marks"]:
                s += M_BEFORE
            s += "</" + tag + ">"
            s += M_AFTER if ">" in e["marks"] else "\n"
            return s
        if k in ("text", "script", "uscript", "utext"):
            return self.content(n, env, loc) + "\n"
        if k in ("stmt", "rcomment", "raw"):
            return ""
        if k == "comment":
            if n[1] is not None:
                return "<!--" + esc(n[1]) + "-->\n"
            return "<!--\n" + self.nodes(n[2], env, loc, children) + "-->\n"
        if k == "filter":
            kind, lines = n[1], n[2]
            if kind == "plain":
                return "".join(self.pieces(ps, env, loc, False) + "\n" for ps in lines)
            if kind == "escaped":
                return "".join(self.pieces(ps, env, loc, True, static_escape=True) + "\n" for ps in lines)
            if kind == "preserve":
                return "".join(self.pieces(ps, env, loc, False) + "&#x000A;" for ps in lines) + "\n"
            body = "".join(self.pieces(ps, env, loc, True) + "\n" for ps in lines)
            return ("<script>\n%s</script>" if kind == "javascript" else "<style>\n%s</style>") % body
        if k == "if":
            _, cond, then, elifs, els, _style = n
            if cond.ev(env, loc):
                return self.nodes(then, env, loc, children)
            for c, b in elifs:
                if c.ev(env, loc):
                    return self.nodes(b, env, loc, children)
            return self.nodes(els, env, loc, children) if els is not None else ""
        if k == "for":
            _, i, v, body, _style = n
            out = ""
            for x in env["SS"][i]:
                out += self.nodes(body, env, dict(loc, **{v: x}), children)
            return out
        if k == "switch":
            _, i, cases, default = n
            for c, b in cases:
                if env["N"][i] == c:
                    return self.nodes(b, env, loc, children)
            return self.nodes(default, env, loc, children) if default is not None else ""
        if k == "render":
            t = self.templates[n[1]]
            blk = None
            if n[2]:
                # the block, evaluated later in the caller's scope: its environment, variables and own children
                blk = (n[2], env, loc, children)
            env2 = env
            if len(n) > 3 and n[3] == "dec":
                env2 = dict(env, N=[env["N"][0] - 1] + list(env["N"][1:]))
            return self.nodes(t["body"], env2, {}, blk)
        if k == "children":
            if children is None:
                return ""
            body, cenv, cloc, cchildren = children
            return self.nodes(body, cenv, cloc, cchildren)
        raise ValueError(k)

    def raw(self, name, env):
        """the document before whitespace removal, markers out of band"""
        return self.nodes(self.templates[name]["body"], env, {}, None)

    def render(self, name, env):
        """what Render must write: layout decided by the template alone"""
        return ideal_nuke(self.raw(name, env))

    def render_inband(self, name, env):
        """what results if the markers are ordinary text that dynamic values and literal text can form
        (the implementation's mechanism; differs from [render] only when a marker look-alike occurs)"""
        return inband_nuke(self.raw(name, env))


_WS = "[\t\n\f\r ]*"


def ideal_nuke(s):
    import re
    return re.sub(M_AFTER + _WS + "|" + _WS + M_BEFORE, "", s)


def inband_nuke(s):
    import re
    s = s.replace(M_AFTER, NUKE_AFTER).replace(M_BEFORE, NUKE_BEFORE)
    return re.sub(re.escape(NUKE_AFTER) + _WS + "|" + _WS + re.escape(NUKE_BEFORE), "", s)


def lookalike_formed(raw):
    """a marker sequence that does not stem from a whitespace-removal mark occurs in the raw document"""
    plain = raw.replace(M_AFTER, "").replace(M_BEFORE, "")
    return NUKE_AFTER in plain or NUKE_BEFORE in plain


def nuke(s):
    return inband_nuke(s)


def uses(nodes, kinds, acc=None):
    """set of construct kinds used in a node list (for the evidence distribution)"""
    acc = set() if acc is None else acc
    for n in nodes:
        acc.add(n[0])
        if n[0] == "el":
            e = n[1]
            if e["attrs"]:
                acc.add("attrs")
                for a in e["attrs"]:
                    acc.add("attr:" + a[0])
            if e["class_attr"]:
                acc.add("class_attr:" + e["class_attr"][0])
            if e["attrs_cmd"]:
                acc.add("@attributes")
            if e["marks"]:
                acc.add("mark" + e["marks"])
            if e["void"]:
                acc.add("void")
            if e["objref"] is not None:
                acc.add("objref")
            if n[2] is not None:
                acc.add("inline:" + n[2][0])
            if n[3]:
                uses(n[3], kinds, acc)
        elif n[0] == "if":
            uses(n[2], kinds, acc)
            for _, b in n[3]:
                acc.add("elif")
                uses(b, kinds, acc)
            if n[4] is not None:
                acc.add("else")
                uses(n[4], kinds, acc)
        elif n[0] == "for":
            uses(n[3], kinds, acc)
        elif n[0] == "switch":
            for _, b in n[2]:
                uses(b, kinds, acc)
            if n[3] is not None:
                uses(n[3], kinds, acc)
        elif n[0] == "comment" and n[2]:
            uses(n[2], kinds, acc)
        elif n[0] == "render" and n[2]:
            acc.add("render+block")
            uses(n[2], kinds, acc)
        elif n[0] == "filter":
            acc.add("filter:" + n[1])
    return acc


def gen_env(rng, strings=None):
    pool = strings or ["", "a", "b c", "<i>x</i>", 'q"q', "it's", "a&b", "x\\y", "é", "世界", " lead", "trail ", "~☢", "&amp;", "</p>", "{{x}}"]
    return {
        "S": [rng.choice(pool) for _ in range(4)],
        "B": [rng.random() < 0.5 for _ in range(3)],
        "N": [rng.randint(0, 3) for _ in range(3)],
        "SS": [[rng.choice(pool) for _ in range(rng.choice([0, 1, 2, 3]))] for _ in range(2)],
        "M": {k: rng.choice(pool) for k in rng.sample(["k1", "k2", "data-z", "a<b", 'q"'], rng.randint(0, 4))},
        "MB": {k: rng.random() < 0.6 for k in rng.sample(["on", "off", "x y", "d&e", ""], rng.randint(0, 4))},
        "Fail": [False] * 4,
    }


def blocks_of(nodes, acc=None):
    """every child list of a template body into which a sibling can be inserted"""
    acc = [] if acc is None else acc
    acc.append(nodes)
    for n in nodes:
        k = n[0]
        if k == "el" and n[3]:
            blocks_of(n[3], acc)
        elif k == "if":
            blocks_of(n[2], acc)
            for _, b in n[3]:
                blocks_of(b, acc)
            if n[4] is not None:
                blocks_of(n[4], acc)
        elif k == "for":
            blocks_of(n[3], acc)
        elif k == "switch":
            for _, b in n[2]:
                blocks_of(b, acc)
            if n[3] is not None:
                blocks_of(n[3], acc)
        elif k == "comment" and n[2]:
            blocks_of(n[2], acc)
        elif k == "render" and n[2]:
            blocks_of(n[2], acc)
    return acc
