"""C14 — output whitespace follows template layout and whitespace-removal markers."""
from . import common, gen_tmpl, render, lrender

LEVEL_NOTE = ("layout rules are those of the denotation (inline content between its tags, nested block after a line break, closing tags and "
              "text lines end with a line break, :preserve keeps line breaks as entities, > and < remove adjacent white space and nothing "
              "else, also through @render/@children); marker look-alikes in values or literal text fall under known finding F04")

NUKE_A = gen_tmpl.NUKE_AFTER.encode()
NUKE_B = gen_tmpl.NUKE_BEFORE.encode()


class MarkGen(gen_tmpl.Gen):
    """more whitespace-removal marks, in every structural position"""

    def n_el(self, depth, ctx):
        n = super().n_el(depth, ctx)
        e = n[1]
        if self.rng.random() < 0.55:
            m = self.rng.choice([">", "<", "><", "<>"])
            if e["void"]:
                m = m.replace("<", "")
            if n[2] is not None and n[2][0] in ("uscript", "utext"):
                return n
            e["marks"] = m
        return n


def run(chk):
    br = common.build_all()
    chk.proof_step(br)
    quick = chk.tier == "quick"
    rng = chk.rng
    nfiles = 220 if quick else 5000
    chk.rule = ("generated templates with > < >< <> on elements in every structural position (first / last / only child, adjacent marked "
                "siblings, void elements, inside children blocks and nested templates, around dynamic text with leading / trailing blanks, "
                "next to filters) x 4 environments (values with leading/trailing spaces, tabs, line breaks); plus Buffer.Bytes on byte strings "
                "around the markers against the Coq model of the whitespace regexp; plus Buffer.Bytes on random whole documents (0-8 pieces: text runs from a pool with blanks of all five kinds, '>' '<' next to sentinels, non-ASCII, and 7% marker look-alikes; sentinels 60%) that pass the extracted test doc_ok, against spec of C14_whole_document; non-trivial = template with a mark; distinct by template+env")
    if br.go_ok and br.coq_ok:
        files = {}
        for i in range(nfiles):
            g = MarkGen(rng, prefix="F%d" % i)
            files["f%d" % i] = g.file()
        b = lrender.make_batch(files)
        try:
            lrender.report_build_problems(chk, b, files)
            pool = ["", " ", "  x", "y  ", " z ", "\tt\t", "a\nb", "\n", "plain", "<i>", "a b", "é", "~☢", "☢~"]
            recs = lrender.run_envs(b, files, lambda f, t: [gen_tmpl.gen_env(rng, strings=pool) for _ in range(4)], as_built=True)
        finally:
            b.close()
        nbad = 0
        for r in recs:
            t = next(t for t in r.file["templates"] if t["name"] == r.tname)
            kinds = gen_tmpl.uses(t["body"], None)
            marked = any(k.startswith("mark") for k in kinds)
            chk.case(gen_tmpl.print_file(r.file) + r.tname + repr(r.env), nontrivial=marked)
            for k in kinds:
                if k.startswith("mark") or k.startswith("filter") or k in ("render+block", "children", "void"):
                    chk.count("uses:" + k)
            why = None
            if not (r.status == "ok" and r.got == r.ideal):
                if lrender.lookalike_known(chk, r):
                    continue
                why = "output white space differs from the layout the template prescribes (status %s)" % r.status
            elif (NUKE_A in r.got or NUKE_B in r.got) and not ("☢" in repr(r.env)):
                # (when got == ideal every genuine marker is gone; the sequence can then only come from data containing ☢)
                why = "an internal whitespace marker appears in what Render wrote"
            if why:
                nbad += 1
                if nbad <= 3:
                    chk.violation("oracle", why, input_text=gen_tmpl.print_file(r.file), template=r.tname, env=r.env,
                                  expected=r.ideal.decode("utf-8", "replace"), got=r.got.decode("utf-8", "replace"))
            else:
                chk.traces += 1
        if recs:
            r = recs[0]
            chk.samples.append({"template": gen_tmpl.print_file(r.file)[:400], "env": r.env, "rendered": r.got.decode("utf-8", "replace")[:300]})
        lrender.compile_correspondence(chk, files, ("cls", "perr", "gtext"))
        # L-RUNTIME: Buffer.Bytes (the regexp) against the Coq model, on strings around the markers
        alpha = [b" ", b"\t", b"\n", b"\r", b"\x0c", b"\x0b", b"x", b"<", b">", b"~", "☢".encode(), NUKE_A, NUKE_B, b"\xe2\x98", b"\xa0"]
        cases = []
        for _ in range(4000 if quick else 80000):
            cases.append(b"".join(rng.choice(alpha) for _ in range(rng.randint(0, 9))))
        lines = ["nuke " + common.hx(c) for c in cases]
        impl = common.run_lines_parallel(common.IMPLRUN, lines)
        model = common.run_lines_parallel(common.DRIVER, lines)
        nb = 0
        for c, a, m in zip(cases, impl, model):
            chk.case("nuke:" + c.hex(), nontrivial=(NUKE_A in c or NUKE_B in c))
            chk.count("nuke-strings")
            if a != m:
                nb += 1
                if nb <= 3:
                    chk.broke("correspondence", "L-RUNTIME", "nuke model differs from Buffer.Bytes", input_hex=common.hx(c), impl=a, model=m)
            else:
                chk.traces += 1
        # L-DOC: whole documents (text runs and sentinels in any placement).  The extracted model gives the hypothesis test of
        # C14_document_test_is_sound, the bytes as written and the specification; the real Buffer.Bytes runs on the bytes as written.
        texts = [b"", b" ", b"\n", b" \t\n", b"x", b"<a>", b"</a>\n", b" x ", b"\ny z\n ", b">", b"<", b"> ", b" <", "é".encode(), b"\xa0", b"\x0b",
                 b"a\r\n", b"\x0c", b">\xe2", b"~", b"\xe2\x98\xa2", b"x~", "☢<".encode()]
        docs = []
        for _ in range(3000 if quick else 60000):
            d = []
            for _ in range(rng.randint(0, 8)):
                k = rng.random()
                if k < 0.3:
                    d.append("A")
                elif k < 0.6:
                    d.append("B")
                else:
                    t = b"".join(rng.choice(texts[:18] if rng.random() < 0.93 else texts) for _ in range(rng.randint(0, 3)))
                    if d and d[-1].startswith("T") and rng.random() < 0.9:
                        d[-1] = d[-1] + t.hex()          # keep text runs maximal most of the time
                    else:
                        d.append("T" + t.hex())
            docs.append(d)
        model = common.run_lines_parallel(common.DRIVER, ["nukedoc " + " ".join(d) if d else "nukedoc" for d in docs])
        parsed = []
        for d, m in zip(docs, model):
            f = m.split(" ")
            if len(f) < 2 or f[0] != "ok":
                chk.broke("correspondence", "L-DOC", "the model does not answer for a document", doc=d, model=m)
                parsed.append(None)
                continue
            f += [""] * (4 - len(f))
            parsed.append((f[1] == "1", f[2], f[3]))
        todo = [x for x in parsed if x is not None]
        impl = common.run_lines_parallel(common.IMPLRUN, ["nuke " + x[1] for x in todo])
        nb = 0
        for (ok, rawhex, spechex), a in zip(todo, impl):
            chk.case("doc:" + rawhex, nontrivial=ok and ("7ee298a23c" in rawhex or "3ee298a27e" in rawhex))
            chk.count("documents:" + ("hypotheses-hold" if ok else "hypotheses-fail(not compared)"))
            if not ok:
                continue
            got = a.split(" ")[1] if a.startswith("ok ") else (a if a != "ok" else "")
            if a == "ok":
                got = ""
            if got != spechex:
                nb += 1
                if nb <= 3:
                    chk.broke("correspondence", "L-DOC", "Buffer.Bytes differs from the specification of C14_whole_document on a document meeting its hypotheses",
                              input_hex=rawhex, impl=a, spec=spechex)
            else:
                chk.traces += 1
    return chk.finish(level="proof", level_note=LEVEL_NOTE)


def replay(r):
    print(r.get("input_text"))
    print("env:", r.get("env"))
    print("expected:", repr(r.get("expected")))
    print("got     :", repr(r.get("got")))
    return 1
