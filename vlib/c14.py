"""C14 — output whitespace follows template layout and whitespace-removal markers."""
from . import common, gen_tmpl, render, lrender

LEVEL_NOTE = ("layout rules are those of the denotation (inline content between its tags, nested block after a line break, closing tags and "
              "text lines end with a line break, :preserve keeps line breaks as entities, > and < remove adjacent white space and nothing "
              "else, also through @render/@children); marker look-alikes in values or literal text fall under known finding F04")

NUKE_A = gen_tmpl.NUKE_AFTER.encode()
NUKE_B = gen_tmpl.NUKE_BEFORE.encode()


class MarkGen(gen_tmpl.Gen):
    """more whitespace-removal marks, in every structural position"""

    def n_el(self, depth, ctx):
        n = super().n_el(depth, ctx)
        e = n[1]
        if self.rng.random() < 0.55:
            m = self.rng.choice([">", "<", "><", "<>"])
            if e["void"]:
                m = m.replace("<", "")
            if n[2] is not None and n[2][0] in ("uscript", "utext"):
                return n
            e["marks"] = m
        return n


def run(chk):
    br = common.build_all()
    chk.proof_step(br)
    quick = chk.tier == "quick"
    rng = chk.rng
    nfiles = 220 if quick else 5000
    chk.rule = ("generated templates with > < >< <> on elements in every structural position (first / last / only child, adjacent marked "
                "siblings, void elements, inside children blocks and nested templates, around dynamic text with leading / trailing blanks, "
                "next to filters) x 4 environments (values with leading/trailing spaces, tabs, line breaks); plus Buffer.Bytes on byte strings "
                "around the markers against the Coq model of the whitespace regexp; non-trivial = template with a mark; distinct by template+env")
    if br.go_ok and br.coq_ok:
        files = {}
        for i in range(nfiles):
            g = MarkGen(rng, prefix="F%d" % i)
            files["f%d" % i] = g.file()
        b = lrender.make_batch(files)
        try:
            lrender.report_build_problems(chk, b, files)
            pool = ["", " ", "  x", "y  ", " z ", "\tt\t", "a\nb", "\n", "plain", "<i>", "a b", "é", "~☢", "☢~"]
            recs = lrender.run_envs(b, files, lambda f, t: [gen_tmpl.gen_env(rng, strings=pool) for _ in range(4)], as_built=True)
        finally:
            b.close()
        nbad = 0
        for r in recs:
            t = next(t for t in r.file["templates"] if t["name"] == r.tname)
            kinds = gen_tmpl.uses(t["body"], None)
            marked = any(k.startswith("mark") for k in kinds)
            chk.case(gen_tmpl.print_file(r.file) + r.tname + repr(r.env), nontrivial=marked)
            for k in kinds:
                if k.startswith("mark") or k.startswith("filter") or k in ("render+block", "children", "void"):
                    chk.count("uses:" + k)
            why = None
            if not (r.status == "ok" and r.got == r.ideal):
                if lrender.lookalike_known(chk, r):
                    continue
                why = "output white space differs from the layout the template prescribes (status %s)" % r.status
            elif (NUKE_A in r.got or NUKE_B in r.got) and not ("☢" in repr(r.env)):
                # (when got == ideal every genuine marker is gone; the sequence can then only come from data containing ☢)
                why = "an internal whitespace marker appears in what Render wrote"
            if why:
                nbad += 1
                if nbad <= 3:
                    chk.violation("oracle", why, input_text=gen_tmpl.print_file(r.file), template=r.tname, env=r.env,
                                  expected=r.ideal.decode("utf-8", "replace"), got=r.got.decode("utf-8", "replace"))
            else:
                chk.traces += 1
        if recs:
            r = recs[0]
            chk.samples.append({"template": gen_tmpl.print_file(r.file)[:400], "env": r.env, "rendered": r.got.decode("utf-8", "replace")[:300]})
        lrender.compile_correspondence(chk, files, ("cls", "perr", "gtext"))
        # L-RUNTIME: Buffer.Bytes (the regexp) against the Coq model, on strings around the markers
        alpha = [b" ", b"\t", b"\n", b"\r", b"\x0c", b"\x0b", b"x", b"<", b">", b"~", "☢".encode(), NUKE_A, NUKE_B, b"\xe2\x98", b"\xa0"]
        cases = []
        for _ in range(4000 if quick else 80000):
            cases.append(b"".join(rng.choice(alpha) for _ in range(rng.randint(0, 9))))
        lines = ["nuke " + common.hx(c) for c in cases]
        impl = common.run_lines_parallel(common.IMPLRUN, lines)
        model = common.run_lines_parallel(common.DRIVER, lines)
        nb = 0
        for c, a, m in zip(cases, impl, model):
            chk.case("nuke:" + c.hex(), nontrivial=(NUKE_A in c or NUKE_B in c))
            chk.count("nuke-strings")
            if a != m:
                nb += 1
                if nb <= 3:
                    chk.broke("correspondence", "L-RUNTIME", "nuke model differs from Buffer.Bytes", input_hex=common.hx(c), impl=a, model=m)
            else:
                chk.traces += 1
    return chk.finish(level="proof", level_note=LEVEL_NOTE)


def replay(r):
    print(r.get("input_text"))
    print("env:", r.get("env"))
    print("expected:", repr(r.get("expected")))
    print("got     :", repr(r.get("got")))
    return 1
