"""C01 — rendered HTML is the document the template denotes."""
from . import common, gen_tmpl, render, lrender
from .common import hx

LEVEL_NOTE = ("the denotation (vlib/gen_tmpl.py: Denote) is the specification, written from the documented meaning of each construct; "
              "the real pipeline (compiler -> go build -> Render) must produce exactly its bytes; the Coq compiler model must agree with "
              "the real compiler on tree and generated text for the same files; Go's execution of the emitted statements is trusted")


def run(chk):
    br = common.build_all()
    chk.proof_step(br)
    quick = chk.tier == "quick"
    rng = chk.rng
    nfiles = 250 if quick else 6000
    per_batch = 250 if quick else 500
    chk.rule = ("grammar-generated files (1-4 templates; doctype, tags/ids/classes/shorthand div, static/dynamic/boolean/conditional/"
                "@attributes/class attributes in one-line, multi-line and padded layouts with quoted names, text, interpolation with verbs, "
                "= and != scripts, if/else if/else, for, switch in shorthand and braced form, comments, ruby comments, all five filters, "
                "void and self-closing tags, whitespace marks, @render with and without blocks, @children) x 4 environments over adversarial "
                "strings, bools, ints, slices and maps; non-trivial = template using at least two construct kinds; distinct by template text+env")
    if br.go_ok and br.coq_ok:
        done = 0
        while done < nfiles:
            files = {}
            for i in range(min(per_batch, nfiles - done)):
                g = gen_tmpl.Gen(rng, prefix="F%d" % i)
                files["f%d" % i] = g.file()
            done += len(files)
            b = lrender.make_batch(files)
            try:
                lrender.report_build_problems(chk, b, files)
                recs = lrender.run_envs(b, files, lambda f, t: [gen_tmpl.gen_env(rng) for _ in range(4)])
            finally:
                b.close()
            nbad = 0
            for r in recs:
                t = next(t for t in r.file["templates"] if t["name"] == r.tname)
                kinds = gen_tmpl.uses(t["body"], None)
                chk.case(gen_tmpl.print_file(r.file) + r.tname + repr(r.env), nontrivial=len(kinds) >= 2)
                for k in kinds:
                    chk.count("uses:" + k)
                if r.status == "ok" and r.got == r.ideal:
                    chk.traces += 1
                    continue
                if lrender.lookalike_known(chk, r) or lrender.attrs_blank_known(chk, r):
                    continue
                nbad += 1
                if nbad <= 3:
                    chk.violation("oracle", "rendered HTML differs from the denotation (status %s)" % r.status,
                                  input_text=gen_tmpl.print_file(r.file), template=r.tname, env=r.env,
                                  expected=r.ideal.decode("utf-8", "replace"), got=r.got.decode("utf-8", "replace"))
            if len(chk.samples) < 2 and recs:
                r = recs[0]
                chk.samples.append({"template_file": gen_tmpl.print_file(r.file)[:500], "template": r.tname, "env": r.env,
                                    "rendered": r.got.decode("utf-8", "replace")[:300]})
            lrender.compile_correspondence(chk, files)
            # to how many of these templates does the fragment theorem (C01_fragment_test_sound) apply?
            for line in common.run_lines_parallel(common.DRIVER, ["infragment " + common.hx(gen_tmpl.print_file(f).encode("utf-8")) for f in files.values()]):
                if line.startswith("ok "):
                    k, n = line[3:].split("/")
                    chk.count("fragment:template bodies passing the executable test of the proved fragment", int(k))
                    chk.count("fragment:template bodies", int(n))
                else:
                    chk.count("fragment:files the model does not accept")
    tot = chk.distribution.get("fragment:template bodies", 0)
    if tot:
        chk.notes.append("the fragment theorem applies to %d of the %d generated template bodies (extracted test body_in_fragment, proved sound)"
                         % (chk.distribution.get("fragment:template bodies passing the executable test of the proved fragment", 0), tot))
    return chk.finish(level="proof", level_note=LEVEL_NOTE)


def replay(r):
    import random
    print(r.get("input_text"))
    print("env:", r.get("env"))
    print("expected:", r.get("expected"))
    print("got     :", r.get("got"))
    return 1
