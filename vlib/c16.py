"""C16 — position map is in-bounds and its two directions are mutually inverse.
   (also hosts the helpers shared with C07)"""
from . import common, lcompile, compilecmp, inputs
from .common import hx, unhx

LEVEL_NOTE = ("theorems are about Compiler/SrcMap.v (SourceMap.Add / lookups); the tables of the real compiler are checked entry by "
              "entry; columns are compared in bytes on ASCII lines, lines with non-ASCII text fall under known finding F15")


def is_ascii(b):
    return all(x < 128 for x in b)


def utf16_units(line):
    """the line as a list of UTF-16 code units (what LSP character offsets count)"""
    u = line.decode("utf-8", "replace").encode("utf-16-le")
    return [u[i:i + 2] for i in range(0, len(u), 2)]


FRAGMENT_TOKENS = {"Package", "Import", "GoCode", "GohtStart", "Script", "SilentScript", "DynamicText", "AttrDynamicValue", "ObjectRef", "RenderCommand"}


def fragment_tokens(c):
    """(kind, text, line, col) of every embedded Go fragment, from the real lexer's token stream; a fragment with a format verb
    is two fragments (verb and expression); a silent script is mapped without its surrounding blanks"""
    toks = common.run_lines(common.IMPLRUN, ["tokens " + hx(c)])[0]
    if toks == "unavailable":      # harness built without the export shims: the model's token stream (byte-exact with the lexer's)
        toks = common.run_lines(common.DRIVER, ["tokens " + hx(c)])[0]
    out = []
    for t in toks.split(";"):
        p = t.split(":")
        if len(p) != 4 or p[0] not in FRAGMENT_TOKENS:
            continue
        lit, line, col = unhx(p[1]), int(p[2]), int(p[3])
        if p[0] in ("DynamicText", "Script", "AttrDynamicValue") and lit.startswith(b"%") and b" " in lit and b"\n" not in lit:
            i = lit.index(b" ")
            if i >= 2 and len(lit) > i + 1:
                out.append((p[0] + "-verb", lit[:i], line, col))
                out.append((p[0] + "-expr", lit[i + 1:], line, col + i + 1))
                continue
        if p[0] == "SilentScript":
            lit = lit.rstrip(b" \t")
        if p[0] == "AttrDynamicValue" and b"," in lit:
            continue   # a class list: several expressions, mapped as one fragment only when it is the whole value
        out.append((p[0], lit, line, col))
    return out


def sm_corpus(chk, quick):
    rng = chk.rng
    gens = lcompile.generated_files(rng, 220 if quick else 5000)
    base = lcompile.valid_corpus(rng, 0) + [t for _, t in gens]
    # multi-line fragments, continuation lines, non-ASCII before/inside fragments
    base += [
        b"package x\n\nimport (\n\t\"fmt\"\n\tstr \"strings\"\n)\n\nvar a = 1\n\n@goht A(\n\ta string,\n\tb int,\n) {\n\t%p{a: #{foo(\n\t\ta)}, b: \"c\"} t #{a} #{%d b}\n\t- if b > 1\n\t\t= a\n\t- else if b < 0\n\t\t= str.ToUpper(a)\n\t%i[obj]{class: #{a, \"k\"}}\n\t= @render B()\n}\n",
        "package x\n@goht A(s string) {\n\t%p hé #{s} ☢ #{\"é\" + s} x\n\t%b{t: #{\"世\" + s}, u: #{s}}\n}\n".encode(),
        b"@goht A(s string) {\n\t%p\n\t\t= %s s\n\t\t= %d d\n\t\tx #{%v v} and #{%q s}\n\t%i{a: #{%s s}, b: #{%d d}} #{%s s}\n}\n",
        # witness of known finding F15 for C16: byte-counted entries of the first fragment run into the second
        "@goht A(s string) {\n\t%p t#{\"世界\"}#{s}\n}\n".encode(),
    ]
    return base


def check_tables(chk, c, ri, rm, want):
    """oracle on the real tables of one accepted file; [want] selects C16 and/or C07 predicates"""
    src_lines = c.split(b"\n")
    tgt_lines = unhx(ri.ctext).split(b"\n")
    txt = c.decode("utf-8", "replace")[:700]
    fails = []

    def known_nonascii(sl, tl):
        s_ok = 0 <= sl < len(src_lines) and is_ascii(src_lines[sl])
        t_ok = 0 <= tl < len(tgt_lines) and is_ascii(tgt_lines[tl])
        return not (s_ok and t_ok)

    if "c16" in want:
        for (sl, sc), (tl, tc) in ri.s2t.items():
            if not (0 <= sl < len(src_lines) and 0 <= sc <= len(src_lines[sl])):
                fails.append(("template position %d:%d is outside the template" % (sl, sc), False))
            if not (0 <= tl < len(tgt_lines) and 0 <= tc <= len(tgt_lines[tl])):
                fails.append(("generated position %d:%d (from template %d:%d) is outside the generated code" % (tl, tc, sl, sc), False))
            back = ri.t2s.get((tl, tc))
            if back != (sl, sc):
                fails.append(("template %d:%d -> generated %d:%d -> template %s: not inverse" % (sl, sc, tl, tc, back), known_nonascii(sl, tl)))
        for (tl, tc), (sl, sc) in ri.t2s.items():
            if not (0 <= sl < len(src_lines) and 0 <= sc <= len(src_lines[sl])):
                fails.append(("template position %d:%d (from generated %d:%d) is outside the template" % (sl, sc, tl, tc), False))
            fwd = ri.s2t.get((sl, sc))
            if fwd != (tl, tc):
                fails.append(("generated %d:%d -> template %d:%d -> generated %s: not inverse" % (tl, tc, sl, sc, fwd), known_nonascii(sl, tl)))
    # fragments = the fragment tokens of the real lexer (independent of the model)
    for kind, lit, line, col in fragment_tokens(c):
        for idx, ln in enumerate(lit.split(b"\n")):
            sl = line + idx - 1
            sc0 = col - 1 if idx == 0 else 0
            prev = None
            for k in range(len(ln) + 1):
                tgt = ri.s2t.get((sl, sc0 + k))
                if tgt is None:
                    if "c07" in want and k < len(ln) and is_ascii(ln):
                        fails.append(("position %d:%d of %s fragment %r is not covered by the map" % (sl, sc0 + k, kind, lit[:40]), False))
                    continue
                if "c16" in want and prev is not None and tgt[0] == prev[0] and tgt[1] <= prev[1]:
                    fails.append(("translation not strictly increasing inside fragment %r at %d:%d" % (lit[:40], sl, sc0 + k), known_nonascii(sl, tgt[0])))
                prev = tgt
                if "c07" in want and k < len(ln):
                    tl, tc = tgt
                    # protocol positions count UTF-16 code units on both sides
                    su = utf16_units(src_lines[sl]) if 0 <= sl < len(src_lines) else []
                    tu = utf16_units(tgt_lines[tl]) if 0 <= tl < len(tgt_lines) else []
                    ok = sc0 + k < len(su) and tc < len(tu) and su[sc0 + k] == tu[tc]
                    if not ok:
                        # known finding F15: the map counts bytes after a multi-byte rune inside the fragment
                        # (template side) or before the position on the generated line
                        inside = not is_ascii(ln)
                        before_t = 0 <= tl < len(tgt_lines) and not is_ascii(tgt_lines[tl][:tc + 1])
                        fails.append(("template %d:%d and generated %d:%d hold different characters (%s fragment %r)" % (sl, sc0 + k, tl, tc, kind, lit[:40]),
                                      inside or before_t))
    return fails, txt


def run(chk, want=("c16",), level_note=LEVEL_NOTE):
    br = common.build_all()
    chk.proof_step(br)
    quick = chk.tier == "quick"
    base = sm_corpus(chk, quick)
    chk.rule = ("repository templates, generated files and hand-written files with multi-line fragments, continuation lines and "
                "non-ASCII text; every entry of both tables of every accepted file is examined (exhaustive per file); "
                "non-trivial = accepted file with at least one mapped fragment; distinct by content")
    chk.exhaustive = False
    known_hit = False
    if br.go_ok and br.coq_ok:
        triples = lcompile.run_both(base)
        nfail = 0
        for c, ri, rm in triples:
            acc = ri.cls == "done" and ri.perr == "ok"
            chk.case(c.hex(), nontrivial=acc and bool(ri.s2t), sample=None)
            chk.count("accepted" if acc else "rejected")
            if not acc:
                continue
            chk.count("entries", len(ri.s2t))
            if "c16" in want and rm is not None and rm.cls == "done" and rm.unique == "overlap":
                # the hypothesis of the round-trip theorems does not hold for this file's entries
                src_lines = c.split(b"\n")
                mapped_nonascii = any(0 <= sl < len(src_lines) and any(b >= 0x80 for b in src_lines[sl]) for (sl, sc) in ri.s2t.keys())
                if mapped_nonascii:
                    # known finding F15: byte-counted entries of a fragment with a multi-byte rune run into the next fragment
                    known_hit = True
                    chk.count("known-F15-overlap")
                else:
                    chk.broke("proof", "C16_round_trip hypothesis keys_unique", "two insertions share a template or a generated position",
                              input_hex=hx(c), input_text=c.decode("utf-8", "replace")[:600])
            elif "c16" in want and rm is not None:
                chk.count("keys_unique-holds")
            fails, txt = check_tables(chk, c, ri, rm if not compilecmp.diff(rm, ri, ("s2t", "t2s", "ctext")) else None, want)
            for msg, known in fails[:50]:
                if known:
                    known_hit = True
                    chk.count("known-F15-entries")
                else:
                    nfail += 1
                    if nfail <= 3:
                        chk.violation("oracle", msg, input_hex=hx(c), input_text=txt)
        chk.samples = [{"file": c.decode("utf-8", "replace")[:200], "entries": len(ri.s2t)} for c, ri, rm in triples[-2:]]
        lcompile.correspondence(chk, triples, ("cls", "s2t", "t2s", "ctext"))
    if known_hit:
        for k in common.load_known():
            if k["property"] == chk.pid and k["status"] == "open" and k["id"] == "F15":
                chk.known_seen.append(k)
    return chk.finish(level="proof", level_note=level_note)


def replay(r, want=("c16",)):
    data = unhx(r["input_hex"])
    for c, ri, rm in lcompile.run_both([data]):
        class Dummy:
            pass
        fails, txt = check_tables(None, c, ri, rm, want)
        print(txt)
        for f in fails[:10]:
            print(f)
        return 1 if [f for f in fails if not f[1]] else 0
