"""L-COMPILE: run the real compiler and the extracted model on the same byte inputs."""
import random
from . import common, compilecmp, inputs, gen_tmpl


def run_both(cases, want_model=True):
    lines = ["compile " + common.hx(c) for c in cases]
    impl = common.run_lines_parallel(common.IMPLRUN, lines)
    ri = [compilecmp.parse_impl(x) for x in impl]
    rm = [None] * len(cases)
    if want_model:
        model = common.run_lines_parallel(common.DRIVER, lines)
        rm = [compilecmp.parse_model(x) for x in model]
    return list(zip(cases, ri, rm))


def run_both_chunks(cases, size=15000, want_model=True):
    """run_both over slices of the case list: the records of a slice (whole generated texts and tables, for the
    implementation and for the model) can be dropped before the next slice is run"""
    for i in range(0, len(cases), size):
        yield run_both(cases[i:i + size], want_model)


def tabify(data):
    """the repository's example templates use two-space indentation, which the compiler rejects;
    convert leading pairs of spaces to tabs so that they are accepted"""
    out = []
    for l in data.split(b"\n"):
        n = 0
        while l.startswith(b"  "):
            l = l[2:]
            n += 1
        out.append(b"\t" * n + l)
    return b"\n".join(out)


def generated_files(rng, n, with_prelude=True, **kw):
    """n generator-produced template files: (abstract file, text bytes)"""
    out = []
    for i in range(n):
        g = gen_tmpl.Gen(rng, **kw)
        f = g.file()
        out.append((f, gen_tmpl.print_file(f, with_prelude=with_prelude).encode("utf-8")))
    return out


def valid_corpus(rng, ngen):
    """valid (mostly accepted) inputs: repository templates, their tab-indented versions, generated files"""
    base = []
    for name, data in inputs.repo_templates():
        base.append(data)
        t = tabify(data)
        if t != data:
            base.append(t)
    base += [t for _, t in generated_files(rng, ngen)]
    return base


def neighbours(rng, base, tier, budget):
    """prefixes, single-byte deletions and structural-token insertions of each valid file; the step
    is chosen so that about [budget] cases result (step 1 = exhaustive)"""
    total = sum(len(b) for b in base) * 3 + 1
    step = max(1, total // budget)
    cases = []
    for b in base:
        off = rng.randrange(step)
        cases += [b[:i] for i in range(off, len(b) + 1, step)]
        cases += [b[:i] + b[i + 1:] for i in range(off, len(b), step)]
        for i in range(off, len(b) + 1, step):
            cases.append(b[:i] + rng.choice(inputs.STRUCT_TOKENS) + b[i:])
    return cases, step


def correspondence(chk, triples, fields, layer="L-COMPILE"):
    """record model/implementation disagreements on the given projection"""
    n = 0
    for c, ri, rm in triples:
        if rm is None:
            continue
        d = compilecmp.diff(rm, ri, fields)
        if d:
            n += 1
            chk.corr_reported = getattr(chk, "corr_reported", 0) + 1
            if chk.corr_reported <= 3:
                chk.broke("correspondence", layer, "model and implementation disagree on " + ",".join(d),
                          input_hex=common.hx(c), input_text=c.decode("utf-8", "replace")[:400],
                          impl={f: str(getattr(ri, f, None))[:300] for f in d},
                          model={f: str(getattr(rm, f, None))[:300] for f in d})
        else:
            chk.traces += 1
    return n
