"""C10 — malformed templates are rejected with a located error, never mis-compiled."""
import copy
from . import common, lcompile, compilecmp, gen_tmpl, inputs
from .common import hx, unhx

LEVEL_NOTE = ("rejection and error position are observed on the real compiler for one fault operator per documented rule injected "
              "into generated valid templates, and for every error the compiler reports on the byte-level corpus; the CLI path "
              "(ParseFile+Generate, what `goht generate` runs before writing) must fail for each")

# one operator per rule of the property: lines inserted as a new sibling inside a random block
FAULTS = {
    "inline-and-nested": ["%p inline text", "\t%b nested"],
    "inline-script-and-nested": ["%p= E.S[0]", "\t%b nested"],
    "content-under-void-tag": ["%br", "\t%b nested"],
    "content-under-self-closed-tag": ["%custom/", "\t%b nested"],
    "content-under-one-line-comment": ["/ a comment", "\t%b nested"],
    "content-after-slash": ["%br/ text"],
    "unknown-filter": [":nosuchfilter", "\tbody"],
    "unknown-attribute-command": ["%p{@nosuch: #{E.M}} x"],
    "unknown-at-command": ["= @nosuch T0(E)"],
    "children-with-arguments": ["= @children E"],
    "render-without-arguments": ["= @render"],
    "conditional-attribute-without-dynamic-value": ['%p{hidden ? "yes"} x'],
    "attribute-value-not-a-string-literal": ['%p{title: "\\q"} x'],
    "class-value-not-a-string-literal": ['%p{class: "a\\qb"} x'],
    "unterminated-attribute-list": ['%p{a: "b", c: #{E.S[0]}'],
    "unterminated-interpolation": ["%p text #{E.S[0]"],
    "unterminated-attribute-interpolation": ["%p{a: #{E.S[0]} x"],
    "unterminated-object-reference": ["%p[E.O0 x"],
    "deeper-with-spaces": ["%div", " %p x"],
    "deeper-with-spaces-and-tab": ["%div", "\t %p x"],
    "deeper-with-leading-space-then-tabs": ["%div", "\x01\t%p x"],
    "deeper-by-two-levels": ["%div", "\t\t%p x"],
    "deeper-by-three-levels": ["%div", "\t\t\t%p x"],
    # known findings F41 / F40 (accepted today; the operators stay so that a repair, or a different wrong outcome, is seen)
    "inline-children-command-and-nested": ["%p= @children", "\t%b nested"],
    "void-tag-with-inline-children-command-and-nested": ["%br= @children", "\t%b nested"],
    "deeper-by-two-levels-after-whitespace-only-line": ["%div", "\t", "\t\t%p x"],
}

# fault operator -> known finding under which its acceptance is listed (known_findings.json, property C10)
KNOWN_ACCEPTED = {
    "unterminated-attribute-list": "F36",
    "inline-children-command-and-nested": "F41",
    "void-tag-with-inline-children-command-and-nested": "F41",
    "deeper-by-two-levels-after-whitespace-only-line": "F40",
}


def inject(f, rng, fault):
    """a copy of file f with the fault inserted into a random block of a random template"""
    f2 = copy.deepcopy_safe(f) if hasattr(copy, "deepcopy_safe") else None
    return f2


def clone_nodes(nodes):
    out = []
    for n in nodes:
        k = n[0]
        if k == "el":
            out.append(("el", n[1], n[2], clone_nodes(n[3]) if n[3] else n[3]))
        elif k == "if":
            out.append(("if", n[1], clone_nodes(n[2]), [(c, clone_nodes(b)) for c, b in n[3]], clone_nodes(n[4]) if n[4] is not None else None, n[5]))
        elif k == "for":
            out.append(("for", n[1], n[2], clone_nodes(n[3]), n[4]))
        elif k == "switch":
            out.append(("switch", n[1], [(c, clone_nodes(b)) for c, b in n[2]], clone_nodes(n[3]) if n[3] is not None else None))
        elif k == "comment" and n[2]:
            out.append(("comment", n[1], clone_nodes(n[2])))
        elif k == "render" and n[2]:
            out.append(("render", n[1], clone_nodes(n[2])))
        else:
            out.append(n)
    return out


def faulty_variants(f, rng, per_op):
    out = []
    for name, lines in FAULTS.items():
        for _ in range(per_op):
            ti = rng.randrange(len(f["templates"]))
            f2 = dict(f, templates=[dict(t, body=clone_nodes(t["body"])) for t in f["templates"]])
            blocks = gen_tmpl.blocks_of(f2["templates"][ti]["body"])
            b = rng.choice(blocks)
            pos = rng.randint(0, len(b))
            # a fault that needs following lines to stay its own must not be glued to a following deeper line: siblings only
            b.insert(pos, ("raw", lines))
            out.append((name, gen_tmpl.print_file(f2, with_prelude=True).encode()))
    text = gen_tmpl.print_file(f, with_prelude=True)
    lines = text.split("\n")
    # first line of a template body not indented / deeper than one level
    starts = [i for i, l in enumerate(lines) if l.startswith("@goht ")]
    for s in starts[:per_op + 1]:
        l2 = list(lines)
        l2[s + 1] = l2[s + 1].lstrip("\t")
        out.append(("first-line-not-indented", "\n".join(l2).encode()))
        l3 = list(lines)
        l3[s + 1] = "\t" + l3[s + 1]
        out.append(("first-line-two-levels", "\n".join(l3).encode()))
        l4 = list(lines)
        l4[s + 1] = " " + l4[s + 1].lstrip("\t")
        out.append(("first-line-indented-with-space", "\n".join(l4).encode()))
    # unterminated template body: the file ends before the closing brace of the last template
    end = max(i for i, l in enumerate(lines) if l == "}")
    out.append(("unterminated-template-body", "\n".join(lines[:end]).encode() + b"\n"))
    out.append(("unterminated-template-body-no-newline", "\n".join(lines[:end]).encode()))
    return out


def located(c, perr):
    """None if the error names a line and column inside the file, else a description"""
    e = compilecmp.perr_pos(perr)
    if e is None:
        return None
    if e[0] != "pos":
        return "the error carries no position: %r" % e[3][:120]
    lines = c.split(b"\n")
    line, col = e[1], e[2]
    if not (1 <= line <= len(lines)):
        return "error line %d is outside the file (%d lines): %r" % (line, len(lines), e[3][:120])
    if not (1 <= col <= len(lines[line - 1]) + 1):
        return "error column %d is outside line %d (length %d): %r" % (col, line, len(lines[line - 1]), e[3][:120])
    return None


def run(chk):
    br = common.build_all()
    chk.proof_step(br)
    quick = chk.tier == "quick"
    rng = chk.rng
    gens = lcompile.generated_files(rng, 60 if quick else 1500)
    chk.rule = ("%d fault operators (one or more per documented rule) inserted as a sibling at a random position of a random block of "
                "generated valid templates, plus first-line and end-of-file faults; and every error reported on prefixes / deletions / "
                "insertions / random bytes; non-trivial = a fault variant or an input the compiler rejects; distinct by content" % (len(FAULTS) + 5))
    if br.go_ok and br.coq_ok:
        variants = []
        for f, _ in gens:
            variants += faulty_variants(f, rng, 1 if quick else 3)
        cases = [v for _, v in variants]
        first = None
        for lo in range(0, len(cases), 15000):
            part = variants[lo:lo + 15000]
            triples = lcompile.run_both([v for _, v in part])
            cli = common.run_lines_parallel(common.IMPLRUN, ["clipath " + hx(c) for _, c in part])
            for (name, _), (c, ri, rm), cl in zip(part, triples, cli):
                chk.case(c.hex())
                chk.count("fault:" + name)
                txt = c.decode("utf-8", "replace")[:900]
                if ri.cls != "done":
                    chk.violation("oracle", "fault %s: the compiler did not return (%s)" % (name, ri.cls), input_hex=hx(c), input_text=txt, fault=name)
                    continue
                if ri.perr == "ok" and name in KNOWN_ACCEPTED and any(
                        kf["property"] == "C10" and kf["id"] == KNOWN_ACCEPTED[name] and kf["status"] == "open" for kf in common.load_known()):
                    # known findings: F36 a later '}' (the end of the template) closes the open list; F41 an inline `= @children` does not
                    # count as inline content; F40 a white-space-only line sets the indentation level
                    for kf in common.load_known():
                        if kf["property"] == "C10" and kf["id"] == KNOWN_ACCEPTED[name] and kf["status"] == "open" and kf not in chk.known_seen:
                            chk.known_seen.append(kf)
                    chk.count("known-" + KNOWN_ACCEPTED[name])
                    continue
                if ri.perr == "ok":
                    chk.violation("oracle", "fault %s is accepted (mis-compiled) instead of being refused" % name, input_hex=hx(c), input_text=txt, fault=name)
                    continue
                why = located(c, ri.perr)
                if why:
                    chk.violation("oracle", "fault %s: %s" % (name, why), input_hex=hx(c), input_text=txt, fault=name)
                if not cl.startswith("err"):
                    chk.violation("oracle", "fault %s: the command-line path emits Go code for a refused template" % name, input_hex=hx(c), input_text=txt, fault=name)
            if first is None:
                first = [{"fault": n, "error": (compilecmp.perr_pos(ri.perr) or ("none",))[-1].decode("utf-8", "replace")[:100] if ri.cls == "done" and ri.perr != "ok" else ri.cls}
                         for (n, _), (c, ri, rm) in list(zip(part, triples))[:6]]
            lcompile.correspondence(chk, triples, ("cls", "perr"))
            del triples, cli
        chk.samples = first or []
        # every error the compiler reports anywhere must be located
        base = lcompile.valid_corpus(rng, 10 if quick else 100)
        more, step = lcompile.neighbours(rng, base, chk.tier, 9000 if quick else 200000)
        more += inputs.random_bytes(rng, 1500 if quick else 30000)
        nbad = 0
        for t2 in lcompile.run_both_chunks(more):
            for c, ri, rm in t2:
                rej = ri.cls == "done" and ri.perr != "ok"
                chk.case(c.hex(), nontrivial=rej)
                chk.count("rejected" if rej else "accepted")
                if rej:
                    why = located(c, ri.perr)
                    if why:
                        nbad += 1
                        if nbad <= 3:
                            chk.violation("oracle", why, input_hex=hx(c), input_text=c.decode("utf-8", "replace")[:600])
            lcompile.correspondence(chk, t2, ("cls", "perr"))
            del t2
    def search():
        # the model is the proved reference: an input it refuses and the implementation compiles is a failing input
        for b in chk.broken:
            if b.get("kind") == "correspondence" and "input_hex" in b:
                c = unhx(b["input_hex"])
                for _, ri, rm in lcompile.run_both([c]):
                    if ri.cls == "done" and rm.cls == "done" and ri.perr == "ok" and rm.perr != "ok":
                        return dict(kind="oracle", detail="accepted by the compiler although refused by the reference model: %r" % (compilecmp.perr_pos(rm.perr),),
                                    input_hex=hx(c), input_text=c.decode("utf-8", "replace")[:900])
                    if ri.cls == "done" and ri.perr != "ok" and located(c, ri.perr):
                        return dict(kind="oracle", detail=located(c, ri.perr), input_hex=hx(c))
        return None

    return chk.finish(level="proof", level_note=LEVEL_NOTE, search_fn=search)


def replay(r):
    data = unhx(r["input_hex"])
    for c, ri, rm in lcompile.run_both([data]):
        print(data.decode("utf-8", "replace"))
        print("impl :", ri.cls, compilecmp.perr_pos(ri.perr) if ri.cls == "done" else "")
        print("model:", rm.cls, compilecmp.perr_pos(rm.perr) if rm.cls == "done" else "")
        cl = common.run_lines(common.IMPLRUN, ["clipath " + hx(data)])[0]
        print("cli  :", cl[:60])
        bad = ri.cls != "done" or ri.perr == "ok" or located(c, ri.perr) or not cl.startswith("err")
        return 1 if bad else 0
