"""L-PROXY: histories of LSP events driven through the real proxy (ov_proxyrun) with recording fakes."""
import json, os, subprocess
from . import common, lcompile, compilecmp
from .common import hx, unhx

PROXYRUN = os.path.join(common.BIN, "ov_proxyrun")

U1, U2, UP = "file:///w/a.goht", "file:///w/sub/b.goht", "file:///w/plain.go"

VALID = [
    "package x\n\n@goht A(s string, n int) {\n\t%p.c{title: #{s}} hello #{s}\n\t- if n > 1\n\t\t= s\n\t%i= %d n\n}\n",
    "package x\n\nimport \"strings\"\n\nvar up = strings.ToUpper\n\n@goht B(items []string) {\n\t%ul\n\t\t- for _, it := range items\n\t\t\t%li= up(it)\n}\n",
    "package y\n@goht C() {\n\t%p text\n}\n",
    "package x\n\n@goht (r *R) D(v string) {\n\t= @render r.E(v)\n\t\t%b= v\n}\n\n@goht (r *R) E(v string) {\n\t.box{a: #{v}}\n\t\t= @children\n}\n",
]
# the same generated code from a different template text: positions shift, code does not
SHIFTED = VALID[0].replace("@goht A(s string, n int) {\n", "@goht A(s string, n int) {\n\t-# a comment line that generates nothing\n")

INVALID = [
    "package x\n\n@goht A(s string) {\n\t%p{class: \"\\q\"} not a string literal\n}\n",
    "package x\n\n@goht A(s string) {\n  %p two spaces\n}\n",
    "package x\n\n@goht A(s string) {\n\t%p{a: #{s}\n",
    "package x\n\n@goht A(s string) {\n\t%p #{s\n}\n",
    "package x\n\n@goht A(s string) {\n\t:nosuch\n}\n",
    "package x\n\n@goht A(s string",
    "",
    "package\n",
    "package x\n\n@goht A(s string) {\n\t%p= s\n\t\t\t%b deep\n}\n",
]


class Compiled:
    __slots__ = ("text", "gen", "s2t", "t2s", "perr", "ok")


_cache = {}


def compile_all(texts):
    """real compiler results (fresh ParseString + Compose) for buffer contents"""
    todo = [t for t in set(texts) if t not in _cache]
    if todo:
        for (c, ri, _), t in zip(lcompile.run_both([t.encode("utf-8") for t in todo], want_model=False), todo):
            r = Compiled()
            r.text = t
            r.ok = ri.cls == "done"
            r.gen = unhx(ri.ctext).decode("utf-8", "surrogateescape") if r.ok else None
            r.s2t, r.t2s = (ri.s2t, ri.t2s) if r.ok else ({}, {})
            r.perr = compilecmp.perr_pos(ri.perr) if r.ok else None
            _cache[t] = r
    return {t: _cache[t] for t in texts}


def run_histories(histories, timeout=900):
    lines = [json.dumps(h, ensure_ascii=False, separators=(",", ":")) for h in histories]
    p = subprocess.run([PROXYRUN], input="\n".join(lines) + "\n", stdout=subprocess.PIPE, stderr=subprocess.PIPE, text=True, timeout=timeout)
    out = [l for l in p.stdout.split("\n") if l]
    if len(out) != len(lines):
        raise RuntimeError("proxyrun: %d histories, %d traces (rc=%s) %s" % (len(lines), len(out), p.returncode, p.stderr[-1500:]))
    return [json.loads(l) for l in out]


def is_tmpl(uri):
    return uri.endswith(".goht")


def mapped_positions(c, rng, k):
    keys = sorted(c.s2t)
    rng.shuffle(keys)
    return keys[:k]


def unmapped_positions(c, rng, k):
    out = []
    lines = c.text.split("\n")
    for _ in range(50):
        l = rng.randint(0, max(0, len(lines)))
        ch = rng.randint(0, 30)
        if (l, ch) not in c.s2t and (l, ch) not in out:
            out.append((l, ch))
        if len(out) >= k:
            break
    return out


# ---------------------------------------------------------------- correspondence with the Coq proxy model
import hashlib


def _md5(s):
    if isinstance(s, str):
        s = s.encode("utf-8", "surrogateescape")
    return hashlib.md5(s).hexdigest()


def _locs(ls):
    return "/".join("%s:%d:%d:%d:%d" % (hx(l.get("uri", "")), l["sl"], l["sc"], l["el"], l["ec"]) for l in ls)


def encode_event(e):
    """the event(s) of the model's line protocol for one harness event"""
    op = e["op"]
    if op == "open":
        return ["O,%s,%s,%d,%s" % (hx(e["uri"]), hx(e.get("lang", "goht")), e["version"], hx(e.get("text", "")))]
    if op == "change":
        if "during" in e:
            d = encode_event(e["during"])
            if e.get("at", 1) == 1:
                return ["C1,%s,%d,%s" % (hx(e["uri"]), e["version"], hx(e.get("text", "")))] + d + ["C2,%s,%d" % (hx(e["uri"]), e["version"])]
            return ["C,%s,%d,%s" % (hx(e["uri"]), e["version"], hx(e.get("text", "")))] + d
        return ["C,%s,%d,%s" % (hx(e["uri"]), e["version"], hx(e.get("text", "")))]
    if op == "close":
        return ["X," + hx(e["uri"])]
    if op == "save":
        return ["S,%s,%s" % (hx(e["uri"]), hx(e["text"]) if e.get("text") is not None else "-")]
    if op == "req":
        ans = "-" if e.get("nil_answer") else _locs(e.get("answer", []))
        return ["R,%s,%s,%d,%d,%s" % (e["method"], hx(e["uri"]), e["line"], e["char"], ans)]
    if op == "diag":
        return ["D,%s,%s" % (hx(e["uri"]), "/".join("%d:%d:%d:%d:%s" % (d["sl"], d["sc"], d["el"], d["ec"], hx(d["msg"])) for d in e["diags"]))]
    if op == "msg":
        return ["M," + hx(e["text"])]
    raise ValueError(op)


def _item(i, method=None):
    k = i["k"]
    if k == "ds":
        m = i["m"]
        if m == "didOpen":
            return "ds.didOpen.%s.%s.%d.%s" % (hx(i["uri"]), hx(i.get("lang", "")), i.get("ver", 0), _md5(i.get("text", "")))
        if m == "didChange":
            return "ds.didChange.%s.%d.%s" % (hx(i["uri"]), i.get("ver", 0), _md5(i.get("text", "")))
        if m == "didClose":
            return "ds.didClose." + hx(i["uri"])
        if m == "didSave":
            return "ds.didSave.%s.%s" % (hx(i["uri"]), "-" if i.get("nil") else _md5(i.get("text", "")))
        return "ds.%s.%s.%d:%d" % (m, hx(i["uri"]), i.get("line", 0), i.get("char", 0))
    if k == "cl":
        if i["m"] == "publishDiagnostics":
            return "cl.diag.%s.%s" % (hx(i["uri"]), "/".join("%d:%d:%d:%d:%s:%s" % (d["sl"], d["sc"], d["el"], d["ec"], "g" if d.get("src") == "goht" else "c", _md5(d["msg"]))
                                                              for d in i.get("diags") or []))
        return "cl.msg." + _md5(i.get("text", ""))
    # reply
    if i.get("panic"):
        return "r.panic."
    r = "r.err." if i.get("err") else "r.ok."
    locs = [l for l in (i.get("locs") or []) if not l.get("uri", "").startswith("rename:")]
    if method == "codeAction" and not i.get("err") and not i.get("nil"):
        return r + _locs(locs) + "#" + "/".join("%d:%d:%d:%d" % (d["sl"], d["sc"], d["el"], d["ec"]) for d in i.get("diags") or [])
    if method in ("signatureHelp", "moniker"):
        return r
    return r + _locs(locs)


def canon_impl(h, tr):
    """the real proxy's trace in the model's canonical form (one string per model event)"""
    out = []
    for e, items in zip(h, tr):
        method = e.get("method")
        if e["op"] == "change" and "during" in e:
            main = [i for i in items if not (i["k"] == "ret" and i.get("m") == "during")]
            idx = next((n for n, i in enumerate(items) if i["k"] == "ret" and i.get("m") == "during"), None)
            during_ret = items[idx] if idx is not None else None
            if during_ret is None:
                out.append("+".join(_item(i) for i in items))
                continue
            # items recorded before the nested event started belong to part 1; the nested event's own items follow
            at = e.get("at", 1)
            before = items[:at]                       # the first [at] outgoing calls of the change
            nested = items[at:idx]                    # what the nested delivery produced
            after = items[idx + 1:]
            dret = dict(during_ret)
            dret.pop("m", None)
            if at == 1:
                out.append("+".join([_item(i) for i in before] + ["r.ok."]))
                out.append("+".join([_item(i) for i in nested] + [_item(dret)]))
                out.append("+".join(_item(i) for i in after))
            else:
                out.append("+".join([_item(i) for i in before] + [_item(after[-1])]))
                out.append("+".join([_item(i) for i in nested] + [_item(dret)]))
            continue
        out.append("+".join(_item(i, method) for i in items))
    return "|".join(out)


def model_traces(histories):
    lines = ["proxy " + ";".join(x for e in h for x in encode_event(e)) for h in histories]
    return common.run_lines_parallel(common.DRIVER, lines)


def correspondence(chk, histories, traces, layer="L-PROXY"):
    n = 0
    for h, tr, m in zip(histories, traces, model_traces(histories)):
        c = canon_impl(h, tr)
        if c != m:
            n += 1
            if n <= 3:
                ci, cm = c.split("|"), m.split("|")
                k = next((i for i, (a, b) in enumerate(zip(ci, cm)) if a != b), min(len(ci), len(cm)))
                chk.broke("correspondence", layer, "the proxy model and the real proxy disagree at event %d" % k, history=h,
                          impl=ci[k:k + 1], model=cm[k:k + 1])
        else:
            chk.traces += 1
    return n
