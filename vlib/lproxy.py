"""L-PROXY: histories of LSP events driven through the real proxy (ov_proxyrun) with recording fakes."""
import json, os, subprocess
from . import common, lcompile, compilecmp
from .common import hx, unhx

PROXYRUN = os.path.join(common.BIN, "ov_proxyrun")

U1, U2, UP = "file:///w/a.goht", "file:///w/sub/b.goht", "file:///w/plain.go"

VALID = [
    "package x\n\n@goht A(s string, n int) {\n\t%p.c{title: #{s}} hello #{s}\n\t- if n > 1\n\t\t= s\n\t%i= %d n\n}\n",
    "package x\n\nimport \"strings\"\n\nvar up = strings.ToUpper\n\n@goht B(items []string) {\n\t%ul\n\t\t- for _, it := range items\n\t\t\t%li= up(it)\n}\n",
    "package y\n@goht C() {\n\t%p text\n}\n",
    "package x\n\n@goht (r *R) D(v string) {\n\t= @render r.E(v)\n\t\t%b= v\n}\n\n@goht (r *R) E(v string) {\n\t.box{a: #{v}}\n\t\t= @children\n}\n",
]
# the same generated code from a different template text: positions shift, code does not
SHIFTED = VALID[0].replace("@goht A(s string, n int) {\n", "@goht A(s string, n int) {\n\t-# a comment line that generates nothing\n")

INVALID = [
    "package x\n\n@goht A(s string) {\n\t%p{class: \"\\q\"} not a string literal\n}\n",
    "package x\n\n@goht A(s string) {\n  %p two spaces\n}\n",
    "package x\n\n@goht A(s string) {\n\t%p{a: #{s}\n",
    "package x\n\n@goht A(s string) {\n\t%p #{s\n}\n",
    "package x\n\n@goht A(s string) {\n\t:nosuch\n}\n",
    "package x\n\n@goht A(s string",
    "",
    "package\n",
    "package x\n\n@goht A(s string) {\n\t%p= s\n\t\t\t%b deep\n}\n",
]


class Compiled:
    __slots__ = ("text", "gen", "s2t", "t2s", "perr", "ok")


_cache = {}


def compile_all(texts):
    """real compiler results (fresh ParseString + Compose) for buffer contents"""
    todo = [t for t in set(texts) if t not in _cache]
    if todo:
        for (c, ri, _), t in zip(lcompile.run_both([t.encode("utf-8") for t in todo], want_model=False), todo):
            r = Compiled()
            r.text = t
            r.ok = ri.cls == "done"
            r.gen = unhx(ri.ctext).decode("utf-8", "surrogateescape") if r.ok else None
            r.s2t, r.t2s = (ri.s2t, ri.t2s) if r.ok else ({}, {})
            r.perr = compilecmp.perr_pos(ri.perr) if r.ok else None
            _cache[t] = r
    return {t: _cache[t] for t in texts}


def run_histories(histories, timeout=900):
    lines = [json.dumps(h, ensure_ascii=False, separators=(",", ":")) for h in histories]
    p = subprocess.run([PROXYRUN], input="\n".join(lines) + "\n", stdout=subprocess.PIPE, stderr=subprocess.PIPE, text=True, timeout=timeout)
    out = [l for l in p.stdout.split("\n") if l]
    if len(out) != len(lines):
        raise RuntimeError("proxyrun: %d histories, %d traces (rc=%s) %s" % (len(lines), len(out), p.returncode, p.stderr[-1500:]))
    return [json.loads(l) for l in out]


def is_tmpl(uri):
    return uri.endswith(".goht")


def mapped_positions(c, rng, k):
    keys = sorted(c.s2t)
    rng.shuffle(keys)
    return keys[:k]


def unmapped_positions(c, rng, k):
    out = []
    lines = c.text.split("\n")
    for _ in range(50):
        l = rng.randint(0, max(0, len(lines)))
        ch = rng.randint(0, 30)
        if (l, ch) not in c.s2t and (l, ch) not in out:
            out.append((l, ch))
        if len(out) >= k:
            break
    return out
