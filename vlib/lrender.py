"""L-RENDER runs shared by the render-level checks: generated files -> real compiler -> go build ->
render for environments -> compare with the denotation."""
from . import common, gen_tmpl, render, lcompile, compilecmp

OBJS = [{"id": "7", "class": "user"}, {"id": "a<b\"c"}, {"class": "k&l"}]


class Rec:
    __slots__ = ("fkey", "file", "tname", "env", "status", "writes", "ideal", "inband", "raw", "got", "f38", "built", "built_inband", "built_raw")


def make_batch(files, race=False):
    """files: dict key -> abstract file.  returns the built batch"""
    b = render.Batch(race=race)
    for k, f in files.items():
        b.add(k, gen_tmpl.print_file(f), [t["name"] for t in f["templates"]])
    b.build()
    return b


def run_envs(b, files, envs_for, mode="buf", objs=OBJS, as_built=False):
    """render every template of every built file for the environments envs_for(file, template).
    as_built: compare with the document as the code builds it today with respect to known finding F38 (for the checks whose
    property is not about attribute text; the finding is recorded under C01 and C02)"""
    cases = []
    for k, f in files.items():
        if k in b.rejected or k in b.build_errors:
            continue
        d = (gen_tmpl.Denote(f, objs), gen_tmpl.Denote(f, objs, attr_space=False))
        for t in f["templates"]:
            for env in envs_for(f, t):
                cases.append((k, f, t["name"], env, d))
    lines = ["render %s %s %s" % (n, mode, render.env_json(env, objs)) for k, f, n, env, d in cases]
    res = b.run(lines)
    out = []
    for (k, f, n, env, d), r in zip(cases, res):
        if r == "notrun":
            continue
        rec = Rec()
        rec.fkey, rec.file, rec.tname, rec.env = k, f, n, env
        rec.status, rec.writes = render.parse_render(r)
        rec.got = b"".join(rec.writes)
        rec.raw = d[0].raw(n, env)
        rec.built_raw = d[1].raw(n, env)
        rec.f38 = rec.raw != rec.built_raw
        rec.built = gen_tmpl.ideal_nuke(rec.built_raw).encode("utf-8")
        rec.built_inband = gen_tmpl.inband_nuke(rec.built_raw).encode("utf-8")
        if as_built:
            rec.raw = rec.built_raw
        rec.ideal = gen_tmpl.ideal_nuke(rec.raw).encode("utf-8")
        rec.inband = gen_tmpl.inband_nuke(rec.raw).encode("utf-8")
        out.append(rec)
    return out


def report_build_problems(chk, b, files, what="generated template"):
    """a generated valid template that the compiler refuses, or whose code does not build, violates C01/C03"""
    n = 0
    for k, r in b.rejected.items():
        n += 1
        if n <= 3:
            chk.violation("oracle", "the compiler refuses a well-formed %s: %s" % (what, r[:200]), input_text=gen_tmpl.print_file(files[k]))
    for k, msg in b.build_errors.items():
        n += 1
        if n <= 3:
            chk.violation("oracle", "generated Go code does not compile: " + msg[:400], input_text=gen_tmpl.print_file(files[k]))
    return n


def lookalike_known(chk, rec):
    """known findings F04/F05: a marker look-alike formed from a dynamic value or literal text"""
    if rec.status == "ok" and rec.got == rec.inband and rec.got != rec.ideal and gen_tmpl.lookalike_formed(rec.raw):
        for k in common.load_known():
            if k["property"] == chk.pid and k["id"] in ("F04",) and k["status"] == "open" and k not in chk.known_seen:
                chk.known_seen.append(k)
        chk.count("known-F04-lookalike")
        return True
    return False


def attrs_blank_known(chk, rec):
    """known finding F38: the only difference from the denotation is the missing blank before a non-empty @attributes list"""
    if rec.status == "ok" and rec.f38 and rec.got != rec.ideal and (
            rec.got == rec.built or (rec.got == rec.built_inband and gen_tmpl.lookalike_formed(rec.built_raw))):
        listed = False
        for k in common.load_known():
            if k["property"] == chk.pid and k["id"] == "F38" and k["status"] == "open":
                listed = True
                if k not in chk.known_seen:
                    chk.known_seen.append(k)
        if listed:
            chk.count("known-F38-attributes-blank")
            if rec.got != rec.built:
                chk.count("known-F04-lookalike")
            return True
    return False


def compile_correspondence(chk, files, fields=("cls", "perr", "tree", "gtext", "gerr")):
    texts = [gen_tmpl.print_file(f).encode("utf-8") for f in files.values()]
    triples = lcompile.run_both(texts)
    lcompile.correspondence(chk, triples, fields)
    return triples
