"""L-RENDER runs shared by the render-level checks: generated files -> real compiler -> go build ->
render for environments -> compare with the denotation."""
from . import common, gen_tmpl, render, lcompile, compilecmp

OBJS = [{"id": "7", "class": "user"}, {"id": "a<b\"c"}, {"class": "k&l"}]


class Rec:
    __slots__ = ("fkey", "file", "tname", "env", "status", "writes", "ideal", "inband", "raw", "got")


def make_batch(files, race=False):
    """files: dict key -> abstract file.  returns the built batch"""
    b = render.Batch(race=race)
    for k, f in files.items():
        b.add(k, gen_tmpl.print_file(f), [t["name"] for t in f["templates"]])
    b.build()
    return b


def run_envs(b, files, envs_for, mode="buf", objs=OBJS):
    """render every template of every built file for the environments envs_for(file, template)"""
    cases = []
    for k, f in files.items():
        if k in b.rejected or k in b.build_errors:
            continue
        d = gen_tmpl.Denote(f, objs)
        for t in f["templates"]:
            for env in envs_for(f, t):
                cases.append((k, f, t["name"], env, d))
    lines = ["render %s %s %s" % (n, mode, render.env_json(env, objs)) for k, f, n, env, d in cases]
    res = b.run(lines)
    out = []
    for (k, f, n, env, d), r in zip(cases, res):
        rec = Rec()
        rec.fkey, rec.file, rec.tname, rec.env = k, f, n, env
        rec.status, rec.writes = render.parse_render(r)
        rec.got = b"".join(rec.writes)
        rec.raw = d.raw(n, env)
        rec.ideal = gen_tmpl.ideal_nuke(rec.raw).encode("utf-8")
        rec.inband = gen_tmpl.inband_nuke(rec.raw).encode("utf-8")
        out.append(rec)
    return out


def report_build_problems(chk, b, files, what="generated template"):
    """a generated valid template that the compiler refuses, or whose code does not build, violates C01/C03"""
    n = 0
    for k, r in b.rejected.items():
        n += 1
        if n <= 3:
            chk.violation("oracle", "the compiler refuses a well-formed %s: %s" % (what, r[:200]), input_text=gen_tmpl.print_file(files[k]))
    for k, msg in b.build_errors.items():
        n += 1
        if n <= 3:
            chk.violation("oracle", "generated Go code does not compile: " + msg[:400], input_text=gen_tmpl.print_file(files[k]))
    return n


def lookalike_known(chk, rec):
    """known findings F04/F05: a marker look-alike formed from a dynamic value or literal text"""
    if rec.status == "ok" and rec.got == rec.inband and rec.got != rec.ideal and gen_tmpl.lookalike_formed(rec.raw):
        for k in common.load_known():
            if k["property"] == chk.pid and k["id"] in ("F04",) and k["status"] == "open" and k not in chk.known_seen:
                chk.known_seen.append(k)
        chk.count("known-F04-lookalike")
        return True
    return False


def compile_correspondence(chk, files, fields=("cls", "perr", "tree", "gtext", "gerr")):
    texts = [gen_tmpl.print_file(f).encode("utf-8") for f in files.values()]
    triples = lcompile.run_both(texts)
    lcompile.correspondence(chk, triples, fields)
    return triples
