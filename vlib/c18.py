"""C18 — `goht generate` writes exactly the up-to-date outputs and touches nothing else."""
import hashlib, json, os, shutil, subprocess, tempfile
from . import common
from .common import hx, unhx

LEVEL_NOTE = ("the real goht binary (built from /repo) is run on scratch directory trees; the expected tree is recomputed from the rules of the "
              "property with the real compiler (ParseFile+Generate) and gofmt as references; file-system races with other processes, --watch "
              "and signals are outside; worker scheduling is sampled with --max-workers 1, 2 and 16")

T_OK = ["package t\n\n@goht A() {\n\t%p one\n}\n", "package t\n\n@goht B(s string) {\n\t%p= s\n\t- if s != \"\"\n\t\t%b yes\n}\n",
        "package t\n\nimport \"strings\"\n\nvar up = strings.ToUpper\n\n@goht C(s string) {\n\t.c{a: #{up(s)}} x\n}\n"]
T_BAD = ["package t\n\n@goht A() {\n  %p spaces\n}\n", "package t\n\n@goht A() {\n\t%p #{unclosed\n}\n"]
T_BADGO = "package t\n\n@goht A() {\n\t- x := (\n\t%p\n}\n"      # parses as a template, its Go does not format
OLD_OUTPUT = b"// previous output\npackage t\n"
SKIP_NAMES = ["vendor", "node_modules", ".git", ".hidden", "_private", "_x"]
BASE = 1_600_000_000


def gen_tree(rng):
    """a tree spec: path -> (kind, content bytes, mtime)"""
    tree = {}
    dirs = [""]
    for d in rng.sample(["a", "b", "a/deep", "web/templates"] + SKIP_NAMES + ["a/vendor", "b/.cache", "custom", "a/custom"], rng.randint(1, 6)):
        dirs.append(d)
    n = 0
    for d in dirs:
        for _ in range(rng.randint(0, 3)):
            n += 1
            name = os.path.join(d, "t%d.goht" % n)
            k = rng.random()
            if k < 0.65:
                src = rng.choice(T_OK)
            elif k < 0.9:
                src = rng.choice(T_BAD)
            else:
                src = T_BADGO
            tm = BASE + rng.randint(0, 5) * 100
            tree[name] = ("template", src.encode(), tm)
            o = rng.random()
            if o < 0.3:
                pass                                              # no output yet
            elif o < 0.55:
                tree[name + ".go"] = ("output", OLD_OUTPUT, tm - 50)   # older: stale
            elif o < 0.8:
                tree[name + ".go"] = ("output", OLD_OUTPUT, tm + 50)   # newer: up to date
            else:
                tree[name + ".go"] = ("output", OLD_OUTPUT, tm)        # same time: up to date
        if rng.random() < 0.3:
            n += 1
            tree[os.path.join(d, "gone%d.goht.go" % n)] = ("orphan", OLD_OUTPUT, BASE)
        if rng.random() < 0.4:
            tree[os.path.join(d, rng.choice(["main.go", "notes.txt", "x.goht.txt", ".gitignore", "_notes.txt", "README.md", "t.gohtx"]))] = ("other", b"unrelated\n", BASE)
    return tree


def write_tree(root, tree):
    for rel, (kind, content, mt) in tree.items():
        p = os.path.join(root, rel)
        os.makedirs(os.path.dirname(p), exist_ok=True)
        open(p, "wb").write(content)
        os.utime(p, ns=(mt * 10**9, mt * 10**9))


def snapshot(root):
    snap = {}
    for d, _, files in os.walk(root):
        for f in files:
            p = os.path.join(d, f)
            st = os.stat(p)
            snap[os.path.relpath(p, root)] = (open(p, "rb").read(), st.st_mtime_ns)
    return snap


_ref = {}


def reference_output(src):
    """gofmt(Generate(ParseFile(src))) by the real compiler, or None if the CLI must fail on it"""
    if src in _ref:
        return _ref[src]
    r = common.run_lines(common.IMPLRUN, ["clipath " + hx(src)])[0].split("|")
    out = None
    if r[0] == "ok" and r[2] == "ok":
        p = subprocess.run(["gofmt"], input=unhx(r[1]), stdout=subprocess.PIPE, stderr=subprocess.PIPE)
        if p.returncode == 0:
            out = p.stdout
    _ref[src] = out
    return out


def skipped(rel, skip_names):
    parts = rel.split(os.sep)[:-1]
    return any(p in skip_names or p.startswith(".") or p.startswith("_") for p in parts)


def expected(before, flags, sub, as_built=False):
    """expected tree after the run, as path -> ('same',) | ('content', bytes) | ('absent',).
    The property counts `vendor` and `node_modules` among the skipped directories whatever else is named; the command
    treats them as the default VALUE of --skip-dirs, which a given list replaces (known finding F39): as_built=True"""
    skip_names = set(flags.get("skip", ["vendor", "node_modules"]))
    if not as_built:
        skip_names |= {"vendor", "node_modules"}
    exp = {}
    for rel, (content, mt) in before.items():
        exp[rel] = ("same",)
    for rel, (content, mt) in before.items():
        inside = rel.startswith(sub + os.sep) if sub else True
        rel_in = rel[len(sub) + 1:] if sub else rel
        if not inside or skipped(rel_in, skip_names):
            continue
        if rel.endswith(".goht.go"):
            if rel[:-3] not in before and not flags.get("keep"):
                exp[rel] = ("absent",)
        if rel.endswith(".goht"):
            out = rel + ".go"
            stale = flags.get("force") or out not in before or before[out][1] < mt
            if stale:
                ref = reference_output(content)
                if ref is not None:
                    exp[out] = ("content", ref)
    return exp


def run_goht(goht, root, flags, sub, absolute, workers):
    path = os.path.join(root, sub) if absolute else (sub or ".")
    cmd = [goht, "generate", "--path", path, "--max-workers", str(workers)]
    if flags.get("force"):
        cmd.append("--force")
    if flags.get("keep"):
        cmd.append("--keep")
    if "skip" in flags:
        cmd += ["--skip-dirs", ",".join(flags["skip"])]
    p = subprocess.run(cmd, cwd=root, stdout=subprocess.PIPE, stderr=subprocess.STDOUT, timeout=120)
    return p.returncode, p.stdout.decode("utf-8", "replace")


def compare(before, after, exp):
    for rel, e in exp.items():
        if e[0] == "same":
            if rel not in after:
                return "%s was removed" % rel
            if after[rel] != before[rel]:
                return "%s was %s although it must not be touched" % (rel, "rewritten" if after[rel][0] == before[rel][0] else "changed")
        elif e[0] == "absent":
            if rel in after:
                return "orphaned output %s was not removed" % rel
        else:
            if rel not in after:
                return "%s was not generated" % rel
            if after[rel][0] != e[1]:
                return "%s is not the gofmt-ed compilation of its template" % rel
    for rel in after:
        if rel not in exp:
            return "%s was created" % rel
    return None


def _cid(b):
    return hashlib.sha1(b).hexdigest()[:12]


def model_case(before, after, flags, sub):
    """(driver line, expected canonical result, description) for one run, restricted to the subtree the command was pointed at"""
    def inside(rel):
        return (rel.startswith(sub + os.sep) if sub else True)

    def strip(rel):
        return rel[len(sub) + 1:] if sub else rel
    tree = ";".join("%s:%s:%d" % (hx(strip(r)), _cid(c), mt // 10**9) for r, (c, mt) in sorted(before.items()) if inside(r)) or "-"
    table = {}
    for r, (c, mt) in before.items():
        if inside(r) and r.endswith(".goht"):
            ref = reference_output(c)
            table[_cid(c)] = _cid(ref) if ref is not None else "-"
    tbl = ",".join("%s>%s" % kv for kv in sorted(table.items())) or "-"
    skip = ",".join(hx(x) for x in flags.get("skip", ["vendor", "node_modules"])) or "-"
    line = "generate %d%d %s %s %s" % (1 if flags.get("force") else 0, 1 if flags.get("keep") else 0, skip, tree, tbl)
    rows = []
    for r, (c, mt) in after.items():
        if inside(r):
            changed = r not in before or before[r] != (c, mt)
            rows.append("%s:%s:%d" % (hx(strip(r)), _cid(c), -1 if changed else mt // 10**9))
    return line, ";".join(sorted(rows)), {"flags": flags, "sub": sub}


def run(chk):
    br = common.build_all()
    chk.proof_step(br)
    quick = chk.tier == "quick"
    rng = chk.rng
    if br.go_ok:
        goht = os.path.join(common.BIN, "goht")
        rc, out = common.sh(["go", "build", "-o", goht, "./cmd/goht"], cwd=common.REPO, env=common.goenv())
        if rc != 0:
            chk.broke("correspondence", "L-CLI", "the goht command does not build: " + out[-1000:])
            return chk.finish(level="proof", level_note=LEVEL_NOTE)
        chk.rule = ("random directory trees (nested directories, vendor / node_modules / dot / underscore / --skip-dirs directories also nested, "
                    "valid, failing and unformattable templates with missing / older / newer / same-time outputs, orphaned outputs, unrelated "
                    "files incl. dot files) x flag combinations (--force, --keep, --skip-dirs, --max-workers 1/2/16, relative / absolute --path, "
                    "--path of a subdirectory) x histories of 1-3 runs with edits, touches and deletions in between; trees with hundreds of "
                    "templates in the thorough tier; non-trivial = tree with a stale template; distinct by tree+flags")
        ncases = 140 if quick else 4000
        nbad = 0
        model_cases = []
        for case in range(ncases):
            tree = gen_tree(rng)
            if not quick and case % 200 == 0:
                for i in range(300):
                    tree["bulk/d%d/t%d.goht" % (i % 7, i)] = ("template", rng.choice(T_OK).encode(), BASE + 10)
            flags = {}
            if rng.random() < 0.25:
                flags["force"] = True
            if rng.random() < 0.25:
                flags["keep"] = True
            if rng.random() < 0.3:
                flags["skip"] = rng.sample(["vendor", "node_modules", "custom", "web"], rng.randint(1, 3))
            sub = rng.choice(["", "", "", "a", "web"])
            absolute = rng.random() < 0.5
            workers = rng.choice([1, 2, 16])
            root = tempfile.mkdtemp(prefix="verif-cli-")
            try:
                write_tree(root, tree)
                if sub and not os.path.isdir(os.path.join(root, sub)):
                    sub = ""
                history = []
                why = None
                for step in range(rng.randint(1, 3)):
                    before = snapshot(root)
                    exp = expected(before, flags, sub)
                    rc_, log = run_goht(goht, root, flags, sub, absolute, workers)
                    after = snapshot(root)
                    history.append({"flags": flags, "sub": sub, "absolute": absolute, "workers": workers})
                    stale = any(e[0] == "content" for e in exp.values())
                    chk.case(json.dumps(sorted((k, hashlib.sha1(v[0]).hexdigest()[:8], v[1]) for k, v in before.items())) + json.dumps(history[-1], sort_keys=True),
                             nontrivial=stale)
                    chk.count("run")
                    model_cases.append(model_case(before, after, flags, sub))
                    why = compare(before, after, exp)
                    if why and "skip" in flags and not compare(before, after, expected(before, flags, sub, as_built=True)):
                        # the only deviation: vendor / node_modules were processed because the given list replaced them
                        for kf in common.load_known():
                            if kf["property"] == "C18" and kf["id"] == "F39" and kf["status"] == "open":
                                if kf not in chk.known_seen:
                                    chk.known_seen.append(kf)
                                chk.count("known-F39-skip-dirs-replaces-defaults")
                                why = None
                    if rc_ != 0 and not why:
                        why = "goht generate exited with status %d" % rc_
                    if why:
                        break
                    chk.traces += 1
                    # edits between runs
                    rels = sorted(after)
                    for _ in range(rng.randint(1, 3)):
                        if not rels:
                            break
                        rel = rng.choice(rels)
                        p = os.path.join(root, rel)
                        k = rng.random()
                        if not os.path.exists(p):
                            continue
                        if k < 0.35 and rel.endswith(".goht"):
                            open(p, "wb").write(rng.choice(T_OK + T_BAD).encode())
                            t = BASE + 10_000 * (step + 1) + rng.randint(0, 99)
                            os.utime(p, ns=(t * 10**9, t * 10**9))
                        elif k < 0.55:
                            t = BASE + 20_000 * (step + 1)
                            os.utime(p, ns=(t * 10**9, t * 10**9))
                        elif k < 0.75:
                            os.remove(p)
                    flags = dict(flags)
                    if rng.random() < 0.3:
                        flags.pop("force", None)
                if why:
                    nbad += 1
                    if nbad <= 3:
                        chk.violation("oracle", why, tree={k: [v[0], v[1].decode("utf-8", "replace")[:200], v[2]] for k, v in tree.items()},
                                      runs=history, log=log[-1500:])
            finally:
                shutil.rmtree(root, ignore_errors=True)
        # L-CLI correspondence: the Coq model of the command on the same trees (contents abstracted to hashes; the
        # compiler+gofmt table is the reference the oracle uses)
        if br.coq_ok and model_cases:
            lines = [m[0] for m in model_cases]
            for (line, want, desc), got in zip(model_cases, common.run_lines_parallel(common.DRIVER, lines)):
                if got != want:
                    chk.broke("correspondence", "L-CLI", "the model of goht generate and the real command disagree", case=desc,
                              model=got[:600], impl=want[:600])
                else:
                    chk.traces += 1
        chk.samples = [{"tree": sorted(tree)[:12], "flags": flags}]
    return chk.finish(level="proof", level_note=LEVEL_NOTE)


def replay(r):
    print(r.get("detail"))
    print(json.dumps(r.get("runs"), indent=1))
    for k, v in sorted(r.get("tree", {}).items()):
        print(k, v[0], v[2])
    print(r.get("log"))
    return 1
