"""C04 — literal template content is reproduced exactly and cannot alter generated code."""
from . import common, gen_tmpl, render, lrender, lcompile, compilecmp
from .common import hx, unhx
from .gen_tmpl import esc

LEVEL_NOTE = ("one template per static-content position x strings over the property's alphabet; the generated file must be accepted by "
              "the Go compiler (the whole batch is built with -gcflags=-e) and Render must reproduce the literal byte for byte (HTML-entity "
              "decoded where the position is an attribute / comment / :escaped body); the strconv.Quote model of the emitter is proved to "
              "round-trip for every byte string")

SPECIAL = ['"', "\\", "`", "'", "{", "}", "#", "%", "&", "<", ">", "\t", "\\n", "\\t", '\\"', "\\x", "é", "世", "☃", "=", ".", "!", "-", "/", ":", ";", "$", "@", "?", ",", "(", ")", "[", "]", "*", "+", "|", "^", "~"]
LETTERS = "abz019"


def rand_literal(rng, maxlen=6):
    n = rng.randint(1, maxlen)
    return "".join(rng.choice(SPECIAL) if rng.random() < 0.6 else rng.choice(LETTERS) for _ in range(n))


def strings_for(rng, quick):
    out = list(SPECIAL)
    out += [a + b for a in SPECIAL[:16] for b in SPECIAL[:16]]
    out += [rand_literal(rng) for _ in range(60 if quick else 3000)]
    return out


# position -> (allowed(s), template line(s) builder, expected output builder)
def ok_text(s):
    # a text line: no line break, no interpolation start, must not begin with a character that starts another construct,
    # no leading/trailing blanks (they are trimmed), '\#{' is the escape for '#{'
    return ("\n" not in s and "#{" not in s and s.strip(" \t") == s and s != "" and s[0] not in "%#.\\!-=/:@" and "\\#" not in s
            and "☢" not in s and not s.endswith("\\"))


def ok_filter(s):
    return "\n" not in s and "#{" not in s and s != "" and s[0] not in " \t" and "☢" not in s and s.rstrip(" \t") == s or False


def ok_ident(s):
    return s != "" and not any(c in s for c in "%#.[{=!/<> \t\n\r\\\"'`&") and "☢" not in s


def ok_attr_name_q(s):
    return s != "" and not any(c in s for c in "\"`\\\n\r") and "☢" not in s and "=" not in s and " " not in s and "\t" not in s and ">" not in s and "/" not in s and "'" not in s


def ok_dq_value(s):
    return "\n" not in s and "\r" not in s and "☢" not in s and s != ""


def ok_bt_value(s):
    return "`" not in s and "\n" not in s and "\r" not in s and "\\" not in s and "☢" not in s and s != ""


def ok_comment(s):
    return "\n" not in s and s.strip(" \t") == s and s != "" and "☢" not in s and "--" not in s and not s.startswith("/")


POSITIONS = {
    "text-line": (ok_text, lambda s: ["%p", "\t" + s], lambda s: "<p>\n" + s + "\n</p>\n"),
    "inline-text": (lambda s: ok_text(s) and s[0] not in "[{<>", lambda s: ["%p " + s], lambda s: "<p>" + s + "</p>\n"),
    "escaped-interpolation": (lambda s: ok_text(s), lambda s: ["%p a\\#{" + s + "}b"], lambda s: "<p>a#{" + s + "}b</p>\n"),
    "plain-filter": (ok_filter, lambda s: [":plain", "\t" + s], lambda s: s + "\n"),
    "preserve-filter": (ok_filter, lambda s: [":preserve", "\t" + s], lambda s: s + "&#x000A;\n"),
    "css-filter": (ok_filter, lambda s: [":css", "\t" + s], lambda s: "<style>\n" + s + "\n</style>"),
    "javascript-filter": (ok_filter, lambda s: [":javascript", "\t" + s], lambda s: "<script>\n" + s + "\n</script>"),
    # the same bodies cut by an interpolation: the text before it is a chunk of its own (a constant expression stands for the value)
    "plain-filter-before-interpolation": (ok_filter, lambda s: [":plain", "\t" + s + '#{"Z"}'], lambda s: s + "Z\n"),
    "preserve-filter-before-interpolation": (ok_filter, lambda s: [":preserve", "\t" + s + '#{"Z"}'], lambda s: s + "Z&#x000A;\n"),
    "css-filter-before-interpolation": (ok_filter, lambda s: [":css", "\t" + s + '#{"Z"}'], lambda s: "<style>\n" + s + "Z\n</style>"),
    "plain-filter-after-interpolation": (ok_filter, lambda s: [":plain", '\t#{"Z"}' + s], lambda s: "Z" + s + "\n"),
    "preserve-filter-after-interpolation": (ok_filter, lambda s: [":preserve", '\t#{"Z"}' + s], lambda s: "Z" + s + "&#x000A;\n"),
    "text-line-before-interpolation": (ok_text, lambda s: ["%p", "\t" + s + '#{"Z"}'], lambda s: "<p>\n" + s + "Z\n</p>\n"),
    # (a line cannot begin with an interpolation: `#` at the start of content opens an id)
    "text-line-after-interpolation": (ok_text, lambda s: ["%p", '\tx#{"Z"}' + s], lambda s: "<p>\nxZ" + s + "\n</p>\n"),
    "escaped-filter": (ok_filter, lambda s: [":escaped", "\t" + s], lambda s: esc(s) + "\n"),
    "tag": (ok_ident, lambda s: ["%" + s + " x"], lambda s: "<" + s + ">x</" + s + ">\n"),
    "id": (ok_ident, lambda s: ["%p#" + s + " x"], lambda s: '<p id="' + esc(s) + '">x</p>\n'),
    "class": (ok_ident, lambda s: ["%p." + s + " x"], lambda s: '<p class="' + esc(s) + '">x</p>\n'),
    "dq-attr-value": (ok_dq_value, lambda s: ["%p{title: " + gen_tmpl.goq(s) + "} x"], lambda s: '<p title="' + esc(s) + '">x</p>\n'),
    "backtick-attr-value": (ok_bt_value, lambda s: ["%p{title: `" + s + "`} x"], lambda s: '<p title="' + esc(s) + '">x</p>\n'),
    "class-attr-value": (ok_dq_value, lambda s: ["%p{class: " + gen_tmpl.goq(s) + "} x"], lambda s: '<p class="' + esc(s) + '">x</p>\n'),
    "quoted-attr-name": (ok_attr_name_q, lambda s: ['%p{"' + s + '": "v"} x'], lambda s: "<p " + s + '="v">x</p>\n'),
    "one-line-comment": (ok_comment, lambda s: ["/ " + s], lambda s: "<!--" + esc(s) + "-->\n"),
}


def run(chk):
    br = common.build_all()
    chk.proof_step(br)
    quick = chk.tier == "quick"
    rng = chk.rng
    strs = strings_for(rng, quick)
    chk.rule = ("%d static-content positions x strings over the alphabet (every special character alone, all ordered pairs of 16 of them, "
                "random longer strings with escape-looking pairs and multi-byte runes), filtered by the lexical restrictions of the position; "
                "non-trivial = string containing a special character; distinct by position+string" % len(POSITIONS))
    if br.go_ok and br.coq_ok:
        files, expect = {}, {}
        k = 0
        per_pos = 120 if quick else 4000
        for pos, (ok, build, exp) in POSITIONS.items():
            cand = [s for s in strs if ok(s)]
            rng.shuffle(cand)
            singles = [s for s in SPECIAL if ok(s)]
            chosen = singles + [s for s in cand if s not in singles][:per_pos]
            for s in chosen:
                name = "L%dT0" % k
                text = "package main\n\n@goht %s(E *Env) {\n" % name + "".join("\t" + l + "\n" for l in build(s)) + "}\n"
                files["l%d" % k] = (text, name, pos, s, exp(s))
                k += 1
        b = render.Batch()
        for key, (text, name, pos, s, e) in files.items():
            b.add(key, text, [name])
        try:
            b.build()
            nbad = 0
            for key, r in list(b.rejected.items()) + list(b.build_errors.items()):
                text, name, pos, s, e = files[key]
                chk.case(pos + ":" + s)
                chk.count("position:" + pos)
                if pos == "quoted-attr-name" and ("\\" in s or '"' in s):
                    continue
                nbad += 1
                if nbad <= 3:
                    chk.violation("oracle", "literal %r at position %s: %s" % (s, pos, ("the compiler refuses the template: " if key in b.rejected else "generated Go does not compile: ") + str(r)[:300]),
                                  input_text=text, position=pos, literal=s)
            live = [key for key in files if key not in b.rejected and key not in b.build_errors]
            env = gen_tmpl.gen_env(rng)
            lines = ["render %s buf %s" % (files[key][1], render.env_json(env)) for key in live]
            res = b.run(lines)
        finally:
            b.close()
        for key, r in zip(live, res):
            text, name, pos, s, e = files[key]
            st, w = render.parse_render(r)
            got = b"".join(w)
            chk.case(pos + ":" + s, nontrivial=any(c in s for c in "\"\\`'{}#%&<>\t") or not s.isascii())
            chk.count("position:" + pos)
            if st == "ok" and got == e.encode("utf-8"):
                chk.traces += 1
                continue
            nbad += 1
            if nbad <= 3:
                chk.violation("oracle", "literal %r at position %s is rendered as %r, expected %r" % (s, pos, got.decode("utf-8", "replace"), e),
                              input_text=text, position=pos, literal=s)
        # known finding F06: attribute names reach the Go literal unquoted
        wb = render.Batch()
        wb.add("w0", "package main\n\n@goht W0T0(E *Env) {\n\t%p{a\\b: \"v\"} x\n}\n", ["W0T0"])
        try:
            wb.build()
            still = True
            if "w0" not in wb.rejected and "w0" not in wb.build_errors:
                st, w = render.parse_render(wb.run(["render W0T0 buf " + render.env_json(env)])[0])
                still = b"".join(w) != b'<p a\\b="v">x</p>\n'
        finally:
            wb.close()
        if still:
            for kf in common.load_known():
                if kf["property"] == "C04" and kf["id"] == "F06" and kf["status"] == "open":
                    chk.known_seen.append(kf)
        else:
            chk.notes.append("known finding F06 no longer reproduces")
        chk.samples = [{"position": files[k][2], "literal": files[k][3], "template": files[k][0]} for k in list(files)[:: max(1, len(files) // 5)]][:5]
        triples = lcompile.run_both([files[k][0].encode("utf-8") for k in files])
        lcompile.correspondence(chk, triples, ("cls", "perr", "gtext"))
        # the Quote / Unquote models against strconv
        qs = [s.encode("utf-8") for s in strs[:600]] + [bytes([rng.randrange(256) for _ in range(rng.randint(0, 6))]) for _ in range(600)]
        for op in ("quote", "unquote"):
            ins = qs if op == "quote" else [b'"' + q + b'"' for q in qs] + [b"`" + q + b"`" for q in qs[:200]]
            lines = [op + " " + hx(q) for q in ins]
            for q, a, m in zip(ins, common.run_lines(common.IMPLRUN, lines), common.run_lines(common.DRIVER, lines)):
                chk.case(op + ":" + q.hex())
                if a != m:
                    chk.broke("correspondence", "L-GOSTR", "model of strconv.%s differs" % op.capitalize(), input_hex=hx(q), impl=a, model=m)
                else:
                    chk.traces += 1
    return chk.finish(level="proof", level_note=LEVEL_NOTE)


def replay(r):
    print(r.get("input_text"))
    print(r.get("detail"))
    return 1
