"""C15 — compilation is deterministic; CLI and LSP emit the same code."""
import copy
from . import common, lcompile, compilecmp, gen_tmpl, inputs
from .common import hx, unhx

LEVEL_NOTE = ("the model is a function of the input bytes; that the code is one is established by comparing repeated, "
              "permuted, concurrent (16 goroutines) and cross-process compilations and both entry points with the model's "
              "single output; absence of package-level mutable state is observed, not proved")


def functions_of(text):
    """generated function text by template name"""
    out, cur, name = {}, [], None
    for line in text.split(b"\n"):
        if line.startswith(b"func "):
            if name:
                out[name] = b"\n".join(cur)
            name = line[5:].split(b"(")[0].strip()
            if line.startswith(b"func ("):
                name = line.split(b")", 1)[1].strip().split(b"(")[0]
            cur = [line]
        elif name:
            cur.append(line)
    if name:
        out[name] = b"\n".join(cur)
    return out


def run(chk):
    br = common.build_all()
    chk.proof_step(br)
    quick = chk.tier == "quick"
    rng = chk.rng
    gens = lcompile.generated_files(rng, 150 if quick else 2500)
    base = lcompile.valid_corpus(rng, 0) + [t for _, t in gens]
    extra = []
    for b in base[::4]:
        extra += inputs.random_mutations(b, rng, 2)
    # a byte order mark and CRLF line ends are bytes like any other
    extra += [b"\xef\xbb\xbf" + base[-1], base[-2].replace(b"\n", b"\r\n")]
    cases = base + extra
    chk.rule = ("repository templates, generated files (1-4 templates each) and mutations of them; each compiled via Compose and "
                "Generate, again in a second process, 3x from 16 goroutines in permuted order, and through ParseFile (CLI path); "
                "pairs of generated files differing in one template; non-trivial = accepted by the compiler; distinct by content")
    if br.go_ok and br.coq_ok:
        triples = lcompile.run_both(cases)
        # second process: digests one by one
        dig = common.run_lines_parallel(common.IMPLRUN, ["digest " + hx(c) for c in cases])
        dig2 = common.run_lines(common.IMPLRUN, ["digest " + hx(c) for c in reversed(cases)])
        dig2.reverse()
        # concurrent compilation, batches of 40 inputs
        par = []
        B = 40
        lines = ["compilepar " + " ".join(hx(c) for c in cases[i:i + B]) for i in range(0, len(cases), B)]
        for l in common.run_lines(common.IMPLRUN, lines, timeout=900):
            par += l.split(",")
        cli = common.run_lines_parallel(common.IMPLRUN, ["clipath " + hx(c) for c in cases])
        for k, (c, ri, rm) in enumerate(triples):
            acc = ri.cls == "done" and ri.perr == "ok"
            chk.case(c.hex(), nontrivial=acc)
            chk.count("accepted" if acc else "rejected")
            txt = c.decode("utf-8", "replace")[:500]
            if ri.cls != "done":
                continue
            if ri.ctext != ri.gtext or ri.cerr != ri.gerr:
                chk.violation("oracle", "Generate (CLI) and Compose (LSP) emit different code for the same bytes", input_hex=hx(c), input_text=txt)
            if dig[k] != dig2[k]:
                chk.violation("oracle", "compiling the same bytes in another process / order gave a different result", input_hex=hx(c), input_text=txt)
            if k < len(par) and par[k] != dig[k]:
                chk.violation("oracle", "concurrent compilation differs from sequential compilation: %s vs %s" % (par[k], dig[k]), input_hex=hx(c), input_text=txt)
            f = cli[k].split("|")
            if acc and (f[0] != "ok" or f[1] != ri.gtext):
                chk.violation("oracle", "ParseFile+Generate (goht generate) differs from ParseString+Generate/Compose (language server)", input_hex=hx(c), input_text=txt)
            if not acc and f[0] == "ok":
                chk.violation("oracle", "the CLI path accepts bytes the language-server path rejects", input_hex=hx(c), input_text=txt)
        chk.samples = [{"input": c.decode("utf-8", "replace")[:160], "digest": d} for (c, _, _), d in list(zip(triples, dig))[-3:]]
        lcompile.correspondence(chk, triples, ("cls", "perr", "ctext", "cerr", "s2t", "t2s", "gtext", "gerr"))
        # sibling independence: edit one template of a file, the others must not change
        pairs = []
        for f, text in gens:
            if len(f["templates"]) < 2:
                continue
            j = rng.randrange(len(f["templates"]))
            g = gen_tmpl.Gen(rng)
            g.templates = []
            f2 = dict(f, templates=list(f["templates"]))
            nt = g.template(j, layout=f["templates"][j]["layout"])
            nt["name"] = f["templates"][j]["name"]
            f2["templates"][j] = nt
            text2 = gen_tmpl.print_file(f2, with_prelude=True).encode()
            pairs.append((f, text, text2, j))
        res1 = lcompile.run_both([p[1] for p in pairs], want_model=False)
        res2 = lcompile.run_both([p[2] for p in pairs], want_model=False)
        for (f, t1, t2, j), (_, r1, _), (_, r2, _) in zip(pairs, res1, res2):
            chk.case("pair:" + t1.hex() + t2.hex())
            chk.count("sibling-pair")
            if r1.cls != "done" or r2.cls != "done" or r1.perr != "ok" or r2.perr != "ok":
                continue
            f1, f2 = functions_of(unhx(r1.gtext)), functions_of(unhx(r2.gtext))
            for i, t in enumerate(f["templates"]):
                if i != j and f1.get(t["name"].encode()) != f2.get(t["name"].encode()):
                    chk.violation("oracle", "editing template %s changed the code of sibling %s" % (f["templates"][j]["name"], t["name"]),
                                  input_text=t1.decode(), edited_text=t2.decode())
    return chk.finish(level="proof", level_note=LEVEL_NOTE)


def replay(r):
    data = unhx(r["input_hex"]) if "input_hex" in r else r["input_text"].encode()
    a = common.run_lines(common.IMPLRUN, ["digest " + hx(data), "compilepar " + hx(data) + " " + hx(data), "clipath " + hx(data)])
    print(a[0], a[1], a[2][:80])
    for c, ri, rm in lcompile.run_both([data]):
        d = compilecmp.diff(rm, ri)
        print("model/impl differences:", d)
        return 1 if d or ri.ctext != ri.gtext else 0
