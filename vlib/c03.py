"""C03 — accepted templates compile; type errors surface at Go compile time."""
import os, re, shutil, subprocess, tempfile
from . import common, gen_tmpl, lcompile, compilecmp
from .common import hx, unhx
from .gen_tmpl import X

LEVEL_NOTE = ("Go's type checker is not modelled: every generated file is parsed and formatted with gofmt and type-checked with "
              "`go build -gcflags=-e` in its own package together with the file's declarations and the goht runtime (translation "
              "validation); for each kind of dynamic site the same file with an ill-typed fragment must be refused by the Go compiler. "
              "The Coq side covers the structural half (unique temporaries, import de-duplication) on the compiler model.")

DECLS = """
type Recv struct {
	Name string
	On   bool
}

type Named interface{ M() string }

type named string

func (n named) M() string { return string(n) }

func helper(n int) string { return f.Sprint(n) + str.ToUpper("x") }

var list = []string{"a", "b"}

var attrsS = map[string]string{"k": "v"}

var attrsB = map[string]bool{"d": true}
"""


class TypedGen(gen_tmpl.Gen):
    """templates over typed parameters (a string, n int, b bool, c Named, fn func() string) and a receiver"""

    def str_expr(self):
        r = self.rng
        if self.loopvars and r.random() < 0.3:
            v = r.choice(self.loopvars)
            return X(v, None)
        return X(r.choice(["a", "c.M()", "fn()", "helper(n)", 'a + "x"', "str.ToLower(a)", 'f.Sprintf("%d", n)', "r.Name", '"lit"', "string(named(a))"]), None)

    def str_expr_simple(self):
        return X(self.rng.choice(["a", "r.Name", "fn()"]), None)

    def bool_expr(self):
        return X(self.rng.choice(["b", "!b", "n > 1", 'a != ""', "r.On", "len(list) > 0"]), None, "bool")

    def int_expr(self):
        return X(self.rng.choice(["n", "len(a)", "n + 1"]), None, "int")

    def n_for(self, depth, ctx):
        self.nvars += 1
        v = "x%d" % self.nvars
        self.loopvars.append(v)
        body = [("stmt", "_ = " + v)] + self.block(depth + 1, ctx, 1, 2)
        self.loopvars.pop()
        return ("forlist", v, body)

    def n_switch(self, depth, ctx):
        return self.n_if(depth, ctx)

    def n_el(self, depth, ctx):
        n = super().n_el(depth, ctx)
        e = n[1]
        e["objref"] = None
        if e["class_attr"] and e["class_attr"][0] == "dyn":
            e["class_attr"] = ("dyn", [X("a", None), X("list", None), X("attrsB", None)][: self.rng.randint(1, 3)])
        if e["attrs_cmd"]:
            e["attrs_cmd"] = [X("attrsS", None), X("attrsB", None)][: self.rng.randint(1, 2)]
        return n

    def n_render(self, depth, ctx):
        target = self.rng.choice(self.templates)
        children = self.block(depth + 1, ctx, 1, 2) if self.rng.random() < 0.5 else None
        return ("renderraw", "r." + target["name"] + "(a, n, b, c, fn)", children)


SIG = "(r *Recv) %s(a string, n int, b bool, c Named, fn func() string)"


def print_typed(f, pkg, rng=None):
    out = ["package " + pkg, "", 'import f "fmt"', "import (", '\tstr "strings"', ")", ""]
    extra = []
    if rng is not None and rng.random() < 0.4:
        # the user's own imports of packages goht imports too (textual duplicates must be removed)
        pick = rng.sample(['"context"', '"io"', '"github.com/stackus/goht"', 'f "fmt"', 'str "strings"'], rng.randint(1, 3))
        out += ["import " + p for p in pick[:1]] + (["import ("] + ["\t" + p for p in pick[1:]] + [")"] if len(pick) > 1 else []) + [""]
        extra = ["var _ context.Context", "var _ io.Writer", "var _ goht.Template"]
    out += [DECLS.strip("\n"), ""] + extra + [""]
    for t in f["templates"]:
        out.append("@goht " + SIG % t["name"] + " {")
        body = []
        print_nodes2(t["body"], 1, body)
        out += body
        out.append("}")
        out.append("")
        out.append("var _ = %d // Go between templates" % len(out))
        out.append("")
    return "\n".join(out)


def print_nodes2(nodes, depth, out):
    ind = "\t" * depth
    for n in nodes:
        if n[0] == "forlist":
            out.append(ind + "- for _, %s := range list" % n[1])
            print_nodes2(n[2], depth + 1, out)
        elif n[0] == "renderraw":
            out.append(ind + "= @render " + n[1])
            if n[2]:
                print_nodes2(n[2], depth + 1, out)
        elif n[0] in ("el", "if", "comment", "for", "switch", "render"):
            # reuse the generic printer for the head, recurse here for the children
            if n[0] == "el":
                e, content, children = n[1], n[2], n[3]
                head = gen_tmpl.print_el_head(e, ind)
                if content is not None:
                    sep = "" if content[0] in ("script", "uscript", "utext") else " "
                    out.append(ind + head + sep + gen_tmpl.print_content(content))
                else:
                    out.append(ind + head)
                if children:
                    print_nodes2(children, depth + 1, out)
            elif n[0] == "if":
                _, cond, then, elifs, els, style = n
                out.append(ind + "- if " + cond.go + (" {" if style == "braces" else ""))
                print_nodes2(then, depth + 1, out)
                for c, b in elifs:
                    out.append(ind + ("- } else if " + c.go + " {" if style == "braces" else "- else if " + c.go))
                    print_nodes2(b, depth + 1, out)
                if els is not None:
                    out.append(ind + ("- } else {" if style == "braces" else "- else"))
                    print_nodes2(els, depth + 1, out)
                if style == "braces":
                    out.append(ind + "- }")
            elif n[0] == "comment":
                if n[1] is not None:
                    out.append(ind + "/ " + n[1])
                else:
                    out.append(ind + "/")
                    print_nodes2(n[2], depth + 1, out)
        else:
            gen_tmpl.print_nodes([n], depth, out)


# one ill-typed fragment per kind of dynamic site; each must be a Go compile error
ILL_TYPED = {
    "script-int-in-string-position": "\t= n",
    "interpolation-int-in-string-position": "\t%p text #{n}",
    "interpolation-bool-in-string-position": "\tplain #{b} text",
    "attribute-value-int": '\t%p{title: #{n}} x',
    "attribute-value-struct": '\t%p{title: #{r}} x',
    "conditional-attribute-string-condition": '\t%p{hidden ? #{a}} x',
    "conditional-attribute-int-condition": '\t%p{hidden ? #{n}} x',
    "if-string-condition": "\t- if a\n\t\t%p x",
    "if-int-condition": "\t- if n\n\t\t%p x",
    "render-string-instead-of-template": "\t= @render a",
    "render-int-instead-of-template": "\t= @render n",
    "render-func-not-called": "\t= @render r.W0",
    "unescaped-script-int": "\t!= n",
}


def build_tree(root, files):
    for rel, data in files.items():
        p = os.path.join(root, rel)
        os.makedirs(os.path.dirname(p), exist_ok=True)
        open(p, "wb").write(data)


def run(chk):
    br = common.build_all()
    chk.proof_step(br)
    quick = chk.tier == "quick"
    rng = chk.rng
    npos = 120 if quick else 3000
    chk.rule = ("generated files, each its own package: 1-4 receiver templates over typed parameters (string, int, bool, an interface with a "
                "method, a func), user imports with aliases in single and grouped form, Go declarations between templates; gofmt -e and "
                "go build -gcflags=-e on all of them; plus %d ill-typed variants (one wrong-typed fragment per kind of dynamic site) that the "
                "Go compiler must refuse; non-trivial = every case; distinct by content" % len(ILL_TYPED))
    if br.go_ok and br.coq_ok:
        root = tempfile.mkdtemp(prefix="verif-c03-")
        try:
            env = common.goenv()
            open(os.path.join(root, "go.mod"), "w").write(
                "module c03\n\ngo 1.21.4\n\nrequire github.com/stackus/goht v0.0.0\n\nreplace github.com/stackus/goht => %s\n" % common.REPO)
            shutil.copy(os.path.join(common.REPO, "go.sum"), os.path.join(root, "go.sum"))
            pos = {}
            for i in range(npos):
                g = TypedGen(rng, prefix="W")
                f = g.file()
                pos["p%04d" % i] = print_typed(f, "p%04d" % i, rng).encode("utf-8")
            neg = {}
            for i, (name, line) in enumerate(sorted(ILL_TYPED.items())):
                for j in range(1 if quick else 4):
                    key = "n%02d_%d" % (i, j)
                    src = "package %s\n\nimport f \"fmt\"\nimport (\n\tstr \"strings\"\n)\n\n%s\n\n@goht %s {\n\t%%p ok\n%s\n\t%%b #{a}\n}\n" % (
                        key, DECLS.strip("\n"), SIG % "W0", line)
                    neg[key] = (name, src.encode("utf-8"))
            allsrc = dict(pos)
            allsrc.update({k: v[1] for k, v in neg.items()})
            keys = sorted(allsrc)
            triples = lcompile.run_both([allsrc[k] for k in keys])
            files = {}
            nbad = 0
            for k, (c, ri, rm) in zip(keys, triples):
                chk.case(c.hex())
                chk.count("positive" if k in pos else "ill-typed:" + neg[k][0])
                if ri.cls != "done" or ri.perr != "ok" or ri.gerr != "ok":
                    nbad += 1
                    if nbad <= 3:
                        chk.violation("oracle", "the compiler refuses a well-formed template file: %s" % (compilecmp.perr_pos(ri.perr) if ri.cls == "done" else ri.cls,),
                                      input_text=c.decode("utf-8"))
                    continue
                files[os.path.join(k, "t.goht.go")] = unhx(ri.gtext)
            lcompile.correspondence(chk, triples, ("cls", "perr", "gtext"))
            build_tree(root, files)
            # gofmt: every generated file parses and can be formatted
            rc, out = common.sh(["gofmt", "-l", "-e", "."], cwd=root, env=env, timeout=900)
            bad_fmt = set(re.findall(r"^(\w+)/t\.goht\.go:\d+", out, re.M))
            # go build: type check
            rc, out = common.sh(["go", "build", "-gcflags=-e", "./..."], cwd=root, env=env, timeout=1500)
            failed = {}
            cur = None
            for line in out.split("\n"):
                m = re.match(r"^# c03/(\w+)", line)
                if m:
                    cur = m.group(1)
                    failed[cur] = []
                elif cur and line.strip():
                    failed[cur].append(line)
            for k in sorted(pos):
                if os.path.join(k, "t.goht.go") not in files:
                    continue
                if k in bad_fmt:
                    nbad += 1
                    if nbad <= 3:
                        chk.violation("oracle", "generated file does not parse / cannot be gofmt-ed", input_text=pos[k].decode("utf-8"))
                elif k in failed:
                    nbad += 1
                    if nbad <= 3:
                        chk.violation("oracle", "generated file does not type-check: " + "; ".join(failed[k][:4]), input_text=pos[k].decode("utf-8"))
                else:
                    chk.traces += 1
            for k, (name, src) in sorted(neg.items()):
                if os.path.join(k, "t.goht.go") not in files:
                    continue
                if k not in failed:
                    nbad += 1
                    if nbad <= 3:
                        chk.violation("oracle", "ill-typed fragment (%s) is accepted by the Go compiler instead of failing type-checking" % name,
                                      input_text=src.decode("utf-8"), site=name)
                else:
                    chk.traces += 1
            chk.samples = [{"positive": pos["p0000"].decode("utf-8")[:700]}, {"ill_typed": sorted(ILL_TYPED)}]
            # known finding F35: a shorthand block holding only ruby-style comments has no braces
            wit = b"package w\n\n@goht W(b bool) {\n\t- if b\n\t\t-# only a comment\n\t%p x\n}\n"
            for c, ri, rm in lcompile.run_both([wit], want_model=False):
                if ri.cls == "done" and ri.perr == "ok" and b"if b\n" in unhx(ri.gtext):
                    for kf in common.load_known():
                        if kf["property"] == "C03" and kf["id"] == "F35" and kf["status"] == "open":
                            chk.known_seen.append(kf)
                else:
                    chk.notes.append("known finding F35 no longer reproduces")
        finally:
            shutil.rmtree(root, ignore_errors=True)
    return chk.finish(level="translation_validation", level_note=LEVEL_NOTE)


def replay(r):
    print(r.get("input_text"))
    print(r.get("detail"))
    return 1
