"""C07 — source map relates identical Go text in template and generated file."""
from . import common, lcompile, compilecmp, c16
from .common import hx, unhx

LEVEL_NOTE = ("fragments are the SourceMap.Add calls of the model (validated against the real tables on the same run); characters are "
              "compared on the real texts through the real tables; coverage of every fragment token is checked against the real lexer's "
              "token stream; positions on lines with non-ASCII text fall under known finding F15 (byte offsets inside a fragment)")

FRAGMENT_TOKENS = {"Package", "Import", "GoCode", "GohtStart", "Script", "SilentScript", "DynamicText", "AttrDynamicValue", "ObjectRef", "RenderCommand"}


def run(chk):
    return c16.run(chk, want=("c07",), level_note=LEVEL_NOTE)


def replay(r):
    return c16.replay(r, want=("c07",))
