"""C07 — source map relates identical Go text in template and generated file."""
from . import common, lcompile, compilecmp, c16
from .common import hx, unhx

LEVEL_NOTE = ("fragments are the SourceMap.Add calls of the model (validated against the real tables on the same run); characters are "
              "compared on the real texts through the real tables; coverage of every fragment token is checked against the real lexer's "
              "token stream; positions on lines with non-ASCII text fall under known finding F15 (byte offsets inside a fragment)")

FRAGMENT_TOKENS = {"Package", "Import", "GoCode", "GohtStart", "Script", "SilentScript", "DynamicText", "AttrDynamicValue", "ObjectRef", "RenderCommand"}


def coverage(chk, c, ri):
    """every fragment token of the real lexer is covered by the real map"""
    toks = common.run_lines(common.IMPLRUN, ["tokens " + hx(c)])[0]
    fails = []
    for t in toks.split(";"):
        p = t.split(":")
        if len(p) != 4 or p[0] not in FRAGMENT_TOKENS:
            continue
        lit, line, col = unhx(p[1]), int(p[2]), int(p[3])
        if not c16.is_ascii(lit):
            continue
        chk.count("fragment:" + p[0])
        parts = [(lit, 0)]
        if p[0] in ("DynamicText", "Script", "AttrDynamicValue") and lit.startswith(b"%") and b" " in lit and b"\n" not in lit:
            i = lit.index(b" ")
            if i >= 2 and len(lit) > i + 1:
                parts = [(lit[:i], 0), (lit[i + 1:], i + 1)]   # verb and expression are mapped separately
        if p[0] == "SilentScript":
            parts = [(lit.strip(), 0)] if lit.strip() == lit.rstrip() else parts
        for frag, off in parts:
            for idx, ln in enumerate(frag.split(b"\n")):
                sl = line + idx - 1
                sc0 = (col - 1 + off) if idx == 0 else 0
                for k in range(1, len(ln)):          # positions strictly inside
                    if (sl, sc0 + k) not in ri.s2t:
                        fails.append("position %d:%d inside %s fragment %r is not covered by the map" % (sl, sc0 + k, p[0], frag[:40]))
                        break
    return fails


def run(chk):
    rc_holder = {}
    orig_finish = chk.finish

    def finish(level="proof", level_note="", search_fn=None):
        return orig_finish(level=level, level_note=level_note, search_fn=search_fn)

    # coverage pass first (needs built binaries), then the shared table oracle
    br = common.build_all()
    quick = chk.tier == "quick"
    if br.go_ok:
        base = c16.sm_corpus(chk, quick)
        res = lcompile.run_both(base[:: (2 if quick else 1)], want_model=False)
        n = 0
        for c, ri, _ in res:
            if ri.cls == "done" and ri.perr == "ok" and c16.is_ascii(c):
                for msg in coverage(chk, c, ri)[:3]:
                    n += 1
                    if n <= 3:
                        chk.violation("oracle", msg, input_hex=hx(c), input_text=c.decode("utf-8", "replace")[:700])
    # re-seed so that the table pass sees the same corpus
    import random
    chk.rng = random.Random(chk.seed * 1000003 + int(chk.pid[1:]))
    return c16.run(chk, want=("c07",), level_note=LEVEL_NOTE)


def replay(r):
    return c16.replay(r, want=("c07",))
