"""C08 — the Go language server always holds the compilation of the current buffer."""
import itertools, json
from . import common, lproxy
from .lproxy import U1, U2, UP, VALID, INVALID

LEVEL_NOTE = ("the invariant is proved on the proxy state-machine model for histories of any length; the real proxy is driven through all "
              "short histories and random longer ones with recording fakes of the Go language server and the editor; the reference for "
              "every payload is a fresh compilation of the buffer by the real compiler; JSON-RPC transport and gopls itself are outside")


def gen_histories(rng, quick):
    bufs = VALID[:3] + INVALID[:4] + [lproxy.SHIFTED]
    ops = []
    for u in (U1, U2):
        for b in range(len(bufs)):
            ops.append(("open", u, b))
            ops.append(("change", u, b))
        ops.append(("close", u, None))
        ops.append(("save", u, 0))
        ops.append(("save", u, None))
    ops.append(("open", UP, 0))
    ops.append(("close", UP, None))
    hs = []
    # exhaustive short histories over a reduced operation set, random longer ones over everything
    small = [o for o in ops if o[0] in ("open", "change") and o[2] in (0, 3, 7) and o[1] == U1] + [("close", U1, None), ("save", U1, 0), ("open", U2, 1), ("change", UP, 0)]
    depth = 3 if quick else 4
    for n in range(1, depth + 1):
        for combo in itertools.product(small, repeat=n):
            hs.append(list(combo))
    for _ in range(600 if quick else 20000):
        hs.append([rng.choice(ops) for _ in range(rng.randint(3, 12))])
    out = []
    for h in hs:
        evs, ver = [], 0
        for op, u, b in h:
            ver += 1
            e = {"op": op, "uri": u}
            if op in ("open", "change"):
                e["version"] = ver
                e["text"] = bufs[b] if b is not None else ""
            if op == "save" and b is not None:
                e["text"] = "TEMPLATE TEXT AS THE EDITOR SENDS IT: " + bufs[b]
            evs.append(e)
        out.append(evs)
    return out, len(small), depth


def check_history(h, trace, comp, rng):
    """returns a description of the first violation or None; [comp] maps buffer text -> Compiled"""
    buf, ver, is_open = {}, {}, {}
    for e, items in zip(h, trace):
        u = e["uri"]
        ds = [i for i in items if i["k"] == "ds"]
        ret = [i for i in items if i["k"] == "ret"][-1]
        if ret.get("panic"):
            return "the proxy panicked: " + ret["panic"]
        for i in ds:
            if i.get("uri", "").endswith(".goht"):
                return "a template URI is shown downstream: %s %s" % (i["m"], i["uri"])
            if i["m"] == "didChange-not-full":
                return "the change sent downstream is not a single full-text change"
        if not lproxy.is_tmpl(u):
            continue
        gu = u + ".go"
        if e["op"] == "open":
            buf[u], ver[u], is_open[u] = e["text"], e["version"], True
            c = comp[e["text"]]
            exp = [("didOpen", gu, "go", e["version"], c.gen)]
            got = [(i["m"], i["uri"], i.get("lang"), i.get("ver", 0), i.get("text", "")) for i in ds]
            if got != exp:
                return "didOpen: downstream received %s, expected the generated code of the buffer under %s as language go, version %d" % (
                    [(g[0], g[1], g[2], g[3], g[4][:60]) for g in got], gu, e["version"])
        elif e["op"] == "change":
            if not is_open.get(u):
                if any(i.get("text") for i in ds):
                    return "a change for a document that is not open sent text downstream"
                continue
            buf[u], ver[u] = e["text"], e["version"]
            c = comp[e["text"]]
            got = [(i["m"], i["uri"], i.get("ver", 0), i.get("text", "")) for i in ds]
            if got != [("didChange", gu, e["version"], c.gen)]:
                return "didChange: downstream received %s, expected the generated code of the new buffer (version %d) under %s" % (
                    [(g[0], g[1], g[2], g[3][:60]) for g in got], e["version"], gu)
        elif e["op"] == "close":
            was = is_open.get(u)
            is_open[u] = False
            got = [(i["m"], i["uri"]) for i in ds]
            if was and got != [("didClose", gu)]:
                return "didClose: downstream received %s, expected the generated file %s to be closed" % (got, gu)
        elif e["op"] == "save":
            for i in ds:
                if i["m"] == "didSave":
                    if i["uri"] != gu:
                        return "didSave forwarded under %s" % i["uri"]
                    if not i.get("nil") and is_open.get(u) and i.get("text", "") != comp[buf[u]].gen:
                        return "didSave sent text that is not the generated code of the current buffer: %r" % i.get("text", "")[:80]
                    if not i.get("nil") and "TEMPLATE TEXT" in i.get("text", ""):
                        return "didSave sent template text downstream"
    return None


def run(chk):
    br = common.build_all()
    chk.proof_step(br)
    quick = chk.tier == "quick"
    rng = chk.rng
    if br.go_ok:
        hs, nsmall, depth = gen_histories(rng, quick)
        chk.rule = ("all histories up to length %d over %d operations (open / full-text change with a valid and an invalid buffer, close, save "
                    "with text, a second template, a non-template document) and random histories of length 3-12 over 2 template URIs, a plain "
                    ".go URI and 7 buffers (valid, invalid, half-typed, empty); each history ends with position probes; non-trivial = history "
                    "with at least one open; distinct by history" % (depth, nsmall))
        chk.exhaustive = False
        texts = set(e.get("text", "") for h in hs for e in h if e["op"] in ("open", "change"))
        comp = lproxy.compile_all(list(texts))
        # position probes at the end of each history: the map in use must be the one of the latest buffer
        probes = []
        for h in hs:
            state = {}
            for e in h:
                if lproxy.is_tmpl(e["uri"]):
                    if e["op"] == "open":
                        state[e["uri"]] = e["text"]
                    elif e["op"] == "change" and e["uri"] in state:
                        state[e["uri"]] = e["text"]
                    elif e["op"] == "close":
                        state.pop(e["uri"], None)
            pr = []
            for u, t in state.items():
                c = comp[t]
                for (l, ch) in lproxy.mapped_positions(c, rng, 2):
                    pr.append(({"op": "req", "method": "hover", "uri": u, "line": l, "char": ch, "answer": []}, (u + ".go",) + c.s2t[(l, ch)]))
                for (l, ch) in lproxy.unmapped_positions(c, rng, 1):
                    pr.append(({"op": "req", "method": "hover", "uri": u, "line": l, "char": ch, "answer": []}, None))
            probes.append(pr)
        full = [h + [p for p, _ in pr] for h, pr in zip(hs, probes)]
        traces = lproxy.run_histories(full)
        nbad = 0
        for h, pr, tr in zip(hs, probes, traces):
            chk.case(json.dumps(h), nontrivial=any(e["op"] == "open" for e in h))
            chk.count("len:%d" % min(len(h), 12))
            why = check_history(h, tr[:len(h)], comp, rng)
            if not why:
                for (p, exp), items in zip(pr, tr[len(h):]):
                    ds = [(i["uri"], i.get("line", 0), i.get("char", 0)) for i in items if i["k"] == "ds"]
                    if exp is None and ds:
                        why = "a position without counterpart in the latest generated code was forwarded downstream: %s" % ds
                    elif exp is not None and ds != [exp]:
                        why = "request at %d:%d was translated with a position map that does not belong to the latest buffer: asked %s, expected %s" % (p["line"], p["char"], ds, exp)
                    if why:
                        break
            if why:
                nbad += 1
                if nbad <= 3:
                    chk.violation("oracle", why, history=h)
            else:
                chk.traces += 1
        if br.coq_ok:
            lproxy.correspondence(chk, full, traces)
        chk.samples = [{"history": [{k: (v[:40] if isinstance(v, str) else v) for k, v in e.items()} for e in hs[-1]]}]
    return chk.finish(level="proof", level_note=LEVEL_NOTE)


def replay(r):
    h = r["history"]
    tr = lproxy.run_histories([h])[0]
    for e, items in zip(h, tr):
        print({k: (v[:50] if isinstance(v, str) else v) for k, v in e.items()})
        for i in items:
            print("   ", {k: (v[:50] if isinstance(v, str) else v) for k, v in i.items()})
    return 1
