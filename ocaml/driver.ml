(* Thin I/O around the extracted model: reads one case per line, prints one result per line.
   No logic here beyond parsing the line protocol and converting between OCaml ints/strings
   and the extracted N / list types. *)
open Model
type string = Stdlib.String.t
module String = Stdlib.String

let rec pos_of_int (i : int) : positive =
  if i = 1 then XH else if i land 1 = 0 then XO (pos_of_int (i lsr 1)) else XI (pos_of_int (i lsr 1))
let n_of_int (i : int) : n = if i = 0 then N0 else Npos (pos_of_int i)
let rec int_of_pos (p : positive) : int =
  match p with XH -> 1 | XO q -> 2 * int_of_pos q | XI q -> 2 * int_of_pos q + 1
let int_of_n (x : n) : int = match x with N0 -> 0 | Npos p -> int_of_pos p
let rec nat_of_int (i : int) : nat = if i <= 0 then O else S (nat_of_int (i - 1))
let rec int_of_nat (x : nat) : int = match x with O -> 0 | S y -> 1 + int_of_nat y

let hexval c =
  match c with
  | '0' .. '9' -> Char.code c - 48
  | 'a' .. 'f' -> Char.code c - 87
  | 'A' .. 'F' -> Char.code c - 55
  | _ -> failwith "bad hex"

(* "~" is the empty byte string *)
let bytes_of_hex (s : string) : n list =
  if s = "~" || s = "" then []
  else begin
    let len = String.length s / 2 in
    let rec go i acc = if i < 0 then acc else go (i - 1) (n_of_int (hexval s.[2 * i] * 16 + hexval s.[2 * i + 1]) :: acc) in
    go (len - 1) []
  end

let hex_of_bytes (b : n list) : string =
  match b with
  | [] -> "~"
  | _ ->
    let buf = Buffer.create 64 in
    List.iter (fun x -> Buffer.add_string buf (Printf.sprintf "%02x" (int_of_n x))) b;
    Buffer.contents buf

let split c s = if s = "" then [] else String.split_on_char c s

let parse_gval (s : string) : gval =
  let body = String.sub s 1 (String.length s - 1) in
  match s.[0] with
  | 'S' -> VStr (bytes_of_hex body)
  | 'L' -> VStrs (List.map bytes_of_hex (split ',' body))
  | 'B' ->
    VMapB (List.map (fun kv -> match String.split_on_char ':' kv with
        | [k; v] -> (bytes_of_hex k, v = "1") | _ -> failwith "bad B") (split ',' body))
  | 'M' ->
    VMapS (List.map (fun kv -> match String.split_on_char ':' kv with
        | [k; v] -> (bytes_of_hex k, bytes_of_hex v) | _ -> failwith "bad M") (split ',' body))
  | 'O' -> VOther (n_of_int (int_of_string body))
  | _ -> failwith "bad gval"

let opt_bytes s = if s = "-" then None else Some (bytes_of_hex s)

let show_opt (o : bytes option) = match o with None -> "err" | Some b -> "ok " ^ hex_of_bytes b

let handle (line : string) : string =
  match String.split_on_char ' ' line with
  | "classlist" :: args -> show_opt (build_class_list (List.map parse_gval args))
  | "attrlist" :: args -> show_opt (build_attr_list (List.map parse_gval args))
  | "objid" :: i :: c :: prefix ->
    "ok " ^ hex_of_bytes (object_id { obj_id = opt_bytes i; obj_class = opt_bytes c } (List.map bytes_of_hex prefix))
  | "objclass" :: i :: c :: prefix ->
    "ok " ^ hex_of_bytes (object_class { obj_id = opt_bytes i; obj_class = opt_bytes c } (List.map bytes_of_hex prefix))
  | [ "escape"; h ] -> "ok " ^ hex_of_bytes (html_escape (bytes_of_hex h))
  | [ "unescape5"; h ] -> "ok " ^ hex_of_bytes (html_unescape5 (bytes_of_hex h))
  | _ -> Driver_ext.handle line

let () =
  try
    while true do
      let line = input_line stdin in
      let out = try handle line with e -> "exn " ^ Printexc.to_string e in
      print_string out; print_newline ()
    done
  with End_of_file -> ()
