(* further operations of the line protocol (added as the model grows) *)
open Model
type string = Stdlib.String.t
module String = Stdlib.String

let rec pos_of_int (i : int) : positive =
  if i = 1 then XH else if i land 1 = 0 then XO (pos_of_int (i lsr 1)) else XI (pos_of_int (i lsr 1))
let n_of_int (i : int) : n = if i = 0 then N0 else Npos (pos_of_int i)
let rec int_of_pos (p : positive) : int =
  match p with XH -> 1 | XO q -> 2 * int_of_pos q | XI q -> 2 * int_of_pos q + 1
let int_of_n (x : n) : int = match x with N0 -> 0 | Npos p -> int_of_pos p
let int_of_z (x : z) : int = match x with Z0 -> 0 | Zpos p -> int_of_pos p | Zneg p -> - (int_of_pos p)
let rec nat_of_int (i : int) : nat = if i <= 0 then O else S (nat_of_int (i - 1))
let rec int_of_nat (x : nat) : int = match x with O -> 0 | S y -> 1 + int_of_nat y

let hexval c =
  match c with
  | '0' .. '9' -> Char.code c - 48
  | 'a' .. 'f' -> Char.code c - 87
  | 'A' .. 'F' -> Char.code c - 55
  | _ -> failwith "bad hex"

let bytes_of_hex (s : string) : n list =
  if s = "~" || s = "" then []
  else begin
    let len = String.length s / 2 in
    let rec go i acc = if i < 0 then acc else go (i - 1) (n_of_int (hexval s.[2 * i] * 16 + hexval s.[2 * i + 1]) :: acc) in
    go (len - 1) []
  end

let hex_of_bytes (b : n list) : string =
  match b with
  | [] -> "~"
  | _ ->
    let buf = Buffer.create 64 in
    List.iter (fun x -> Buffer.add_string buf (Printf.sprintf "%02x" (int_of_n x))) b;
    Buffer.contents buf

let ascii_of_bytes (b : n list) : string =
  let buf = Buffer.create 16 in
  List.iter (fun x -> Buffer.add_char buf (Char.chr (int_of_n x))) b;
  Buffer.contents buf

let show_tok (t : token) : string =
  Printf.sprintf "%s:%s:%d:%d" (ascii_of_bytes (toktype_name t.t_typ)) (hex_of_bytes t.t_lit) (int_of_z t.t_line) (int_of_z t.t_col)

(* tokens <hex> : the lexer alone, up to the first EOF or Error token *)
let tokens_of (input : n list) (max : int) : string =
  let fuel = lex_fuel input in
  let rec go lx acc k =
    if k >= max then String.concat ";" (List.rev acc)
    else
      match next_token fuel lx with
      | PTok (t, lx') ->
        let acc' = show_tok t :: acc in
        (match t.t_typ with
         | TEOF | TError -> String.concat ";" (List.rev acc')
         | _ -> go lx' acc' (k + 1))
      | PHang -> String.concat ";" (List.rev ("hang" :: acc))
      | PPanic -> String.concat ";" (List.rev ("panic" :: acc))
      | PDeadlock -> String.concat ";" (List.rev ("deadlock" :: acc))
  in
  go (new_lexer input) [] 0

let show_entries (adds : smadd list) : string =
  String.concat ";" (List.map (fun e -> Printf.sprintf "%d,%d,%d,%d" (int_of_z e.se_sl) (int_of_z e.se_sc) (int_of_z e.se_tl) (int_of_z e.se_tc)) (sm_entries adds))

let show_adds (adds : smadd list) : string =
  String.concat ";" (List.map (fun a -> Printf.sprintf "%s,%d,%d,%d,%d" (hex_of_bytes a.sa_lit) (int_of_z a.sa_line) (int_of_z a.sa_col) (int_of_z a.sa_tline) (int_of_z a.sa_tcol)) adds)

let show_err (e : perr option) : string =
  match e with
  | None -> "ok"
  | Some (PosErr (l, c, m)) -> Printf.sprintf "pos:%d:%d:%s" (int_of_z l) (int_of_z c) (hex_of_bytes (perr_string (PosErr (l, c, m))))
  | Some (PlainErr m) -> "plain:" ^ hex_of_bytes m

let opt_err (e : bytes option) = match e with None -> "ok" | Some m -> "err:" ^ hex_of_bytes m

(* compile <hex> : class|parse error|tree|compose text|compose err|source map entries|generate text|generate err *)
let compile_of (input : n list) : string =
  match compile_parse input with
  | OPanic -> "panic" | OHang -> "hang" | ODeadlock -> "deadlock"
  | ODone (t, e) ->
    let ((ctext, adds), cerr) = compose t in
    let (gtext, gerr) = generate t in
    String.concat "|" [ "done"; show_err e; hex_of_bytes (tree_dump t O); hex_of_bytes ctext; opt_err cerr;
                        show_entries adds; hex_of_bytes gtext; opt_err gerr; show_adds adds ]

let handle (line : string) : string =
  match String.split_on_char ' ' line with
  | "addimport" :: pkg :: lines ->
    let (i, text) = proxy_add_import (List.map bytes_of_hex lines) (bytes_of_hex pkg) in
    Printf.sprintf "ok %d %s" (int_of_nat i) (hex_of_bytes text)
  | [ "detailpkg"; h ] -> "ok " ^ hex_of_bytes (detail_package (bytes_of_hex h))
  | [ "compile"; h ] -> compile_of (bytes_of_hex h)
  | [ "nuke"; h ] -> "ok " ^ hex_of_bytes (nuke (bytes_of_hex h))
  | [ "unquote"; h ] -> (match go_unquote (bytes_of_hex h) with None -> "err" | Some b -> "ok " ^ hex_of_bytes b)
  | [ "tokens"; h ] -> tokens_of (bytes_of_hex h) 100000
  | [ "quote"; h ] -> "ok " ^ hex_of_bytes (go_quote (bytes_of_hex h))
  | _ -> "unknown-op"
