(* further operations of the line protocol (added as the model grows) *)
let handle (_line : string) : string = "unknown-op"
