(* further operations of the line protocol (added as the model grows) *)
open Model
type string = Stdlib.String.t
module String = Stdlib.String

let rec pos_of_int (i : int) : positive =
  if i = 1 then XH else if i land 1 = 0 then XO (pos_of_int (i lsr 1)) else XI (pos_of_int (i lsr 1))
let n_of_int (i : int) : n = if i = 0 then N0 else Npos (pos_of_int i)
let rec int_of_pos (p : positive) : int =
  match p with XH -> 1 | XO q -> 2 * int_of_pos q | XI q -> 2 * int_of_pos q + 1
let int_of_n (x : n) : int = match x with N0 -> 0 | Npos p -> int_of_pos p
let int_of_z (x : z) : int = match x with Z0 -> 0 | Zpos p -> int_of_pos p | Zneg p -> - (int_of_pos p)
let nat_of_int (i : int) : nat = let rec go i acc = if i <= 0 then acc else go (i - 1) (S acc) in go i O
let rec int_of_nat (x : nat) : int = match x with O -> 0 | S y -> 1 + int_of_nat y

let hexval c =
  match c with
  | '0' .. '9' -> Char.code c - 48
  | 'a' .. 'f' -> Char.code c - 87
  | 'A' .. 'F' -> Char.code c - 55
  | _ -> failwith "bad hex"

let bytes_of_hex (s : string) : n list =
  if s = "~" || s = "" then []
  else begin
    let len = String.length s / 2 in
    let rec go i acc = if i < 0 then acc else go (i - 1) (n_of_int (hexval s.[2 * i] * 16 + hexval s.[2 * i + 1]) :: acc) in
    go (len - 1) []
  end

let hex_of_bytes (b : n list) : string =
  match b with
  | [] -> "~"
  | _ ->
    let buf = Buffer.create 64 in
    List.iter (fun x -> Buffer.add_string buf (Printf.sprintf "%02x" (int_of_n x))) b;
    Buffer.contents buf

let ascii_of_bytes (b : n list) : string =
  let buf = Buffer.create 16 in
  List.iter (fun x -> Buffer.add_char buf (Char.chr (int_of_n x))) b;
  Buffer.contents buf

let show_tok (t : token) : string =
  Printf.sprintf "%s:%s:%d:%d" (ascii_of_bytes (toktype_name t.t_typ)) (hex_of_bytes t.t_lit) (int_of_z t.t_line) (int_of_z t.t_col)

(* tokens <hex> : the lexer alone, up to the first EOF or Error token *)
let tokens_of (input : n list) (max : int) : string =
  let fuel = lex_fuel input in
  let rec go lx acc k =
    if k >= max then String.concat ";" (List.rev acc)
    else
      match next_token fuel lx with
      | PTok (t, lx') ->
        let acc' = show_tok t :: acc in
        (match t.t_typ with
         | TEOF | TError -> String.concat ";" (List.rev acc')
         | _ -> go lx' acc' (k + 1))
      | PHang -> String.concat ";" (List.rev ("hang" :: acc))
      | PPanic -> String.concat ";" (List.rev ("panic" :: acc))
      | PDeadlock -> String.concat ";" (List.rev ("deadlock" :: acc))
      | PBudget -> String.concat ";" (List.rev ("hang" :: acc))
  in
  go (new_lexer input) [] 0

let show_entries (adds : smadd list) : string =
  String.concat ";" (List.map (fun e -> Printf.sprintf "%d,%d,%d,%d" (int_of_z e.se_sl) (int_of_z e.se_sc) (int_of_z e.se_tl) (int_of_z e.se_tc)) (sm_entries adds))

let show_adds (adds : smadd list) : string =
  String.concat ";" (List.map (fun a -> Printf.sprintf "%s,%d,%d,%d,%d" (hex_of_bytes a.sa_lit) (int_of_z a.sa_line) (int_of_z a.sa_col) (int_of_z a.sa_tline) (int_of_z a.sa_tcol)) adds)

let show_err (e : perr option) : string =
  match e with
  | None -> "ok"
  | Some (PosErr (l, c, m)) -> Printf.sprintf "pos:%d:%d:%s" (int_of_z l) (int_of_z c) (hex_of_bytes (perr_string (PosErr (l, c, m))))
  | Some (PlainErr m) -> "plain:" ^ hex_of_bytes m

let opt_err (e : bytes option) = match e with None -> "ok" | Some m -> "err:" ^ hex_of_bytes m

(* compile <hex> : class|parse error|tree|compose text|compose err|source map entries|generate text|generate err *)
let show_outcome (o : outcome) : string =
  match o with
  | OPanic -> "panic" | OHang -> "hang" | ODeadlock -> "deadlock"
  | ODone (t, e) ->
    let ((ctext, adds), cerr) = compose t in
    let (gtext, gerr) = generate t in
    String.concat "|" [ "done"; show_err e; hex_of_bytes (tree_dump t O); hex_of_bytes ctext; opt_err cerr;
                        show_entries adds; hex_of_bytes gtext; opt_err gerr; show_adds adds;
                        (if keys_unique (sm_entries adds) then "unique" else "overlap") ]

let compile_of (input : n list) : string = show_outcome (compile_parse input)

(* the same with the budgets of the termination theorem: 9(n+1) for the pump, 460(n+1)+2 for the parser's loop *)
let compile_big (input : n list) : string =
  let n = List.length input in
  show_outcome (compile_parse_with (nat_of_int (9 * (n + 1))) (nat_of_int (460 * (n + 1) + 2)) input)

(* ---- proxy histories: events separated by ';', fields by ',' ---- *)
let z_of_int (i : int) : z = if i = 0 then Z0 else if i > 0 then Zpos (pos_of_int i) else Zneg (pos_of_int (-i))

let method_of (s : string) : method0 =
  match s with
  | "completion" -> MCompletion | "hover" -> MHover | "definition" -> MDefinition | "declaration" -> MDeclaration
  | "typeDefinition" -> MTypeDefinition | "implementation" -> MImplementation | "references" -> MReferences
  | "signatureHelp" -> MSignatureHelp | "prepareRename" -> MPrepareRename | "onTypeFormatting" -> MOnTypeFormatting
  | "moniker" -> MMoniker | "codeLens" -> MCodeLens | "codeAction" -> MCodeAction
  | _ -> failwith ("method " ^ s)

let method_name (m : method0) : string =
  match m with
  | MCompletion -> "completion" | MHover -> "hover" | MDefinition -> "definition" | MDeclaration -> "declaration"
  | MTypeDefinition -> "typeDefinition" | MImplementation -> "implementation" | MReferences -> "references"
  | MSignatureHelp -> "signatureHelp" | MPrepareRename -> "prepareRename" | MOnTypeFormatting -> "onTypeFormatting"
  | MMoniker -> "moniker" | MCodeLens -> "codeLens" | MCodeAction -> "codeAction"

let mkpos l c = { p_line = z_of_int l; p_char = z_of_int c }
let mkrange a b c d = { r_start = mkpos a b; r_end = mkpos c d }

let parse_locs (s : string) : loc list option =
  if s = "-" then None
  else Some (List.map (fun x -> match String.split_on_char ':' x with
      | [ u; a; b; c; d ] -> { l_uri = bytes_of_hex u; l_range = mkrange (int_of_string a) (int_of_string b) (int_of_string c) (int_of_string d) }
      | _ -> failwith "loc") (if s = "" then [] else String.split_on_char '/' s))

let parse_diags (s : string) : diag list =
  List.map (fun x -> match String.split_on_char ':' x with
      | [ a; b; c; d; m ] -> { d_range = mkrange (int_of_string a) (int_of_string b) (int_of_string c) (int_of_string d); d_msg = bytes_of_hex m; d_goht = false }
      | _ -> failwith "diag") (if s = "" then [] else String.split_on_char '/' s)

let parse_event (s : string) : event =
  match String.split_on_char ',' s with
  | [ "O"; u; lang; v; t ] -> EOpen (bytes_of_hex u, bytes_of_hex lang, z_of_int (int_of_string v), bytes_of_hex t)
  | [ "C"; u; v; t ] -> EChange (bytes_of_hex u, z_of_int (int_of_string v), bytes_of_hex t)
  | [ "C1"; u; v; t ] -> EChange1 (bytes_of_hex u, z_of_int (int_of_string v), bytes_of_hex t)
  | [ "C2"; u; v ] -> EChange2 (bytes_of_hex u, z_of_int (int_of_string v))
  | [ "X"; u ] -> EClose (bytes_of_hex u)
  | [ "S"; u; t ] -> ESave (bytes_of_hex u, if t = "-" then None else Some (bytes_of_hex t))
  | [ "R"; m; u; l; c; a ] -> EReq (method_of m, bytes_of_hex u, mkpos (int_of_string l) (int_of_string c), parse_locs a)
  | [ "D"; u; d ] -> EGoDiag (bytes_of_hex u, parse_diags d)
  | [ "M"; t ] -> EGoMsg (bytes_of_hex t)
  | _ -> failwith ("event " ^ s)

let md5 (b : n list) : string = Digest.to_hex (Digest.string (ascii_of_bytes b))
let show_pos (p : pos) = Printf.sprintf "%d:%d" (int_of_z p.p_line) (int_of_z p.p_char)
let show_range (r : range) = show_pos r.r_start ^ ":" ^ show_pos r.r_end
let show_loc (l : loc) = hex_of_bytes l.l_uri ^ ":" ^ show_range l.l_range
let show_diag (d : diag) = show_range d.d_range ^ ":" ^ (if d.d_goht then "g" else "c") ^ ":" ^ md5 d.d_msg

let show_out (o : out) : string =
  match o with
  | Ds (DsOpen (u, lang, v, t)) -> Printf.sprintf "ds.didOpen.%s.%s.%d.%s" (hex_of_bytes u) (hex_of_bytes lang) (int_of_z v) (md5 t)
  | Ds (DsChange (u, v, t)) -> Printf.sprintf "ds.didChange.%s.%d.%s" (hex_of_bytes u) (int_of_z v) (md5 t)
  | Ds (DsClose u) -> "ds.didClose." ^ hex_of_bytes u
  | Ds (DsSave (u, t)) -> "ds.didSave." ^ hex_of_bytes u ^ "." ^ (match t with None -> "-" | Some x -> md5 x)
  | Ds (DsReq (m, u, p)) -> Printf.sprintf "ds.%s.%s.%s" (method_name m) (hex_of_bytes u) (show_pos p)
  | Cl (ClDiag (u, ds)) -> "cl.diag." ^ hex_of_bytes u ^ "." ^ String.concat "/" (List.map show_diag ds)
  | Cl (ClMsg t) -> "cl.msg." ^ md5 t

let show_reply (r : reply) : string =
  match r with
  | RNone -> "r.ok." | RError -> "r.err." | REmpty -> "r.ok." | RNil -> "r.ok."
  | RLocs ls -> "r.ok." ^ String.concat "/" (List.map show_loc ls)
  | RAction (ds, es) -> "r.ok." ^ String.concat "/" (List.map show_loc es) ^ "#" ^ String.concat "/" (List.map show_range ds)

let proxy_run (s : string) : string =
  let evs = List.map parse_event (String.split_on_char ';' s) in
  let (_, tr) = run model_compile ps_init evs in
  String.concat "|" (List.map (fun (outs, r) -> String.concat "+" (List.map show_out outs @ [ show_reply r ])) tr)

(* generate <force><keep> <skip,..|-> <path:cid:mtime;...> <cid>ocid,...> : the CLI model on abstract contents *)
let generate_run (fk : string) (skip : string) (tree : string) (table : string) : string =
  let fl = { fl_force = fk.[0] = '1'; fl_keep = fk.[1] = '1';
             fl_skip = (if skip = "-" then [] else List.map bytes_of_hex (String.split_on_char ',' skip)) } in
  let fs = List.map (fun e -> match String.split_on_char ':' e with
      | [ p; c; m ] -> (bytes_of_hex p, { f_content = bytes_of_hex c; f_mtime = z_of_int (int_of_string m) })
      | _ -> failwith "tree") (if tree = "-" then [] else String.split_on_char ';' tree) in
  let tbl = List.map (fun e -> match String.split_on_char '>' e with
      | [ c; o ] -> (c, o) | _ -> failwith "table") (if table = "-" then [] else String.split_on_char ',' table) in
  let compile (c : n list) : n list option =
    match List.assoc_opt (hex_of_bytes c) tbl with
    | Some "-" | None -> None
    | Some o -> Some (bytes_of_hex o) in
  let res = goht_generate compile (z_of_int (-1)) fl fs in
  let rows = List.map (fun (p, f) -> Printf.sprintf "%s:%s:%d" (hex_of_bytes p) (hex_of_bytes f.f_content) (int_of_z f.f_mtime)) res in
  String.concat ";" (List.sort compare rows)

(* ---- children programs: templates separated by '|', statements by ',', blocks in parentheses ---- *)
let parse_program (s : string) : tstmt list list =
  let n = String.length s in
  let pos = ref 0 in
  let rec stmts () : tstmt list =
    if !pos >= n || s.[!pos] = ')' || s.[!pos] = '|' then []
    else begin
      let st = stmt () in
      if !pos < n && s.[!pos] = ',' then incr pos;
      st :: stmts ()
    end
  and stmt () : tstmt =
    let c = s.[!pos] in
    incr pos;
    match c with
    | 'L' ->
      let start = !pos in
      while !pos < n && (match s.[!pos] with '0' .. '9' | 'a' .. 'f' | '~' -> true | _ -> false) do incr pos done;
      SLit (bytes_of_hex (String.sub s start (!pos - start)))
    | 'C' -> SChildren
    | 'R' | 'B' ->
      let start = !pos in
      while !pos < n && (match s.[!pos] with '0' .. '9' -> true | _ -> false) do incr pos done;
      let idx = nat_of_int (int_of_string (String.sub s start (!pos - start))) in
      if c = 'R' then SRender (idx, None)
      else begin
        incr pos; (* '(' *)
        let b = stmts () in
        incr pos; (* ')' *)
        SRender (idx, Some b)
      end
    | _ -> failwith "stmt"
  in
  let rec templates () =
    let t = stmts () in
    if !pos < n && s.[!pos] = '|' then (incr pos; t :: templates ()) else [ t ]
  in
  templates ()

(* ---- render programs (C12): like children programs, plus D<site>:<hex> for a fallible site ---- *)
let parse_fprogram (s : string) : fstmt list list =
  let n = String.length s in
  let pos = ref 0 in
  let hexrun () =
    let start = !pos in
    while !pos < n && (match s.[!pos] with '0' .. '9' | 'a' .. 'f' | '~' -> true | _ -> false) do incr pos done;
    bytes_of_hex (String.sub s start (!pos - start)) in
  let numrun () =
    let start = !pos in
    while !pos < n && (match s.[!pos] with '0' .. '9' -> true | _ -> false) do incr pos done;
    int_of_string (String.sub s start (!pos - start)) in
  let rec stmts () : fstmt list =
    if !pos >= n || s.[!pos] = ')' || s.[!pos] = '|' then []
    else begin
      let st = stmt () in
      if !pos < n && s.[!pos] = ',' then incr pos;
      st :: stmts ()
    end
  and stmt () : fstmt =
    let c = s.[!pos] in
    incr pos;
    match c with
    | 'L' -> FLit (hexrun ())
    | 'D' -> let site = numrun () in incr pos; FDyn (nat_of_int site, hexrun ())
    | 'C' -> FChildren
    | 'R' -> FRender (nat_of_int (numrun ()), None)
    | 'B' ->
      let idx = nat_of_int (numrun ()) in
      incr pos;
      let b = stmts () in
      incr pos;
      FRender (idx, Some b)
    | _ -> failwith "fstmt"
  in
  let rec templates () =
    let t = stmts () in
    if !pos < n && s.[!pos] = '|' then (incr pos; t :: templates ()) else [ t ]
  in
  templates ()

let render_model (main : string) (mode : string) (failbits : string) (prog : string) : string =
  let p = parse_fprogram prog in
  let fails (site : nat) = let i = int_of_nat site in i < String.length failbits && failbits.[i] = '1' in
  let m = match mode with "buf" -> WOk | "fail1" -> WFail | "short1" -> WShort | _ -> failwith "mode" in
  let (acc, st) = render_top p fails (nat_of_int 400) (nat_of_int (int_of_string main)) m in
  let sts = match st with SOk -> "ok" | SSite s -> Printf.sprintf "err-site%d" (int_of_nat s) | SWriter -> "err-writer" | SFuel -> "fuel" in
  sts ^ " " ^ String.concat "," (List.map hex_of_bytes acc)

(* ---- pool schedules: G<r>[:<choice>], W<r>:<hex>, F<r>:<0|1> separated by ',' ---- *)
let parse_pstep (s : string) : pstep =
  let body = String.sub s 1 (String.length s - 1) in
  match s.[0], String.split_on_char ':' body with
  | 'G', [ r ] -> PGet (nat_of_int (int_of_string r), None)
  | 'G', [ r; c ] -> PGet (nat_of_int (int_of_string r), Some (nat_of_int (int_of_string c)))
  | 'W', [ r; h ] -> PWrite (nat_of_int (int_of_string r), bytes_of_hex h)
  | 'F', [ r; ok ] -> PFinish (nat_of_int (int_of_string r), ok = "1")
  | _ -> failwith "pstep"

let handle (line : string) : string =
  match String.split_on_char ' ' line with
  | [ "children"; main; prog ] ->
    let p = parse_program prog in
    let i = nat_of_int (int_of_string main) in
    let a = exec_template p (nat_of_int 200) i and b = denote_template p (nat_of_int 200) i in
    "ok " ^ hex_of_bytes a ^ (if a = b then "" else " spec-differs")
  | [ "rendermodel"; main; mode; failbits; prog ] -> render_model main mode failbits prog
  | [ "pool"; steps ] ->
    let w = pool_run (List.map parse_pstep (String.split_on_char ',' steps)) world_init in
    String.concat ";" (List.rev_map (fun (r, b) -> Printf.sprintf "%d=%s" (int_of_nat r) (hex_of_bytes b)) w.w_written)
  | [ "generate"; fk; skip; tree; table ] -> generate_run fk skip tree table
  | [ "proxy"; h ] -> proxy_run h
  | "addimport" :: pkg :: lines ->
    let (i, text) = proxy_add_import (List.map bytes_of_hex lines) (bytes_of_hex pkg) in
    Printf.sprintf "ok %d %s" (int_of_nat i) (hex_of_bytes text)
  | [ "detailpkg"; h ] -> "ok " ^ hex_of_bytes (detail_package (bytes_of_hex h))
  | [ "compile"; h ] -> compile_of (bytes_of_hex h)
  | [ "compilebig"; h ] -> compile_big (bytes_of_hex h)
  | [ "infragment"; h ] ->
    (match file_in_fragment (bytes_of_hex h) with
     | Some (k, n) -> Printf.sprintf "ok %d/%d" (int_of_nat k) (int_of_nat n)
     | None -> "none")
  | [ "nuke"; h ] -> "ok " ^ hex_of_bytes (nuke (bytes_of_hex h))
  | [ "htmlstruct"; h ] ->
    let ev e = match e with
      | HOpen -> "O" | HClose -> "C" | HTagEnd -> "T" | HAttr -> "A"
      | HName c -> Printf.sprintf "N%02x" (int_of_n c) in
    let (st, evs) = hrun Data (bytes_of_hex h) in
    "ok " ^ String.concat "" (List.map ev evs) ^ (match st with Data -> " D" | _ -> " X")
  | "nukedoc" :: ps ->
    (* a document of pieces: A = after-sentinel, B = before-sentinel, T<hex> = text run *)
    let piece p =
      if p = "A" then PAfter else if p = "B" then PBefore
      else PText (bytes_of_hex (String.sub p 1 (String.length p - 1))) in
    let ((ok, rw), sp) = doc_check (List.map piece ps) in
    Printf.sprintf "ok %d %s %s" (if ok then 1 else 0) (hex_of_bytes rw) (hex_of_bytes sp)
  | [ "unquote"; h ] -> (match go_unquote (bytes_of_hex h) with None -> "err" | Some b -> "ok " ^ hex_of_bytes b)
  | [ "tokens"; h ] -> tokens_of (bytes_of_hex h) 100000
  | [ "quote"; h ] -> "ok " ^ hex_of_bytes (go_quote (bytes_of_hex h))
  | _ -> "unknown-op"
