(** Model of compiler/lexer.go and compiler/lexers.go (state after the fix commits).
    One Gallina function per Go function; the cursor state is kept exactly as the Go
    lexer keeps it ([s], [width], [pos] as per-line rune counts, [indent]), so that token
    literals and positions can be compared byte for byte with the implementation.
    Operations that would panic in Go (index or slice out of range) set [l_panic]. *)
From GV Require Export Compiler.Tok Gen.Consts.
Open Scope N_scope.

Record lexst := mkL {
  l_before : bytes;        (* consumed input, reversed *)
  l_after : bytes;         (* remaining input *)
  l_prev : option nat;     (* bytes.Reader.prevRune: size of the rune UnreadRune would give back *)
  l_s : bytes;             (* l.s, reversed *)
  l_width : nat;
  l_pos : list Z;          (* l.pos, reversed: head = current line *)
  l_indent : nat;
  l_out : list token;      (* tokens sent to the channel by the current state call, reversed *)
  l_panic : bool
}.

Definition init_lex (input : bytes) : lexst := mkL [] input None [] 0 [0%Z] 0 [] false.

Definition with_reader (l : lexst) b a p :=
  mkL b a p (l_s l) (l_width l) (l_pos l) (l_indent l) (l_out l) (l_panic l).
Definition with_s (l : lexst) s :=
  mkL (l_before l) (l_after l) (l_prev l) s (l_width l) (l_pos l) (l_indent l) (l_out l) (l_panic l).
Definition with_width (l : lexst) w :=
  mkL (l_before l) (l_after l) (l_prev l) (l_s l) w (l_pos l) (l_indent l) (l_out l) (l_panic l).
Definition with_pos (l : lexst) p :=
  mkL (l_before l) (l_after l) (l_prev l) (l_s l) (l_width l) p (l_indent l) (l_out l) (l_panic l).
Definition with_indent (l : lexst) i :=
  mkL (l_before l) (l_after l) (l_prev l) (l_s l) (l_width l) (l_pos l) i (l_out l) (l_panic l).
Definition with_out (l : lexst) o :=
  mkL (l_before l) (l_after l) (l_prev l) (l_s l) (l_width l) (l_pos l) (l_indent l) o (l_panic l).
Definition set_panic (l : lexst) :=
  mkL (l_before l) (l_after l) (l_prev l) (l_s l) (l_width l) (l_pos l) (l_indent l) (l_out l) true.

(** a rune as the lexer sees it: [None] is scanner.EOF *)
Definition rune := option N.

Definition rune_is (r : rune) (c : N) : bool :=
  match r with Some x => N.eqb x c | None => false end.

(** strings.ContainsRune(set, r) for an ASCII set *)
Definition in_set (set : bytes) (r : rune) : bool :=
  match r with Some x => mem_byte x set | None => false end.

(** move [n] bytes from the front of [a] onto the reversed [b] *)
Fixpoint take_onto (n : nat) (a b : bytes) : bytes * bytes :=
  match n, a with
  | S k, x :: a' => take_onto k a' (x :: b)
  | _, _ => (a, b)
  end.

(** l.next() *)
Definition next (l : lexst) : rune * lexst :=
  match decode_rune (l_after l) with
  | None => (None, with_width (with_reader l (l_before l) (l_after l) None) 0)
  | Some (r, n) =>
    let '(a', b') := take_onto n (l_after l) (l_before l) in
    let l1 := with_reader l b' a' (Some n) in
    let l2 := match l_pos l1 with
              | [] => set_panic l1
              | c :: rest =>
                let p := (c + 1)%Z :: rest in
                with_pos l1 (if N.eqb r 10 then 0%Z :: p else p)
              end in
    (Some r, with_s (with_width l2 (List.length (encode_rune r))) (rev_append (encode_rune r) (l_s l2)))
  end.

(** l.backup() *)
Definition backup (l : lexst) : lexst :=
  match l_width l with
  | O => l
  | w =>
    let l1 := match l_pos l with
              | [] => set_panic l
              | c :: rest =>
                let p := if Z.eqb c 0 then rest else c :: rest in
                match p with
                | [] => set_panic (with_pos l [])
                | c' :: rest' => with_pos l ((c' - 1)%Z :: rest')
                end
              end in
    (* reader.UnreadRune(): fails silently unless the previous operation was a ReadRune *)
    let l2 := match l_prev l1 with
              | Some n => let '(b', a') := take_onto n (l_before l1) (l_after l1) in
                          with_reader l1 b' a' None
              | None => l1
              end in
    if Nat.ltb (List.length (l_s l2)) w then set_panic l2
    else with_s l2 (skipn w (l_s l2))
  end.

Definition peek (l : lexst) : rune * lexst :=
  let '(r, l1) := next l in (r, backup l1).

(** l.peekAhead(n): reads up to n runes straight from the reader and seeks back; the
    Seek clears the reader's prevRune *)
Fixpoint peek_runes (n : nat) (a : bytes) : bytes :=
  match n with
  | O => []
  | S k => match decode_rune a with
           | None => []
           | Some (r, w) => encode_rune r ++ peek_runes k (skipn w a)
           end
  end.
Definition peek_ahead (n : nat) (l : lexst) : bytes * lexst :=
  (peek_runes n (l_after l), with_reader l (l_before l) (l_after l) None).

Definition ignore (l : lexst) : lexst := with_s l [].

Definition current (l : lexst) : bytes := rev (l_s l).

(** l.accept is unused by the state functions *)

(** loops over next(); the remaining input serves as fuel (each iteration that does not
    stop consumes at least one byte) *)
Fixpoint accept_run_aux (fuel : bytes) (valid : bytes) (l : lexst) : lexst :=
  let '(r, l1) := next l in
  if in_set valid r then
    match fuel with
    | [] => l1
    | _ :: f => accept_run_aux f valid l1
    end
  else backup l1.
Definition accept_run (valid : bytes) (l : lexst) : lexst := accept_run_aux (l_after l) valid l.

Fixpoint accept_until_aux (fuel : bytes) (invalid : bytes) (l : lexst) : lexst :=
  let '(r, l1) := next l in
  match r with
  | None => backup l1
  | Some _ =>
    if in_set invalid r then backup l1
    else match fuel with
         | [] => l1
         | _ :: f => accept_until_aux f invalid l1
         end
  end.
Definition accept_until (invalid : bytes) (l : lexst) : lexst := accept_until_aux (l_after l) invalid l.

(** drop the rune just read from the pending string: l.s = l.s[:len(l.s)-l.width] *)
Definition drop_width (l : lexst) : lexst :=
  if Nat.ltb (List.length (l_s l)) (l_width l) then set_panic l
  else with_s l (skipn (l_width l) (l_s l)).

Definition skip (l : lexst) : rune * lexst :=
  let '(r, l1) := next l in (r, drop_width l1).

Fixpoint skip_run_aux (fuel : bytes) (set : bytes) (l : lexst) : lexst :=
  let '(r, l1) := next l in
  if in_set set r then
    match fuel with
    | [] => drop_width l1
    | _ :: f => skip_run_aux f set (drop_width l1)
    end
  else backup l1.
Definition skip_run (set : bytes) (l : lexst) : lexst := skip_run_aux (l_after l) set l.

Fixpoint skip_until_aux (fuel : bytes) (stop : bytes) (l : lexst) : lexst :=
  let '(r, l1) := next l in
  match r with
  | None => backup l1
  | Some _ =>
    if in_set stop r then backup l1
    else match fuel with
         | [] => drop_width l1
         | _ :: f => skip_until_aux f stop (drop_width l1)
         end
  end.
Definition skip_until (stop : bytes) (l : lexst) : lexst := skip_until_aux (l_after l) stop l.

Fixpoint next_n (n : nat) (l : lexst) : lexst :=
  match n with O => l | S k => next_n k (snd (next l)) end.
Definition skip_ahead (n : nat) (l : lexst) : lexst := ignore (next_n n l).

(** l.position() *)
Definition first_line_rev (s_rev : bytes) : bytes :=
  (* the part of s up to and including its first newline, given s reversed *)
  let s := rev s_rev in
  let fix go (s : bytes) : bytes :=
      match s with
      | [] => []
      | x :: s' => if N.eqb x 10 then [x] else x :: go s'
      end in
  go s.

Definition position (l : lexst) : (Z * Z) * bool :=
  let nl := count_byte 10 (l_s l) in
  let line := (Z.of_nat (List.length (l_pos l)) - Z.of_nat nl)%Z in
  (* l.pos[line-1]: index from the end of the reversed list is [nl] *)
  match nth_error (l_pos l) nl with
  | Some c => ((line, (1 + c - Z.of_nat (rune_count (first_line_rev (l_s l))))%Z), false)
  | None => ((line, 0%Z), true)
  end.

Definition emit (t : toktype) (l : lexst) : lexst :=
  let '((line, col), bad) := position l in
  let l1 := if bad then set_panic l else l in
  with_s (with_out l1 (mkTok t (current l) line col :: l_out l1)) [].

Inductive lstate :=
| SGoLineStart | SGoLineEnd | SPackage | SImportStart | SImports | SGoCode | STemplate | SGohtStart
| SGohtLineStart | SGohtIndent | SGohtContentStart | SGohtContent | SGohtContentEnd | SGohtLineEnd
| SGohtNewLine | STag | SId | SClass | SObjectReference | SAttributesStart | SAttributesEnd
| SAttribute | SAttributeName | SAttributeOperator | SAttributeValue | SAttributeStaticValue
| SAttributeDynamicValue | SAttributeCommandStart | SAttributeCommand | SAttributeEnd
| SWhitespaceRemoval | STextStart | STextContent | SDynamicText | SDoctype | SUnescaped
| SSilentScript | SIgnoreIndented (n : nat) | SOutputCode | SComment | SVoidTag | SCommandCode
| SFilterStart | SFilterLineStart (n : nat) (k : toktype) | SFilterIndent (n : nat) (k : toktype)
| SFilterContent (n : nat) (k : toktype) | SFilterDynamicText (n : nat) (k : toktype)
| SStopped | SNil.

(** l.errorf: an Error token at the current position; the returned state function yields nil *)
Definition errorf (msg : bytes) (l : lexst) : lstate * lexst :=
  let '((line, col), bad) := position l in
  let l1 := if bad then set_panic l else l in
  (SStopped, with_out l1 (mkTok TError msg line col :: l_out l1)).

Definition err_unexpected_char (r : rune) : bytes := lit "unexpected character: " ++ go_quote_rune r.

(** l.validateIndent; [None] = no error *)
Definition validate_indent (indent : bytes) (l : lexst) : option bytes :=
  let n := List.length indent in
  if Nat.eqb n 0 then None
  else if Nat.leb n (l_indent l) then None
  else if mem_byte 32 indent then
    Some (lit "the line was indented using spaces, templates must be indented using tabs")
  else if Nat.ltb (l_indent l + 1) n then
    Some (lit "the line was indented " ++ itoa (N.of_nat (n - l_indent l)) ++ lit " levels deeper than the previous line")
  else None.

(** continueToMatchingQuote *)
Fixpoint to_quote_aux (fuel : bytes) (quote : N) (escaping : bool) (l : lexst) : rune * lexst :=
  let '(r, l1) := next l in
  match r with
  | None => (None, l1)
  | Some c =>
    if N.eqb c quote && negb escaping then (Some c, l1)
    else match fuel with
         | [] => (None, l1)
         | _ :: f => to_quote_aux f quote (N.eqb c 92 && negb escaping) l1
         end
  end.

Definition continue_to_matching_quote (typ : toktype) (capture : bool) (l : lexst) : rune * lexst :=
  let '(q, l0) := peek l in
  match q with
  | Some qc =>
    if N.eqb qc 96 || N.eqb qc 34 then
      let l1 := if capture then snd (next l0) else snd (skip l0) in
      let '(r, l2) := to_quote_aux (l_after l1) qc false l1 in
      match r with
      | None => (None, l2)
      | Some _ =>
        if capture then (Some qc, emit typ l2)
        else (Some qc, snd (skip (emit typ (backup l2))))
      end
    else (q, l0)
  | None => (q, l0)
  end.

(** continueToMatchingBrace *)
Fixpoint to_brace_aux (fuel : bytes) (end_brace : N) (escaping in_quotes : bool) (quotes : N) (l : lexst)
  : rune * lexst :=
  let '(r, l1) := next l in
  match r with
  | None => (None, l1)
  | Some c =>
    let continue esc inq qs :=
        match fuel with
        | [] => (None, l1)
        | _ :: f => to_brace_aux f end_brace esc inq qs l1
        end in
    if N.eqb c 34 || N.eqb c 39 then
      if negb in_quotes then continue false true c
      else if N.eqb c quotes && negb escaping then continue false false 0
      else continue false in_quotes quotes
    else if N.eqb c end_brace && negb in_quotes then (Some c, l1)
    else continue (N.eqb c 92 && in_quotes && negb escaping) in_quotes quotes
  end.
Definition continue_to_matching_brace (end_brace : N) (l : lexst) : rune * lexst :=
  to_brace_aux (l_after l) end_brace false false 0 l.

Definition filter_text_type (name : bytes) : option toktype :=
  if beqb name (lit "javascript") || beqb name (lit "css") || beqb name (lit "plain") then Some TPlainText
  else if beqb name (lit "escaped") then Some TEscapedText
  else if beqb name (lit "preserve") then Some TPreserveText
  else None.

Fixpoint mem_bytes (x : bytes) (l : list bytes) : bool :=
  match l with [] => false | y :: l' => beqb x y || mem_bytes x l' end.

(** hamlIdentifier *)
Definition haml_identifier (typ : toktype) (l : lexst) : lstate * lexst :=
  let l1 := snd (skip l) in
  let l2 := accept_until c_mayFollowIdentifier l1 in
  match current l2 with
  | [] => errorf (toktype_name typ ++ lit " identifier expected") l2
  | _ => (SGohtContent, emit typ l2)
  end.

(** lexGohtStart's scan for the balanced closing parenthesis; [false] = input ended first *)
Fixpoint goht_start_loop (fuel : bytes) (l : lexst) : bool * lexst :=
  let l1 := accept_until (lit ")") l in
  let opens := count_byte 40 (l_s l1) in
  let closes := count_byte 41 (l_s l1) in
  if Nat.eqb opens (closes + 1) then (true, l1)
  else
    let '(r, l2) := next l1 in
    match r with
    | None => (false, l2)
    | Some _ => match fuel with
                | [] => (false, l2)
                | _ :: f => goht_start_loop f l2
                end
    end.

(** unicode.IsSpace *)
Definition is_unicode_space (r : N) : bool :=
  (N.leb 9 r && N.leb r 13) || N.eqb r 32 || N.eqb r 133 || N.eqb r 160 || N.eqb r 5760 ||
  (N.leb 8192 r && N.leb r 8202) || N.eqb r 8232 || N.eqb r 8233 || N.eqb r 8239 || N.eqb r 8287 ||
  N.eqb r 12288.

(** len(strings.TrimSpace(s)) == 0 *)
Fixpoint all_space_aux (fuel : bytes) (s : bytes) : bool :=
  match decode_rune s with
  | None => true
  | Some (r, w) =>
    if Nat.eqb w 1 && N.eqb r 65533 then false
    else if is_unicode_space r then
      match fuel with [] => true | _ :: f => all_space_aux f (skipn w s) end
    else false
  end.
Definition all_space (s : bytes) : bool := all_space_aux s s.

Definition ws4 : bytes := lit " " ++ [9; 10; 13].

(** one call of a state function *)
Definition step (st : lstate) (l : lexst) : lstate * lexst :=
  match st with
  | SGoLineStart =>
    let '(r, l1) := peek l in
    if rune_is r 112 then
      (SPackage, match current l1 with [] => l1 | _ => emit TGoCode l1 end)
    else if rune_is r 105 then
      (SImportStart, match current l1 with [] => l1 | _ => emit TGoCode l1 end)
    else if rune_is r 64 then (STemplate, l1)
    else match r with
         | None => (SGoLineEnd, l1)
         | Some c => if N.eqb c 10 || N.eqb c 13 then (SGoLineEnd, l1) else (SGoCode, l1)
         end
  | SGoLineEnd =>
    let '(r, l1) := peek l in
    match r with
    | None => (SNil, emit TEOF l1)
    | Some c =>
      if N.eqb c 10 || N.eqb c 13 then
        let l2 := snd (next l1) in
        let '(r2, l3) := peek l2 in
        let l4 := if rune_is r2 13 then snd (next l3) else l3 in
        (SGoLineStart, emit TNewLine l4)
      else
        let '(r3, l2) := peek l1 in errorf (err_unexpected_char r3) l2
    end
  | SPackage =>
    let l1 := accept_until (lit " (" ++ [10]) l in
    if negb (beqb (current l1) (lit "package")) then (SGoCode, l1)
    else
      let l2 := skip_run (lit " ") (ignore l1) in
      let l3 := accept_until [10] l2 in
      match current l3 with
      | [] => errorf (lit "package name expected") l3
      | _ => (SGoLineEnd, emit TPackage l3)
      end
  | SImportStart =>
    let l1 := accept_until (lit " ""(" ++ [10]) l in
    if negb (beqb (current l1) (lit "import")) then (SGoCode, l1)
    else
      let l2 := ignore (skip_run (lit " ") l1) in
      let '(r, l3) := peek l2 in
      if rune_is r 40 then
        let l4 := snd (skip l3) in
        (SImports, skip_run ws4 l4)
      else
        let l4 := accept_until [10; 13] l3 in
        let l5 := emit TImport l4 in
        (SGoLineStart, skip_run [10; 13] l5)
  | SImports =>
    let l1 := skip_run ws4 l in
    let '(r, l2) := peek l1 in
    if rune_is r 41 then (SGoLineStart, skip_run (lit ")" ++ [10; 13]) l2)
    else match r with
         | None => errorf (lit "import expected") l2
         | Some _ =>
           let l3 := accept_until [10; 13] l2 in
           match current l3 with
           | [] => errorf (lit "import expected") l3
           | _ => (SImports, emit TImport l3)
           end
         end
  | SGoCode =>
    let l1 := accept_until [10; 13] l in
    (SGoLineEnd, match current l1 with [] => l1 | _ => emit TGoCode l1 end)
  | STemplate =>
    let l1 := accept_until (lit " " ++ [10; 13]) l in
    if beqb (current l1) (lit "@goht") then
      let '(r, l2) := peek l1 in
      if rune_is r 32 then (SGohtStart, l2) else (SGoCode, l2)
    else (SGoCode, l1)
  | SGohtStart =>
    let l0 := with_indent (ignore l) 0 in
    let l1 := skip_run (lit " ") l0 in
    let l2 := accept_until (lit ")") l1 in
    let l3 := if has_prefix (lit "(") (current l2) then snd (next l2) else l2 in
    let '(ok, l4) := goht_start_loop (l_after l3) l3 in
    if negb ok then errorf (lit "template signature not closed: eof") l4
    else
      let l5 := snd (next l4) in
      let l6 := emit TGohtStart l5 in
      let l7 := skip_run (lit " {") l6 in
      (SGohtLineStart, skip_run [10; 13] l7)
  | SGohtLineStart =>
    let '(r, l1) := peek l in
    if rune_is r 125 then
      let l2 := emit TGohtEnd l1 in
      (SGoLineStart, snd (skip l2))
    else match r with
         | None => (SNil, emit TEOF l1)
         | Some c => if N.eqb c 10 || N.eqb c 13 then (SGohtLineEnd, l1) else (SGohtIndent, l1)
         end
  | SGohtIndent =>
    let l1 := accept_run (lit " " ++ [9]) l in
    let indent := current l1 in
    if Nat.eqb (l_indent l1) 0 && Nat.eqb (List.length indent) 0 then
      errorf (lit "templates must be indented") l1
    else if Nat.eqb (List.length indent) 0 then
      (SGohtContentStart, emit TIndent (with_indent l1 0))
    else match validate_indent indent l1 with
         | Some msg => errorf msg l1
         | None => (SGohtContentStart, emit TIndent (with_indent l1 (List.length (current l1))))
         end
  | SGohtContentStart =>
    let '(r, l1) := peek l in
    match r with
    | None => (SGohtLineEnd, l1)
    | Some c =>
      if N.eqb c 37 then (STag, l1)
      else if N.eqb c 35 then (SId, l1)
      else if N.eqb c 46 then (SClass, l1)
      else if N.eqb c 92 then (STextStart, snd (skip l1))
      else if N.eqb c 33 then
        let '(s3, l2) := peek_ahead 3 l1 in
        if beqb s3 (lit "!!!") then (SDoctype, l2) else (SUnescaped, l2)
      else if N.eqb c 45 then (SSilentScript, l1)
      else if N.eqb c 61 then (SOutputCode, l1)
      else if N.eqb c 47 then (SComment, l1)
      else if N.eqb c 58 then (SFilterStart, l1)
      else if N.eqb c 10 || N.eqb c 13 then (SGohtLineEnd, l1)
      else (STextStart, l1)
    end
  | SGohtContent =>
    let '(r, l1) := peek l in
    match r with
    | None => (SGohtLineEnd, l1)
    | Some c =>
      if N.eqb c 35 then (SId, l1)
      else if N.eqb c 46 then (SClass, l1)
      else if N.eqb c 91 then (SObjectReference, l1)
      else if N.eqb c 123 then (SAttributesStart, l1)
      else if N.eqb c 33 then (SUnescaped, l1)
      else if N.eqb c 45 then (SSilentScript, l1)
      else if N.eqb c 61 then (SOutputCode, l1)
      else if N.eqb c 47 then (SVoidTag, l1)
      else if N.eqb c 62 || N.eqb c 60 then (SWhitespaceRemoval, l1)
      else if N.eqb c 10 || N.eqb c 13 then (SGohtLineEnd, l1)
      else (STextStart, l1)
    end
  | SGohtContentEnd =>
    let '(r, l1) := peek l in
    match r with
    | None => (SGohtLineEnd, l1)
    | Some c =>
      if N.eqb c 61 then (SOutputCode, l1)
      else if N.eqb c 47 then (SVoidTag, l1)
      else if N.eqb c 62 || N.eqb c 60 then (SWhitespaceRemoval, l1)
      else if N.eqb c 10 || N.eqb c 13 then (SGohtLineEnd, l1)
      else (STextStart, l1)
    end
  | SGohtLineEnd =>
    let l1 := skip_run (lit " " ++ [9]) l in
    let '(r, l2) := peek l1 in
    match r with
    | None => (SNil, emit TEOF l2)
    | Some c =>
      if N.eqb c 10 || N.eqb c 13 then (SGohtNewLine, l2)
      else let '(r3, l3) := peek l2 in errorf (err_unexpected_char r3) l3
    end
  | SGohtNewLine =>
    let l1 := accept_run [10; 13] l in
    (SGohtLineStart, emit TNewLine l1)
  | STag => haml_identifier TTag l
  | SId => haml_identifier TId l
  | SClass => haml_identifier TClass l
  | SObjectReference =>
    let l1 := snd (skip l) in
    let '(r, l2) := continue_to_matching_brace 93 l1 in
    match r with
    | None => errorf (lit "object reference not closed: eof") l2
    | Some _ =>
      if mem_byte 10 (l_s l2) || mem_byte 13 (l_s l2) then errorf (lit "object reference not closed: eol") l2
      else
        let l3 := emit TObjectRef (backup l2) in
        (SGohtContent, snd (skip l3))
    end
  | SAttributesStart => (SAttribute, snd (skip l))
  | SAttributesEnd => (SGohtContent, snd (skip l))
  | SAttribute =>
    let l1 := skip_run (lit ", " ++ [9; 10; 13]) l in
    let '(r, l2) := peek l1 in
    if rune_is r 125 then (SAttributesEnd, l2)
    else if rune_is r 64 then (SAttributeCommandStart, l2)
    else (SAttributeName, l2)
  | SAttributeName =>
    let '(r0, l0) := peek l in
    let '(r0', l0') := peek l0 in
    let after_name (l3 : lexst) : lstate * lexst :=
        let l4 := skip_run ws4 l3 in
        let '(r, l5) := peek l4 in
        if rune_is r 63 || rune_is r 58 then (SAttributeOperator, l5)
        else if rune_is r 44 || rune_is r 125 then (SAttributeEnd, l5)
        else let '(r', l6) := peek l5 in errorf (err_unexpected_char r') l6 in
    if rune_is r0 34 || rune_is r0' 96 then
      let '(r, l1) := continue_to_matching_quote TAttrName false l0' in
      match r with
      | None => errorf (lit "attribute name not closed: eof") l1
      | Some c =>
        if negb (N.eqb c 34) && negb (N.eqb c 96) then errorf (err_unexpected_char r) l1
        else after_name l1
      end
    else
      let l1 := accept_until (lit "?:,}{"" " ++ [9; 10; 13]) l0' in
      match current l1 with
      | [] => errorf (lit "attribute name expected") l1
      | _ => after_name (emit TAttrName l1)
      end
  | SAttributeOperator =>
    let l1 := skip_run ws4 l in
    let '(r, l2) := peek l1 in
    if rune_is r 63 || rune_is r 58 then
      (SAttributeValue, emit TAttrOperator (snd (next l2)))
    else let '(r', l3) := peek l2 in errorf (err_unexpected_char r') l3
  | SAttributeValue =>
    let l1 := skip_run ws4 l in
    let '(r, l2) := peek l1 in
    if rune_is r 34 || rune_is r 96 then (SAttributeStaticValue, l2)
    else if rune_is r 35 then (SAttributeDynamicValue, l2)
    else let '(r', l3) := peek l2 in errorf (err_unexpected_char r') l3
  | SAttributeStaticValue =>
    let '(r, l1) := continue_to_matching_quote TAttrEscapedValue true l in
    match r with
    | None => errorf (lit "attribute value not closed: eof") l1
    | Some c =>
      if negb (N.eqb c 34) && negb (N.eqb c 96) then errorf (err_unexpected_char r) l1
      else (SAttributeEnd, l1)
    end
  | SAttributeDynamicValue =>
    let l1 := snd (skip l) in
    let '(r, l2) := peek l1 in
    if negb (rune_is r 123) then
      let '(r', l3) := peek l2 in errorf (err_unexpected_char r') l3
    else
      let l3 := snd (skip l2) in
      let '(rb, l4) := continue_to_matching_brace 125 l3 in
      match rb with
      | None => errorf (lit "attribute value not closed: eof") l4
      | Some _ =>
        let l5 := emit TAttrDynamicValue (backup l4) in
        (SAttributeEnd, snd (skip l5))
      end
  | SAttributeCommandStart =>
    let l1 := skip_run (lit "@") l in
    let l2 := accept_until (lit ": " ++ [9; 10; 13]) l1 in
    match current l2 with
    | [] => errorf (lit "command code expected") l2
    | c => if beqb c (lit "attributes") then (SAttributeCommand, l2)
           else errorf (lit "unknown attribute command: " ++ c) l2
    end
  | SAttributeCommand =>
    let l1 := ignore l in
    let l2 := skip_until (lit ":") l1 in
    let l3 := skip_until (lit "{") l2 in
    let l4 := snd (skip l3) in
    let '(r, l5) := continue_to_matching_brace 125 l4 in
    match r with
    | None => errorf (lit "attribute value not closed: eof") l5
    | Some _ =>
      let l6 := emit TAttributesCommand (backup l5) in
      (SAttributeEnd, snd (skip l6))
    end
  | SAttributeEnd =>
    let l1 := skip_run ws4 l in
    let '(r, l2) := peek l1 in
    if rune_is r 44 then (SAttribute, snd (skip l2))
    else if rune_is r 125 then (SAttributesEnd, l2)
    else let '(r', l3) := peek l2 in errorf (lit "unexpected character: " ++ go_fmt_c r') l3
  | SWhitespaceRemoval =>
    let '(d, l1) := skip l in
    if rune_is d 62 then (SGohtContentEnd, emit TNukeOuterWhitespace l1)
    else if rune_is d 60 then (SGohtContentEnd, emit TNukeInnerWhitespace l1)
    else errorf (err_unexpected_char d) l1
  | STextStart => (STextContent, skip_run (lit " " ++ [9]) l)
  | STextContent =>
    let l1 := accept_until (lit "\#" ++ [10; 13]) l in
    let '(r, l2) := peek l1 in
    if rune_is r 92 then
      let '(two, l3) := peek_ahead 2 l2 in
      if beqb two (lit "\#") then
        let l4 := snd (skip l3) in
        (STextContent, if negb (has_suffix (lit "\") (current l4)) then snd (next l4) else l4)
      else (STextContent, snd (next l3))
    else if rune_is r 35 then (SDynamicText, l2)
    else (SGohtLineEnd, match current l2 with [] => l2 | _ => emit TPlainText l2 end)
  | SDynamicText =>
    let '(two, l1) := peek_ahead 2 l in
    if negb (beqb two (lit "#{")) then (STextContent, snd (next l1))
    else
      let l2 := match current l1 with [] => l1 | _ => emit TPlainText l1 end in
      let l3 := skip_run (lit "#{") l2 in
      let '(r, l4) := continue_to_matching_brace 125 l3 in
      match r with
      | None => errorf (lit "dynamic text value was not closed: eof") l4
      | Some _ =>
        if mem_byte 10 (l_s l4) || mem_byte 13 (l_s l4) then errorf (lit "dynamic text value was not closed: eol") l4
        else
          let l5 := emit TDynamicText (backup l4) in
          (STextContent, snd (skip l5))
      end
  | SDoctype =>
    let l1 := skip_run (lit "! ") l in
    let l2 := accept_until [10; 13] l1 in
    (SGohtLineEnd, emit TDoctype l2)
  | SUnescaped =>
    let l1 := snd (skip l) in
    let l2 := emit TUnescaped (ignore l1) in
    let '(r, l3) := peek l2 in
    if rune_is r 61 then (SOutputCode, l3) else (STextStart, l3)
  | SSilentScript =>
    let l1 := snd (skip l) in
    let '(r, l2) := peek l1 in
    if rune_is r 35 then
      let l3 := skip_until [10; 13] l2 in
      (SIgnoreIndented (l_indent l3 + 1), emit TRubyComment l3)
    else
      let l3 := skip_run (lit " " ++ [9]) l2 in
      let l4 := accept_until [10; 13] l3 in
      (SGohtLineEnd, emit TSilentScript l4)
  | SIgnoreIndented indent =>
    let '(r, l1) := peek l in
    match r with
    | None => (SNil, emit TEOF l1)
    | Some c =>
      if N.eqb c 10 || N.eqb c 13 then (SIgnoreIndented indent, snd (skip l1))
      else if N.eqb c 32 || N.eqb c 9 then
        let '(prior, l2) := peek_ahead indent l1 in
        if negb (all_space prior) then (SGohtLineStart, l2)
        else match validate_indent prior l2 with
             | Some msg => errorf msg l2
             | None => (SIgnoreIndented indent, skip_until [10; 13] l2)
             end
      else (SGohtLineStart, l1)
    end
  | SOutputCode =>
    let l1 := skip_run (lit "= " ++ [9]) l in
    let '(r, l2) := peek l1 in
    if rune_is r 64 then (SCommandCode, l2)
    else
      let l3 := accept_until [10; 13] l2 in
      (SGohtLineEnd, emit TScript l3)
  | SComment =>
    let l1 := skip_run (lit "/ " ++ [9]) l in
    let l2 := accept_until [10; 13] l1 in
    (SGohtLineEnd, emit TComment l2)
  | SVoidTag =>
    let l1 := skip_run (lit "/ " ++ [9]) l in
    let l2 := accept_until [10; 13] l1 in
    match current l2 with
    | [] => (SGohtLineEnd, emit TVoidTag l2)
    | _ => errorf (lit "self-closing tags can't have content") (ignore l2)
    end
  | SCommandCode =>
    let l1 := skip_run (lit "@") l in
    let l2 := accept_until (lit "() " ++ [9; 10; 13]) l1 in
    match current l2 with
    | [] => errorf (lit "command code expected") l2
    | c =>
      if beqb c (lit "render") then
        let l3 := ignore (accept_run (lit "() " ++ [9]) l2) in
        let l4 := accept_until [10; 13] l3 in
        match current l4 with
        | [] => errorf (lit "render argument expected") l4
        | _ => (SGohtLineStart, skip_run [10; 13] (emit TRenderCommand l4))
        end
      else if beqb c (lit "children") then
        let l3 := ignore (accept_run (lit "() " ++ [9]) l2) in
        let l4 := accept_until [10; 13] l3 in
        match current l4 with
        | [] => (SGohtLineStart, skip_run [10; 13] (emit TChildrenCommand l4))
        | _ => errorf (lit "children command does not accept arguments") l4
        end
      else errorf (lit "unknown command: " ++ c) l2
    end
  | SFilterStart =>
    let l1 := skip_run (lit ": " ++ [9]) l in
    let l2 := accept_until ws4 l1 in
    match current l2 with
    | [] => errorf (lit "filter name expected") l2
    | name =>
      if negb (mem_bytes name c_filters) then errorf (lit "unknown filter: " ++ name) l2
      else
        let l3 := emit TFilterStart l2 in
        let l4 := skip_until [10; 13] l3 in
        let l5 := skip_run [10; 13] l4 in
        match filter_text_type name with
        | Some k => (SFilterLineStart (l_indent l5 + 1) k, l5)
        | None => (SGohtLineEnd, l5)
        end
    end
  | SFilterLineStart indent k =>
    let '(r, l1) := peek l in
    match r with
    | None => (SNil, emit TEOF l1)
    | Some c =>
      if N.eqb c 32 || N.eqb c 9 then (SFilterIndent indent k, l1)
      else (SGohtLineStart, emit TFilterEnd l1)
    end
  | SFilterIndent indent k =>
    let '(indents, l1) := peek_ahead indent l in
    if negb (forallb (fun b => N.eqb b 9) indents) then (SGohtLineStart, emit TFilterEnd l1)
    else (SFilterContent indent k, skip_ahead indent l1)
  | SFilterContent indent k =>
    let l1 := accept_until (lit "#" ++ [10; 13]) l in
    let '(r, l2) := peek l1 in
    if rune_is r 35 then (SFilterDynamicText indent k, l2)
    else
      let l3 := accept_run [10; 13] l2 in
      (SFilterLineStart indent k, match current l3 with [] => l3 | _ => emit k l3 end)
  | SFilterDynamicText indent k =>
    let '(two, l1) := peek_ahead 2 l in
    if negb (beqb two (lit "#{")) then (SFilterContent indent k, snd (next l1))
    else
      let l2 := match current l1 with [] => l1 | _ => emit k l1 end in
      let l3 := skip_run (lit "#{") l2 in
      let '(r, l4) := continue_to_matching_brace 125 l3 in
      match r with
      | None => errorf (lit "dynamic text value was not closed: eof") l4
      | Some _ =>
        if mem_byte 10 (l_s l4) || mem_byte 13 (l_s l4) then errorf (lit "dynamic text value was not closed: eol") l4
        else
          let l5 := emit TDynamicText (backup l4) in
          (SFilterContent indent k, snd (skip l5))
      end
  | SStopped => (SNil, l)
  | SNil => (SNil, l)
  end.

(** The lexer as the parser sees it: a state, the cursor, and the queue of tokens already
    emitted (the channel).  [lx_blocked] records that one state call emitted more tokens than
    the channel holds (the Go lexer would block forever). *)
Record lexer := mkLexer { lx_state : lstate; lx_st : lexst; lx_queue : list token; lx_blocked : bool }.

Definition new_lexer (input : bytes) : lexer := mkLexer SGoLineStart (init_lex input) [] false.

Inductive pulled :=
| PTok (t : token) (lx : lexer)
| PHang            (* fuel exhausted: the state machine made no progress *)
| PPanic           (* a slice or index operation was out of range *)
| PDeadlock        (* more tokens emitted by one state call than the channel holds *)
| PBudget.         (* never returned by the lexer: the parser's own loop budget was used up (Parser.parse_loop) *)

(** lexer.nextToken() *)
Fixpoint next_token (fuel : nat) (lx : lexer) : pulled :=
  match lx_queue lx with
  | t :: q => PTok t (mkLexer (lx_state lx) (lx_st lx) q (lx_blocked lx))
  | [] =>
    match lx_state lx with
    | SNil => PTok tok_eof lx
    | st =>
      match fuel with
      | O => PHang
      | S f =>
        let '(st', l') := step st (lx_st lx) in
        if l_panic l' then PPanic
        else
          let toks := rev (l_out l') in
          if Nat.ltb c_token_queue_cap (List.length toks) then PDeadlock
          else next_token f (mkLexer st' (with_out l' []) toks false)
      end
    end
  end.

(** fuel sufficient for any input: every state call consumes input or moves down a rank *)
Definition lex_fuel (input : bytes) : nat := 16 * (List.length input + 4).
