(** Model of compiler/source_map.go.  A map is represented by the list of its insertions
    (oldest first); a later insertion for the same key overwrites an earlier one. *)
From GV Require Export Compiler.Emit.
Open Scope N_scope.

Record smentry := mkSE { se_sl : Z; se_sc : Z; se_tl : Z; se_tc : Z }.

(** the entries one SourceMap.Add(t, range) inserts, in insertion order *)
Fixpoint cols_upto (n : nat) : list nat :=
  match n with O => [O] | S k => cols_upto k ++ [n] end.

Fixpoint add_lines (lines : list bytes) (idx : nat) (a : smadd) : list smentry :=
  match lines with
  | [] => []
  | ln :: rest =>
    let sl := (sa_line a + Z.of_nat idx - 1)%Z in
    let tl := (sa_tline a + Z.of_nat idx - 1)%Z in
    let sc0 := match idx with O => (sa_col a - 1)%Z | _ => 0%Z end in
    let tc0 := match idx with O => (sa_tcol a - 1)%Z | _ => 0%Z end in
    map (fun c => mkSE sl (sc0 + Z.of_nat c) tl (tc0 + Z.of_nat c)) (cols_upto (List.length ln))
    ++ add_lines rest (S idx) a
  end.

Definition add_entries (a : smadd) : list smentry := add_lines (split_byte 10 (sa_lit a)) 0 a.

Definition sm_entries (adds : list smadd) : list smentry := flat_map add_entries adds.

(** TargetPositionFromSource / SourcePositionFromTarget: the last insertion wins *)
Fixpoint s2t_aux (es : list smentry) (l c : Z) (acc : option (Z * Z)) : option (Z * Z) :=
  match es with
  | [] => acc
  | e :: es' => s2t_aux es' l c (if Z.eqb (se_sl e) l && Z.eqb (se_sc e) c then Some (se_tl e, se_tc e) else acc)
  end.
Definition s2t (es : list smentry) (l c : Z) : option (Z * Z) := s2t_aux es l c None.

Fixpoint t2s_aux (es : list smentry) (l c : Z) (acc : option (Z * Z)) : option (Z * Z) :=
  match es with
  | [] => acc
  | e :: es' => t2s_aux es' l c (if Z.eqb (se_tl e) l && Z.eqb (se_tc e) c then Some (se_sl e, se_sc e) else acc)
  end.
Definition t2s (es : list smentry) (l c : Z) : option (Z * Z) := t2s_aux es l c None.

(** no two insertions share a template position, and no two share a generated position (decidable; evaluated
    by the C16 check on the entries of every accepted file) *)
Fixpoint zpair_mem (k : Z * Z) (l : list (Z * Z)) : bool :=
  match l with [] => false | x :: l' => (Z.eqb (fst x) (fst k) && Z.eqb (snd x) (snd k)) || zpair_mem k l' end.
Fixpoint zpairs_nodup (l : list (Z * Z)) : bool :=
  match l with [] => true | x :: l' => negb (zpair_mem x l') && zpairs_nodup l' end.
Definition keys_unique (es : list smentry) : bool :=
  zpairs_nodup (map (fun e => (se_sl e, se_sc e)) es) && zpairs_nodup (map (fun e => (se_tl e, se_tc e)) es).
