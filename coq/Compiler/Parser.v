(** Model of compiler/parser.go and of the [parse] methods / [handleNode] of compiler/nodes.go.
    The Go parser mutates nodes that are already linked into their parent; here a node under
    construction is a [frame] on the stack and is attached to its parent when it is popped
    (nothing is ever added to a parent while one of its children is still on the stack, so
    the resulting child order is the same).  On an error the partial tree is obtained by
    attaching every frame still on the stack, which is the tree the Go parser leaves behind. *)
From GV Require Export Compiler.Lexer.
Open Scope N_scope.

Record attribute := mkAttr {
  a_name : bytes; a_bool : bool; a_dyn : bool; a_value : bytes; a_origin : token }.

Record elem := mkElem {
  e_tag : bytes;
  e_id : bytes;
  e_classes : list token;
  e_objref : option token;
  e_attrs : list (bytes * attribute);   (* OrderedMap: keys in first-insertion order *)
  e_attrs_cmd : bytes;
  e_disallow : bool;
  e_selfclosing : bool;
  e_nuke_inner : bool;
  e_nuke_outer : bool;
  e_complete : bool
}.

Inductive fkind := FJavaScript | FCss | FText.

Inductive nkind :=
| KRoot (pkg : token) (user_imports : list token)
| KCode (toks : list token)
| KGoht (origin : token)
| KDoctype (origin : token)
| KElement (origin : token) (indent : Z) (d : elem)
| KNewLine (origin : token)
| KComment (origin : token) (indent : Z)
| KText (origin : token)
| KUnescape (origin : token) (indent : Z)
| KSilent (origin : token) (indent : Z) (complete : bool)
| KScript (origin : token)
| KRender (origin : token) (indent : Z)
| KChildren (origin : token)
| KFilter (fk : fkind) (origin : token) (indent : Z).

Inductive node := Node (k : nkind) (children : list node).

Definition tok_root : token := mkTok TRoot [] 0%Z 0%Z.

Definition kind_origin (k : nkind) : token :=
  match k with
  | KRoot _ _ => tok_root
  | KCode toks => match toks with t :: _ => t | [] => tok_root end
  | KGoht o | KDoctype o | KElement o _ _ | KNewLine o | KComment o _ | KText o | KUnescape o _
  | KSilent o _ _ | KScript o | KRender o _ | KChildren o | KFilter _ o _ => o
  end.

Definition kind_indent (k : nkind) : Z :=
  match k with
  | KGoht _ => (-1)%Z
  | KElement _ i _ | KComment _ i | KUnescape _ i | KSilent _ i _ | KRender _ i | KFilter _ _ i => i
  | _ => 0%Z
  end.

(** nodeType, as its numeric value (used by one error message) and its name *)
Inductive ntype := NtRoot | NtGoCode | NtGoht | NtOther.
Definition kind_ntype (k : nkind) : ntype :=
  match k with KRoot _ _ => NtRoot | KCode _ => NtGoCode | KGoht _ => NtGoht | _ => NtOther end.

Record frame := mkFrame { f_kind : nkind; f_rev_children : list node }.

Definition finalize (f : frame) : node := Node (f_kind f) (rev (f_rev_children f)).

Inductive perr :=
| PosErr (line col : Z) (msg : bytes)
| PlainErr (msg : bytes).

Record parser := mkP {
  p_lexer : lexer;
  p_stack : list frame;       (* top first; the last element is the root *)
  p_token : token;            (* p.token: the token consumed last *)
  p_peek : token              (* the one token of look-ahead (top of p.tokens) *)
}.

Inductive presult (A : Type) :=
| ROk (a : A)
| RErr (e : perr) (p : parser)
| RCrash (c : pulled).       (* PHang / PPanic / PDeadlock from the lexer; PBudget from parse_loop *)
Arguments ROk {A}. Arguments RErr {A}. Arguments RCrash {A}.

Definition node_errorf (k : nkind) (msg : bytes) : perr :=
  PosErr (t_line (kind_origin k)) (t_col (kind_origin k)) msg.

Section WithFuel.
Variable lexfuel : nat.

(** p.next(): consume the look-ahead and pull the next token *)
Definition p_next (p : parser) : presult (token * parser) :=
  match next_token lexfuel (p_lexer p) with
  | PTok t lx => ROk (p_peek p, mkP lx (p_stack p) (p_peek p) t)
  | c => RCrash c
  end.

Definition top_kind (p : parser) : nkind :=
  match p_stack p with f :: _ => f_kind f | [] => KRoot tok_root [] end.

Definition set_stack (p : parser) (s : list frame) : parser := mkP (p_lexer p) s (p_token p) (p_peek p).

(** add a finished child to the current node *)
Definition add_child (p : parser) (n : node) : parser :=
  match p_stack p with
  | f :: rest => set_stack p (mkFrame (f_kind f) (n :: f_rev_children f) :: rest)
  | [] => p
  end.

(** addNode: the new node becomes the current node *)
Definition add_node (p : parser) (k : nkind) : parser :=
  set_stack p (mkFrame k [] :: p_stack p).

(** pop the current node, attaching it to its parent *)
Definition pop (p : parser) : parser :=
  match p_stack p with
  | f :: g :: rest => set_stack p (mkFrame (f_kind g) (finalize f :: f_rev_children g) :: rest)
  | _ => p
  end.

Definition set_top_kind (p : parser) (k : nkind) : parser :=
  match p_stack p with
  | f :: rest => set_stack p (mkFrame k (f_rev_children f) :: rest)
  | [] => p
  end.

Definition is_root (k : nkind) : bool := match k with KRoot _ _ => true | _ => false end.

Fixpoint back_to_indent (fuel : nat) (indent : Z) (p : parser) : presult parser :=
  match fuel with
  | O => ROk p
  | S f =>
    if is_root (top_kind p) then
      RErr (PlainErr (lit "unexpected: node has no parent with indent " ++ itoa_z indent)) p
    else if Z.leb (kind_indent (top_kind p)) indent then ROk p
    else back_to_indent f indent (pop p)
  end.

Definition ntype_eqb (a b : ntype) : bool :=
  match a, b with NtRoot, NtRoot | NtGoCode, NtGoCode | NtGoht, NtGoht | NtOther, NtOther => true | _, _ => false end.

Definition ntype_name (t : ntype) : bytes :=
  match t with NtRoot => lit "Root" | NtGoCode => lit "GoCode" | NtGoht => lit "Goht" | NtOther => lit "?" end.

Fixpoint back_to_type (fuel : nat) (typ : ntype) (p : parser) : presult parser :=
  match fuel with
  | O => ROk p
  | S f =>
    if ntype_eqb (kind_ntype (top_kind p)) typ then ROk p
    else if is_root (top_kind p) then
      RErr (PlainErr (lit "unexpected: node has no parent of type " ++ ntype_name typ)) p
    else back_to_type f typ (pop p)
  end.

Definition back_to_parent (p : parser) : presult parser :=
  if is_root (top_kind p) then RErr (PlainErr (lit "unexpected: node has no parent 1")) p
  else ROk (pop p).

Definition stack_depth (p : parser) : nat := List.length (p_stack p).

Definition new_elem (t : token) : elem :=
  let e := mkElem (lit "div") [] [] None [] [] false false false false false in
  match t_typ t with
  | TTag => mkElem (t_lit t) [] [] None [] [] false false false false false
  | TId => mkElem (lit "div") (t_lit t) [] None [] [] false false false false false
  | TClass => mkElem (lit "div") [] [t] None [] [] false false false false false
  | _ => e
  end.

Definition zlen (b : bytes) : Z := Z.of_nat (List.length b).

(** node.handleNode; [k] is the receiver (the current node) *)
Fixpoint handle_node (fuel : nat) (indent : Z) (p : parser) : presult parser :=
  let k := top_kind p in
  let t := p_peek p in
  let consume_child (mk : token -> nkind) :=
      match p_next p with
      | ROk (tk, p1) => ROk (add_child p1 (Node (mk tk) []))
      | RErr e q => RErr e q | RCrash c => RCrash c
      end in
  let consume_node (mk : token -> nkind) :=
      match p_next p with
      | ROk (tk, p1) => ROk (add_node p1 (mk tk))
      | RErr e q => RErr e q | RCrash c => RCrash c
      end in
  match t_typ t with
  | TRubyComment =>
    match p_next p with ROk (_, p1) => ROk p1 | RErr e q => RErr e q | RCrash c => RCrash c end
  | TNewLine => consume_child KNewLine
  | TIndent =>
    let next_indent := zlen (t_lit t) in
    if Z.leb next_indent (kind_indent k) then back_to_indent (stack_depth p) (next_indent - 1)%Z p
    else
      match p_next p with
      | ROk (_, p1) =>
        match fuel with
        | O => ROk p1
        | S f => handle_node f next_indent p1
        end
      | RErr e q => RErr e q | RCrash c => RCrash c
      end
  | TDoctype => consume_child KDoctype
  | TTag | TId | TClass => consume_node (fun tk => KElement tk indent (new_elem tk))
  | TComment => consume_node (fun tk => KComment tk indent)
  | TUnescaped => consume_node (fun tk => KUnescape tk indent)
  | TPlainText | TPreserveText | TEscapedText | TDynamicText => consume_child KText
  | TSilentScript => consume_node (fun tk => KSilent tk indent false)
  | TScript => consume_child KScript
  | TRenderCommand => consume_node (fun tk => KRender tk indent)
  | TChildrenCommand => consume_child KChildren
  | TFilterStart =>
    match p_next p with
    | ROk (tk, p1) =>
      if beqb (t_lit tk) (lit "javascript") then ROk (add_node p1 (KFilter FJavaScript tk indent))
      else if beqb (t_lit tk) (lit "css") then ROk (add_node p1 (KFilter FCss tk indent))
      else if beqb (t_lit tk) (lit "plain") || beqb (t_lit tk) (lit "escaped") || beqb (t_lit tk) (lit "preserve")
      then ROk (add_node p1 (KFilter FText tk indent))
      else RErr (node_errorf k (lit "unknown filter: " ++ token_string tk)) p1
    | RErr e q => RErr e q | RCrash c => RCrash c
    end
  | TGohtEnd => back_to_type (stack_depth p) NtGoht p
  | TEOF => RErr (node_errorf k (lit "template is incomplete: " ++ token_string t)) p
  | TError => RErr (PosErr (t_line t) (t_col t) (t_lit t)) p
  | _ => RErr (node_errorf k (lit "unexpected: " ++ token_string t)) p
  end.

(** OrderedMap.Set *)
Fixpoint omap_set (m : list (bytes * attribute)) (key : bytes) (v : attribute) : list (bytes * attribute) :=
  match m with
  | [] => [(key, v)]
  | (k, x) :: m' => if beqb k key then (k, v) :: m' else (k, x) :: omap_set m' key v
  end.

Definition with_attrs (d : elem) (m : list (bytes * attribute)) : elem :=
  mkElem (e_tag d) (e_id d) (e_classes d) (e_objref d) m (e_attrs_cmd d) (e_disallow d)
         (e_selfclosing d) (e_nuke_inner d) (e_nuke_outer d) (e_complete d).

(** strconv.Unquote for the two kinds of literal an attribute value token can be.
    [None] = error (the Go code ignores it and uses the empty string). *)
Definition hexv (c : N) : option N :=
  if N.leb 48 c && N.leb c 57 then Some (c - 48)
  else if N.leb 97 c && N.leb c 102 then Some (c - 87)
  else if N.leb 65 c && N.leb c 70 then Some (c - 55)
  else None.

Fixpoint hex_n (n : nat) (s : bytes) (acc : N) : option (N * bytes) :=
  match n with
  | O => Some (acc, s)
  | S k => match s with
           | c :: s' => match hexv c with Some v => hex_n k s' (acc * 16 + v) | None => None end
           | [] => None
           end
  end.

Definition octv (c : N) : option N := if N.leb 48 c && N.leb c 55 then Some (c - 48) else None.

(** body of a double-quoted Go string literal -> its value (strconv.Unquote, double quote) *)
Fixpoint unquote_body (fuel : nat) (s : bytes) : option bytes :=
  match fuel with
  | O => None
  | S f =>
    match s with
    | [] => Some []
    | c :: s' =>
      if N.eqb c 34 || N.eqb c 10 then None
      else if N.eqb c 92 then
        match s' with
        | [] => None
        | e :: s'' =>
          let simple (v : N) := option_map (cons v) (unquote_body f s'') in
          if N.eqb e 97 then simple 7 else if N.eqb e 98 then simple 8
          else if N.eqb e 102 then simple 12 else if N.eqb e 110 then simple 10
          else if N.eqb e 114 then simple 13 else if N.eqb e 116 then simple 9
          else if N.eqb e 118 then simple 11 else if N.eqb e 92 then simple 92
          else if N.eqb e 34 then simple 34
          else if N.eqb e 120 then
            match hex_n 2 s'' 0 with
            | Some (v, r) => option_map (cons v) (unquote_body f r)
            | None => None
            end
          else if N.eqb e 117 then
            match hex_n 4 s'' 0 with
            | Some (v, r) => if valid_rune v then option_map (app (encode_rune v)) (unquote_body f r) else None
            | None => None
            end
          else if N.eqb e 85 then
            match hex_n 8 s'' 0 with
            | Some (v, r) => if valid_rune v then option_map (app (encode_rune v)) (unquote_body f r) else None
            | None => None
            end
          else match octv e with
               | Some v0 =>
                 match s'' with
                 | c1 :: c2 :: r =>
                   match octv c1, octv c2 with
                   | Some v1, Some v2 =>
                     let v := v0 * 64 + v1 * 8 + v2 in
                     if N.ltb 255 v then None else option_map (cons v) (unquote_body f r)
                   | _, _ => None
                   end
                 | _ => None
                 end
               | None => None
               end
        end
      else
        (* an ordinary character; an invalid byte comes out as U+FFFD *)
        match decode_rune s with
        | Some (r, w) => option_map (app (encode_rune r)) (unquote_body f (skipn w s))
        | None => Some []
        end
    end
  end.

Definition go_unquote (s : bytes) : option bytes :=
  match s with
  | q :: rest =>
    match rev rest with
    | q' :: body_rev =>
      let body := rev body_rev in
      if negb (N.eqb q q') then None
      else if N.eqb q 96 then
        if mem_byte 96 body then None
        else Some (filter (fun b => negb (N.eqb b 13)) body)   (* raw strings drop carriage returns *)
      else if N.eqb q 34 then unquote_body (S (List.length body)) body
      else None
    | [] => None
    end
  | [] => None
  end.

(** ElementNode.parseAttributes; attributes set before an error stay in the (partial) tree *)
Fixpoint parse_attributes (fuel : nat) (origin0 : token) (indent0 : Z) (d : elem) (p : parser) : presult (elem * parser) :=
  let k0 := KElement origin0 indent0 d in
  let keep (q : parser) := set_top_kind q k0 in
  match fuel with
  | O => ROk (d, p)
  | S f =>
    if negb (toktype_eqb (t_typ (p_peek p)) TAttrName) then ROk (d, p)
    else
      match p_next p with
      | RErr e q => RErr e (keep q) | RCrash c => RCrash c
      | ROk (nt, p1) =>
        let name := t_lit nt in
        if toktype_eqb (t_typ (p_peek p1)) TAttrOperator then
          match p_next p1 with
          | RErr e q => RErr e (keep q) | RCrash c => RCrash c
          | ROk (op, p2) =>
            let is_bool := beqb (t_lit op) (lit "?") in
            if is_bool && negb (toktype_eqb (t_typ (p_peek p2)) TAttrDynamicValue) then
              RErr (node_errorf k0 (lit "expected dynamic value: " ++ token_string (p_peek p2))) (keep p2)
            else if negb (toktype_eqb (t_typ (p_peek p2)) TAttrDynamicValue) &&
                    negb (toktype_eqb (t_typ (p_peek p2)) TAttrEscapedValue) then
              RErr (node_errorf k0 (lit "expected attribute value: " ++ token_string (p_peek p2))) (keep p2)
            else
              match p_next p2 with
              | RErr e q => RErr e (keep q) | RCrash c => RCrash c
              | ROk (origin, p3) =>
                let is_dyn := toktype_eqb (t_typ origin) TAttrDynamicValue in
                let value := if is_dyn then Some (t_lit origin) else go_unquote (t_lit origin) in
                match value with
                | None => RErr (node_errorf k0 (lit "invalid attribute value: " ++ token_string origin)) (keep p3)
                | Some v =>
                  parse_attributes f origin0 indent0 (with_attrs d (omap_set (e_attrs d) name (mkAttr name is_bool is_dyn v origin))) p3
                end
              end
          end
        else
          parse_attributes f origin0 indent0 (with_attrs d (omap_set (e_attrs d) name (mkAttr name false false [] tok_eof))) p1
      end
  end.

Definition elem_upd (d : elem) (f : elem -> elem) := f d.

(** ElementNode.parse *)
Definition parse_element (fuel : nat) (origin : token) (indent : Z) (d : elem) (p : parser) : presult parser :=
  let k := KElement origin indent d in
  let t := p_peek p in
  let upd (d' : elem) (q : parser) := set_top_kind q (KElement origin indent d') in
  let complete_check : option (presult parser) :=
      if e_complete d then
        match t_typ t with
        | TIndent =>
          let next_indent := zlen (t_lit t) in
          if Z.leb next_indent indent then Some (back_to_indent (stack_depth p) (next_indent - 1)%Z p)
          else if e_disallow d || e_selfclosing d then
            if e_selfclosing d then
              Some (RErr (node_errorf k (lit "illegal nesting: self-closing tags can't have content " ++ token_string t)) p)
            else
              Some (RErr (node_errorf k (lit "illegal nesting: content can't be both given on the same line and nested " ++ token_string t)) p)
          else None
        | _ => Some (handle_node fuel (indent + 1)%Z p)
        end
      else None in
  match complete_check with
  | Some r => r
  | None =>
    let consume (f : token -> elem) :=
        match p_next p with
        | ROk (tk, p1) => ROk (upd (f tk) p1)
        | RErr e q => RErr e q | RCrash c => RCrash c
        end in
    match t_typ t with
    | TNewLine =>
      match p_next p with
      | RErr e q => RErr e q | RCrash c => RCrash c
      | ROk (tk, p1) =>
        let nchildren := match p_stack p1 with f :: _ => List.length (f_rev_children f) | [] => O end in
        let selfc := e_selfclosing d || mem_bytes (e_tag d) c_selfClosedTags in
        let disallow := e_disallow d || selfc || negb (Nat.eqb nchildren 0) in
        let d' := mkElem (e_tag d) (e_id d) (e_classes d) (e_objref d) (e_attrs d) (e_attrs_cmd d)
                         disallow selfc (e_nuke_inner d) (e_nuke_outer d) true in
        let p2 := upd d' p1 in
        ROk (if Nat.eqb nchildren 0 then add_child p2 (Node (KNewLine tk) []) else p2)
      end
    | TId => consume (fun tk => mkElem (e_tag d) (t_lit tk) (e_classes d) (e_objref d) (e_attrs d) (e_attrs_cmd d)
                                     (e_disallow d) (e_selfclosing d) (e_nuke_inner d) (e_nuke_outer d) (e_complete d))
    | TClass => consume (fun tk => mkElem (e_tag d) (e_id d) (e_classes d ++ [tk]) (e_objref d) (e_attrs d) (e_attrs_cmd d)
                                     (e_disallow d) (e_selfclosing d) (e_nuke_inner d) (e_nuke_outer d) (e_complete d))
    | TObjectRef => consume (fun tk => mkElem (e_tag d) (e_id d) (e_classes d) (Some tk) (e_attrs d) (e_attrs_cmd d)
                                     (e_disallow d) (e_selfclosing d) (e_nuke_inner d) (e_nuke_outer d) (e_complete d))
    | TAttrName =>
      match parse_attributes (S fuel) origin indent d p with
      | ROk (d', p1) => ROk (upd d' p1)
      | RErr e q => RErr e q | RCrash c => RCrash c
      end
    | TAttributesCommand =>
      consume (fun tk => mkElem (e_tag d) (e_id d) (e_classes d) (e_objref d) (e_attrs d) (t_lit tk)
                                (e_disallow d) (e_selfclosing d) (e_nuke_inner d) (e_nuke_outer d) (e_complete d))
    | TVoidTag =>
      consume (fun _ => mkElem (e_tag d) (e_id d) (e_classes d) (e_objref d) (e_attrs d) (e_attrs_cmd d)
                               (e_disallow d) true (e_nuke_inner d) (e_nuke_outer d) (e_complete d))
    | TNukeOuterWhitespace =>
      consume (fun _ => mkElem (e_tag d) (e_id d) (e_classes d) (e_objref d) (e_attrs d) (e_attrs_cmd d)
                               (e_disallow d) (e_selfclosing d) (e_nuke_inner d) true (e_complete d))
    | TNukeInnerWhitespace =>
      consume (fun _ => mkElem (e_tag d) (e_id d) (e_classes d) (e_objref d) (e_attrs d) (e_attrs_cmd d)
                               (e_disallow d) (e_selfclosing d) true (e_nuke_outer d) (e_complete d))
    | _ => handle_node fuel (indent + 1)%Z p
    end
  end.

(** RootNode.addImport *)
Definition add_import (user : list token) (t : token) : list token :=
  if mem_bytes (t_lit t) c_rootImports then user
  else if existsb (fun i => beqb (t_lit i) (t_lit t)) user then user
  else user ++ [t].

(** one call of p.n.parse(p) *)
Definition parse_step (fuel : nat) (p : parser) : presult parser :=
  let k := top_kind p in
  let t := p_peek p in
  let after_next (f : token -> parser -> presult parser) :=
      match p_next p with
      | ROk (tk, p1) => f tk p1
      | RErr e q => RErr e q | RCrash c => RCrash c
      end in
  match k with
  | KRoot pkg user =>
    match t_typ t with
    | TPackage => after_next (fun tk p1 => ROk (set_top_kind p1 (KRoot tk user)))
    | TImport => after_next (fun tk p1 => ROk (set_top_kind p1 (KRoot pkg (add_import user tk))))
    | TGoCode | TNewLine => after_next (fun tk p1 => ROk (add_node p1 (KCode [tk])))
    | TGohtStart => after_next (fun tk p1 => ROk (add_node p1 (KGoht tk)))
    | TEOF => after_next (fun _ p1 => ROk p1)
    | TError => RErr (PosErr (t_line t) (t_col t) (t_lit t)) p
    | _ => RErr (node_errorf k (lit "unexpected: " ++ token_string t)) p
    end
  | KCode toks =>
    match t_typ t with
    | TGoCode | TNewLine => after_next (fun tk p1 => ROk (set_top_kind p1 (KCode (toks ++ [tk]))))
    | TPackage | TImport | TGohtStart | TEOF | TError => back_to_type (stack_depth p) NtRoot p
    | _ => RErr (node_errorf k (lit "unexpected: " ++ token_string t)) p
    end
  | KGoht _ =>
    match t_typ t with
    | TGohtEnd => after_next (fun _ p1 => back_to_type (stack_depth p1) NtRoot p1)
    | _ => handle_node fuel 0%Z p
    end
  | KElement origin indent d => parse_element fuel origin indent d p
  | KComment origin indent =>
    let text_given := negb (Nat.eqb (List.length (t_lit origin)) 0) in
    match t_typ t with
    | TIndent =>
      let next_indent := zlen (t_lit t) in
      if Z.leb next_indent indent then back_to_indent (stack_depth p) (next_indent - 1)%Z p
      else if text_given then
        RErr (node_errorf k (lit "illegal nesting: content can't be both given on the same line and nested " ++ token_string t)) p
      else handle_node fuel (indent + 1)%Z p
    | _ => handle_node fuel (indent + 1)%Z p
    end
  | KUnescape _ indent =>
    match t_typ t with
    | TNewLine => back_to_parent p
    | _ => handle_node fuel indent p
    end
  | KSilent origin indent complete =>
    match t_typ t with
    | TNewLine =>
      if complete then handle_node fuel (indent + 1)%Z p
      else after_next (fun _ p1 => ROk (set_top_kind p1 (KSilent origin indent true)))
    | _ => handle_node fuel (indent + 1)%Z p
    end
  | KRender _ indent => handle_node fuel (indent + 1)%Z p
  | KFilter fk _ _ =>
    let is_text := match fk with
                   | FText => match t_typ t with TPlainText | TEscapedText | TPreserveText | TDynamicText => true | _ => false end
                   | _ => match t_typ t with TPlainText | TDynamicText => true | _ => false end
                   end in
    let nm := match fk with FJavaScript => lit "javascript" | FCss => lit "css" | FText => lit "text" end in
    if is_text then after_next (fun tk p1 => ROk (add_child p1 (Node (KText tk) [])))
    else match t_typ t with
         | TFilterEnd => after_next (fun _ p1 => back_to_parent p1)
         | TEOF => RErr (node_errorf k (nm ++ lit " filter is incomplete: " ++ token_string t)) p
         | _ => RErr (node_errorf k (lit "unexpected token: " ++ token_string t)) p
         end
  | _ => (* nodes without a parse method are never the current node *)
    RErr (PlainErr (lit "model: leaf node on the parser stack")) p
  end.

(** parser.parse *)
Fixpoint parse_loop (fuel : nat) (p : parser) : presult parser :=
  match fuel with
  | O => RCrash PBudget
  | S f =>
    match parse_step fuel p with
    | ROk p1 => if toktype_eqb (t_typ (p_token p1)) TEOF then ROk p1 else parse_loop f p1
    | r => r
    end
  end.

End WithFuel.

(** attach everything still on the stack: the (possibly partial) tree *)
Fixpoint collapse (fuel : nat) (p : parser) : node :=
  match p_stack p with
  | [f] => finalize f
  | [] => Node (KRoot tok_root []) []
  | _ => match fuel with O => Node (KRoot tok_root []) [] | S k => collapse k (pop p) end
  end.

Definition default_pkg : token := mkTok TPackage c_defaultPackage 0%Z 0%Z.

Inductive parse_outcome :=
| Parsed (tree : node) (err : option perr)
| Crashed (c : pulled).

Definition parse_fuel (input : bytes) : nat := 4 * (List.length input + 8).

Definition parse_bytes (input : bytes) : parse_outcome :=
  let lf := lex_fuel input in
  let p0 := mkP (new_lexer input) [mkFrame (KRoot default_pkg []) []] tok_eof tok_eof in
  (* newParser + p.nextToken() *)
  match next_token lf (p_lexer p0) with
  | PTok t lx =>
    let p1 := mkP lx (p_stack p0) tok_eof t in
    match parse_loop lf (parse_fuel input) p1 with
    | ROk p2 => Parsed (collapse (stack_depth p2) p2) None
    | RErr e p2 => Parsed (collapse (stack_depth p2) p2) (Some e)
    | RCrash c => Crashed c
    end
  | c => Crashed c
  end.

(** PositionalError.Error() / error.Error() *)
Definition perr_string (e : perr) : bytes :=
  match e with
  | PosErr l c m => lit "[" ++ itoa_z l ++ lit ":" ++ itoa_z c ++ lit "]: " ++ m
  | PlainErr m => m
  end.
