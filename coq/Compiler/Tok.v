(** Tokens (compiler/tokens.go). *)
From GV Require Export Base.GoStr.
From Coq Require Export ZArith.
Open Scope N_scope.

Inductive toktype :=
| TEOF | TError | TRoot | TNewLine | TPackage | TImport | TGoCode | TGohtStart | TGohtEnd
| TDoctype | TTag | TId | TClass | TObjectRef | TAttrName | TAttrOperator | TAttrEscapedValue
| TAttrDynamicValue | TIndent | TComment | TRubyComment | TVoidTag | TNukeInnerWhitespace
| TNukeOuterWhitespace | TEscapedText | TDynamicText | TPlainText | TPreserveText | TUnescaped
| TScript | TSilentScript | TRenderCommand | TChildrenCommand | TAttributesCommand
| TFilterStart | TFilterEnd.

Definition toktype_eqb (a b : toktype) : bool :=
  match a, b with
  | TEOF, TEOF | TError, TError | TRoot, TRoot | TNewLine, TNewLine | TPackage, TPackage
  | TImport, TImport | TGoCode, TGoCode | TGohtStart, TGohtStart | TGohtEnd, TGohtEnd
  | TDoctype, TDoctype | TTag, TTag | TId, TId | TClass, TClass | TObjectRef, TObjectRef
  | TAttrName, TAttrName | TAttrOperator, TAttrOperator | TAttrEscapedValue, TAttrEscapedValue
  | TAttrDynamicValue, TAttrDynamicValue | TIndent, TIndent | TComment, TComment
  | TRubyComment, TRubyComment | TVoidTag, TVoidTag | TNukeInnerWhitespace, TNukeInnerWhitespace
  | TNukeOuterWhitespace, TNukeOuterWhitespace | TEscapedText, TEscapedText
  | TDynamicText, TDynamicText | TPlainText, TPlainText | TPreserveText, TPreserveText
  | TUnescaped, TUnescaped | TScript, TScript | TSilentScript, TSilentScript
  | TRenderCommand, TRenderCommand | TChildrenCommand, TChildrenCommand
  | TAttributesCommand, TAttributesCommand | TFilterStart, TFilterStart | TFilterEnd, TFilterEnd => true
  | _, _ => false
  end.

(** tokenType.String() *)
Definition toktype_name (t : toktype) : bytes :=
  match t with
  | TEOF => lit "EOF" | TError => lit "Error" | TRoot => lit "Root" | TNewLine => lit "NewLine"
  | TPackage => lit "Package" | TImport => lit "Import" | TGoCode => lit "GoCode"
  | TGohtStart => lit "GohtStart" | TGohtEnd => lit "GohtEnd" | TDoctype => lit "Doctype"
  | TTag => lit "Tag" | TId => lit "Id" | TClass => lit "Class" | TObjectRef => lit "ObjectRef"
  | TAttrName => lit "AttrName" | TAttrOperator => lit "AttrOperator"
  | TAttrEscapedValue => lit "AttrEscapedValue" | TAttrDynamicValue => lit "AttrDynamicValue"
  | TIndent => lit "Indent" | TComment => lit "Comment" | TRubyComment => lit "RubyComment"
  | TVoidTag => lit "VoidTag" | TNukeInnerWhitespace => lit "NukeInnerWhitespace"
  | TNukeOuterWhitespace => lit "NukeOuterWhitespace" | TEscapedText => lit "EscapedText"
  | TDynamicText => lit "DynamicText" | TPlainText => lit "PlainText"
  | TPreserveText => lit "PreserveText" | TUnescaped => lit "Unescaped" | TScript => lit "Script"
  | TSilentScript => lit "SilentScript" | TRenderCommand => lit "RenderCommand"
  | TChildrenCommand => lit "ChildrenCommand" | TAttributesCommand => lit "AttributesCommand"
  | TFilterStart => lit "FilterStart" | TFilterEnd => lit "FilterEnd"
  end.

Record token := mkTok { t_typ : toktype; t_lit : bytes; t_line : Z; t_col : Z }.

Definition tok_eof : token := mkTok TEOF [] 0%Z 0%Z.

(** decimal rendering of a Go int *)
Definition itoa_z (z : Z) : bytes :=
  match z with
  | Z0 => lit "0"
  | Zpos p => itoa (Npos p)
  | Zneg p => 45 :: itoa (Npos p)
  end.

(** string([]rune(s)[:n]) for a string of more than n bytes: the first n runes; when the
    string has fewer than n runes the slice extends into the zeroed tail of the small
    conversion buffer, which shows up as NUL runes (observed behaviour of this toolchain) *)
Fixpoint take_runes (n : nat) (s : bytes) : bytes :=
  match n with
  | O => []
  | S k =>
    match decode_rune s with
    | None => 0 :: take_runes k []
    | Some (r, w) => encode_rune r ++ take_runes k (skipn w s)
    end
  end.

(** token.String() *)
Definition token_string (t : token) : bytes :=
  let pos := toktype_name (t_typ t) ++ lit "[" ++ itoa_z (t_line t) ++ lit ":" ++ itoa_z (t_col t) ++ lit "]: " in
  if negb (toktype_eqb (t_typ t) TError) && Nat.ltb 30 (List.length (t_lit t))
  then pos ++ go_quote (take_runes 30 (t_lit t) ++ lit "...")
  else pos ++ go_quote (t_lit t).
