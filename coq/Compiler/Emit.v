(** Model of compiler/template.go (templateWriter), compiler/source_map.go (Add) and of every
    [Source] method of compiler/nodes.go: from a parse tree to the generated Go text and the
    source map entries.  The writer's shared part (output, position, variable counter, source
    map) is threaded through the whole traversal; its local part (indent and the three flags)
    is copied by [Indent], exactly as the Go code copies the struct. *)
From GV Require Export Compiler.Parser.
Open Scope N_scope.

(** one SourceMap.Add call: the token (lit, line, col) and the target start position.
    [sa_text] is a ghost field: the text whose write returned that position (not part of the Go data,
    not compared by the correspondence check; the proofs of C07 speak about it). *)
Record smadd := mkAdd { sa_lit : bytes; sa_line : Z; sa_col : Z; sa_tline : Z; sa_tcol : Z; sa_text : bytes }.

Record wshared := mkWS {
  w_out : list bytes;     (* chunks written, most recent first *)
  w_num : nat;
  w_line : Z;
  w_col : Z;
  w_adds : list smadd;    (* most recent first; empty when no source map is attached *)
  w_err : option bytes    (* a Source method returned an error: nothing further is written *)
}.

Record wlocal := mkWL { wl_indent : nat; wl_static : bool; wl_errh : bool; wl_unesc : bool }.

Definition est := (wshared * wlocal)%type.

Definition ws_init : wshared := mkWS [] 0 1%Z 1%Z [] None.
Definition wl_init : wlocal := mkWL 0 false false false.

Definition tabs (n : nat) : bytes := brepeat [9] n.

Fixpoint last_index_byte_aux (c : N) (s : bytes) (i : nat) (acc : option nat) : option nat :=
  match s with
  | [] => acc
  | x :: s' => last_index_byte_aux c s' (S i) (if N.eqb x c then Some i else acc)
  end.
Definition last_index_byte (c : N) (s : bytes) : option nat := last_index_byte_aux c s 0 None.

(** templateWriter.write: returns the start position of what was written *)
Definition w_write (s : bytes) (w : wshared) : (Z * Z) * wshared :=
  match w_err w with
  | Some _ => ((w_line w, w_col w), w)
  | None =>
    let from := (w_line w, w_col w) in
    let nl := count_byte 10 s in
    let line' := (w_line w + Z.of_nat nl)%Z in
    let col' := match last_index_byte 10 s with
                | Some i => Z.of_nat (List.length s - i)
                | None => (w_col w + Z.of_nat (List.length s))%Z
                end in
    (from, mkWS (s :: w_out w) (w_num w) line' col' (w_adds w) None)
  end.

Definition write (s : bytes) (st : est) : (Z * Z) * est :=
  let '(r, w) := w_write s (fst st) in (r, (w, snd st)).

Definition wr (s : bytes) (st : est) : est := snd (write s st).

Definition set_local (st : est) (l : wlocal) : est := (fst st, l).

(** addErrHandler *)
Definition add_err_handler (st : est) : bytes * est :=
  let l := snd st in
  if wl_errh l then (lit "; __err != nil { return }" ++ [10], set_local st (mkWL (wl_indent l) (wl_static l) false (wl_unesc l)))
  else (tabs (wl_indent l) ++ lit "if __err != nil { return }" ++ [10], st).

(** closeStringLiteral *)
Definition close_string_literal (st : est) : est :=
  let l := snd st in
  let nl := if wl_errh l then [] else [10] in
  let '(h, st1) := add_err_handler st in
  let l1 := snd st1 in
  wr (lit """)" ++ nl ++ h) (set_local st1 (mkWL (wl_indent l1) false (wl_errh l1) (wl_unesc l1))).

Definition close_if_static (st : est) : est :=
  if wl_static (snd st) then close_string_literal st else st.

(** tw.Write *)
Definition tw_write (s : bytes) (st : est) : (Z * Z) * est := write s (close_if_static st).
Definition tw_wr (s : bytes) (st : est) : est := snd (tw_write s st).

(** tw.WriteIndent *)
Definition tw_write_indent (s : bytes) (st : est) : (Z * Z) * est :=
  let st1 := close_if_static st in
  write s (wr (tabs (wl_indent (snd st1))) st1).
Definition tw_wri (s : bytes) (st : est) : est := snd (tw_write_indent s st).

Definition write_string_open : bytes := lit "if _, __err = __buf.WriteString(".

(** tw.WriteStringLiteral *)
Definition tw_write_string_literal (s : bytes) (st : est) : est :=
  let l := snd st in
  if wl_static l then wr s st
  else
    let st1 := wr (write_string_open ++ lit """") (wr (tabs (wl_indent l)) st) in
    wr s (set_local st1 (mkWL (wl_indent l) true true (wl_unesc l))).

(** tw.WriteStringIndent *)
Definition tw_write_string_indent (s : bytes) (st : est) : est :=
  let st1 := close_if_static st in
  let st2 := wr write_string_open (wr (tabs (wl_indent (snd st1))) st1) in
  wr (lit "); __err != nil { return }" ++ [10]) (wr s st2).

(** tw.WriteErrorHandler *)
Definition tw_write_error_handler (st : est) : est :=
  if wl_static (snd st) then close_string_literal st
  else let '(h, st1) := add_err_handler st in wr h st1.

(** tw.Close *)
Definition tw_close (st : est) : est := close_if_static st.

(** tw.Indent: a copy of the writer with a deeper indent (own flags, shared output) *)
Definition indent_local (l : wlocal) (k : nat) : wlocal :=
  mkWL (wl_indent l + k) (wl_static l) (wl_errh l) (wl_unesc l).

Definition get_var_name (st : est) : bytes * est :=
  let w := fst st in
  match w_err w with
  | Some _ => ([], st)
  | None =>
    let n := S (w_num w) in
    (lit "__var" ++ itoa (N.of_nat n), (mkWS (w_out w) n (w_line w) (w_col w) (w_adds w) None, snd st))
  end.

Definition reset_var_name (st : est) : est :=
  let w := fst st in (mkWS (w_out w) 0 (w_line w) (w_col w) (w_adds w) (w_err w), snd st).

(** tw.Add (only records when a source map is attached: [with_sm]) *)
Definition tw_add (with_sm : bool) (t : token) (written : bytes) (from : Z * Z) (st : est) : est :=
  let w := fst st in
  match w_err w with
  | Some _ => st
  | None =>
    if with_sm then
      (mkWS (w_out w) (w_num w) (w_line w) (w_col w)
            (mkAdd (t_lit t) (t_line t) (t_col t) (fst from) (snd from) written :: w_adds w) None, snd st)
    else st
  end.

(** the recurring pair "write a fragment, record where it went" *)
Definition tw_write_add (with_sm : bool) (s : bytes) (t : token) (st : est) : est :=
  tw_add with_sm t s (fst (tw_write s st)) (snd (tw_write s st)).
Definition tw_write_indent_add (with_sm : bool) (s : bytes) (t : token) (st : est) : est :=
  tw_add with_sm t s (fst (tw_write_indent s st)) (snd (tw_write_indent s st)).

Definition var_name_of (st : est) : bytes := fst (get_var_name st).
Definition after_var (st : est) : est := snd (get_var_name st).

Definition fail_with (msg : bytes) (st : est) : est :=
  let w := fst st in
  match w_err w with
  | Some _ => st
  | None => (mkWS (w_out w) (w_num w) (w_line w) (w_col w) (w_adds w) (Some msg), snd st)
  end.

Definition set_unesc (b : bool) (st : est) : est :=
  let l := snd st in set_local st (mkWL (wl_indent l) (wl_static l) (wl_errh l) b).

(** reFmtText = \A(%[^ ]+?) (.+)\z : [Some (verb, expr)] on a match *)
Fixpoint split_at_space (s : bytes) (acc : bytes) : option (bytes * bytes) :=
  match s with
  | [] => None
  | c :: s' => if N.eqb c 32 then Some (rev acc, s') else split_at_space s' (c :: acc)
  end.

Definition fmt_text_match (s : bytes) : option (bytes * bytes) :=
  match s with
  | 37 :: _ =>
    match split_at_space s [] with
    | Some (verb, expr) =>
      if Nat.ltb 1 (List.length verb) && negb (Nat.eqb (List.length expr) 0) && negb (mem_byte 10 expr)
      then Some (verb, expr) else None
    | None => None
    end
  | _ => None
  end.

(** writeFormattedText *)
Definition write_formatted_text (sm : bool) (t : token) (st : est) : est :=
  match fmt_text_match (t_lit t) with
  | Some (verb, expr) =>
    let st1 := tw_wr (lit "goht.FormatString(""") st in
    let st3 := tw_write_add sm verb (mkTok TDynamicText verb (t_line t) (t_col t)) st1 in
    let st4 := tw_wr (lit """, ") st3 in
    let col2 := (t_col t + Z.of_nat (List.length (t_lit t)) - Z.of_nat (List.length expr))%Z in
    let st6 := tw_write_add sm expr (mkTok TDynamicText expr (t_line t) col2) st4 in
    tw_wr (lit ")") st6
  | None => tw_write_add sm (t_lit t) t st
  end.

(** strings.TrimSpace *)
Fixpoint trim_left_u (fuel : bytes) (s : bytes) : bytes :=
  match decode_rune s with
  | None => []
  | Some (r, w) =>
    if negb (Nat.eqb w 1 && N.eqb r 65533) && is_unicode_space r then
      match fuel with [] => [] | _ :: f => trim_left_u f (skipn w s) end
    else s
  end.

(** length of [s] without its trailing white space: position after the last non-space rune *)
Fixpoint trimmed_len (fuel : bytes) (s : bytes) (off last : nat) : nat :=
  match decode_rune s with
  | None => last
  | Some (r, w) =>
    let sp := negb (Nat.eqb w 1 && N.eqb r 65533) && is_unicode_space r in
    let last' := if sp then last else (off + w)%nat in
    match fuel with [] => last' | _ :: f => trimmed_len f (skipn w s) (off + w) last' end
  end.

Definition go_trim_space (s : bytes) : bytes :=
  let s1 := trim_left_u s s in firstn (trimmed_len s1 s1 0 0) s1.

Fixpoint any_prefix (l : list bytes) (s : bytes) : bool :=
  match l with [] => false | p :: l' => has_prefix p s || any_prefix l' s end.

Definition is_silent (n : option node) : option bytes :=
  match n with
  | Some (Node (KSilent o _ _) _) => Some (t_lit o)
  | _ => None
  end.

Definition kind_is_newline (n : node) : bool := match n with Node (KNewLine _) _ => true | _ => false end.

Definition quote_literal (s : bytes) : bytes := go_quote_body s.

(** the chunks of a string literal that carry static template content (what each stands for is proved in
    Proofs/QuoteProofs.v and Properties/C04.v) *)
Definition chunk_text_plain (t : bytes) : bytes := quote_literal t.
Definition chunk_text_escaped (t : bytes) : bytes := quote_literal (html_escape t).
Definition chunk_class (names : bytes) : bytes := lit " class=\""" ++ quote_literal (html_escape names) ++ lit "\""".
Definition chunk_attr_value (v : bytes) : bytes := quote_literal (html_escape v) ++ lit "\""".
Definition chunk_attr_name (name : bytes) : bytes := lit " " ++ name.
Definition chunk_attr_open (name : bytes) : bytes := lit " " ++ name ++ lit "=\""".
Definition chunk_id (i : bytes) : bytes := lit " id=\""" ++ quote_literal (html_escape i) ++ lit "\""".
Definition chunk_tag_open (tag : bytes) : bytes := lit "<" ++ quote_literal tag.
Definition chunk_tag_close (tag : bytes) : bytes := lit "</" ++ quote_literal tag ++ lit ">".
Definition chunk_comment (text : bytes) : bytes := lit "<!--" ++ quote_literal (html_escape text) ++ lit "-->\n".

Definition render_body_pre : list bytes :=
  [lit "__buf, __isBuf := __w.(goht.Buffer)" ++ [10];
   lit "if !__isBuf {" ++ [10];
   [9] ++ lit "__buf = goht.GetBuffer()" ++ [10];
   [9] ++ lit "defer goht.ReleaseBuffer(__buf)" ++ [10];
   lit "}" ++ [10]].

Definition render_body_post : list bytes :=
  [[9] ++ lit "if !__isBuf {" ++ [10];
   [9; 9] ++ lit "_, __err = io.Copy(__w, __buf)" ++ [10];
   [9] ++ lit "}" ++ [10];
   [9] ++ lit "return" ++ [10];
   lit "})" ++ [10]].

Section Emit.
Variable sm : bool.   (* Compose (true) or Generate (false) *)

(** the dynamic-text / script pattern shared by TextNode (dynamic) and ScriptNode *)
Definition emit_dynamic (origin : token) (st : est) : est :=
  let v := var_name_of st in
  let st1 := after_var st in
  let st2 := tw_wri (lit "var " ++ v ++ lit " string" ++ [10]) st1 in
  let st3 := tw_wri (lit "if " ++ v ++ lit ", __err = goht.CaptureErrors(") st2 in
  let unesc := wl_unesc (snd st3) in
  let st4 := if unesc then st3 else tw_wr (lit "goht.EscapeString(") st3 in
  let st5 := write_formatted_text sm origin st4 in
  let st6 := if unesc then st5 else tw_wr (lit ")") st5 in
  let st7 := tw_wr (lit "); __err != nil { return }" ++ [10]) st6 in
  tw_write_string_indent v st7.

Definition emit_text (origin : token) (st : est) : est :=
  let typ := t_typ origin in
  if toktype_eqb typ TDynamicText then emit_dynamic origin st
  else
    let is_plain := toktype_eqb typ TPlainText in
    let is_preserve := toktype_eqb typ TPreserveText in
    if negb (is_plain || is_preserve || wl_unesc (snd st)) then
      tw_write_string_literal (chunk_text_escaped (t_lit origin)) st
    else
      let s := chunk_text_plain (t_lit origin) in
      (* the line break that ends a preserved text is looked for in the text, not in its quoted form *)
      let t := trim_suffix [10] (t_lit origin) in
      let s' := if is_preserve && negb (Nat.eqb (List.length t) (List.length (t_lit origin)))
                then chunk_text_plain t ++ lit "&#x000A;"
                else s in
      tw_write_string_literal s' st.

(** renderClass *)
Definition class_static_name (c : token) : option bytes :=
  match t_typ c with
  | TClass => Some (t_lit c)
  | TAttrEscapedValue => go_unquote (t_lit c)
  | _ => Some []
  end.

Definition class_names (l : list token) : list bytes :=
  map (fun c => match class_static_name c with Some n => n | None => [] end) l.

Fixpoint first_unquote_failure (l : list token) : option bytes :=
  match l with
  | [] => None
  | c :: l' => match class_static_name c with None => Some (t_lit c) | Some _ => first_unquote_failure l' end
  end.

Fixpoint omap_get (m : list (bytes * attribute)) (key : bytes) : option attribute :=
  match m with [] => None | (k, v) :: m' => if beqb k key then Some v else omap_get m' key end.
Definition omap_delete (m : list (bytes * attribute)) (key : bytes) : list (bytes * attribute) :=
  filter (fun kv => negb (beqb (fst kv) key)) m.

Fixpoint write_class_args (l : list token) (st : est) : est :=
  match l with
  | [] => st
  | c :: rest =>
    let st1 :=
        match t_typ c with
        | TObjectRef => tw_wr (lit "goht.ObjectClass(" ++ t_lit c ++ lit ")") st
        | TAttrDynamicValue => tw_write_add sm (t_lit c) c st
        | TClass => tw_wr (go_quote (t_lit c)) st
        | _ => tw_wr (t_lit c) st
        end in
    let st2 := match rest with [] => st1 | _ => tw_wr (lit ", ") st1 end in
    write_class_args rest st2
  end.

Definition render_class (classes : list token) (st : est) : est :=
  match classes with
  | [] => st
  | _ =>
    let all_quoted := forallb (fun c => negb (toktype_eqb (t_typ c) TObjectRef || toktype_eqb (t_typ c) TAttrDynamicValue)) classes in
    if all_quoted then
      match first_unquote_failure classes with
      | Some l => fail_with (lit "failed to unquote class: " ++ l ++ lit " error: invalid syntax") st
      | None =>
        tw_write_string_literal
          (chunk_class (join (lit " ") (class_names classes))) st
      end
    else
      let v := var_name_of st in
      let st1 := after_var st in
      let st2 := tw_wri (lit "var " ++ v ++ lit " string" ++ [10]) st1 in
      let st3 := tw_wri (v ++ lit ", __err = goht.BuildClassList(") st2 in
      let st4 := write_class_args classes st3 in
      let st5 := tw_wr (lit ")" ++ [10]) st4 in
      let st6 := tw_write_error_handler st5 in
      tw_write_string_indent (lit """ class=\""""+" ++ v ++ lit "+""\""""") st6
  end.

Fixpoint render_attrs (l : list (bytes * attribute)) (st : est) : est :=
  match l with
  | [] => st
  | (_, a) :: rest =>
    let st' :=
        match a_value a with
        | [] => tw_write_string_literal (chunk_attr_name (a_name a)) st
        | _ =>
          if a_bool a then
            let st1 := tw_wri (lit "if ") st in
            let st3 := tw_write_add sm (a_value a) (a_origin a) st1 in
            let st4 := tw_wr (lit " {" ++ [10]) st3 in
            let outer := snd st4 in
            let st5 := tw_write_string_literal (chunk_attr_name (a_name a)) (set_local st4 (indent_local outer 1)) in
            let st6 := tw_close st5 in
            tw_wri (lit "}" ++ [10]) (set_local st6 outer)
          else
            let st1 := tw_write_string_literal (chunk_attr_open (a_name a)) st in
            if a_dyn a then
              let st2 := tw_wri (write_string_open ++ lit "goht.EscapeString(") st1 in
              let st3 := write_formatted_text sm (a_origin a) st2 in
              tw_wr (lit ")+""\""""); __err != nil { return }" ++ [10]) st3
            else
              tw_write_string_literal (chunk_attr_value (a_value a)) st1
        end in
    render_attrs rest st'
  end.

Definition render_attributes (d : elem) (st : est) : est :=
  let st1 :=
      match e_objref d with
      | Some o =>
        let v := var_name_of st in
        let s1 := after_var st in
        let s2 := tw_wri (lit "if " ++ v ++ lit " := goht.ObjectID(") s1 in
        let s4 := tw_write_add sm (t_lit o) o s2 in
        let s5 := tw_wr (lit "); " ++ v ++ lit " != """" {" ++ [10]) s4 in
        let s6 := tw_wri ([9] ++ write_string_open ++ lit """ id=\""""+" ++ v ++ lit "+""\""""); __err != nil { return }" ++ [10]) s5 in
        tw_wri (lit "}" ++ [10]) s6
      | None => st
      end in
  let st2 := match e_id d with
             | [] => st1
             | i => tw_write_string_literal (chunk_id i) st1
             end in
  let classes1 := match e_objref d with Some o => e_classes d ++ [o] | None => e_classes d end in
  let '(classes2, attrs) :=
      match omap_get (e_attrs d) (lit "class") with
      | Some c => (classes1 ++ [a_origin c], omap_delete (e_attrs d) (lit "class"))
      | None => (classes1, e_attrs d)
      end in
  let st3 := render_class classes2 st2 in
  let st4 := render_attrs attrs st3 in
  match e_attrs_cmd d with
  | [] => st4
  | cmd =>
    let v := var_name_of st4 in
    let s1 := after_var st4 in
    let s2 := tw_wri (lit "var " ++ v ++ lit " string" ++ [10]) s1 in
    let s3 := tw_wri (v ++ lit ", __err = goht.BuildAttributeList(" ++ cmd ++ lit ")" ++ [10]) s2 in
    let s4 := tw_write_error_handler s3 in
    tw_write_string_indent v s4
  end.

(** [emit_node n next needs_close st]: Source of [n]; [next] is n.nextSibling, [needs_close] the
    flag a preceding silent script may have set on [n]; returns the flag for the next sibling.
    [emit_node_body] is the Source method proper, given the function that emits a list of children. *)
Definition emit_node_body (emit_children : list node -> bool -> est -> est)
           (k : nkind) (children : list node) (next : option node) (needs_close : bool) (st : est) : est * bool :=
    match k with
    | KRoot pkg user =>
      let st1 := tw_wr c_header st in
      let st2 := tw_wr (lit "package ") st1 in
      let st4 := if Z.ltb 0 (t_line pkg) then tw_write_add sm (t_lit pkg) pkg st2 else tw_wr (t_lit pkg) st2 in
      let st5 := tw_wr [10; 10] st4 in
      let st6 := fold_left (fun s i => tw_wr (lit "import " ++ i ++ [10]) s) c_rootImports st5 in
      let st7 :=
          match user with
          | [] => st6
          | _ =>
            let s1 := tw_wr (lit "import (" ++ [10]) st6 in
            let outer := snd s1 in
            let s2 := fold_left (fun s (i : token) => tw_wr [10] (tw_write_indent_add sm (t_lit i) i s))
                                user (set_local s1 (indent_local outer 1)) in
            tw_wr (lit ")" ++ [10]) (set_local s2 outer)
          end in
      (emit_children children false st7, false)
    | KCode toks =>
      (fold_left (fun s (t : token) =>
                    if toktype_eqb (t_typ t) TNewLine then tw_wr (t_lit t) s else tw_write_add sm (t_lit t) t s) toks st, false)
    | KGoht origin =>
      let st1 := tw_wr (lit "func ") (reset_var_name st) in
      let st3 := tw_write_add sm (t_lit origin) origin st1 in
      let st4 := tw_wr c_gohtEntry st3 in
      let outer := snd st4 in
      let st5 := emit_children children false (set_local st4 (indent_local outer 2)) in
      let st6 := tw_close st5 in
      (tw_wr c_gohtExit (set_local st6 outer), false)
    | KDoctype _ => (tw_write_string_literal (lit "<!DOCTYPE html>") st, false)
    | KElement _ _ d =>
      let st1 := if e_nuke_outer d then tw_write_string_literal c_NukeBefore st else st in
      let st2 := tw_write_string_literal (chunk_tag_open (e_tag d)) st1 in
      let st3 := render_attributes d st2 in
      let st4 := tw_write_string_literal (lit ">") st3 in
      if e_selfclosing d then (st4, false)
      else
        let st5 := if e_nuke_inner d then tw_write_string_literal c_NukeAfter st4 else st4 in
        let only_newline := match children with [c] => kind_is_newline c | _ => false end in
        let st6 := if only_newline then st5 else emit_children children false st5 in
        let st7 := if e_nuke_inner d then tw_write_string_literal c_NukeBefore st6 else st6 in
        let st8 := tw_write_string_literal (chunk_tag_close (e_tag d)) st7 in
        (if e_nuke_outer d then tw_write_string_literal c_NukeAfter st8
         else tw_write_string_literal (lit "\n") st8, false)
    | KNewLine _ => (tw_write_string_literal (lit "\n") st, false)
    | KComment origin _ =>
      match t_lit origin with
      | [] =>
        let st1 := tw_write_string_literal (lit "<!--") st in
        let st2 := emit_children children false st1 in
        (tw_write_string_literal (lit "-->\n") st2, false)
      | text => (tw_write_string_literal (chunk_comment text) st, false)
      end
    | KText origin => (emit_text origin st, false)
    | KUnescape _ _ =>
      let st1 := emit_children children false (set_unesc true st) in
      (set_unesc false st1, false)
    | KSilent origin _ _ =>
      let code := go_trim_space (t_lit origin) in
      let is_opening := any_prefix c_openingStatements code in
      let start := if needs_close && negb (has_prefix (lit "}") code) then lit "} " else [] in
      let has_children := match children with [] => false | _ => true end in
      let end_ := if has_children && is_opening && negb (has_suffix (lit "{") code)
                  then lit " {" ++ [10] else [10] in
      let st1 := tw_wri start st in
      let st3 := tw_write_add sm code origin st1 in
      let st4 := tw_wr end_ st3 in
      if negb has_children then (st4, false)
      else
        let outer := snd st4 in
        let st5 := emit_children children false (set_local st4 (indent_local outer 1)) in
        let st6 := set_local (tw_close st5) outer in
        match is_silent next with
        | Some next_code =>
          let handover := any_prefix c_elseStatements next_code in
          let closes := has_prefix (lit "}") next_code in
          if is_opening && negb closes && negb handover then (tw_wri (lit "}" ++ [10]) st6, false)
          else (st6, handover)
        | None =>
          if is_opening then (tw_wri (lit "}" ++ [10]) st6, false) else (st6, false)
        end
    | KScript origin => (emit_dynamic origin st, false)
    | KRender origin _ =>
      match children with
      | [] =>
        let st1 := tw_wri (lit "if __err = ") st in
        let st3 := tw_write_add sm (t_lit origin) origin st1 in
        (tw_wr (lit ".Render(ctx, __buf); __err != nil { return }" ++ [10]) st3, false)
      | _ =>
        let v := var_name_of st in
        let st1 := after_var st in
        let st2 := tw_wri (v ++ lit " := goht.TemplateFunc(func(ctx context.Context, __w io.Writer) (__err error) {" ++ [10]) st1 in
        let outer := snd st2 in
        let st3 := fold_left (fun s line => tw_wri line s) render_body_pre (set_local st2 (indent_local outer 1)) in
        let st4 := emit_children children false st3 in
        let st5 := set_local (tw_close st4) outer in
        let st6 := fold_left (fun s line => tw_wri line s) render_body_post st5 in
        let st7 := tw_wri (lit "if __err = ") st6 in
        let st9 := tw_write_add sm (t_lit origin) origin st7 in
        (tw_wr (lit ".Render(goht.PushChildren(ctx, " ++ v ++ lit "), __buf); __err != nil { return }" ++ [10]) st9, false)
      end
    | KChildren _ =>
      (tw_wri (lit "if __err = __children.Render(ctx, __buf); __err != nil { return }" ++ [10]) st, false)
    | KFilter FJavaScript _ _ =>
      let st1 := tw_write_string_literal (lit "<script>\n") st in
      (tw_write_string_literal (lit "</script>") (emit_children children false st1), false)
    | KFilter FCss _ _ =>
      let st1 := tw_write_string_literal (lit "<style>\n") st in
      (tw_write_string_literal (lit "</style>") (emit_children children false st1), false)
    | KFilter FText origin _ =>
      let unescaped := beqb (t_lit origin) (lit "plain") || beqb (t_lit origin) (lit "preserve") in
      let st1 := if unescaped then set_unesc true st else st in
      let st2 := emit_children children false st1 in
      let st3 := if beqb (t_lit origin) (lit "preserve") then tw_write_string_literal (lit "\n") st2 else st2 in
      (* the deferred reset runs on return, after the last write *)
      (if unescaped then set_unesc false st3 else st3, false)
    end.

Fixpoint emit_node (n : node) (next : option node) (needs_close : bool) (st : est) : est * bool :=
  match n with
  | Node k children =>
    emit_node_body
      (fix go (l : list node) (nc : bool) (st : est) : est :=
         match l with
         | [] => st
         | c :: rest => let '(st', nc') := emit_node c (hd_error rest) nc st in go rest nc' st'
         end)
      k children next needs_close st
  end.

(** the children loop as a function of its own *)
Fixpoint emit_list (l : list node) (nc : bool) (st : est) : est :=
  match l with
  | [] => st
  | c :: rest => let '(st', nc') := emit_node c (hd_error rest) nc st in emit_list rest nc' st'
  end.

Definition emit_tree (root : node) : wshared := fst (fst (emit_node root None false (ws_init, wl_init))).

End Emit.

Definition output_of (w : wshared) : bytes := List.concat (List.rev (w_out w)).

(** Template.Generate / Template.Compose *)
Definition generate (root : node) : bytes * option bytes :=
  let w := emit_tree false root in (output_of w, w_err w).

Definition compose (root : node) : bytes * list smadd * option bytes :=
  let w := emit_tree true root in (output_of w, rev (w_adds w), w_err w).
