(** The compiler as a function of the input bytes: ParseString, then Compose / Generate on
    the (possibly partial) tree, plus the Tree() dump used by the correspondence check. *)
From GV Require Export Compiler.SrcMap.
Open Scope N_scope.

Definition ntype_label (k : nkind) : bytes :=
  match k with
  | KRoot _ _ => lit "Root" | KCode _ => lit "GoCode" | KGoht _ => lit "Goht" | KDoctype _ => lit "Doctype"
  | KElement _ _ _ => lit "Element" | KNewLine _ => lit "NewLine" | KComment _ _ => lit "Comment"
  | KText _ => lit "Text" | KUnescape _ _ => lit "Unescape" | KSilent _ _ _ => lit "SilentScript"
  | KScript _ => lit "Script" | KRender _ _ => lit "RenderCommand" | KChildren _ => lit "ChildrenCommand"
  | KFilter _ _ _ => lit "Filter"
  end.

Definition attr_dump (a : attribute) : bytes :=
  match a_value a with
  | [] => a_name a
  | v => a_name a ++ (if a_bool a then lit "?" else []) ++ lit "=" ++
         (if a_dyn a then lit "{" ++ v ++ lit "}" else go_quote v)
  end.

Fixpoint tree_dump (n : node) (indent : nat) : bytes :=
  match n with
  | Node k children =>
    let lead := tabs indent in
    let head :=
        match k with
        | KElement _ _ d =>
          let attrs := map (fun kv => attr_dump (snd kv)) (e_attrs d) ++
                       match e_attrs_cmd d with [] => [] | c => [lit "@attrs={" ++ c ++ lit "...}"] end in
          lit "Element " ++ e_tag d ++ lit "(" ++ join (lit ",") attrs ++ lit ")"
        | KText o => lit "Text" ++ (if toktype_eqb (t_typ o) TDynamicText then lit "(D)" else lit "(S)")
        | _ => ntype_label k
        end in
    lead ++ head ++ [10] ++
    (fix go (l : list node) : bytes := match l with [] => [] | c :: r => tree_dump c (S indent) ++ go r end) children
  end.

Inductive outcome :=
| ODone (tree : node) (perr : option perr)
| OPanic | OHang | ODeadlock.

Definition compile_parse (input : bytes) : outcome :=
  match parse_bytes input with
  | Parsed t e => ODone t e
  | Crashed PPanic => OPanic
  | Crashed PDeadlock => ODeadlock
  | Crashed _ => OHang
  end.

(** what `goht generate` writes (before gofmt): only for inputs that parse without error *)
Definition cli_generate (input : bytes) : option bytes :=
  match compile_parse input with
  | ODone t None => match generate t with (out, None) => Some out | _ => None end
  | _ => None
  end.

(** what the language server derives from a buffer: code and source map of the partial tree *)
Definition lsp_compose (input : bytes) : option (bytes * list smadd * option bytes) :=
  match compile_parse input with
  | ODone t _ => Some (compose t)
  | _ => None
  end.
