(** Models of the Go standard-library string functions goht relies on:
    html.EscapeString, strconv.Quote (body) and the reading of an interpreted
    string literal.  Validated against Go by the correspondence checks. *)
From GV Require Export Base.Bytes.
Open Scope N_scope.

(** * html.EscapeString *)
Definition esc_byte (c : N) : bytes :=
  if N.eqb c 38 then lit "&amp;"
  else if N.eqb c 39 then lit "&#39;"
  else if N.eqb c 60 then lit "&lt;"
  else if N.eqb c 62 then lit "&gt;"
  else if N.eqb c 34 then lit "&#34;"
  else [c].

Definition html_escape (s : bytes) : bytes := flat_map esc_byte s.

(** decoding of exactly the five entities html.EscapeString produces *)
Fixpoint unesc (skip : nat) (s : bytes) : bytes :=
  match s with
  | [] => []
  | c :: s' =>
    match skip with
    | S k => unesc k s'
    | O =>
      if has_prefix (lit "&amp;") s then 38 :: unesc 4 s'
      else if has_prefix (lit "&#39;") s then 39 :: unesc 4 s'
      else if has_prefix (lit "&lt;") s then 60 :: unesc 3 s'
      else if has_prefix (lit "&gt;") s then 62 :: unesc 3 s'
      else if has_prefix (lit "&#34;") s then 34 :: unesc 4 s'
      else c :: unesc 0 s'
    end
  end.
Definition html_unescape5 (s : bytes) : bytes := unesc 0 s.

(** * UTF-8 (as utf8.DecodeRune / bytes.Reader.ReadRune see it) *)

(** [decode_rune s] = (rune, size); invalid or short input gives (0xFFFD, 1);
    [None] at end of input. *)
Definition cont (b : N) : bool := (N.leb 128 b) && (N.ltb b 192).

Definition decode_rune (s : bytes) : option (N * nat) :=
  match s with
  | [] => None
  | b0 :: r =>
    if N.ltb b0 128 then Some (b0, 1%nat)
    else if N.ltb b0 194 then Some (65533, 1%nat)
    else if N.ltb b0 224 then
      match r with
      | b1 :: _ => if cont b1 then Some ((b0 - 192) * 64 + (b1 - 128), 2%nat) else Some (65533, 1%nat)
      | _ => Some (65533, 1%nat)
      end
    else if N.ltb b0 240 then
      match r with
      | b1 :: b2 :: _ =>
        let lo := if N.eqb b0 224 then 160 else 128 in
        let hi := if N.eqb b0 237 then 159 else 191 in
        if (N.leb lo b1) && (N.leb b1 hi) && cont b2
        then Some ((b0 - 224) * 4096 + (b1 - 128) * 64 + (b2 - 128), 3%nat)
        else Some (65533, 1%nat)
      | _ => Some (65533, 1%nat)
      end
    else if N.ltb b0 245 then
      match r with
      | b1 :: b2 :: b3 :: _ =>
        let lo := if N.eqb b0 240 then 144 else 128 in
        let hi := if N.eqb b0 244 then 143 else 191 in
        if (N.leb lo b1) && (N.leb b1 hi) && cont b2 && cont b3
        then Some ((b0 - 240) * 262144 + (b1 - 128) * 4096 + (b2 - 128) * 64 + (b3 - 128), 4%nat)
        else Some (65533, 1%nat)
      | _ => Some (65533, 1%nat)
      end
    else Some (65533, 1%nat)
  end.

(** string(rune): utf8.AppendRune; surrogates and out-of-range give U+FFFD *)
Definition encode_rune (r : N) : bytes :=
  if N.ltb r 128 then [r]
  else if N.ltb r 2048 then [192 + r / 64; 128 + r mod 64]
  else if (N.leb 55296 r && N.leb r 57343) || N.ltb 1114111 r then [239; 191; 189]
  else if N.ltb r 65536 then [224 + r / 4096; 128 + (r / 64) mod 64; 128 + r mod 64]
  else [240 + r / 262144; 128 + (r / 4096) mod 64; 128 + (r / 64) mod 64; 128 + r mod 64].

(** number of runes, as utf8.RuneCountInString *)
Fixpoint rune_count_aux (fuel : nat) (s : bytes) : nat :=
  match fuel with
  | O => O
  | S f => match decode_rune s with
           | None => O
           | Some (_, n) => S (rune_count_aux f (skipn n s))
           end
  end.
Definition rune_count (s : bytes) : nat := rune_count_aux (List.length s) s.
