(** Models of the Go standard-library string functions goht relies on:
    html.EscapeString, strconv.Quote (body) and the reading of an interpreted
    string literal.  Validated against Go by the correspondence checks. *)
From GV Require Export Base.Bytes.
Open Scope N_scope.

(** * html.EscapeString *)
Definition esc_byte (c : N) : bytes :=
  if N.eqb c 38 then lit "&amp;"
  else if N.eqb c 39 then lit "&#39;"
  else if N.eqb c 60 then lit "&lt;"
  else if N.eqb c 62 then lit "&gt;"
  else if N.eqb c 34 then lit "&#34;"
  else [c].

Definition html_escape (s : bytes) : bytes := flat_map esc_byte s.

(** decoding of exactly the five entities html.EscapeString produces *)
Fixpoint unesc (skip : nat) (s : bytes) : bytes :=
  match s with
  | [] => []
  | c :: s' =>
    match skip with
    | S k => unesc k s'
    | O =>
      if has_prefix (lit "&amp;") s then 38 :: unesc 4 s'
      else if has_prefix (lit "&#39;") s then 39 :: unesc 4 s'
      else if has_prefix (lit "&lt;") s then 60 :: unesc 3 s'
      else if has_prefix (lit "&gt;") s then 62 :: unesc 3 s'
      else if has_prefix (lit "&#34;") s then 34 :: unesc 4 s'
      else c :: unesc 0 s'
    end
  end.
Definition html_unescape5 (s : bytes) : bytes := unesc 0 s.

(** * UTF-8 (as utf8.DecodeRune / bytes.Reader.ReadRune see it) *)

(** [decode_rune s] = (rune, size); invalid or short input gives (0xFFFD, 1);
    [None] at end of input. *)
Definition cont (b : N) : bool := (N.leb 128 b) && (N.ltb b 192).

Definition decode_rune (s : bytes) : option (N * nat) :=
  match s with
  | [] => None
  | b0 :: r =>
    if N.ltb b0 128 then Some (b0, 1%nat)
    else if N.ltb b0 194 then Some (65533, 1%nat)
    else if N.ltb b0 224 then
      match r with
      | b1 :: _ => if cont b1 then Some ((b0 - 192) * 64 + (b1 - 128), 2%nat) else Some (65533, 1%nat)
      | _ => Some (65533, 1%nat)
      end
    else if N.ltb b0 240 then
      match r with
      | b1 :: b2 :: _ =>
        let lo := if N.eqb b0 224 then 160 else 128 in
        let hi := if N.eqb b0 237 then 159 else 191 in
        if (N.leb lo b1) && (N.leb b1 hi) && cont b2
        then Some ((b0 - 224) * 4096 + (b1 - 128) * 64 + (b2 - 128), 3%nat)
        else Some (65533, 1%nat)
      | _ => Some (65533, 1%nat)
      end
    else if N.ltb b0 245 then
      match r with
      | b1 :: b2 :: b3 :: _ =>
        let lo := if N.eqb b0 240 then 144 else 128 in
        let hi := if N.eqb b0 244 then 143 else 191 in
        if (N.leb lo b1) && (N.leb b1 hi) && cont b2 && cont b3
        then Some ((b0 - 240) * 262144 + (b1 - 128) * 4096 + (b2 - 128) * 64 + (b3 - 128), 4%nat)
        else Some (65533, 1%nat)
      | _ => Some (65533, 1%nat)
      end
    else Some (65533, 1%nat)
  end.

(** string(rune): utf8.AppendRune; surrogates and out-of-range give U+FFFD *)
Definition encode_rune (r : N) : bytes :=
  if N.ltb r 128 then [r]
  else if N.ltb r 2048 then [192 + r / 64; 128 + r mod 64]
  else if (N.leb 55296 r && N.leb r 57343) || N.ltb 1114111 r then [239; 191; 189]
  else if N.ltb r 65536 then [224 + r / 4096; 128 + (r / 64) mod 64; 128 + r mod 64]
  else [240 + r / 262144; 128 + (r / 4096) mod 64; 128 + (r / 64) mod 64; 128 + r mod 64].

(** number of runes, as utf8.RuneCountInString *)
Fixpoint rune_count_aux (fuel : nat) (s : bytes) : nat :=
  match fuel with
  | O => O
  | S f => match decode_rune s with
           | None => O
           | Some (_, n) => S (rune_count_aux f (skipn n s))
           end
  end.
Definition rune_count (s : bytes) : nat := rune_count_aux (List.length s) s.

(** * strconv.Quote / QuoteRune *)
From GV Require Import Gen.Consts.

Fixpoint in_ranges (r : N) (l : list (N * N)) : bool :=
  match l with
  | [] => false
  | (lo, hi) :: l' => (N.leb lo r && N.leb r hi) || in_ranges r l'
  end.

(** strconv.IsPrint *)
Definition is_print (r : N) : bool :=
  if N.ltb r 128 then N.leb 32 r && N.ltb r 127 else in_ranges r c_isPrintRanges.

Definition hex_digit (d : N) : N := if N.ltb d 10 then 48 + d else 87 + d.

(** [hex_fixed n v]: v in lower-case hex, exactly n digits (most significant first) *)
Fixpoint hex_fixed (n : nat) (v : N) : bytes :=
  match n with
  | O => []
  | S k => hex_fixed k (v / 16) ++ [hex_digit (v mod 16)]
  end.

Definition valid_rune (r : N) : bool :=
  (N.ltb r 55296) || (N.ltb 57343 r && N.leb r 1114111).

(** strconv.appendEscapedRune with ASCIIonly = graphicOnly = false *)
Definition escaped_rune (q : N) (r : N) : bytes :=
  if N.eqb r q || N.eqb r 92 then [92; r]
  else if is_print r then encode_rune r
  else if N.eqb r 7 then lit "\a"
  else if N.eqb r 8 then lit "\b"
  else if N.eqb r 12 then lit "\f"
  else if N.eqb r 10 then lit "\n"
  else if N.eqb r 13 then lit "\r"
  else if N.eqb r 9 then lit "\t"
  else if N.eqb r 11 then lit "\v"
  else if N.ltb r 32 || N.eqb r 127 then lit "\x" ++ hex_fixed 2 r
  else let r' := if valid_rune r then r else 65533 in
       if N.ltb r' 65536 then lit "\u" ++ hex_fixed 4 r' else lit "\U" ++ hex_fixed 8 r'.

(** body of strconv.Quote(s) (without the surrounding quotes); recursion on fuel = input *)
Fixpoint quote_body_aux (fuel : bytes) (s : bytes) : bytes :=
  match fuel with
  | [] => []
  | _ :: fuel' =>
    match s with
    | [] => []
    | b :: _ =>
      match decode_rune s with
      | None => []
      | Some (r, n) =>
        (if Nat.eqb n 1 && N.eqb r 65533 then lit "\x" ++ hex_fixed 2 b else escaped_rune 34 r)
        ++ quote_body_aux fuel' (skipn n s)
      end
    end
  end.
Definition go_quote_body (s : bytes) : bytes := quote_body_aux s s.
Definition go_quote (s : bytes) : bytes := [34] ++ go_quote_body s ++ [34].

(** fmt's %q for a rune value; [None] models a negative / out-of-range value (scanner.EOF) *)
Definition go_quote_rune (r : option N) : bytes :=
  let r' := match r with None => 65533 | Some x => if valid_rune x then x else 65533 end in
  [39] ++ escaped_rune 39 r' ++ [39].

(** fmt's %c *)
Definition go_fmt_c (r : option N) : bytes :=
  match r with None => encode_rune 65533 | Some x => encode_rune x end.
