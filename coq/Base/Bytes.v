(** Byte strings as [list N] and the Go string functions the models use.
    Only definitions and small characterising lemmas; no property proofs here. *)
From Coq Require Export List NArith Bool String Ascii Arith Lia.
Export ListNotations.
Open Scope N_scope.

Definition byte := N.
Definition bytes := list N.

Fixpoint lit (s : string) : bytes :=
  match s with
  | EmptyString => []
  | String c s' => N_of_ascii c :: lit s'
  end.

Fixpoint beqb (a b : bytes) : bool :=
  match a, b with
  | [], [] => true
  | x :: a', y :: b' => N.eqb x y && beqb a' b'
  | _, _ => false
  end.

Lemma beqb_eq a b : beqb a b = true <-> a = b.
Proof.
  revert b; induction a as [|x a IH]; intros [|y b]; simpl; split; intro H;
    try reflexivity; try discriminate.
  - apply andb_true_iff in H as [H1 H2]. apply N.eqb_eq in H1. apply IH in H2. congruence.
  - inversion H; subst. rewrite N.eqb_refl. simpl. apply IH. reflexivity.
Qed.

Lemma beqb_refl a : beqb a a = true.
Proof. apply beqb_eq. reflexivity. Qed.

(** lexicographic, bytewise: Go's string [<] *)
Fixpoint bltb (a b : bytes) : bool :=
  match a, b with
  | [], [] => false
  | [], _ :: _ => true
  | _ :: _, [] => false
  | x :: a', y :: b' => if N.ltb x y then true else if N.ltb y x then false else bltb a' b'
  end.
Definition bleb (a b : bytes) : bool := negb (bltb b a).

Fixpoint has_prefix (p s : bytes) : bool :=
  match p, s with
  | [], _ => true
  | x :: p', y :: s' => N.eqb x y && has_prefix p' s'
  | _ :: _, [] => false
  end.

Definition has_suffix (p s : bytes) : bool := has_prefix (rev p) (rev s).

Fixpoint mem_byte (c : N) (s : bytes) : bool :=
  match s with [] => false | x :: s' => N.eqb c x || mem_byte c s' end.

(** strings.Contains s sub *)
Fixpoint contains (sub s : bytes) : bool :=
  has_prefix sub s || match s with [] => false | _ :: s' => contains sub s' end.

Fixpoint count_byte (c : N) (s : bytes) : nat :=
  match s with [] => 0%nat | x :: s' => ((if N.eqb c x then 1 else 0) + count_byte c s')%nat end.

(** strings.Join *)
Fixpoint join (sep : bytes) (l : list bytes) : bytes :=
  match l with
  | [] => []
  | [x] => x
  | x :: l' => x ++ sep ++ join sep l'
  end.

(** strings.Split s (single-byte separator): always at least one piece *)
Fixpoint split_byte_aux (c : N) (s cur : bytes) : list bytes :=
  match s with
  | [] => [rev cur]
  | x :: s' => if N.eqb x c then rev cur :: split_byte_aux c s' [] else split_byte_aux c s' (x :: cur)
  end.
Definition split_byte (c : N) (s : bytes) : list bytes := split_byte_aux c s [].

Fixpoint brepeat (s : bytes) (n : nat) : bytes :=
  match n with O => [] | S n' => s ++ brepeat s n' end.

Definition is_space (c : N) : bool :=
  N.eqb c 32 || N.eqb c 9 || N.eqb c 10 || N.eqb c 13 || N.eqb c 11 || N.eqb c 12.

Fixpoint trim_left (s : bytes) : bytes :=
  match s with x :: s' => if is_space x then trim_left s' else s | [] => [] end.
Definition trim_space (s : bytes) : bytes := rev (trim_left (rev (trim_left s))).

Definition trim_suffix (suf s : bytes) : bytes :=
  if has_suffix suf s then firstn (List.length s - List.length suf) s else s.

(** insertion sort with Go's string order (what slices.Sort computes on []string) *)
Fixpoint insert_sorted (x : bytes) (l : list bytes) : list bytes :=
  match l with
  | [] => [x]
  | y :: l' => if bleb x y then x :: l else y :: insert_sorted x l'
  end.
Fixpoint sort_bytes (l : list bytes) : list bytes :=
  match l with [] => [] | x :: l' => insert_sorted x (sort_bytes l') end.

(** decimal rendering of a nat (strconv.Itoa on non-negative ints) *)
Fixpoint itoa_aux (fuel : nat) (n : N) (acc : bytes) : bytes :=
  match fuel with
  | O => acc
  | S f => let d := N.modulo n 10 in let q := N.div n 10 in
           if N.eqb q 0 then (48 + d) :: acc else itoa_aux f q ((48 + d) :: acc)
  end.
Definition itoa (n : N) : bytes := itoa_aux (S (N.to_nat (N.log2 n))) n [].
