(** The runtime's whitespace-removal pass: regexp  NukeAfter\s*|\s*NukeBefore  applied with
    ReplaceAll(buf, nil), as a direct function (leftmost-first semantics specialised to this
    pattern).  [c_nukeWhitespaceRe] in Gen/Consts.v is the pattern source this models. *)
From GV Require Export Base.GoStr Gen.Consts.
Open Scope N_scope.

(** RE2's \s : [\t\n\f\r ] *)
Definition re_space (c : N) : bool := N.eqb c 9 || N.eqb c 10 || N.eqb c 12 || N.eqb c 13 || N.eqb c 32.

Fixpoint drop_ws (s : bytes) : bytes :=
  match s with
  | c :: s' => if re_space c then drop_ws s' else s
  | [] => []
  end.

Fixpoint nuke_aux (fuel : nat) (s : bytes) : bytes :=
  match fuel with
  | O => s
  | S f =>
    match s with
    | [] => []
    | c :: rest =>
      if has_prefix c_NukeAfter s then nuke_aux f (drop_ws (skipn (List.length c_NukeAfter) s))
      else if has_prefix c_NukeBefore (drop_ws s) then nuke_aux f (skipn (List.length c_NukeBefore) (drop_ws s))
      else c :: nuke_aux f rest
    end
  end.

(** Buffer.Bytes() *)
Definition nuke (s : bytes) : bytes := nuke_aux (S (List.length s)) s.
