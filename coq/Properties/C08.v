(** Property C08 — the Go language server always holds the compilation of the current buffer.
    OBLIGATIONS: C08_nonvacuous *)
From GV Require Import Compiler.Compile.

Example C08_nonvacuous :
  match lsp_compose (lit "package x" ++ [10] ++ lit "@goht T() {" ++ [10] ++ lit "  %p two spaces" ++ [10] ++ lit "}" ++ [10]) with
  | Some (code, _, None) => has_prefix c_header code   (* an invalid buffer still yields code for its partial tree *)
  | _ => false
  end = true.
Proof. vm_compute. reflexivity. Qed.
Print Assumptions C08_nonvacuous.
