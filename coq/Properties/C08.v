(** Property C08 — the Go language server always holds the compilation of the current buffer.
    Theorems are about Proxy/Proxy.v (state machine model of internal/proxy, tied to the real proxy by the
    L-PROXY correspondence) and hold for every compiler [compile] and every history.
    OBLIGATIONS: C08_coherent_after_any_history C08_open_payload C08_change_payload C08_save_payload
      C08_close_forwards C08_no_template_uri_downstream C08_nonvacuous *)
From GV Require Import Proxy.Proxy Proofs.ProxyProofs.

(** after any sequence of open / change / close / save / requests / gopls messages, for every open template
    the stored position map and generated code are those of the compilation of its current buffer *)
Theorem C08_coherent_after_any_history : forall compile es,
  forallb whole es = true -> Coherent compile (fst (run compile ps_init es)).
Proof. intros compile es H. apply coherent_run; [exact H|apply coherent_init]. Qed.
Print Assumptions C08_coherent_after_any_history.

(** didOpen: the generated URI, language id go, the editor's version, the code compiled from the buffer *)
Theorem C08_open_payload : forall compile st u lang ver text,
  is_goht_uri u = true ->
  exists outs, snd (fst (step compile st (EOpen u lang ver text))) =
                 outs ++ [Ds (DsOpen (to_goht_go u) (lit "go") ver (c_code (compile text)))] /\
               forall o, In o outs -> exists d, o = Cl (ClDiag u d).
Proof. exact open_payload. Qed.
Print Assumptions C08_open_payload.

Theorem C08_change_payload : forall compile st u ver text old,
  is_goht_uri u = true -> lookup u (ps_srcs st) = Some old ->
  exists outs, snd (fst (step compile st (EChange u ver text))) =
                 outs ++ [Ds (DsChange (to_goht_go u) ver (c_code (compile text)))] /\
               forall o, In o outs -> exists d, o = Cl (ClDiag u d).
Proof. exact change_payload. Qed.
Print Assumptions C08_change_payload.

(** didSave: the text sent is the generated code of the current buffer, never what the editor sent *)
Theorem C08_save_payload : forall compile st u t text,
  is_goht_uri u = true -> Coherent compile st -> lookup u (ps_srcs st) = Some text ->
  snd (fst (step compile st (ESave u (Some t)))) = [Ds (DsSave (to_goht_go u) (Some (c_code (compile text))))].
Proof. exact save_payload. Qed.
Print Assumptions C08_save_payload.

Theorem C08_close_forwards : forall compile st u,
  is_goht_uri u = true -> snd (fst (step compile st (EClose u))) = [Ds (DsClose (to_goht_go u))].
Proof. exact close_forwards. Qed.
Print Assumptions C08_close_forwards.

Theorem C08_no_template_uri_downstream : forall u, is_goht_uri (to_goht_go u) = false.
Proof. exact generated_uri_not_template. Qed.
Print Assumptions C08_no_template_uri_downstream.

(** non-vacuity: a history with an invalid buffer in it, run with the Coq compiler model *)
Example C08_nonvacuous :
  let u := lit "file:///w/a.goht" in
  let good := lit "package x" ++ [10] ++ lit "@goht T() {" ++ [10; 9] ++ lit "%p ok" ++ [10] ++ lit "}" ++ [10] in
  let bad := lit "package x" ++ [10] ++ lit "@goht T() {" ++ [10] ++ lit "  %p" ++ [10] ++ lit "}" ++ [10] in
  let es := [EOpen u (lit "goht") 1 good; EChange u 2 bad; ESave u (Some (lit "template text"))] in
  forallb whole es = true /\
  match lookup u (ps_gosrcs (fst (run model_compile ps_init es))) with
  | Some code => beqb code (c_code (model_compile bad))
  | None => false
  end = true.
Proof. split; vm_compute; reflexivity. Qed.
Print Assumptions C08_nonvacuous.
