(** Property C06 — the compiler is total: no input makes it panic, hang or deadlock.
    In the model every function is total by construction; what could go wrong in the Go code is made explicit
    as outcomes: [OPanic] (an index or slice out of range), [OHang] (the model's step budget, linear in the input,
    used up) and [ODeadlock] (one lexer state call sends more tokens than the channel holds, so the lexer, which
    runs in the parser's goroutine, would block for ever).  Proved here for EVERY input: no deadlock and no panic.
    The panic outcome stands for the ten index and slice expressions of lexer.go (l.pos[len(l.pos)-1] in next and
    backup, l.pos[:len(l.pos)-1], l.s[:len(l.s)-l.width] in backup, skip, skipRun and skipUntil, l.pos[line-1] in
    position); the model sets its panic flag exactly where one of them would be out of range, and the theorem is an
    invariant of the cursor (the per-line rune counts are never negative, there is one more line than the pending
    string has newlines, and a rune that was just read can be given back) kept by every state function.
    Proved as well for EVERY input: the lexer never spins.  Every state function, on every cursor, sends a token,
    or leaves fewer bytes in the reader, or moves to a state of lower rank (two rank tables, one while input
    remains and one at its end, nine levels); so fewer than 9 * (bytes left + 1) state calls separate two tokens,
    and the budget the model gives the pump is never used up.  Stronger, and also for every input: EVERY state call,
    whether it sends tokens or not, leaves fewer bytes in the reader or moves down in a rank of 46 levels that depends
    on the state and on the first rune the reader holds; so the lexer reaches its final state within 46 * (bytes + 1)
    state calls and sends at most four tokens per call: its total work, and the number of tokens (hence of tree
    nodes), are linear in the input.  And the parser's loop ends: every iteration pulls a token (which uses up a
    budget of the lexer that is linear in the input), or pops a frame, or is the last one; so for every input and for
    every pair of budgets at least as large as two linear bounds -- 9 * (n + 1) state calls per token for the pump,
    460 * (n + 1) + 2 iterations for the parser -- the model of the parse returns a tree, with or without an error
    ([C06_parse_terminates]): no hang, no spinning, no budget used up, no panic, no blocked channel.  Since the budgets
    exist only in the model (the Go code has none), this is the termination of the compiler; and above those bounds the
    result does not depend on the budgets at all -- neither on the pump's, nor on the loop's, nor on what the loops
    inside the parse methods get ([C06_budgets_do_not_matter]) -- so the tree is the tree, not an artefact.
    What remains outside the theorems: the EXECUTABLE model runs with a smaller budget for the parser's loop
    (4 * (n + 8) iterations; the proved one is a unary number too large for the size-scaling inputs), and the loops
    inside the parse methods run on that budget too and return what they have if it is used up; that these smaller
    budgets are never used up is established by the correspondence run (every prefix, deletion and insertion of
    generated files, random bytes, size-scaling families: the model would report a hang where the implementation
    returns).  Wall-clock time is measured, not modelled.  Labelled partial for these two reasons only.
    OBLIGATIONS: C06_state_call_emits_few C06_lexer_never_blocks C06_compile_never_deadlocks C06_cursor_stays_in_range
                 C06_lexer_never_panics C06_compile_never_panics C06_state_call_makes_progress C06_lexer_never_spins
                 C06_only_parser_budget_left C06_loop_bounds_never_reached C06_every_state_call_moves_down
                 C06_lexer_total_work_linear C06_parse_terminates C06_budgets_do_not_matter C06_nonvacuous *)
From GV Require Import Compiler.Compile Proofs.LexProofs Proofs.NoDeadlockProofs Proofs.LexSafeProofs Proofs.NoPanicProofs
  Proofs.LexProgressProofs Proofs.LexPumpProofs Proofs.NoSpinProofs Proofs.LexFuelProofs Proofs.LexTotalProofs Proofs.LexWorkProofs Proofs.LexEndProofs Proofs.ParserTermProofs Proofs.ParserStableProofs.
From Coq Require Import Lia.

(** every state function, on every cursor, sends at most four tokens (the channel holds [c_token_queue_cap] tokens,
    a constant regenerated from lexer.go) *)
Theorem C06_state_call_emits_few : forall st l, (ol (snd (step st l)) <= ol l + 4)%nat /\ (4 < c_token_queue_cap)%nat.
Proof. intros st l. split; [apply step_emits_few|exact cap_ok]. Qed.
Print Assumptions C06_state_call_emits_few.

Theorem C06_lexer_never_blocks : forall fuel lx, lok lx ->
  match next_token fuel lx with PTok _ lx' => lok lx' | PDeadlock => False | _ => True end.
Proof. exact next_token_ok. Qed.
Print Assumptions C06_lexer_never_blocks.

Theorem C06_compile_never_deadlocks : forall input, compile_parse input <> ODeadlock.
Proof. exact compile_never_deadlocks. Qed.
Print Assumptions C06_compile_never_deadlocks.

(** every state function, from every cursor that satisfies the invariant, leaves a cursor that satisfies it
    (in particular with the panic flag down); the first cursor satisfies it *)
Theorem C06_cursor_stays_in_range : forall st l input, (Base l -> Base (snd (step st l))) /\ Base (init_lex input).
Proof. intros st l input. split; [apply step_base|apply init_base]. Qed.
Print Assumptions C06_cursor_stays_in_range.

Theorem C06_lexer_never_panics : forall fuel lx, safe lx ->
  match next_token fuel lx with PTok _ lx' => safe lx' | PDeadlock => False | PPanic => False | _ => True end.
Proof. exact next_token_safe. Qed.
Print Assumptions C06_lexer_never_panics.

Theorem C06_compile_never_panics : forall input, compile_parse input <> OPanic.
Proof. exact compile_never_panics. Qed.
Print Assumptions C06_compile_never_panics.

(** every state function but the final one, on every cursor: the reader never grows, and a token is sent, or the
    reader shrinks, or the rank of the state goes down ([A] = bytes left in the reader, [ol] = tokens sent so far
    by this call, [rk1] / [rk0] = rank while input remains / at its end) *)
Theorem C06_state_call_makes_progress : forall st l, st <> SNil ->
  (A (snd (step st l)) <= A l)%nat /\
  ((ol l < ol (snd (step st l)))%nat \/ (A (snd (step st l)) < A l)%nat \/
   (if Nat.eqb (A l) 0 then rk0 (fst (step st l)) < rk0 st else rk1 (fst (step st l)) < rk1 st)%nat).
Proof. exact step_progress. Qed.
Print Assumptions C06_state_call_makes_progress.

(** the pump never uses up a budget of 9 * (bytes left + 1) state calls, whatever the state and the cursor *)
Theorem C06_lexer_never_spins : forall fuel lx,
  ol (lx_st lx) = 0%nat -> (9 * (A (lx_st lx) + 1) <= fuel)%nat -> next_token fuel lx <> PHang.
Proof.
  intros fuel lx H Hf. apply next_token_never_spins; [exact H|].
  pose proof (mu_bound (lx_state lx) (lx_st lx)) as Hm. unfold rk_levels in Hm. lia.
Qed.
Print Assumptions C06_lexer_never_spins.

(** for every input: the only abnormal outcome of the model that is not excluded is the parser's loop budget *)
Theorem C06_only_parser_budget_left : forall input,
  (forall c, parse_bytes input = Crashed c -> c = PBudget) /\
  (compile_parse input = OHang -> parse_bytes input = Crashed PBudget).
Proof. intro input. split; [apply parse_crash_only_budget|apply compile_hang_only_parser_budget]. Qed.
Print Assumptions C06_only_parser_budget_left.

(** every state function but the final one, on every cursor, sending tokens or not: the reader never grows, and it
    shrinks or the rank goes down ([rank2 st l]: a table of 46 levels indexed by the state and by the first rune the
    reader holds, or the end of input) *)
Theorem C06_every_state_call_moves_down : forall st l, st <> SNil ->
  (A (snd (step st l)) <= A l)%nat /\
  ((A (snd (step st l)) < A l)%nat \/ (rank2 (fst (step st l)) (snd (step st l)) < rank2 st l)%nat).
Proof. exact step_progress2. Qed.
Print Assumptions C06_every_state_call_moves_down.

(** the whole run of the lexer on an input ([steps k]: k state calls, the tokens piling up): within 46 * (length + 1)
    state calls it has reached its final state, and it has sent at most four tokens per call *)
Theorem C06_lexer_total_work_linear : forall input,
  let k := (46 * (List.length input + 1))%nat in
  fst (steps k SGoLineStart (init_lex input)) = SNil /\
  (ol (snd (steps k SGoLineStart (init_lex input))) <= 4 * k)%nat.
Proof. exact lexer_total_work_linear. Qed.
Print Assumptions C06_lexer_total_work_linear.

(** THE COMPILER TERMINATES.  [parse_bytes_with lf pf] is the model of the parse with the budget [lf] of the pump and
    [pf] of the parser's loop as parameters ([parse_bytes] is its instance with the budgets of the executable model);
    for every input and all budgets at least as large as two linear bounds it returns a tree, with or without an
    error -- never one of the abnormal outcomes *)
Theorem C06_parse_terminates : forall input lf pf,
  (9 * (List.length input + 1) <= lf)%nat -> (460 * (List.length input + 1) + 2 <= pf)%nat ->
  (exists t e, parse_bytes_with lf pf input = Parsed t e) /\
  parse_bytes input = parse_bytes_with (lex_fuel input) (parse_fuel input) input.
Proof.
  intros input lf pf H1 H2. split; [|reflexivity]. apply parse_terminates.
  - unfold rk_levels. exact H1.
  - unfold parse_budget, levels2. lia.
Qed.
Print Assumptions C06_parse_terminates.

(** above the linear bounds the budgets do not matter: the parse is the same for all of them *)
Theorem C06_budgets_do_not_matter : forall input lf pf lf' pf',
  (9 * (List.length input + 1) <= lf)%nat -> (9 * (List.length input + 1) <= lf')%nat ->
  (460 * (List.length input + 1) + 2 <= pf)%nat -> (460 * (List.length input + 1) + 2 <= pf')%nat ->
  parse_bytes_with lf pf input = parse_bytes_with lf' pf' input.
Proof.
  intros input lf pf lf' pf' H1 H2 H3 H4. apply parse_budget_irrelevant; unfold rk_levels, parse_budget, levels2; lia.
Qed.
Print Assumptions C06_budgets_do_not_matter.

(** the loops inside the state functions run on the reader's bytes as fuel and return what they have when it is used
    up; that never happens: with any amount of additional fuel they return the same *)
Theorem C06_loop_bounds_never_reached : forall extra l,
  (forall v, accept_run_aux (l_after l ++ extra) v l = accept_run v l) /\
  (forall v, accept_until_aux (l_after l ++ extra) v l = accept_until v l) /\
  (forall v, skip_run_aux (l_after l ++ extra) v l = skip_run v l) /\
  (forall v, skip_until_aux (l_after l ++ extra) v l = skip_until v l) /\
  (forall q esc, to_quote_aux (l_after l ++ extra) q esc l = to_quote_aux (l_after l) q esc l) /\
  (forall e, to_brace_aux (l_after l ++ extra) e false false 0 l = continue_to_matching_brace e l) /\
  goht_start_loop (l_after l ++ extra) l = goht_start_loop (l_after l) l /\
  (forall s, all_space_aux (s ++ extra) s = all_space s).
Proof. exact loops_never_run_out. Qed.
Print Assumptions C06_loop_bounds_never_reached.

(** non-vacuity / smoke: the model compiles a small template and rejects a truncated one *)
Example C06_nonvacuous :
  (match compile_parse (lit "@goht T() {" ++ [10; 9] ++ lit "%p x" ++ [10] ++ lit "}" ++ [10]) with
   | ODone _ None => true | _ => false end) = true /\
  (match compile_parse (lit "@goht T() {" ++ [10; 9] ++ lit "%a{@attributes") with
   | ODone _ (Some _) => true | _ => false end) = true /\
  lok (new_lexer (lit "x")) /\
  (* the panic outcome is expressible: giving back a rune on a cursor that violates the invariant raises the flag,
     and the pump reports it *)
  l_panic (backup (mkL [] [] None [65] 1 [0%Z] 0 [] false)) = true /\
  (match next_token 5 (mkLexer SGohtLineStart (mkL [] (lit "x") None [] 0 [] 0 [] false) [] false) with PPanic => true | _ => false end) = true /\
  (* the spinning outcome is expressible too: with a budget of one state call the pump gives up on a line of Go
     code (two silent state calls come before its first token), with the budget of the theorem it does not *)
  (match next_token 1 (new_lexer (lit "x")) with PHang => true | _ => false end) = true /\
  (match next_token 18 (new_lexer (lit "x")) with PTok _ _ => true | _ => false end) = true.
Proof. split; [vm_compute; reflexivity|]. split; [vm_compute; reflexivity|]. split; [reflexivity|]. repeat split; vm_compute; reflexivity. Qed.
Print Assumptions C06_nonvacuous.

(* under the budgets of the termination theorem the parse of a small template is the one the executable model gives *)
Example C06_budgets_nonvacuous :
  parse_bytes_with (9 * 21) (460 * 21 + 2) (lit "@goht T() {" ++ [10; 9] ++ lit "%p x" ++ [10] ++ lit "}" ++ [10]) =
  parse_bytes (lit "@goht T() {" ++ [10; 9] ++ lit "%p x" ++ [10] ++ lit "}" ++ [10]).
Proof. vm_compute. reflexivity. Qed.
