(** Property C06 — the compiler is total.
    OBLIGATIONS: C06_nonvacuous *)
From GV Require Import Compiler.Compile.

(** non-vacuity / smoke: the model compiles a small template and rejects a truncated one *)
Example C06_nonvacuous :
  (match compile_parse (lit "@goht T() {" ++ [10; 9] ++ lit "%p x" ++ [10] ++ lit "}" ++ [10]) with
   | ODone _ None => true | _ => false end) = true /\
  (match compile_parse (lit "@goht T() {" ++ [10; 9] ++ lit "%a{@attributes") with
   | ODone _ (Some _) => true | _ => false end) = true.
Proof. split; vm_compute; reflexivity. Qed.
Print Assumptions C06_nonvacuous.
