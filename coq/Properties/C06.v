(** Property C06 — the compiler is total: no input makes it panic, hang or deadlock.
    In the model every function is total by construction; what could go wrong in the Go code is made explicit
    as outcomes: [OPanic] (an index or slice out of range), [OHang] (the model's step budget, linear in the input,
    used up) and [ODeadlock] (one lexer state call sends more tokens than the channel holds, so the lexer, which
    runs in the parser's goroutine, would block for ever).  Proved here for EVERY input: no deadlock.  That [OPanic]
    and [OHang] never occur is established by the correspondence run only (every prefix, deletion and insertion of
    generated files, random bytes, size-scaling families), not by a theorem: labelled partial.
    OBLIGATIONS: C06_state_call_emits_few C06_lexer_never_blocks C06_compile_never_deadlocks C06_nonvacuous *)
From GV Require Import Compiler.Compile Proofs.LexProofs Proofs.NoDeadlockProofs.
From Coq Require Import Lia.

(** every state function, on every cursor, sends at most four tokens (the channel holds [c_token_queue_cap] tokens,
    a constant regenerated from lexer.go) *)
Theorem C06_state_call_emits_few : forall st l, (ol (snd (step st l)) <= ol l + 4)%nat /\ (4 < c_token_queue_cap)%nat.
Proof. intros st l. split; [apply step_emits_few|exact cap_ok]. Qed.
Print Assumptions C06_state_call_emits_few.

Theorem C06_lexer_never_blocks : forall fuel lx, lok lx ->
  match next_token fuel lx with PTok _ lx' => lok lx' | PDeadlock => False | _ => True end.
Proof. exact next_token_ok. Qed.
Print Assumptions C06_lexer_never_blocks.

Theorem C06_compile_never_deadlocks : forall input, compile_parse input <> ODeadlock.
Proof. exact compile_never_deadlocks. Qed.
Print Assumptions C06_compile_never_deadlocks.

(** non-vacuity / smoke: the model compiles a small template and rejects a truncated one *)
Example C06_nonvacuous :
  (match compile_parse (lit "@goht T() {" ++ [10; 9] ++ lit "%p x" ++ [10] ++ lit "}" ++ [10]) with
   | ODone _ None => true | _ => false end) = true /\
  (match compile_parse (lit "@goht T() {" ++ [10; 9] ++ lit "%a{@attributes") with
   | ODone _ (Some _) => true | _ => false end) = true /\
  lok (new_lexer (lit "x")).
Proof. split; [vm_compute; reflexivity|]. split; [vm_compute; reflexivity|reflexivity]. Qed.
Print Assumptions C06_nonvacuous.
