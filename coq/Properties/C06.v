(** Property C06 — the compiler is total: no input makes it panic, hang or deadlock.
    In the model every function is total by construction; what could go wrong in the Go code is made explicit
    as outcomes: [OPanic] (an index or slice out of range), [OHang] (the model's step budget, linear in the input,
    used up) and [ODeadlock] (one lexer state call sends more tokens than the channel holds, so the lexer, which
    runs in the parser's goroutine, would block for ever).  Proved here for EVERY input: no deadlock and no panic.
    The panic outcome stands for the ten index and slice expressions of lexer.go (l.pos[len(l.pos)-1] in next and
    backup, l.pos[:len(l.pos)-1], l.s[:len(l.s)-l.width] in backup, skip, skipRun and skipUntil, l.pos[line-1] in
    position); the model sets its panic flag exactly where one of them would be out of range, and the theorem is an
    invariant of the cursor (the per-line rune counts are never negative, there is one more line than the pending
    string has newlines, and a rune that was just read can be given back) kept by every state function.
    That [OHang] never occurs is established by the correspondence run only (every prefix, deletion and insertion
    of generated files, random bytes, size-scaling families), not by a theorem: labelled partial.
    OBLIGATIONS: C06_state_call_emits_few C06_lexer_never_blocks C06_compile_never_deadlocks C06_cursor_stays_in_range
                 C06_lexer_never_panics C06_compile_never_panics C06_nonvacuous *)
From GV Require Import Compiler.Compile Proofs.LexProofs Proofs.NoDeadlockProofs Proofs.LexSafeProofs Proofs.NoPanicProofs.
From Coq Require Import Lia.

(** every state function, on every cursor, sends at most four tokens (the channel holds [c_token_queue_cap] tokens,
    a constant regenerated from lexer.go) *)
Theorem C06_state_call_emits_few : forall st l, (ol (snd (step st l)) <= ol l + 4)%nat /\ (4 < c_token_queue_cap)%nat.
Proof. intros st l. split; [apply step_emits_few|exact cap_ok]. Qed.
Print Assumptions C06_state_call_emits_few.

Theorem C06_lexer_never_blocks : forall fuel lx, lok lx ->
  match next_token fuel lx with PTok _ lx' => lok lx' | PDeadlock => False | _ => True end.
Proof. exact next_token_ok. Qed.
Print Assumptions C06_lexer_never_blocks.

Theorem C06_compile_never_deadlocks : forall input, compile_parse input <> ODeadlock.
Proof. exact compile_never_deadlocks. Qed.
Print Assumptions C06_compile_never_deadlocks.

(** every state function, from every cursor that satisfies the invariant, leaves a cursor that satisfies it
    (in particular with the panic flag down); the first cursor satisfies it *)
Theorem C06_cursor_stays_in_range : forall st l input, (Base l -> Base (snd (step st l))) /\ Base (init_lex input).
Proof. intros st l input. split; [apply step_base|apply init_base]. Qed.
Print Assumptions C06_cursor_stays_in_range.

Theorem C06_lexer_never_panics : forall fuel lx, safe lx ->
  match next_token fuel lx with PTok _ lx' => safe lx' | PDeadlock => False | PPanic => False | PHang => True end.
Proof. exact next_token_safe. Qed.
Print Assumptions C06_lexer_never_panics.

Theorem C06_compile_never_panics : forall input, compile_parse input <> OPanic.
Proof. exact compile_never_panics. Qed.
Print Assumptions C06_compile_never_panics.

(** non-vacuity / smoke: the model compiles a small template and rejects a truncated one *)
Example C06_nonvacuous :
  (match compile_parse (lit "@goht T() {" ++ [10; 9] ++ lit "%p x" ++ [10] ++ lit "}" ++ [10]) with
   | ODone _ None => true | _ => false end) = true /\
  (match compile_parse (lit "@goht T() {" ++ [10; 9] ++ lit "%a{@attributes") with
   | ODone _ (Some _) => true | _ => false end) = true /\
  lok (new_lexer (lit "x")) /\
  (* the panic outcome is expressible: giving back a rune on a cursor that violates the invariant raises the flag,
     and the pump reports it *)
  l_panic (backup (mkL [] [] None [65] 1 [0%Z] 0 [] false)) = true /\
  (match next_token 5 (mkLexer SGohtLineStart (mkL [] (lit "x") None [] 0 [] 0 [] false) [] false) with PPanic => true | _ => false end) = true.
Proof. split; [vm_compute; reflexivity|]. split; [vm_compute; reflexivity|]. split; [reflexivity|]. split; vm_compute; reflexivity. Qed.
Print Assumptions C06_nonvacuous.
