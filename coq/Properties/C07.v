(** Property C07 (source map).
    OBLIGATIONS: C07_nonvacuous *)
From GV Require Import Compiler.Compile.

Example C07_nonvacuous :
  let src := lit "@goht T(a string) {" ++ [10; 9] ++ lit "%p #{a}" ++ [10] ++ lit "}" ++ [10] in
  match lsp_compose src with
  | Some (_, adds, None) =>
    match s2t (sm_entries adds) 1%Z 6%Z with Some (tl, tc) => Z.eqb tl 20 && Z.eqb tc 58 | None => false end
  | _ => false
  end = true.
Proof. vm_compute. reflexivity. Qed.
Print Assumptions C07_nonvacuous.
