(** Property C07 — the source map relates identical Go text in template and generated file.
    Positions here are 1-based (line, byte column) as the writer counts them; the map's entries and the
    look-ups are 0-based, as in the Go code.  Columns count bytes: that they should count UTF-16 units after
    non-ASCII text is known finding F15, and these theorems do not claim it.
    [sa_text] is the text handed to the write whose position the entry records: the token's literal at every
    site of the emitter except `-` lines (the literal without surrounding white space) and `?` attributes (the
    attribute's value, which the parser takes from the same token) — see the three hypotheses of Proofs/EmitInv.v.
    OBLIGATIONS: C07_counter_is_end_of_text C07_entries_point_at_their_text C07_fragment_chars_at_target
                 C07_position_maps_to_same_char C07_round_trip C07_nonvacuous *)
From GV Require Import Compiler.Compile Proofs.EmitProofs Proofs.TargetProofs Proofs.SrcMapProofs.
Open Scope N_scope.

(** the writer's line/column counter is the position of the end of the generated text, for every tree *)
Theorem C07_counter_is_end_of_text : forall sm root,
  let w := emit_tree sm root in (w_line w, w_col w) = pos_of (output_of w).
Proof. intros sm root. exact (proj1 (emit_tree_targets sm root)). Qed.
Print Assumptions C07_counter_is_end_of_text.

(** every recorded entry points at the place in the generated text where its fragment was written *)
Theorem C07_entries_point_at_their_text : forall sm root,
  let w := emit_tree sm root in
  Forall (fun a => exists pre post, output_of w = pre ++ sa_text a ++ post /\ pos_of pre = (sa_tline a, sa_tcol a)) (w_adds w).
Proof. intros sm root. exact (proj2 (emit_tree_targets sm root)). Qed.
Print Assumptions C07_entries_point_at_their_text.

(** also inside fragments that span several lines: character k sits where walking the first k characters leads *)
Theorem C07_fragment_chars_at_target : forall sm root a k,
  let w := emit_tree sm root in
  In a (w_adds w) -> (k < List.length (sa_text a))%nat ->
  exists pre post, output_of w = pre ++ [nth k (sa_text a) 0] ++ post /\
                   pos_of pre = pos_after (sa_tline a, sa_tcol a) (firstn k (sa_text a)).
Proof. exact fragment_chars_at_target. Qed.
Print Assumptions C07_fragment_chars_at_target.

(** end to end for a fragment on one line: the position of its k-th character in the template is mapped to the
    position in the generated file that holds that very character *)
Theorem C07_position_maps_to_same_char : forall root out adds err a k,
  compose root = (out, adds, err) ->
  keys_unique (sm_entries adds) = true ->
  In a adds -> sa_text a = sa_lit a -> count_byte 10 (sa_lit a) = 0%nat -> (k < List.length (sa_lit a))%nat ->
  s2t (sm_entries adds) (sa_line a - 1) (sa_col a - 1 + Z.of_nat k) = Some (sa_tline a - 1, sa_tcol a - 1 + Z.of_nat k)%Z /\
  exists pre post, out = pre ++ [nth k (sa_lit a) 0] ++ post /\ pos_of pre = (sa_tline a, (sa_tcol a + Z.of_nat k)%Z).
Proof. exact fragment_position_maps_to_same_char. Qed.
Print Assumptions C07_position_maps_to_same_char.

(** and back *)
Theorem C07_round_trip : forall es l c tl tc,
  keys_unique es = true -> s2t es l c = Some (tl, tc) -> t2s es tl tc = Some (l, c).
Proof.
  intros es l c tl tc Hu H. destruct (keys_unique_sound _ Hu) as [Hs Ht]. exact (round_trip_source es l c tl tc Hs Ht H).
Qed.
Print Assumptions C07_round_trip.

(** the hypotheses hold for a real file: the keys are unique, and every entry's text is its literal, on one line *)
Example C07_nonvacuous :
  let src := lit "package p" ++ [10] ++ lit "@goht T(a string, ok bool) {" ++ [10; 9] ++
             lit "%p.c{x: #{a}} t #{a}" ++ [10; 9] ++ lit "- if ok" ++ [10; 9; 9] ++ lit "= a" ++ [10] ++ lit "}" ++ [10] in
  match lsp_compose src with
  | Some (out, adds, None) =>
    keys_unique (sm_entries adds)
    && forallb (fun a => beqb (sa_text a) (sa_lit a) && Nat.eqb (count_byte 10 (sa_lit a)) 0) adds
    && Nat.leb 6 (List.length adds)
    && match s2t (sm_entries adds) 2%Z 11%Z with Some (tl, tc) => Z.eqb tl 20 && Z.eqb tc 52 | None => false end
  | _ => false
  end = true.
Proof. vm_compute. reflexivity. Qed.
Print Assumptions C07_nonvacuous.
