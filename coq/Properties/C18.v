(** Property C18 — `goht generate` writes exactly the up-to-date outputs and touches nothing else.
    Theorems are about Cli/Generate.v: the command over an abstract file system (finite map path -> content,
    mtime), for every tree without duplicate paths, every flag set, every compiler+formatter [compile], every time
    [now], and every order in which the worker pool finishes the queue.
    OBLIGATIONS: C18_stale_template_written C18_up_to_date_untouched C18_failing_template_untouched
      C18_only_outputs_change C18_skipped_directories_untouched C18_orphan_removed C18_keep_keeps_orphans
      C18_schedule_independent C18_nonvacuous *)
From GV Require Import Cli.Generate Proofs.ProxyProofs Proofs.GenerateProofs.
From Coq Require Import Sorting.Permutation.

Section C18.
Variable compile : bytes -> option bytes.
Variable now : Z.
Variable fl : flags.
Variable fs : fsys.
Hypothesis paths_unique : NoDup (map fst fs).

Let in_fs := queue_in_fs fl fs paths_unique.
Let tmpl := queue_templates fl fs.

Theorem C18_stale_template_written : forall t f c,
  lookup t fs = Some f -> stale fl fs t f = true -> compile (f_content f) = Some c ->
  lookup (output_of t) (goht_generate compile now fl fs) = Some (mkFile c now).
Proof.
  intros t f c Ht Hs Hc. unfold goht_generate. apply (written compile now fl fs (queue fl fs) in_fs t f c); [|exact Hc].
  unfold queue. apply filter_In. split; [apply lookup_in; exact Ht|exact Hs].
Qed.

Theorem C18_up_to_date_untouched : forall t f,
  lookup t fs = Some f -> stale fl fs t f = false ->
  lookup (output_of t) (goht_generate compile now fl fs) = lookup (output_of t) fs.
Proof.
  intros t f Ht Hs. unfold goht_generate. apply (output_untouched compile now fl fs (queue fl fs) t f Ht).
  intros f' Hin. pose proof (in_fs _ _ Hin) as H. rewrite Ht in H. inversion H; subst f'.
  unfold queue in Hin. apply filter_In in Hin as [_ Hq]. cbn [fst snd] in Hq. congruence.
Qed.

Theorem C18_failing_template_untouched : forall t f,
  lookup t fs = Some f -> compile (f_content f) = None ->
  lookup (output_of t) (goht_generate compile now fl fs) = lookup (output_of t) fs.
Proof.
  intros t f Ht Hc. unfold goht_generate. apply (output_untouched compile now fl fs (queue fl fs) t f Ht).
  intros f' Hin. pose proof (in_fs _ _ Hin) as H. rewrite Ht in H. inversion H; subst f'. exact Hc.
Qed.

(** no template source, and no file other than a *.goht.go, is created, changed or removed *)
Theorem C18_only_outputs_change : forall p,
  is_output p = false -> lookup p (goht_generate compile now fl fs) = lookup p fs.
Proof. intros p Hp. unfold goht_generate. apply (frame_non_output compile now fl fs (queue fl fs) tmpl p Hp). Qed.

Theorem C18_skipped_directories_untouched : forall p,
  skipped fl p = true -> lookup p (goht_generate compile now fl fs) = lookup p fs.
Proof. intros p Hp. unfold goht_generate. apply (frame_skipped compile now fl fs (queue fl fs) tmpl p Hp). Qed.

Theorem C18_orphan_removed : forall p f,
  orphan fl fs p = true -> In (p, f) fs -> lookup p (goht_generate compile now fl fs) = None.
Proof. intros p f Ho Hin. unfold goht_generate. apply (orphan_removed compile now fl fs (queue fl fs) in_fs p f Ho Hin). Qed.

Theorem C18_keep_keeps_orphans : forall p, fl_keep fl = true -> orphan fl fs p = false.
Proof. exact (keep_keeps fl fs). Qed.

(** any order in which the workers finish the queue gives the same tree *)
Theorem C18_schedule_independent : forall order',
  Permutation (queue fl fs) order' ->
  forall p, lookup p (goht_generate compile now fl fs) = lookup p (generate_with compile now fl fs order').
Proof. intros order' Hp p. unfold goht_generate. apply schedule_independent; [exact in_fs|exact Hp]. Qed.

End C18.

Print Assumptions C18_stale_template_written.
Print Assumptions C18_up_to_date_untouched.
Print Assumptions C18_failing_template_untouched.
Print Assumptions C18_only_outputs_change.
Print Assumptions C18_skipped_directories_untouched.
Print Assumptions C18_orphan_removed.
Print Assumptions C18_keep_keeps_orphans.
Print Assumptions C18_schedule_independent.

(** non-vacuity: a tree with a stale template, an up-to-date one, a failing one, an orphan, a vendor directory *)
Example C18_nonvacuous :
  let comp := fun c => if beqb c (lit "bad") then None else Some (lit "go:" ++ c) in
  let fl := mkFlags false false c_defaultSkipDirs in
  let fs := [(lit "a.goht", mkFile (lit "A") 10); (lit "a.goht.go", mkFile (lit "old") 5);
             (lit "b.goht", mkFile (lit "B") 10); (lit "b.goht.go", mkFile (lit "keep") 20);
             (lit "c.goht", mkFile (lit "bad") 10); (lit "c.goht.go", mkFile (lit "prev") 1);
             (lit "gone.goht.go", mkFile (lit "orphan") 1);
             (lit "vendor/v.goht", mkFile (lit "V") 10); (lit "sub/.x/h.goht.go", mkFile (lit "hidden orphan") 1);
             (lit "main.go", mkFile (lit "package main") 3)] in
  let r := goht_generate comp 99 fl fs in
  NoDup (map fst fs) /\
  lookup (lit "a.goht.go") r = Some (mkFile (lit "go:A") 99) /\
  lookup (lit "b.goht.go") r = Some (mkFile (lit "keep") 20) /\
  lookup (lit "c.goht.go") r = Some (mkFile (lit "prev") 1) /\
  lookup (lit "gone.goht.go") r = None /\
  lookup (lit "vendor/v.goht.go") r = None /\
  lookup (lit "sub/.x/h.goht.go") r = Some (mkFile (lit "hidden orphan") 1) /\
  lookup (lit "main.go") r = Some (mkFile (lit "package main") 3).
Proof.
  cbv zeta. split.
  - repeat constructor; cbn; intuition discriminate.
  - repeat split; vm_compute; reflexivity.
Qed.
Print Assumptions C18_nonvacuous.
