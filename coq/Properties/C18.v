(** Property C18 — `goht generate` writes exactly the up-to-date outputs and touches nothing else.
    OBLIGATIONS: C18_nonvacuous *)
From GV Require Import Compiler.Compile.

Example C18_nonvacuous :
  c_defaultSkipDirs = [lit "vendor"; lit "node_modules"] /\ c_GeneratedFileExtension = c_GohtFileExtension ++ lit ".go".
Proof. split; vm_compute; reflexivity. Qed.
Print Assumptions C18_nonvacuous.
