(** Property C02 — dynamic values cannot change document structure (HTML escaping).
    OBLIGATIONS: C02_escape_chars C02_unescape_escape C02_escape_injective C02_nonvacuous *)
From GV Require Import Base.GoStr Proofs.EscapeProofs.

(** an escaped value contains no angle bracket and no quote of either kind: it cannot open or close a tag or an attribute value *)
Theorem C02_escape_chars : forall v b, In b (html_escape v) -> ~ meta b.
Proof. exact escape_chars. Qed.
Print Assumptions C02_escape_chars.

(** entity-decoding the escaped value gives back exactly v *)
Theorem C02_unescape_escape : forall v, html_unescape5 (html_escape v) = v.
Proof. exact unescape_escape. Qed.
Print Assumptions C02_unescape_escape.

Theorem C02_escape_injective : forall a b, html_escape a = html_escape b -> a = b.
Proof. exact html_escape_inj. Qed.
Print Assumptions C02_escape_injective.

Example C02_nonvacuous : html_escape (lit "<a href=""x"">&'") = lit "&lt;a href=&#34;x&#34;&gt;&amp;&#39;".
Proof. vm_compute. reflexivity. Qed.
Print Assumptions C02_nonvacuous.
