(** Property C02 — dynamic values cannot change document structure (HTML escaping).
    OBLIGATIONS: C02_escape_chars C02_unescape_escape C02_escape_injective C02_dynamic_text_code
                 C02_dynamic_attr_always_escaped C02_fragment_values_only_escaped
                 C02_escaped_segment_is_inert C02_nonvacuous
                 C02_escaped_value_is_silent C02_structure_independent_of_value C02_structure_same_for_all_values
                 C02_many_values C02_structure_nonvacuous *)
From GV Require Import Base.GoStr Proofs.EscapeProofs Proofs.HtmlTokProofs Compiler.Emit Proofs.EmitProofs Proofs.DynamicProofs Proofs.SegProofs.
Open Scope N_scope.

(** an escaped value contains no angle bracket and no quote of either kind: it cannot open or close a tag or an attribute value *)
Theorem C02_escape_chars : forall v b, In b (html_escape v) -> ~ meta b.
Proof. exact escape_chars. Qed.
Print Assumptions C02_escape_chars.

(** entity-decoding the escaped value gives back exactly v *)
Theorem C02_unescape_escape : forall v, html_unescape5 (html_escape v) = v.
Proof. exact unescape_escape. Qed.
Print Assumptions C02_unescape_escape.

Theorem C02_escape_injective : forall a b, html_escape a = html_escape b -> a = b.
Proof. exact html_escape_inj. Qed.
Print Assumptions C02_escape_injective.

(** the code written for `= expr` / `#{expr}` (any writer state without an open literal): the value goes through
    goht.EscapeString exactly once in an escaping context, and not at all in an unescaped one (`!=`, `!`, plain filters) *)
Theorem C02_dynamic_text_code : forall sm t st, quiet st ->
  let v := lit "__var" ++ itoa (N.of_nat (S (w_num (fst st)))) in
  let ind := tabs (wl_indent (snd st)) in
  txt (emit_dynamic sm t st) =
    txt st ++
    ind ++ lit "var " ++ v ++ lit " string" ++ [10] ++
    ind ++ lit "if " ++ v ++ lit ", __err = goht.CaptureErrors(" ++
      (if wl_unesc (snd st) then formatted_code t else lit "goht.EscapeString(" ++ formatted_code t ++ lit ")") ++
      lit "); __err != nil { return }" ++ [10] ++
    ind ++ write_string_open ++ v ++ lit "); __err != nil { return }" ++ [10].
Proof. exact dynamic_text_code. Qed.
Print Assumptions C02_dynamic_text_code.

(** a dynamic attribute value is escaped whatever the context: the code after the attribute's opening chunk closes
    the literal and writes EscapeString(expr) followed by the closing quote *)
Theorem C02_dynamic_attr_always_escaped : forall sm (origin : token) st1,
  w_err (fst st1) = None -> wl_static (snd st1) = true ->
  txt (tw_wr (lit ")+""\""""); __err != nil { return }" ++ [10])
         (write_formatted_text sm origin (tw_wri (write_string_open ++ lit "goht.EscapeString(") st1))) =
    txt st1 ++ close_text (snd st1) ++
    tabs (wl_indent (snd st1)) ++ write_string_open ++ lit "goht.EscapeString(" ++ formatted_code origin ++
    lit ")+""\""""); __err != nil { return }" ++ [10].
Proof. exact dynamic_attr_value_code. Qed.
Print Assumptions C02_dynamic_attr_always_escaped.

(** over whole templates of the fragment of Proofs/SegProofs.v (static markup, interpolation, scripts, dynamic and
    conditional attributes, brace-less blocks): the generated body is a [denotes] run for [segs_list body], in which
    an expression occurs only as [SDyn] / [SDynQ] — html-escaped by [eval_segs] — or as the Go statement of a block *)
Theorem C02_fragment_values_only_escaped : forall o body,
  Forall dyn_node body -> kids_ok body ->
  exists (m' : bool) code, denotes 2 false m' code (segs_list false body) /\ item_err (Node (KGoht o) body) = None /\
    item_text (Node (KGoht o) body) =
      lit "func " ++ t_lit o ++ c_gohtEntry ++ code ++ (if m' then close_text (Lo 2) else []) ++ c_gohtExit.
Proof. exact dyn_template_code. Qed.
Print Assumptions C02_fragment_values_only_escaped.

(** an escaped value contributes no markup character to the document *)
Theorem C02_escaped_segment_is_inert : forall rho t b,
  In b (eval_segs rho [SDyn t]) -> ~ meta b.
Proof.
  intros rho t b H. unfold eval_segs in H. cbn in H. rewrite app_nil_r in H. exact (escape_chars _ _ H).
Qed.
Print Assumptions C02_escaped_segment_is_inert.

(** "document structure" as a tokenizer (Proofs/HtmlTokProofs.v: the tag-level states of the WHATWG tokenizer, reporting
    tag starts / ends, attribute starts and the bytes of tag and attribute names): in character data and inside a quoted
    attribute value an escaped value produces no structural event and leaves the tokenizer where it was *)
Theorem C02_escaped_value_is_silent : forall st v, safe_ctx st -> hrun st (html_escape v) = (st, []).
Proof. exact escaped_value_is_silent. Qed.
Print Assumptions C02_escaped_value_is_silent.

(** ... hence the structure of the whole document, and the state in which the tokenizer ends, are those of the document
    with nothing inserted at the site: whatever the value *)
Theorem C02_structure_independent_of_value : forall pre post v,
  safe_ctx (fst (hrun Data pre)) ->
  structure (pre ++ html_escape v ++ post) = structure (pre ++ post) /\
  fst (hrun Data (pre ++ html_escape v ++ post)) = fst (hrun Data (pre ++ post)).
Proof. exact structure_independent_of_value. Qed.
Print Assumptions C02_structure_independent_of_value.

Theorem C02_structure_same_for_all_values : forall pre post v v',
  safe_ctx (fst (hrun Data pre)) ->
  structure (pre ++ html_escape v ++ post) = structure (pre ++ html_escape v' ++ post).
Proof. exact structure_same_for_all_values. Qed.
Print Assumptions C02_structure_same_for_all_values.

(** any number of sites: static parts with an escaped value between each two, every site in a safe context *)
Theorem C02_many_values : forall parts vals st,
  all_safe st parts -> List.length vals = pred (List.length parts) ->
  hrun st (weave parts vals) = hrun st (List.concat parts).
Proof. exact weave_structure. Qed.
Print Assumptions C02_many_values.

(** non-vacuity: the sites goht writes (element text, quoted attribute value) are safe contexts, with a hostile value;
    and the contexts the theorem excludes are really unsafe (an unquoted attribute value; the tag name: known finding F38) *)
Example C02_structure_nonvacuous :
  safe_ctx (fst (hrun Data (lit "<p class=""c"">"))) /\ safe_ctx (fst (hrun Data (lit "<a href=""")))  /\
  structure (lit "<a href=""" ++ html_escape (lit """><script>") ++ lit """>x</a>") =
    [HOpen; HName 97; HAttr; HName 104; HName 114; HName 101; HName 102; HTagEnd; HClose; HName 97; HTagEnd] /\
  structure (lit "<a b=" ++ html_escape (lit "x y") ++ lit ">") <> structure (lit "<a b=" ++ html_escape (lit "xy") ++ lit ">") /\
  structure (lit "<li" ++ html_escape (lit "a") ++ lit ">") <> structure (lit "<li" ++ html_escape (lit "b") ++ lit ">").
Proof.
  split; [left; reflexivity|]. split; [right; left; reflexivity|]. split; [vm_compute; reflexivity|].
  split; [exact unquoted_value_not_safe|exact tag_name_not_safe].
Qed.
Print Assumptions C02_structure_nonvacuous.

Example C02_nonvacuous : html_escape (lit "<a href=""x"">&'") = lit "&lt;a href=&#34;x&#34;&gt;&amp;&#39;".
Proof. vm_compute. reflexivity. Qed.
Print Assumptions C02_nonvacuous.
