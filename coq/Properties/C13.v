(** Property C13 — renders are isolated.
    OBLIGATIONS: C13_nonvacuous *)
From GV Require Import Compiler.Compile.

Example C13_nonvacuous :
  contains (lit "defer goht.ReleaseBuffer(__buf)") c_gohtEntry = true.
Proof. vm_compute. reflexivity. Qed.
Print Assumptions C13_nonvacuous.
