(** Property C13 — renders are isolated: no state leaks across renders or goroutines.
    Theorems are about Runtime/Pool.v: the buffer pool protocol of generated templates (GetBuffer at entry, writes
    to the own buffer, one final write of a copy, deferred Reset+Put), with the steps of any number of renders
    interleaved arbitrarily and sync.Pool free to hand out any pooled buffer or a new one.
    "No data race" itself is a statement about the Go memory model and is not expressible in this model: the
    race-detector runs of the check are supporting evidence for that half (see level_note).
    OBLIGATIONS: C13_pool_invariant C13_render_isolated C13_failed_render_writes_nothing C13_nonvacuous *)
From GV Require Import Runtime.Pool Proofs.RuntimeProofs.

(** every pooled buffer is empty, after any history of complete, failed and unfinished renders *)
Theorem C13_pool_invariant : forall steps w, pool_inv w -> pool_inv (pool_run steps w).
Proof. exact pool_inv_run. Qed.
Print Assumptions C13_pool_invariant.

(** what a render writes is what it writes alone: the concatenation of its own writes (markers removed), for every
    interleaving with other renders, every earlier history and every choice of the pool *)
Theorem C13_render_isolated : forall r steps w c ws,
  pool_inv w -> owned_get r (w_owned w) = None ->
  steps_of r steps = PGet r c :: ws ++ [PFinish r true] -> Forall (is_write r) ws ->
  In (r, nuke (writes_of ws)) (w_written (pool_run steps w)).
Proof. exact render_isolated. Qed.
Print Assumptions C13_render_isolated.

(** a render that fails (its finish carries an error) or has not finished hands nothing to its destination, whatever the
    other renders do meanwhile: the only step that writes for [r] is [r]'s own successful finish *)
Theorem C13_failed_render_writes_nothing : forall r steps w,
  (forall x, ~ In (r, x) (w_written w)) -> existsb (finishes_ok r) steps = false ->
  forall x, ~ In (r, x) (w_written (pool_run steps w)).
Proof. exact nothing_without_finish. Qed.
Print Assumptions C13_failed_render_writes_nothing.

Local Open Scope nat_scope.
(** non-vacuity: render 1 interleaved with a failing render 2 and a render 3 that reuses a pooled buffer *)
Example C13_nonvacuous :
  let steps := [PGet 2 None; PWrite 2 (lit "junk"); PGet 1 (Some 0); PFinish 2 false; PWrite 1 (lit "<p>");
                PGet 3 (Some 0); PWrite 3 (lit "three"); PWrite 1 (lit "one</p>"); PFinish 3 true; PFinish 1 true] in
  w_written (pool_run steps world_init) = [(1, lit "<p>one</p>"); (3, lit "three")] /\
  steps_of 1 steps = PGet 1 (Some 0) :: [PWrite 1 (lit "<p>"); PWrite 1 (lit "one</p>")] ++ [PFinish 1 true] /\
  existsb (finishes_ok 2) steps = false.
Proof. repeat split; vm_compute; reflexivity. Qed.
Print Assumptions C13_nonvacuous.
