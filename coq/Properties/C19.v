(** Property C19 — runtime attribute/class/object-reference helpers honour their contract.
    OBLIGATIONS: C19_class_list_deterministic C19_attr_list_deterministic C19_class_list_contract
      C19_attr_list_contract C19_escaped_once C19_class_unsupported_is_error C19_attr_unsupported_is_error
      C19_object_id_contract C19_object_class_contract C19_nonvacuous *)
From GV Require Import Base.GoStr Runtime.Rt Proofs.EscapeProofs Proofs.RtProofs.
From Coq Require Import Sorting.Permutation.

(** equal arguments (up to map iteration order) give byte-equal results *)
Theorem C19_class_list_deterministic : forall args args',
  Forall2 gval_perm args args' -> build_class_list args = build_class_list args'.
Proof. exact class_list_perm. Qed.
Print Assumptions C19_class_list_deterministic.

Theorem C19_attr_list_deterministic : forall args args',
  Forall2 gval_perm args args' -> build_attr_list args = build_attr_list args'.
Proof. exact attr_list_perm. Qed.
Print Assumptions C19_attr_list_deterministic.

(** the class list is exactly the non-blank strings, slice items and true-valued keys *)
Theorem C19_class_list_contract : forall args r,
  build_class_list args = Some r ->
  exists items, html_unescape5 r = join (lit " ") items /\
    r = html_escape (join (lit " ") items) /\
    forall c, In c items <-> exists v, In v args /\ contributes_class v c.
Proof. exact class_list_contract. Qed.
Print Assumptions C19_class_list_contract.

(** string maps render name="value" for non-empty values, bool maps bare names for true values *)
Theorem C19_attr_list_contract : forall args r,
  build_attr_list args = Some r ->
  exists entries, r = join (lit " ") (sort_bytes entries) /\
    forall e, In e (sort_bytes entries) <-> exists v, In v args /\ contributes_attr v e.
Proof. exact attr_list_contract. Qed.
Print Assumptions C19_attr_list_contract.

(** every contributed string is escaped exactly once: decoding gives it back, and no
    metacharacter survives *)
Theorem C19_escaped_once : forall v,
  html_unescape5 (html_escape v) = v /\ forall b, In b (html_escape v) -> ~ meta b.
Proof. intro v. split; [apply unescape_escape|apply escape_chars]. Qed.
Print Assumptions C19_escaped_once.

Theorem C19_class_unsupported_is_error : forall args,
  build_class_list args = None <-> exists v, In v args /\ class_supported v = false.
Proof. exact class_unsupported_is_error. Qed.
Print Assumptions C19_class_unsupported_is_error.

Theorem C19_attr_unsupported_is_error : forall args,
  build_attr_list args = None <-> exists v, In v args /\ attr_supported v = false.
Proof. exact attr_unsupported_is_error. Qed.
Print Assumptions C19_attr_unsupported_is_error.

Theorem C19_object_id_contract : forall o prefix,
  (obj_id o = None -> object_id o prefix = []) /\
  (forall i, obj_id o = Some i ->
     html_unescape5 (object_id o prefix) =
     join (lit "_") (first_prefix prefix ++ opt_list (obj_class o) ++ [i])).
Proof.
  intros o prefix. split.
  - intro H. unfold object_id. rewrite H. reflexivity.
  - intros i H. apply object_id_decodes. exact H.
Qed.
Print Assumptions C19_object_id_contract.

Theorem C19_object_class_contract : forall o prefix,
  object_class o prefix =
  match obj_class o with None => [] | Some c => join (lit "_") (first_prefix prefix ++ [c]) end.
Proof. exact object_class_contract. Qed.
Print Assumptions C19_object_class_contract.

(** non-vacuity: a concrete argument list with two differently ordered maps *)
Example C19_nonvacuous :
  let m1 := [(lit "a<", true); (lit "b", false); (lit "c", true)] in
  let m2 := [(lit "c", true); (lit "a<", true); (lit "b", false)] in
  Forall2 gval_perm [VStr (lit "x"); VMapB m1] [VStr (lit "x"); VMapB m2] /\
  build_class_list [VStr (lit "x"); VMapB m2] = Some (lit "x a&lt; c").
Proof.
  split; [|vm_compute; reflexivity].
  constructor; [constructor|]. constructor; [|constructor]. constructor.
  eapply perm_trans; [|apply perm_swap]. eapply perm_trans; [apply perm_skip, perm_swap|].
  apply Permutation_refl.
Qed.
Print Assumptions C19_nonvacuous.
