(** Property C04 — literal template content is reproduced exactly and cannot alter generated code.
    The emitter splices static content into Go string literals chunk by chunk (the [chunk_*] definitions of
    Compiler/Emit.v, which the emitter itself uses).  [reads_as p s] says: wherever [p] stands inside a literal,
    the Go reader (the model of strconv.Unquote, which follows the scanner's escape rules and refuses a raw
    quote or newline) consumes exactly [p], yields exactly [s], and carries on with what follows.
    The theorems hold for EVERY byte string in the static position, printable or not, valid UTF-8 or not.
    OBLIGATIONS: C04_quote_unquote C04_quoted_reads_as_itself C04_chunks_compose C04_literal_of_chunks
                 C04_text_plain C04_text_escaped C04_tag C04_id C04_class C04_attr_value C04_attr_name_plain C04_comment
                 C04_nothing_ends_a_literal_early C04_utf8_decode_encode C04_utf8_encode_decode C04_nonvacuous *)
From GV Require Import Compiler.Compile Proofs.Utf8Proofs Proofs.QuoteProofs Proofs.EscapeProofs Proofs.ChunkProofs.
Open Scope N_scope.

(** strconv.Unquote inverts strconv.Quote on every byte string *)
Theorem C04_quote_unquote : forall s, bytes_ok s -> go_unquote (go_quote s) = Some s.
Proof. exact go_unquote_quote. Qed.
Print Assumptions C04_quote_unquote.

Theorem C04_quoted_reads_as_itself : forall s, bytes_ok s -> reads_as (quote_literal s) s.
Proof. exact reads_as_quote. Qed.
Print Assumptions C04_quoted_reads_as_itself.

(** chunks written one after the other read as the concatenation of what they stand for *)
Theorem C04_chunks_compose : forall p1 s1 p2 s2, reads_as p1 s1 -> reads_as p2 s2 -> reads_as (p1 ++ p2) (s1 ++ s2).
Proof. exact reads_as_app. Qed.
Print Assumptions C04_chunks_compose.

(** and the literal that is closed after them is one Go string with exactly that value *)
Theorem C04_literal_of_chunks : forall p s, reads_as p s -> go_unquote ([34] ++ p ++ [34]) = Some s.
Proof. exact reads_as_literal. Qed.
Print Assumptions C04_literal_of_chunks.

(** the static positions *)
Theorem C04_text_plain : forall t, bytes_ok t -> reads_as (chunk_text_plain t) t.
Proof. exact reads_as_quote. Qed.
Print Assumptions C04_text_plain.

Theorem C04_text_escaped : forall t, bytes_ok t ->
  reads_as (chunk_text_escaped t) (html_escape t) /\ html_unescape5 (html_escape t) = t.
Proof. exact chunk_text_escaped_ok. Qed.
Print Assumptions C04_text_escaped.

Theorem C04_tag : forall tag, bytes_ok tag ->
  reads_as (chunk_tag_open tag) (lit "<" ++ tag) /\ reads_as (chunk_tag_close tag) (lit "</" ++ tag ++ lit ">").
Proof. exact chunk_tag_ok. Qed.
Print Assumptions C04_tag.

Theorem C04_id : forall i, bytes_ok i ->
  reads_as (chunk_id i) (lit " id=" ++ [34] ++ html_escape i ++ [34]) /\ html_unescape5 (html_escape i) = i.
Proof. exact chunk_id_ok. Qed.
Print Assumptions C04_id.

Theorem C04_class : forall names, bytes_ok names ->
  reads_as (chunk_class names) (lit " class=" ++ [34] ++ html_escape names ++ [34]) /\ html_unescape5 (html_escape names) = names.
Proof. exact chunk_class_ok. Qed.
Print Assumptions C04_class.

Theorem C04_attr_value : forall v, bytes_ok v ->
  reads_as (chunk_attr_value v) (html_escape v ++ [34]) /\ html_unescape5 (html_escape v) = v.
Proof. exact chunk_attr_value_ok. Qed.
Print Assumptions C04_attr_value.

(** attribute names are spliced in as they are: the claim holds for names of plain characters
    (a backslash or quote in a name is known finding F06) *)
Theorem C04_attr_name_plain : forall name, Forall plain name ->
  reads_as (chunk_attr_name name) (lit " " ++ name) /\ reads_as (chunk_attr_open name) (lit " " ++ name ++ lit "=" ++ [34]).
Proof. exact chunk_attr_name_ok. Qed.
Print Assumptions C04_attr_name_plain.

Theorem C04_comment : forall text, bytes_ok text ->
  reads_as (chunk_comment text) (lit "<!--" ++ html_escape text ++ lit "-->" ++ [10]) /\ html_unescape5 (html_escape text) = text.
Proof. exact chunk_comment_ok. Qed.
Print Assumptions C04_comment.

(** the two things that end a Go interpreted string early are refused by the reader, so a chunk that
    [reads_as] something holds neither where it would count *)
Theorem C04_nothing_ends_a_literal_early : forall fu rest,
  unquote_body fu (34 :: rest) = None /\ unquote_body fu (10 :: rest) = None.
Proof. intros fu rest. split; [apply unquote_rejects_raw_quote|apply unquote_rejects_raw_newline]. Qed.
Print Assumptions C04_nothing_ends_a_literal_early.

(** UTF-8: decoding then encoding gives back the bytes, encoding then decoding gives back the rune *)
Theorem C04_utf8_decode_encode : forall s r n, decode_rune s = Some (r, n) -> ~ (n = 1%nat /\ r = 65533) ->
  encode_rune r = firstn n s /\ valid_rune r = true.
Proof. exact encode_decode. Qed.
Print Assumptions C04_utf8_decode_encode.

Theorem C04_utf8_encode_decode : forall r t, valid_rune r = true ->
  decode_rune (encode_rune r ++ t) = Some (r, List.length (encode_rune r)).
Proof. exact decode_encode. Qed.
Print Assumptions C04_utf8_encode_decode.

Example C04_nonvacuous :
  go_unquote (go_quote (lit "a""b\c" ++ [10; 255; 195; 169])) = Some (lit "a""b\c" ++ [10; 255; 195; 169])
  /\ bytes_ok (lit "a""b\c" ++ [10; 255; 195; 169])
  /\ go_unquote ([34] ++ chunk_tag_open (lit "d""v") ++ chunk_id (lit "x<\y") ++ lit ">" ++ chunk_text_plain (lit "`{#}") ++ chunk_tag_close (lit "d""v") ++ [34])
     = Some (lit "<d""v id=""x&lt;\y"">`{#}</d""v>").
Proof. split; [vm_compute; reflexivity|]. split; [repeat constructor|vm_compute; reflexivity]. Qed.
Print Assumptions C04_nonvacuous.
