(** Property C04 — literal template content is reproduced exactly and cannot alter generated code.
    OBLIGATIONS: C04_nonvacuous *)
From GV Require Import Compiler.Compile.

Example C04_nonvacuous :
  go_unquote (go_quote (lit "a""b\c" ++ [10; 255; 195; 169])) = Some (lit "a""b\c" ++ [10; 255; 195; 169]).
Proof. vm_compute. reflexivity. Qed.
Print Assumptions C04_nonvacuous.
