(** Property C03 — accepted templates compile; type errors surface at Go compile time.
    Whether the generated file type-checks is a statement about the Go type checker and is decided by running it
    (go vet / go build on every generated file and on every ill-typed substitution) in the C03 check.  What is
    proved here are the parts of "no unused or duplicate imports, variables" that are the compiler's own doing:
    temporaries are never reused inside a template, the import list has no duplicates and does not repeat goht's
    own imports, and a fragment in a string position is the argument of goht.EscapeString / CaptureErrors, whose
    parameter types make a wrongly typed fragment a compile error.
    OBLIGATIONS: C03_itoa_injective C03_temporaries_not_reused C03_counter_monotone C03_imports_no_duplicates
                 C03_string_position_is_typed C03_nonvacuous *)
From GV Require Import Compiler.Compile Proofs.EmitProofs Proofs.EmitInv Proofs.VarProofs Proofs.PassThroughProofs Proofs.DynamicProofs.
Open Scope N_scope.

Theorem C03_itoa_injective : forall n m, itoa n = itoa m -> n = m.
Proof. exact itoa_inj. Qed.
Print Assumptions C03_itoa_injective.

(** [goht_ok False n]: the tree [n] holds no template declaration (it is a piece of a template body) *)
Theorem C03_temporaries_not_reused : forall sm n next nc st1,
  goht_ok False n -> w_err (fst st1) = None ->
  let st3 := fst (emit_node sm n next nc (after_var st1)) in
  w_err (fst st3) = None -> var_name_of st3 <> var_name_of st1.
Proof. exact name_not_reused. Qed.
Print Assumptions C03_temporaries_not_reused.

Theorem C03_counter_monotone : forall n0 sm n next nc st,
  goht_ok False n -> (n0 <= w_num (fst st))%nat -> (n0 <= w_num (fst (fst (emit_node sm n next nc st))))%nat.
Proof. exact counter_monotone. Qed.
Print Assumptions C03_counter_monotone.

Theorem C03_imports_no_duplicates : forall user t, imports_wf user -> imports_wf (add_import user t).
Proof. exact add_import_wf. Qed.
Print Assumptions C03_imports_no_duplicates.

(** the string position: the fragment is the argument of goht.EscapeString (func(string) string) or, unescaped,
    of goht.CaptureErrors (func(string) (string, error)); nothing converts it *)
Theorem C03_string_position_is_typed : forall sm t st, quiet st ->
  let v := lit "__var" ++ itoa (N.of_nat (S (w_num (fst st)))) in
  let ind := tabs (wl_indent (snd st)) in
  txt (emit_dynamic sm t st) =
    (txt st ++ ind ++ lit "var " ++ v ++ lit " string" ++ [10] ++ ind ++ lit "if " ++ v ++ lit ", __err = ") ++
    lit "goht.CaptureErrors(" ++
      (if wl_unesc (snd st) then formatted_code t else lit "goht.EscapeString(" ++ formatted_code t ++ lit ")") ++
      lit "); __err != nil { return }" ++ [10] ++
    ind ++ write_string_open ++ v ++ lit "); __err != nil { return }" ++ [10].
Proof.
  intros sm t st Q. cbv zeta. rewrite (dynamic_text_code sm t st Q).
  change (lit ", __err = goht.CaptureErrors(") with (lit ", __err = " ++ lit "goht.CaptureErrors(").
  rewrite <- !app_assoc. reflexivity.
Qed.
Print Assumptions C03_string_position_is_typed.

Example C03_nonvacuous :
  let src := lit "@goht P(s string) {" ++ [10; 9] ++ lit "= s" ++ [10; 9] ++ lit "%p{a ? #{c}}" ++ [10] ++ lit "}" ++ [10] in
  match cli_generate src with
  | Some out => contains (lit "goht.CaptureErrors(goht.EscapeString(s))") out && contains (lit "if c {") out
  | None => false
  end = true
  /\ goht_ok False (Node (KScript tok_root) []) /\ itoa 120 = lit "120".
Proof. split; [vm_compute; reflexivity|]. split; [cbn; auto|reflexivity]. Qed.
Print Assumptions C03_nonvacuous.
