(** Property C03 — accepted templates compile; type errors surface at Go compile time.
    OBLIGATIONS: C03_nonvacuous *)
From GV Require Import Compiler.Compile.

(** the string position of `= expr` is the argument of goht.EscapeString (type string) *)
Example C03_nonvacuous :
  let src := lit "@goht P(s string) {" ++ [10; 9] ++ lit "= s" ++ [10; 9] ++ lit "%p{a ? #{c}}" ++ [10] ++ lit "}" ++ [10] in
  match cli_generate src with
  | Some out => contains (lit "goht.CaptureErrors(goht.EscapeString(s))") out && contains (lit "if c {") out
  | None => false
  end = true.
Proof. vm_compute. reflexivity. Qed.
Print Assumptions C03_nonvacuous.
