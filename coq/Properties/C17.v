(** Property C17 — diagnostics land on the template text; parse errors are never masked.
    OBLIGATIONS: C17_nonvacuous *)
From GV Require Import Compiler.Compile.

Example C17_nonvacuous :
  match compile_parse (lit "package x" ++ [10] ++ lit "@goht T() {" ++ [10] ++ lit "  %p" ++ [10] ++ lit "}" ++ [10]) with
  | ODone _ (Some (PosErr l c _)) => Z.eqb l 3 && Z.eqb c 1
  | _ => false
  end = true.
Proof. vm_compute. reflexivity. Qed.
Print Assumptions C17_nonvacuous.
