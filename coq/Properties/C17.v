(** Property C17 — diagnostics land on the template text; parse errors are never masked.
    OBLIGATIONS: C17_cache_tracks_buffer C17_delivery C17_error_position C17_same_line_range C17_multi_line_range
      C17_never_generated_uri C17_message_relay C17_nonvacuous *)
From GV Require Import Proxy.Proxy Proofs.ProxyProofs.

(** for every interleaving of editor events and gopls messages — a change being two atomic parts between which
    the other connection may deliver — the cache holds the compiler's error of the stored buffer, or nothing *)
Theorem C17_cache_tracks_buffer : forall compile es, diag_coherent compile (fst (run compile ps_init es)).
Proof. intros compile es. apply diag_coherent_run. apply diag_coherent_init. Qed.
Print Assumptions C17_cache_tracks_buffer.

(** what gopls publishes for a generated file reaches the editor under the template's URI, preceded by the
    compiler's own error exactly while the stored buffer fails to compile *)
Theorem C17_delivery : forall compile st gu ds text m,
  diag_coherent compile st -> is_goht_go_uri gu = true -> lookup (to_goht gu) (ps_srcs st) = Some text ->
  lookup (to_goht gu) (ps_smc st) = Some m ->
  snd (fst (step compile st (EGoDiag gu ds))) =
    [Cl (ClDiag (to_goht gu) ((match c_err (compile text) with Some e => [compiler_diag e] | None => [] end) ++ map (translate_diag m) ds))].
Proof. exact go_diag_delivery. Qed.
Print Assumptions C17_delivery.

Theorem C17_error_position : forall l c msg,
  (1 <= l)%Z -> (1 <= c)%Z ->
  d_range (compiler_diag (Some (l, c), msg)) = mkRange (mkPos (l - 1) (c - 1)) (mkPos (l - 1) (c - 1)) /\
  d_goht (compiler_diag (Some (l, c), msg)) = true.
Proof. exact compiler_diag_position. Qed.
Print Assumptions C17_error_position.

Theorem C17_same_line_range : forall m d s,
  t2s_pos m (r_start (d_range d)) = Some s -> p_line (r_start (d_range d)) = p_line (r_end (d_range d)) ->
  d_range (translate_diag m d) =
    mkRange s (mkPos (p_line s) (p_char s + (p_char (r_end (d_range d)) - p_char (r_start (d_range d))))%Z).
Proof. exact translate_diag_same_line. Qed.
Print Assumptions C17_same_line_range.

Theorem C17_multi_line_range : forall m d s e,
  t2s_pos m (r_start (d_range d)) = Some s -> p_line (r_start (d_range d)) <> p_line (r_end (d_range d)) ->
  t2s_pos m (r_end (d_range d)) = Some e -> d_range (translate_diag m d) = mkRange s e.
Proof. exact translate_diag_multi_line. Qed.
Print Assumptions C17_multi_line_range.

(** notifications go out under a template URI (from parseTemplate) or under to_goht of a generated URI:
    neither is a generated-file URI *)
Theorem C17_never_generated_uri : forall u, is_goht_uri u = true -> is_goht_go_uri u = false.
Proof. exact template_uri_not_generated. Qed.
Print Assumptions C17_never_generated_uri.

Theorem C17_message_relay : forall compile st text,
  snd (fst (step compile st (EGoMsg text))) = if has_prefix c_doNotEditMessage text then [] else [Cl (ClMsg text)].
Proof. exact message_relay. Qed.
Print Assumptions C17_message_relay.

(** non-vacuity: invalid buffer, a gopls publication delivered between the two parts of the next change *)
Example C17_nonvacuous :
  let u := lit "file:///w/a.goht" in
  let good := lit "package x" ++ [10] ++ lit "@goht T() {" ++ [10; 9] ++ lit "%p ok" ++ [10] ++ lit "}" ++ [10] in
  let bad := lit "package x" ++ [10] ++ lit "@goht T() {" ++ [10] ++ lit "  %p" ++ [10] ++ lit "}" ++ [10] in
  let es := [EOpen u (lit "goht") 1 bad; EChange1 u 2 good; EGoDiag (lit "file:///w/a.goht.go") []; EChange2 u 2] in
  match rev (snd (run model_compile ps_init es)) with
  | _ :: (outs, _) :: _ => match outs with [Cl (ClDiag _ [])] => true | _ => false end
  | _ => false
  end = true.
Proof. vm_compute. reflexivity. Qed.
Print Assumptions C17_nonvacuous.
