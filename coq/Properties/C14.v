(** Property C14 — output whitespace follows template layout and whitespace-removal markers.
    OBLIGATIONS: C14_nonvacuous *)
From GV Require Import Base.Regex.

Example C14_nonvacuous :
  nuke (lit "<a>" ++ c_NukeAfter ++ [10; 32] ++ lit "x " ++ [10] ++ c_NukeBefore ++ lit "</a>") = lit "<a>x</a>".
Proof. vm_compute. reflexivity. Qed.
Print Assumptions C14_nonvacuous.
