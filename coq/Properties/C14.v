(** Property C14 — output whitespace follows template layout and whitespace-removal markers.
    Theorems are about Base/Regex.v, the model of the regexp pass of Buffer.Bytes() (tied to the real function by
    the L-RUNTIME correspondence of the check), with the marker constants regenerated from runtime.go.
    "inert" text contains no '~' and no byte 0xE2: text in which no marker look-alike can form (the complement is
    exactly known finding F04).
    OBLIGATIONS: C14_inner_marker_eats_following_whitespace C14_marker_eats_preceding_whitespace
      C14_text_is_left_alone C14_text_before_anything_is_left_alone C14_no_marker_in_output_text C14_nonvacuous *)
From GV Require Import Base.Regex Proofs.NukeProofs.

(** `<` (and the trailing side of `>`): the marker and all white space immediately after it are removed *)
Theorem C14_inner_marker_eats_following_whitespace : forall t, nuke (c_NukeAfter ++ t) = nuke (drop_ws t).
Proof. exact nuke_after. Qed.
Print Assumptions C14_inner_marker_eats_following_whitespace.

(** `>` (and the closing side of `<`): the marker and all white space immediately before it are removed *)
Theorem C14_marker_eats_preceding_whitespace : forall ws t, all_ws ws -> nuke (ws ++ c_NukeBefore ++ t) = nuke t.
Proof. exact nuke_before. Qed.
Print Assumptions C14_marker_eats_preceding_whitespace.

(** nothing else is removed: inert text is returned unchanged *)
Theorem C14_text_is_left_alone : forall s, inert s -> nuke s = s.
Proof. exact nuke_inert. Qed.
Print Assumptions C14_text_is_left_alone.

(** ... also in front of arbitrary further content (markers included), up to its last non-blank character *)
Theorem C14_text_before_anything_is_left_alone : forall s t,
  inert s -> s <> [] -> re_space (last s 0) = false -> ~ starts_226 t -> nuke (s ++ t) = s ++ nuke t.
Proof. exact nuke_text. Qed.
Print Assumptions C14_text_before_anything_is_left_alone.

Theorem C14_no_marker_in_output_text : forall s,
  inert s -> contains c_NukeAfter s = false /\ contains c_NukeBefore s = false.
Proof. exact inert_marker_free. Qed.
Print Assumptions C14_no_marker_in_output_text.

Example C14_nonvacuous :
  nuke (lit "<a>" ++ c_NukeAfter ++ [10; 32] ++ lit "x " ++ [10] ++ c_NukeBefore ++ lit "</a>") = lit "<a>x</a>" /\
  inert (lit "<a>x</a>") /\ all_ws [32; 10; 9].
Proof.
  split; [vm_compute; reflexivity|]. split.
  - split; cbn; intuition discriminate.
  - repeat constructor.
Qed.
Print Assumptions C14_nonvacuous.
