(** Property C14 — output whitespace follows template layout and whitespace-removal markers.
    Theorems are about Base/Regex.v, the model of the regexp pass of Buffer.Bytes() (tied to the real function by
    the L-RUNTIME correspondence of the check), with the marker constants regenerated from runtime.go.
    "inert" text contains no '~' and no byte 0xE2: text in which no marker look-alike can form (the complement is
    exactly known finding F04).
    The five theorems named *document* / *placement* / *removed* below are about WHOLE documents with the two sentinels in any number and any placement (Proofs/NukeDocProofs.v):
    a document is a list of pieces (text run | after-sentinel | before-sentinel), [spec] trims a text run on the left iff an
    after-sentinel stands immediately in front of it and on the right iff a before-sentinel stands immediately behind it and
    drops the sentinels; Buffer.Bytes() computes exactly [spec].  The test [doc_ok] (text runs maximal and inert) is extracted
    and evaluated by the check on random documents, whose [raw] bytes go through the real Buffer.Bytes (L-DOC).
    OBLIGATIONS: C14_inner_marker_eats_following_whitespace C14_marker_eats_preceding_whitespace
      C14_text_is_left_alone C14_text_before_anything_is_left_alone C14_no_marker_in_output_text C14_nonvacuous
      C14_whole_document C14_no_marker_survives_any_placement C14_only_whitespace_is_removed C14_document_test_is_sound
      C14_document_nonvacuous C14_pass_is_idempotent *)
From GV Require Import Base.Regex Proofs.NukeProofs Proofs.NukeDocProofs.

(** `<` (and the trailing side of `>`): the marker and all white space immediately after it are removed *)
Theorem C14_inner_marker_eats_following_whitespace : forall t, nuke (c_NukeAfter ++ t) = nuke (drop_ws t).
Proof. exact nuke_after. Qed.
Print Assumptions C14_inner_marker_eats_following_whitespace.

(** `>` (and the closing side of `<`): the marker and all white space immediately before it are removed *)
Theorem C14_marker_eats_preceding_whitespace : forall ws t, all_ws ws -> nuke (ws ++ c_NukeBefore ++ t) = nuke t.
Proof. exact nuke_before. Qed.
Print Assumptions C14_marker_eats_preceding_whitespace.

(** nothing else is removed: inert text is returned unchanged *)
Theorem C14_text_is_left_alone : forall s, inert s -> nuke s = s.
Proof. exact nuke_inert. Qed.
Print Assumptions C14_text_is_left_alone.

(** ... also in front of arbitrary further content (markers included), up to its last non-blank character *)
Theorem C14_text_before_anything_is_left_alone : forall s t,
  inert s -> s <> [] -> re_space (last s 0) = false -> ~ starts_226 t -> nuke (s ++ t) = s ++ nuke t.
Proof. exact nuke_text. Qed.
Print Assumptions C14_text_before_anything_is_left_alone.

Theorem C14_no_marker_in_output_text : forall s,
  inert s -> contains c_NukeAfter s = false /\ contains c_NukeBefore s = false.
Proof. exact inert_marker_free. Qed.
Print Assumptions C14_no_marker_in_output_text.

(** every placement: what Buffer.Bytes() returns for a document of text runs and sentinels is [spec] of it *)
Theorem C14_whole_document : forall d, normal d -> texts_inert d -> nuke (raw d) = spec false d.
Proof. exact nuke_document. Qed.
Print Assumptions C14_whole_document.

(** ... it holds no sentinel, wherever and however many were planted *)
Theorem C14_no_marker_survives_any_placement : forall d, normal d -> texts_inert d ->
  contains c_NukeAfter (nuke (raw d)) = false /\ contains c_NukeBefore (nuke (raw d)) = false.
Proof. exact nuke_document_marker_free. Qed.
Print Assumptions C14_no_marker_survives_any_placement.

(** ... and it is the document's text minus white space only: every non-blank byte is kept, in order *)
Theorem C14_only_whitespace_is_removed : forall d, normal d -> texts_inert d ->
  non_ws (nuke (raw d)) = non_ws (texts d).
Proof. intros d Hn Hi. rewrite (nuke_document d Hn Hi). apply spec_keeps_all_text. Qed.
Print Assumptions C14_only_whitespace_is_removed.

(** the executable test of the hypotheses is sound, so all three hold for every document that passes it *)
Theorem C14_document_test_is_sound : forall d, doc_ok d = true ->
  nuke (raw d) = spec false d /\ 
  contains c_NukeAfter (nuke (raw d)) = false /\ contains c_NukeBefore (nuke (raw d)) = false /\ 
  non_ws (nuke (raw d)) = non_ws (texts d).
Proof. exact nuke_document_checked. Qed.
Print Assumptions C14_document_test_is_sound.

(** what Render writes is a fixed point of the eraser: a second pass (a rendered document embedded in another render)
    removes nothing more *)
Theorem C14_pass_is_idempotent : forall d, normal d -> texts_inert d -> nuke (nuke (raw d)) = nuke (raw d).
Proof. exact nuke_document_idempotent. Qed.
Print Assumptions C14_pass_is_idempotent.

(** non-vacuity: two adjacent marked siblings (`%a<` then `%b>`), a nested block and trailing text *)
Example C14_document_nonvacuous :
  let d := [PText (lit "<a>"); PAfter; PText ([10; 32] ++ lit "x y " ++ [10]); PBefore; PText (lit "</a>" ++ [10]);
            PBefore; PText (lit "<b>z</b>"); PAfter; PText ([10] ++ lit "<i> t </i>" ++ [10])] in
  (doc_ok d = true) /\ (spec false d = lit "<a>x y</a><b>z</b><i> t </i>" ++ [10]) /\ (nuke (raw d) = spec false d).
Proof. vm_compute. repeat split; reflexivity. Qed.
Print Assumptions C14_document_nonvacuous.

Example C14_nonvacuous :
  nuke (lit "<a>" ++ c_NukeAfter ++ [10; 32] ++ lit "x " ++ [10] ++ c_NukeBefore ++ lit "</a>") = lit "<a>x</a>" /\
  inert (lit "<a>x</a>") /\ all_ws [32; 10; 9].
Proof.
  split; [vm_compute; reflexivity|]. split.
  - split; cbn; intuition discriminate.
  - repeat constructor.
Qed.
Print Assumptions C14_nonvacuous.
