(** Property C12 — Render is all-or-nothing and reports every failure.
    The theorems are about Runtime/Render.v, the protocol generated templates follow (buffer, error check after
    every fallible statement, nested renders into the same buffer, one final Write to a foreign destination);
    they hold for every program, every set of failing sites, and every destination behaviour (accepts, fails
    without taking anything, takes part and reports a short write).  The model is run against the real compiler
    and runtime on generated programs by the C12 check (same status, same bytes accepted call by call).
    [SFuel] is the model's recursion bound, not a behaviour of the code: the statements exclude it.
    OBLIGATIONS: C12_failure_inside_writes_nothing C12_success_delivers_document C12_writer_failure_reported
                 C12_writer_failure_not_swallowed C12_all_or_nothing C12_no_failure_succeeds C12_success_means_no_failure
                 C12_nonvacuous *)
From GV Require Import Compiler.Compile Runtime.Render Proofs.RenderProofs.
Open Scope N_scope.

Theorem C12_failure_inside_writes_nothing : forall templates fails fuel i m acc s,
  render_top templates fails fuel i m = (acc, SSite s) -> acc = [] /\ fails s = true.
Proof. exact failure_inside_writes_nothing. Qed.
Print Assumptions C12_failure_inside_writes_nothing.

Theorem C12_success_delivers_document : forall templates fails fuel i m acc,
  render_top templates fails fuel i m = (acc, SOk) -> acc = [document templates fuel i].
Proof. exact success_delivers_document. Qed.
Print Assumptions C12_success_delivers_document.

Theorem C12_writer_failure_reported : forall templates fails fuel i m acc,
  render_top templates fails fuel i m = (acc, SWriter) -> m <> WOk /\ acc = [fst (dest_write m (document templates fuel i))].
Proof. exact writer_failure_reported. Qed.
Print Assumptions C12_writer_failure_reported.

Theorem C12_writer_failure_not_swallowed : forall templates fails fuel i m acc st,
  render_top templates fails fuel i m = (acc, st) -> m <> WOk -> st <> SOk.
Proof. exact writer_failure_not_swallowed. Qed.
Print Assumptions C12_writer_failure_not_swallowed.

Theorem C12_all_or_nothing : forall templates fails fuel i m acc st,
  render_top templates fails fuel i m = (acc, st) -> st <> SOk -> m <> WShort -> List.concat acc = [].
Proof. exact all_or_nothing. Qed.
Print Assumptions C12_all_or_nothing.

Theorem C12_no_failure_succeeds : forall templates fuel i acc st,
  render_top templates (fun _ => false) fuel i WOk = (acc, st) -> st = SOk \/ st = SFuel.
Proof. exact no_failure_succeeds. Qed.
Print Assumptions C12_no_failure_succeeds.

(** no failure is swallowed: a body that ran to its end met no failing site (it wrote what it writes when nothing fails) *)
Theorem C12_success_means_no_failure : forall templates fails fuel stmts ch buf buf',
  frun templates fails fuel stmts ch buf = (buf', None) -> frun templates (fun _ => false) fuel stmts ch buf = (buf', None).
Proof. exact run_success_no_failure. Qed.
Print Assumptions C12_success_means_no_failure.

(** a layout with children, a page that fails inside the children block it passes, and the three destinations;
    and the generated code does follow the protocol *)
Example C12_nonvacuous :
  let layout := [FLit (lit "<main>"); FChildren; FLit (lit "</main>")] in
  let page := [FLit (lit "a"); FRender 0 (Some [FLit (lit "b"); FDyn 2 (lit "v"); FLit (lit "c")]); FLit (lit "d")] in
  let ts := [layout; page] in
  let src := lit "@goht P(s string) {" ++ [10; 9] ++ lit "%p= s" ++ [10] ++ lit "}" ++ [10] in
  render_top ts (fun _ => false) 50 1 WOk = ([lit "a<main>bvc</main>d"], SOk) /\
  render_top ts (fun s => Nat.eqb s 2) 50 1 WOk = ([], SSite 2) /\
  render_top ts (fun _ => false) 50 1 WFail = ([[]], SWriter) /\
  render_top ts (fun _ => false) 50 1 WShort = ([lit "a<main>bv"], SWriter) /\
  match cli_generate src with
  | Some out => contains (lit "CaptureErrors(goht.EscapeString(s)); __err != nil { return }") out &&
                contains (lit "_, __err = __w.Write(__buf.Bytes())") out
  | None => false
  end = true.
Proof. vm_compute. repeat split; reflexivity. Qed.
Print Assumptions C12_nonvacuous.
