(** Property C12 — Render is all-or-nothing and reports every failure.
    OBLIGATIONS: C12_nonvacuous *)
From GV Require Import Compiler.Compile.

(** every statement that can fail is followed by the error check before anything else is written *)
Example C12_nonvacuous :
  let src := lit "@goht P(s string) {" ++ [10; 9] ++ lit "%p= s" ++ [10] ++ lit "}" ++ [10] in
  match cli_generate src with
  | Some out => contains (lit "CaptureErrors(goht.EscapeString(s)); __err != nil { return }") out &&
                contains (lit "_, __err = __w.Write(__buf.Bytes())") out
  | None => false
  end = true.
Proof. vm_compute. reflexivity. Qed.
Print Assumptions C12_nonvacuous.
