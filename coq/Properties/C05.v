(** Property C05 — @render/@children: nested content goes exactly where the callee places it.
    Theorems are about Runtime/Children.v: the slot protocol of runtime.go (PopChildren at template entry,
    PushChildren before a call with a block, the block closing over the caller's own children) against a
    specification without any slot, in which children are lexically scoped values.  They hold for every set of
    templates (any call graph, recursion included) and every nesting depth (fuel).
    OBLIGATIONS: C05_children_lexical C05_template_lexical C05_slot_empty_afterwards C05_childless_call_sees_none
      C05_generated_code_follows_protocol C05_nonvacuous *)
From GV Require Import Runtime.Children Proofs.RuntimeProofs.
From GV Require Compiler.Emit Proofs.SegProofs.

Theorem C05_children_lexical : forall templates fuel stmts children,
  exec_stmts templates fuel stmts children None = (denote_stmts templates fuel stmts children, None).
Proof. exact children_lexical. Qed.
Print Assumptions C05_children_lexical.

Theorem C05_template_lexical : forall templates fuel i,
  exec_template templates fuel i = denote_template templates fuel i.
Proof. exact template_lexical. Qed.
Print Assumptions C05_template_lexical.

Theorem C05_slot_empty_afterwards : forall templates fuel stmts children,
  snd (exec_stmts templates fuel stmts children None) = None.
Proof. exact slot_empty_after. Qed.
Print Assumptions C05_slot_empty_afterwards.

(** a call without nested content gives the callee empty children even when the caller has children *)
Theorem C05_childless_call_sees_none : forall templates fuel callee rest children,
  denote_stmts templates (S fuel) (SRender callee None :: rest) children =
  denote_stmts templates fuel (body_of templates callee) None ++ denote_stmts templates fuel rest children.
Proof. exact childless_call_sees_none. Qed.
Print Assumptions C05_childless_call_sees_none.

(** non-vacuity: a layout using its children twice, a page whose block forwards the page's own children and calls
    a child-less template that itself contains @children *)
(** that generated code does follow the protocol the model assumes: for every tree of the fragment of
    Proofs/SegProofs.v, `= @children` is emitted as  __children.Render(ctx, __buf),  `= @render X` without nested
    content as  X.Render(ctx, __buf),  and with nested content as a goht.TemplateFunc holding the code of that
    content, handed over by  X.Render(goht.PushChildren(ctx, v), __buf)  (constructors [d_children], [d_render],
    [d_render_block] of [SegProofs.denotes]); from either writer mode, at any nesting depth *)
Theorem C05_generated_code_follows_protocol : forall n, SegProofs.node_run_at n.
Proof. exact SegProofs.dyn_node_runs. Qed.
Print Assumptions C05_generated_code_follows_protocol.

Example C05_nonvacuous :
  let layout := [SLit (lit "<l>"); SChildren; SLit (lit "|"); SChildren; SLit (lit "</l>")] in
  let inner := [SLit (lit "(i"); SChildren; SLit (lit ")")] in
  let page := [SRender 0 (Some [SLit (lit "a"); SChildren; SRender 1 None])] in
  let main := [SRender 2 (Some [SLit (lit "MAIN")])] in
  exec_template [layout; inner; page; main] 20 3 = lit "<l>aMAIN(i)|aMAIN(i)</l>".
Proof. vm_compute. reflexivity. Qed.
Print Assumptions C05_nonvacuous.
