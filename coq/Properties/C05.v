(** Property C05 — @render/@children placement.
    OBLIGATIONS: C05_nonvacuous *)
From GV Require Import Compiler.Compile.

Example C05_nonvacuous :
  let src := lit "@goht P() {" ++ [10; 9] ++ lit "= @render L()" ++ [10; 9; 9] ++ lit "%p in" ++ [10] ++ lit "}" ++ [10] in
  match cli_generate src with
  | Some out => contains (lit "goht.PushChildren(ctx, __var1)") out
  | None => false
  end = true.
Proof. vm_compute. reflexivity. Qed.
Print Assumptions C05_nonvacuous.
