(** Property C16 — position map is in-bounds and its two directions are mutually inverse.
    Theorems are about Compiler/SrcMap.v (SourceMap.Add, the two lookups; a Go map is the list of its insertions,
    the last insertion for a key wins).  The uniqueness hypothesis is decidable ([keys_unique]) and is evaluated by
    the C16 check on the entries the (byte-exact) compiler model produces for every accepted file.  Bounds: the
    GENERATED side is proved for every tree (Proofs/BoundsProofs.v: every recorded target, and every position inside the
    recorded fragment, is the end of a prefix of the generated text, hence on an existing line and within it); the
    TEMPLATE side (lexer columns) is checked on the real tables entry by entry — partial.
    OBLIGATIONS: C16_round_trip_from_template C16_round_trip_from_generated C16_uniqueness_is_decidable
      C16_fragment_is_a_shift C16_strictly_increasing_within_fragment C16_nonvacuous
      C16_generated_positions_exist C16_position_in_text_is_in_bounds C16_target_entries_in_bounds
      C16_line_is_split_line *)
From GV Require Import Compiler.Compile Proofs.EmitProofs Proofs.TargetProofs Proofs.SrcMapProofs Proofs.BoundsProofs.

Theorem C16_round_trip_from_template : forall es l c tl tc,
  keys_unique es = true -> s2t es l c = Some (tl, tc) -> t2s es tl tc = Some (l, c).
Proof. intros es l c tl tc H. destruct (keys_unique_sound es H). apply round_trip_source; assumption. Qed.
Print Assumptions C16_round_trip_from_template.

Theorem C16_round_trip_from_generated : forall es l c sl sc,
  keys_unique es = true -> t2s es l c = Some (sl, sc) -> s2t es sl sc = Some (l, c).
Proof. intros es l c sl sc H. destruct (keys_unique_sound es H). apply round_trip_target; assumption. Qed.
Print Assumptions C16_round_trip_from_generated.

Theorem C16_uniqueness_is_decidable : forall es,
  keys_unique es = true -> NoDup (map src_key es) /\ NoDup (map tgt_key es).
Proof. exact keys_unique_sound. Qed.
Print Assumptions C16_uniqueness_is_decidable.

(** every entry of one Add lies on the fragment's line in both texts, shifted by a constant column offset *)
Theorem C16_fragment_is_a_shift : forall a e,
  In e (add_entries a) ->
  exists idx, (se_sl e = sa_line a + Z.of_nat idx - 1)%Z /\ (se_tl e = sa_tline a + Z.of_nat idx - 1)%Z /\
              (se_tc e = se_sc e + line_shift a idx)%Z.
Proof. exact add_is_shift_per_line. Qed.
Print Assumptions C16_fragment_is_a_shift.

Theorem C16_strictly_increasing_within_fragment : forall a e1 e2,
  In e1 (add_entries a) -> In e2 (add_entries a) -> se_sl e1 = se_sl e2 ->
  (se_tl e1 = se_tl e2 /\ se_tc e2 - se_tc e1 = se_sc e2 - se_sc e1)%Z.
Proof. exact add_monotone. Qed.
Print Assumptions C16_strictly_increasing_within_fragment.

(** in bounds, generated side — for every tree, with or without source map: the target position recorded for a fragment,
    and every position reached by walking k characters into it (also across line breaks), is a position of the generated
    text: the end of one of its prefixes ... *)
Theorem C16_generated_positions_exist : forall sm root a k,
  let w := emit_tree sm root in
  In a (w_adds w) -> (k <= List.length (sa_text a))%nat ->
  in_text (output_of w) (pos_after (sa_tline a, sa_tcol a) (firstn k (sa_text a))).
Proof. exact targets_in_text. Qed.
Print Assumptions C16_generated_positions_exist.

(** ... and such a position has an existing line and a column within that line or at its end *)
Theorem C16_position_in_text_is_in_bounds : forall out l c, in_text out (l, c) ->
  exists n k : nat, l = (1 + Z.of_nat n)%Z /\ c = (1 + Z.of_nat k)%Z /\
    (n <= count_byte 10 out)%nat /\ (k <= List.length (line_at n out))%nat.
Proof. exact in_text_bounds. Qed.
Print Assumptions C16_position_in_text_is_in_bounds.

(** in the 0-based coordinates of the table, for a fragment on one line: entry k of the fragment *)
Theorem C16_target_entries_in_bounds : forall sm root a k,
  let w := emit_tree sm root in
  In a (w_adds w) -> count_byte 10 (sa_text a) = 0%nat -> (k <= List.length (sa_text a))%nat ->
  exists n c : nat, (sa_tline a - 1 = Z.of_nat n)%Z /\ (sa_tcol a - 1 + Z.of_nat k = Z.of_nat c)%Z /\
    (n <= count_byte 10 (output_of w))%nat /\ (c <= List.length (line_at n (output_of w)))%nat.
Proof. exact target_entries_in_bounds. Qed.
Print Assumptions C16_target_entries_in_bounds.

(** the line meant above is the one strings.Split yields, the splitting SourceMap.Add itself uses *)
Theorem C16_line_is_split_line : forall n s, line_at n s = nth n (split_byte 10 s) [].
Proof. exact line_at_is_split_line. Qed.
Print Assumptions C16_line_is_split_line.

(** non-vacuity: the entries the compiler model produces for a file with a multi-line fragment and a format verb
    satisfy the uniqueness hypothesis *)
Example C16_nonvacuous :
  let src := lit "package x" ++ [10] ++ lit "@goht T(a string," ++ [10; 9] ++ lit "n int) {" ++ [10; 9] ++
             lit "%p{t: #{a}} x #{%d n} #{a}" ++ [10] ++ lit "}" ++ [10] in
  match lsp_compose src with
  | Some (_, adds, None) => keys_unique (sm_entries adds) && Nat.ltb 25 (List.length (sm_entries adds))
  | _ => false
  end = true.
Proof. vm_compute. reflexivity. Qed.
Print Assumptions C16_nonvacuous.
