(** Property C15 — compilation is deterministic; CLI and LSP emit the same code.
    Determinism is by construction in the model: [cli_generate] and [lsp_compose] are functions of the input
    bytes and of nothing else (the correspondence check is what shows the implementation to be that function:
    repeated, permuted and concurrent compilations are compared with it).  The theorems below are the two
    claims that are not by construction: the code is the same with and without a source map, for every tree
    and therefore for every input, and the code of a top-level item does not depend on its siblings.
    OBLIGATIONS: C15_sm_independent C15_generate_is_compose C15_cli_lsp_same_code C15_step_independent_of_position
                 C15_file_is_concatenation C15_sibling_independent C15_accepted_file_is_concatenation C15_nonvacuous *)
From GV Require Import Compiler.Compile Proofs.EmitProofs Proofs.ParserShapeProofs.
Open Scope N_scope.

(** with and without a source map the emitter writes the same chunks and ends with the same error *)
Theorem C15_sm_independent : forall root,
  w_out (emit_tree true root) = w_out (emit_tree false root) /\ w_err (emit_tree true root) = w_err (emit_tree false root).
Proof. exact emit_tree_sm_independent. Qed.
Print Assumptions C15_sm_independent.

Theorem C15_generate_is_compose : forall root, generate root = (fst (fst (compose root)), snd (compose root)).
Proof. exact generate_is_compose. Qed.
Print Assumptions C15_generate_is_compose.

(** whatever `goht generate` writes for some bytes is the text the language server works with for those bytes *)
Theorem C15_cli_lsp_same_code : forall input out,
  cli_generate input = Some out -> exists adds, lsp_compose input = Some (out, adds, None).
Proof.
  intros input out H. unfold cli_generate, lsp_compose in *.
  destruct (compile_parse input) as [t e| | |]; try discriminate. destruct e; [discriminate|].
  rewrite (generate_is_compose t) in H. destruct (compose t) as [[o a] e]. cbn [fst snd] in H.
  destruct e; [discriminate|]. injection H as ->. exists a. reflexivity.
Qed.
Print Assumptions C15_cli_lsp_same_code.

(** the general fact behind both: any node, emitted from two writer states that agree on the variable counter,
    the error and the local flags, writes the same chunks, wherever in the file the two writers are, whatever
    they wrote before, and whether or not they record positions *)
Theorem C15_step_independent_of_position : forall b b' sm sm' n next nc s s',
  Rn b b' true s s' -> R2 b b' (emit_node sm n next nc s) (emit_node sm' n next nc s').
Proof. intros b b' sm sm' n. exact (emit_node_sim b b' sm sm' n). Qed.
Print Assumptions C15_step_independent_of_position.

(** the file is its header followed by the items' own code: editing one item leaves the code of the others alone *)
Theorem C15_file_is_concatenation : forall pkg user items,
  Forall item items -> Forall (fun n => item_err n = None) items ->
  generate (Node (KRoot pkg user) items) = (header_text pkg user ++ List.concat (map item_text items), None).
Proof. exact file_is_concatenation. Qed.
Print Assumptions C15_file_is_concatenation.

Theorem C15_sibling_independent : forall pkg user pre post pkg' user' pre' post' t,
  Forall item (pre ++ t :: post) -> Forall (fun n => item_err n = None) (pre ++ t :: post) ->
  Forall item (pre' ++ t :: post') -> Forall (fun n => item_err n = None) (pre' ++ t :: post') ->
  fst (generate (Node (KRoot pkg user) (pre ++ t :: post))) =
    (header_text pkg user ++ List.concat (map item_text pre)) ++ item_text t ++ List.concat (map item_text post) /\
  fst (generate (Node (KRoot pkg' user') (pre' ++ t :: post'))) =
    (header_text pkg' user' ++ List.concat (map item_text pre')) ++ item_text t ++ List.concat (map item_text post').
Proof. exact sibling_independent. Qed.
Print Assumptions C15_sibling_independent.

(** the two hypotheses above hold for every input the generator accepts: its output is the header followed by each
    top-level item's own code *)
Theorem C15_accepted_file_is_concatenation : forall input out,
  cli_generate input = Some out ->
  exists pkg user items,
    compile_parse input = ODone (Node (KRoot pkg user) items) None /\
    Forall item items /\ Forall (fun n => item_err n = None) items /\
    out = header_text pkg user ++ List.concat (map item_text items).
Proof.
  intros input out H. destruct (accepted_file_is_header_and_items input out H) as (pkg & user & items & H1 & _ & H3 & H4 & H5).
  exists pkg, user, items. auto.
Qed.
Print Assumptions C15_accepted_file_is_concatenation.

(** the hypotheses are met by what the parser produces for a file with Go code and two templates *)
Definition itemb (n : node) : bool := match n with Node (KCode _) _ | Node (KGoht _) _ => true | _ => false end.
Definition item_okb (n : node) : bool := match item_err n with None => true | Some _ => false end.

Example C15_nonvacuous :
  let src := lit "package p" ++ [10] ++ lit "var x = 1" ++ [10] ++
             lit "@goht T(a string) {" ++ [10; 9] ++ lit "%p.c{x: #{a}} t #{a}" ++ [10] ++ lit "}" ++ [10] ++
             lit "@goht U() {" ++ [10; 9] ++ lit "- if x > 0" ++ [10; 9; 9] ++ lit "= @render T(""q"")" ++ [10] ++ lit "}" ++ [10] in
  match compile_parse src with
  | ODone (Node (KRoot _ _) items) None =>
      forallb itemb items && forallb item_okb items && Nat.leb 3 (List.length items)
      && beqb (fst (generate (Node (KRoot tok_root []) items))) (fst (fst (compose (Node (KRoot tok_root []) items))))
  | _ => false
  end = true.
Proof. vm_compute. reflexivity. Qed.
Print Assumptions C15_nonvacuous.
