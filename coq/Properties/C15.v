(** Property C15 — compilation is deterministic; CLI and LSP emit the same code.
    OBLIGATIONS: C15_nonvacuous *)
From GV Require Import Compiler.Compile.

Example C15_nonvacuous :
  let src := lit "@goht T(a string) {" ++ [10; 9] ++ lit "%p.c{x: #{a}} t #{a}" ++ [10] ++ lit "}" ++ [10] in
  match compile_parse src with
  | ODone t None => beqb (fst (generate t)) (fst (fst (compose t)))
  | _ => false
  end = true.
Proof. vm_compute. reflexivity. Qed.
Print Assumptions C15_nonvacuous.
