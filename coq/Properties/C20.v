(** Property C20 — auto-import completions add exactly the import to the template file.
    The theorems are about Proxy/AddImport.v, the model of getPackageFromItemDetail / addImport
    (tied to the Go functions by the L-ADDIMPORT correspondence of the C20 check); [imports_of] is the
    line-level reading of a file head that the compiler's outer lexer implements (tied to the real lexer by
    the apply-and-recompile oracle of the same check).
    OBLIGATIONS: C20_group C20_single_lines C20_no_imports C20_exactly_one_more C20_detail_parse C20_nonvacuous *)
From GV Require Import Proxy.AddImport Proofs.AddImportProofs.
From Coq Require Import Sorting.Permutation.

(** file has an import group: the edit inserts one item in front of the closing parenthesis; every other
    import, before and after, is read exactly as before *)
Theorem C20_group : forall lines q i,
  quoted q -> scan lines 0 false None = FoundGroupEnd i ->
  proxy_add_import lines q = (i, [9] ++ q ++ [10]) /\
  imports_of (apply_insert lines i ([9] ++ q ++ [10])) =
    imports_of (firstn i lines) ++ [q] ++ imports_of (skipn (S i) lines) /\
  imports_of lines = imports_of (firstn i lines) ++ imports_of (skipn (S i) lines).
Proof. exact add_import_group. Qed.
Print Assumptions C20_group.

(** file has single-line imports only: the new import follows the last one *)
Theorem C20_single_lines : forall lines q k,
  quoted q -> no_group lines -> scan lines 0 false None = ScanEnd (Some k) ->
  proxy_add_import lines q = (S k, lit "import " ++ q ++ [10]) /\
  (k < List.length lines)%nat /\
  imports_of (apply_insert lines (S k) (lit "import " ++ q ++ [10])) =
    imports_of (firstn (S k) lines) ++ [q] ++ imports_of (skipn (S k) lines) /\
  imports_of lines = imports_of (firstn (S k) lines) ++ imports_of (skipn (S k) lines).
Proof. exact add_import_single. Qed.
Print Assumptions C20_single_lines.

(** file has no imports: the import and a blank line go below the package clause and its blank line *)
Theorem C20_no_imports : forall lines q,
  quoted q -> no_group (firstn 2 lines) -> scan lines 0 false None = ScanEnd None ->
  proxy_add_import lines q = (2%nat, lit "import " ++ q ++ [10] ++ [10]) /\
  imports_of (apply_insert lines 2 (lit "import " ++ q ++ [10] ++ [10])) =
    imports_of (firstn 2 lines) ++ [q] ++ imports_of (skipn 2 lines) /\
  imports_of lines = imports_of (firstn 2 lines) ++ imports_of (skipn 2 lines).
Proof. exact add_import_none. Qed.
Print Assumptions C20_no_imports.

(** hence, in each case, the edited file declares exactly the previous imports plus the new package *)
Theorem C20_exactly_one_more : forall (before_ after_ : list bytes) (q : bytes) (new old : list bytes),
  new = before_ ++ [q] ++ after_ -> old = before_ ++ after_ -> Permutation new (q :: old).
Proof. intros b a q new old -> ->. apply Permutation_sym, Permutation_middle. Qed.
Print Assumptions C20_exactly_one_more.

(** the package is taken from a completion detail of the form  ... (from "path") *)
Theorem C20_detail_parse : forall p, p <> [] -> ~ In 10 p ->
  tail_matches (40 :: 102 :: 114 :: 111 :: 109 :: 32 :: 34 :: p ++ [34; 41]) = Some (34 :: p ++ [34]).
Proof. exact tail_matches_exact. Qed.
Print Assumptions C20_detail_parse.

(** non-vacuity: comments before the package clause, an import group, a template whose body has a line
    that looks like an import; and a detail string as gopls sends it *)
Example C20_nonvacuous :
  let lines := [lit "// c1"; lit "// c2"; lit "package x"; []; lit "import ("; [9] ++ lit """fmt"""; lit ")"; [];
                lit "@goht T() {"; [9] ++ lit "import ""text"""; lit "}"] in
  let q := lit """math/rand""" in
  quoted q /\ scan lines 0 false None = FoundGroupEnd 6 /\
  imports_of (apply_insert lines 6 ([9] ++ q ++ [10])) = [lit """fmt"""; q] /\
  detail_package (lit "func(n int) int (from ""math/rand"")") = q.
Proof.
  cbv zeta. repeat split; try (vm_compute; reflexivity).
  - eexists. reflexivity.
  - vm_compute. intuition discriminate.
Qed.
Print Assumptions C20_nonvacuous.
