(** Property C20 — auto-import completions add exactly the import to the template file.
    OBLIGATIONS: C20_nonvacuous *)
From GV Require Import Compiler.Compile.

Example C20_nonvacuous :
  match compile_parse (lit "package x" ++ [10] ++ lit "import ""fmt""" ++ [10] ++ lit "import ""os""" ++ [10]) with
  | ODone (Node (KRoot _ imps) _) None => Nat.eqb (List.length imps) 2
  | _ => false
  end = true.
Proof. vm_compute. reflexivity. Qed.
Print Assumptions C20_nonvacuous.
