(** Property C11 — Go code around templates, package clause and imports pass through intact.
    OBLIGATIONS: C11_nonvacuous *)
From GV Require Import Compiler.Compile.

Example C11_nonvacuous :
  let src := lit "package x" ++ [10] ++ lit "import ""fmt""" ++ [10] ++ lit "var a = 1" ++ [10] ++
             lit "@goht T() {" ++ [10; 9] ++ lit "%p" ++ [10] ++ lit "}" ++ [10] in
  match cli_generate src with
  | Some out => contains (lit "var a = 1") out && contains ([9] ++ lit """fmt""") out && contains (lit "func T() goht.Template {") out
  | None => false
  end = true.
Proof. vm_compute. reflexivity. Qed.
Print Assumptions C11_nonvacuous.
