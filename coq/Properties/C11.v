(** Property C11 — Go code around templates, package clause and imports pass through intact.
    Together with C15_file_is_concatenation (the file is the header followed by the items' own code) these say:
    every run of Go code between templates is written out as the concatenation of its tokens' literals, a
    template starts with `func ` followed by exactly the written declaration, and the header is the package
    clause, goht's imports once, and the user's imports in first-occurrence order without duplicates.
    (That the lexer's tokens for a Go line spell that line is part of the byte-exact correspondence, not of a theorem.)
    OBLIGATIONS: C11_go_code_verbatim C11_template_signature C11_header C11_imports_no_duplicates C11_imports_keep_order
                 C11_import_not_lost C11_accepted_file C11_nonvacuous *)
From GV Require Import Compiler.Compile Proofs.EmitProofs Proofs.PassThroughProofs Proofs.ParserShapeProofs.
Open Scope N_scope.

Theorem C11_go_code_verbatim : forall toks ch,
  item_text (Node (KCode toks) ch) = List.concat (map t_lit toks) /\ item_err (Node (KCode toks) ch) = None.
Proof. exact code_item_verbatim. Qed.
Print Assumptions C11_go_code_verbatim.

Theorem C11_template_signature : forall o ch,
  exists rest, item_text (Node (KGoht o) ch) = lit "func " ++ t_lit o ++ c_gohtEntry ++ rest.
Proof. exact goht_item_signature. Qed.
Print Assumptions C11_template_signature.

Theorem C11_header : forall pkg user,
  header_text pkg user =
    c_header ++ lit "package " ++ t_lit pkg ++ [10; 10] ++
    List.concat (map (fun i => lit "import " ++ i ++ [10]) c_rootImports) ++
    match user with
    | [] => []
    | _ => lit "import (" ++ [10] ++ List.concat (map (fun i : token => [9] ++ t_lit i ++ [10]) user) ++ lit ")" ++ [10]
    end.
Proof. exact header_text_is. Qed.
Print Assumptions C11_header.

(** the import list the parser keeps: each `import` line goes through [add_import] *)
Theorem C11_imports_no_duplicates : forall user t, imports_wf user -> imports_wf (add_import user t).
Proof. exact add_import_wf. Qed.
Print Assumptions C11_imports_no_duplicates.

Theorem C11_imports_keep_order : forall user t, exists tail, add_import user t = user ++ tail /\ (tail = [] \/ tail = [t]).
Proof. exact add_import_keeps. Qed.
Print Assumptions C11_imports_keep_order.

Theorem C11_import_not_lost : forall user t,
  mem_bytes (t_lit t) c_rootImports = true \/ In (t_lit t) (map t_lit (add_import user t)).
Proof. exact add_import_present. Qed.
Print Assumptions C11_import_not_lost.

(** end to end, for EVERY input the command-line generator accepts: the root of the tree holds Go-code runs and
    templates only, its import list is free of duplicates and of goht's own imports, and the generated file is
    the header followed by each item's own code, in order *)
Theorem C11_accepted_file : forall input out,
  cli_generate input = Some out ->
  exists pkg user items,
    compile_parse input = ODone (Node (KRoot pkg user) items) None /\
    imports_wf user /\ Forall item items /\ Forall (fun n => item_err n = None) items /\
    out = header_text pkg user ++ List.concat (map item_text items).
Proof. exact accepted_file_is_header_and_items. Qed.
Print Assumptions C11_accepted_file.

(** a real file: its root has well-formed imports although the source repeats one and names one of goht's own;
    the Go lines come out as written *)
Definition lits_nodup (user : list token) : bool :=
  (fix nd (l : list bytes) : bool := match l with [] => true | x :: r => negb (mem_bytes x r) && nd r end) (map t_lit user).

Example C11_nonvacuous :
  let src := lit "package x" ++ [10] ++ lit "import ""fmt""" ++ [10] ++ lit "import ""io""" ++ [10] ++ lit "import ""fmt""" ++ [10] ++
             lit "var a = `p" ++ [10] ++ lit "@goht` // }" ++ [10] ++
             lit "@goht T() {" ++ [10; 9] ++ lit "%p" ++ [10] ++ lit "}" ++ [10] in
  match compile_parse src, cli_generate src with
  | ODone (Node (KRoot pkg user) items) None, Some out =>
      lits_nodup user && forallb (fun i => negb (mem_bytes (t_lit i) c_rootImports)) user && Nat.eqb (List.length user) 1
      && contains (lit "var a = `p" ++ [10] ++ lit "@goht` // }" ++ [10]) out
      && contains (lit "func T() goht.Template {") out
      && beqb out (header_text pkg user ++ List.concat (map item_text items))
  | _, _ => false
  end = true.
Proof. vm_compute. reflexivity. Qed.
Print Assumptions C11_nonvacuous.
