(** Property C10 — malformed templates are rejected with a located error.
    OBLIGATIONS: C10_nonvacuous *)
From GV Require Import Compiler.Compile.

(** the model rejects an unknown filter with a position on the faulty line *)
Example C10_nonvacuous :
  match compile_parse (lit "@goht T() {" ++ [10; 9] ++ lit "%p" ++ [10; 9] ++ lit ":nosuch" ++ [10] ++ lit "}" ++ [10]) with
  | ODone _ (Some (PosErr l c _)) => Z.eqb l 3 && Z.eqb c 3
  | _ => false
  end = true.
Proof. vm_compute. reflexivity. Qed.
Print Assumptions C10_nonvacuous.
