(** Property C10 — malformed templates are rejected with a located error, never mis-compiled.
    Proved: the command-line generator emits nothing unless parsing succeeded without error; the indentation
    rule; and the nesting rules of elements, comments and filters as the parser applies them in every state.
    Located: every token the lexer delivers, for every input -- its error tokens included -- carries a line number
    inside the file (at least 1, at most one more than the file has line breaks), and the parser reports a lexer
    error with exactly the position of that token.  Columns, and that the errors the parser makes itself (they take
    the position of a token the lexer delivered) inherit the bound, are checked by the correspondence run (fault
    injection at every applicable position), not proved.
    OBLIGATIONS: C10_no_code_on_error C10_indent_rule C10_void_or_inline_content_refused C10_comment_content_refused
                 C10_unknown_filter_refused C10_token_lines_inside_file C10_lexer_error_keeps_its_position C10_nonvacuous *)
From GV Require Import Compiler.Compile Proofs.LexSafeProofs Proofs.LexLineProofs.
From Coq Require Import Lia ZArith.
Open Scope N_scope.

(** `goht generate` writes code only for a file that parsed completely and without error *)
Theorem C10_no_code_on_error : forall input out,
  cli_generate input = Some out -> exists t, compile_parse input = ODone t None /\ generate t = (out, None).
Proof.
  intros input out H. unfold cli_generate in H. destruct (compile_parse input) as [t e| | |]; try discriminate.
  destruct e; [discriminate|]. destruct (generate t) as [o [err|]] eqn:E; [discriminate|]. injection H as ->.
  exists t. split; [reflexivity|exact E].
Qed.
Print Assumptions C10_no_code_on_error.

(** a line may be indented at most one level deeper than the previous one, and only with tabs *)
Theorem C10_indent_rule : forall indent l,
  validate_indent indent l = None <->
  (List.length indent <= l_indent l \/ (mem_byte 32 indent = false /\ List.length indent = S (l_indent l)))%nat.
Proof.
  intros indent l. unfold validate_indent.
  destruct (Nat.eqb_spec (List.length indent) 0) as [E0|N0]; [split; [intros _; left; lia|reflexivity]|].
  destruct (Nat.leb_spec (List.length indent) (l_indent l)) as [Hle|Hgt]; [split; [intros _; left; exact Hle|reflexivity]|].
  destruct (mem_byte 32 indent) eqn:Es.
  - split; [discriminate|]. intros [H|[H _]]; [lia|discriminate].
  - destruct (Nat.ltb_spec (l_indent l + 1) (List.length indent)) as [Hdeep|Hone].
    + split; [discriminate|]. intros [H|[_ H]]; lia.
    + split; [intros _; right; split; [reflexivity|lia]|reflexivity].
Qed.
Print Assumptions C10_indent_rule.

(** nested content under an element whose line is complete and that is void / self-closed or already has inline
    content is refused, in every parser state *)
Theorem C10_void_or_inline_content_refused : forall lexfuel fuel origin indent d p,
  e_complete d = true -> t_typ (p_peek p) = TIndent -> (indent < zlen (t_lit (p_peek p)))%Z ->
  e_disallow d || e_selfclosing d = true ->
  exists e, parse_element lexfuel fuel origin indent d p = RErr e p.
Proof.
  intros lexfuel fuel origin indent d p Hc Ht Hi Hd. unfold parse_element. cbv zeta. rewrite Hc, Ht.
  destruct (Z.leb_spec (zlen (t_lit (p_peek p))) indent); [lia|]. rewrite Hd.
  destruct (e_selfclosing d); eexists; reflexivity.
Qed.
Print Assumptions C10_void_or_inline_content_refused.

(** nested content under a one-line comment is refused *)
Theorem C10_comment_content_refused : forall lexfuel fuel origin indent p,
  top_kind p = KComment origin indent ->
  t_lit origin <> [] -> t_typ (p_peek p) = TIndent -> (indent < zlen (t_lit (p_peek p)))%Z ->
  exists e, parse_step lexfuel fuel p = RErr e p.
Proof.
  intros lexfuel fuel origin indent p Hk Hl Ht Hi. unfold parse_step. cbv zeta. rewrite Hk, Ht.
  destruct (Z.leb_spec (zlen (t_lit (p_peek p))) indent); [lia|].
  destruct (t_lit origin); [congruence|]. cbn. eexists; reflexivity.
Qed.
Print Assumptions C10_comment_content_refused.

(** a filter the language does not have is refused (by the parser, for whatever token text the lexer let through) *)
Theorem C10_unknown_filter_refused : forall lexfuel fuel indent p tk p1,
  t_typ (p_peek p) = TFilterStart -> p_next lexfuel p = ROk (tk, p1) ->
  mem_bytes (t_lit tk) [lit "javascript"; lit "css"; lit "plain"; lit "escaped"; lit "preserve"] = false ->
  exists e, handle_node lexfuel fuel indent p = RErr e p1.
Proof.
  intros lexfuel fuel indent p tk p1 Ht Hn Hm.
  cbn [mem_bytes] in Hm. rewrite !Bool.orb_false_iff in Hm. destruct Hm as (H1 & H2 & H3 & H4 & H5 & _).
  destruct fuel; cbn [handle_node]; cbv zeta; rewrite Ht, Hn, H1, H2, H3, H4, H5; cbn; eexists; reflexivity.
Qed.
Print Assumptions C10_unknown_filter_refused.

(** every token the parser receives from the lexer, whatever it pulls and however often, lies on a line of the file:
    [LL input] is the invariant of the lexer (the reader holds exactly the input; one line counter more than line
    breaks read, at most; the tokens queued are on lines of the file), [tok_eof] the placeholder the pump returns once
    the lexer has stopped (after the real EOF or Error token) *)
Theorem C10_token_lines_inside_file : forall input,
  LL input (new_lexer input) /\
  forall fuel lx, LL input lx ->
    match next_token fuel lx with
    | PTok t lx' => (t = tok_eof \/ (1 <= t_line t <= 1 + Z.of_nat (nl input))%Z) /\ LL input lx'
    | _ => True
    end.
Proof. intro input. split; [apply new_lexer_lines|]. intros fuel lx H. exact (next_token_lines input fuel lx H). Qed.
Print Assumptions C10_token_lines_inside_file.

(** an error token of the lexer becomes the error of the parse, with the position of that token *)
Theorem C10_lexer_error_keeps_its_position : forall lexfuel fuel indent p,
  t_typ (p_peek p) = TError ->
  handle_node lexfuel fuel indent p = RErr (PosErr (t_line (p_peek p)) (t_col (p_peek p)) (t_lit (p_peek p))) p.
Proof. intros lexfuel fuel indent p Ht. destruct fuel; cbn [handle_node]; cbv zeta; rewrite Ht; reflexivity. Qed.
Print Assumptions C10_lexer_error_keeps_its_position.

(** the model rejects an unknown filter with a position on the faulty line *)
Example C10_nonvacuous :
  match compile_parse (lit "@goht T() {" ++ [10; 9] ++ lit "%p" ++ [10; 9] ++ lit ":nosuch" ++ [10] ++ lit "}" ++ [10]) with
  | ODone _ (Some (PosErr l c _)) => Z.eqb l 3 && Z.eqb c 3
  | _ => false
  end = true
  /\ cli_generate (lit "@goht T() {" ++ [10; 9] ++ lit "%br" ++ [10; 9; 9] ++ lit "%p" ++ [10] ++ lit "}" ++ [10]) = None
  /\ cli_generate (lit "@goht T() {" ++ [10; 9] ++ lit "%p x" ++ [10; 9; 9] ++ lit "%p" ++ [10] ++ lit "}" ++ [10]) = None
  /\ cli_generate (lit "@goht T() {" ++ [10; 9] ++ lit "/ c" ++ [10; 9; 9] ++ lit "%p" ++ [10] ++ lit "}" ++ [10]) = None
  /\ cli_generate (lit "@goht T() {" ++ [10; 9] ++ lit "%p" ++ [10; 9; 9; 9] ++ lit "%p" ++ [10] ++ lit "}" ++ [10]) = None.
Proof. vm_compute. repeat split; reflexivity. Qed.
Print Assumptions C10_nonvacuous.
