(** Property C09 — LSP positions, ranges and URIs translate between template and generated file.
    OBLIGATIONS: C09_nonvacuous *)
From GV Require Import Compiler.Compile.

Example C09_nonvacuous :
  let src := lit "@goht T(a string) {" ++ [10; 9] ++ lit "%p #{a}" ++ [10] ++ lit "}" ++ [10] in
  match lsp_compose src with
  | Some (_, adds, None) =>
    match s2t (sm_entries adds) 1%Z 6%Z with
    | Some (tl, tc) => match t2s (sm_entries adds) tl tc with Some (sl, sc) => Z.eqb sl 1 && Z.eqb sc 6 | None => false end
    | None => false
    end
  | _ => false
  end = true.
Proof. vm_compute. reflexivity. Qed.
Print Assumptions C09_nonvacuous.
