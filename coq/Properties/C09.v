(** Property C09 — LSP positions, ranges and URIs translate between template and generated file.
    OBLIGATIONS: C09_mapped_position_forwarded C09_unmapped_position_empty C09_position_is_current_map
      C09_generated_location_translated C09_other_location_unchanged C09_location_methods C09_nonvacuous *)
From GV Require Import Proxy.Proxy Proofs.ProxyProofs.

(** every position method: when the map assigns a position, the Go language server is asked about the
    generated file there, and only that *)
Theorem C09_mapped_position_forwarded : forall compile st m u p answer gu q,
  position_method m = true -> update_position st u p = Some (gu, q) ->
  exists r, step compile st (EReq m u p answer) = (st, [Ds (DsReq m gu q)], r).
Proof. exact request_mapped. Qed.
Print Assumptions C09_mapped_position_forwarded.

(** no counterpart: empty answer, no error, the Go language server is not consulted *)
Theorem C09_unmapped_position_empty : forall compile st m u p answer,
  position_method m = true -> update_position st u p = None ->
  step compile st (EReq m u p answer) = (st, [], REmpty).
Proof. exact request_unmapped. Qed.
Print Assumptions C09_unmapped_position_empty.

(** the position asked is the one assigned by the map of the compilation of the *current* buffer *)
Theorem C09_position_is_current_map : forall compile st u p gu q text,
  Coherent compile st -> lookup u (ps_srcs st) = Some text -> update_position st u p = Some (gu, q) ->
  gu = to_goht_go u /\ s2t_pos (c_map (compile text)) p = Some q.
Proof. exact update_position_spec. Qed.
Print Assumptions C09_position_is_current_map.

Theorem C09_generated_location_translated : forall st l m,
  is_goht_go_uri (l_uri l) = true -> lookup (to_goht (l_uri l)) (ps_smc st) = Some m ->
  translate_loc st l =
    mkLoc (to_goht (l_uri l))
          (mkRange (match t2s_pos m (r_start (l_range l)) with Some p => p | None => r_start (l_range l) end)
                   (match t2s_pos m (r_end (l_range l)) with Some p => p | None => r_end (l_range l) end)).
Proof. exact translate_loc_generated. Qed.
Print Assumptions C09_generated_location_translated.

Theorem C09_other_location_unchanged : forall st l, is_goht_go_uri (l_uri l) = false -> translate_loc st l = l.
Proof. exact translate_loc_other. Qed.
Print Assumptions C09_other_location_unchanged.

Theorem C09_location_methods : forall compile st m u p ls gu q,
  (m = MDefinition \/ m = MDeclaration \/ m = MTypeDefinition \/ m = MImplementation \/ m = MReferences) ->
  update_position st u p = Some (gu, q) ->
  snd (step compile st (EReq m u p (Some ls))) = RLocs (map (translate_loc st) ls).
Proof. exact location_answers_translated. Qed.
Print Assumptions C09_location_methods.

Example C09_nonvacuous :
  let u := lit "file:///w/a.goht" in
  let src := lit "@goht T(a string) {" ++ [10; 9] ++ lit "%p #{a}" ++ [10] ++ lit "}" ++ [10] in
  let st := fst (run model_compile ps_init [EOpen u (lit "goht") 1 src]) in
  match update_position st u (mkPos 1 6) with
  | Some (gu, q) => beqb gu (lit "file:///w/a.goht.go") && Z.eqb (p_line q) 20 && Z.eqb (p_char q) 58
  | None => false
  end = true /\ update_position st u (mkPos 1 0) = None.
Proof. split; vm_compute; reflexivity. Qed.
Print Assumptions C09_nonvacuous.
