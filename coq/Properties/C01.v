(** Property C01 — rendered HTML is the document the template denotes.
    OBLIGATIONS: C01_nonvacuous *)
From GV Require Import Compiler.Compile.

Example C01_nonvacuous :
  let src := lit "@goht T(c bool) {" ++ [10; 9] ++ lit "- if c" ++ [10; 9; 9] ++ lit "%p yes" ++ [10; 9] ++
             lit "- else" ++ [10; 9; 9] ++ lit "%p no" ++ [10] ++ lit "}" ++ [10] in
  match cli_generate src with
  | Some out => contains (lit "if c {") out && contains (lit "} else {") out
  | None => false
  end = true.
Proof. vm_compute. reflexivity. Qed.
Print Assumptions C01_nonvacuous.
