(** Property C01 — rendered HTML is the document the template denotes.
    Proved for the static fragment, for trees of any size and depth: elements with static ids, classes and
    attributes (void and self-closing ones included), text, one-line comments and the doctype.  [html_node] is the
    document such a tree denotes; the theorems say that the Go string literal the emitter writes for it reads, by
    Go's own rules ([reads_as], the model of strconv.Unquote / the scanner), as exactly that document, and that a
    template with such a body is one WriteString of that literal followed by the error check and the epilogue.
    (The whitespace-removal pass that follows is the identity on text without markers: C14.)
    For the dynamic fragment (Proofs/SegProofs.v: interpolation, scripts, control flow, attributes from expressions, a
    dynamic class attribute, object references, @attributes, @render / @children, filters, whitespace marks; any size
    and nesting) the generated body is proved to be a run of the grammar of generated code [denotes] standing for the
    segment list of the template; what Go does with such a run is the trusted step, and the rendered bytes are
    compared with the generator's denotation on generated templates and environments by the C01 check.
    The grammar describes the code as it is: the list of an @attributes command is written as the helper returns it,
    without a separating blank -- known finding F38 (the denotation of the check has the blank).
    Not in the proved fragment: a class attribute with a conditional value (`class?`).  Attribute names are covered
    for plain characters (F06).
    OBLIGATIONS: C01_static_tree_reads_as_its_html C01_static_body_reads_as_its_html C01_static_template_code
                 C01_static_template_literal_value C01_static_document_survives_whitespace_pass
                 C01_template_with_interpolation_code C01_fragment_test_sound C01_segments_of_static_tree C01_nonvacuous C01_nonvacuous_dynamic C01_nonvacuous_helpers C01_nonvacuous_class_attribute C01_nonvacuous_filters C01_nonvacuous_braces *)
From GV Require Import Compiler.Compile Base.Regex Proofs.Utf8Proofs Proofs.QuoteProofs Proofs.EmitProofs Proofs.StaticProofs Proofs.StaticNukeProofs Proofs.DynamicProofs Proofs.SegProofs Proofs.FragCheck.
From Coq Require Import Lia.
Open Scope N_scope.

(** inside an open string literal (local writer state [l0]: literal open, escaping on), a static tree appends a
    chunk that reads as its HTML, leaves the literal open and the writer state unchanged *)
Theorem C01_static_tree_reads_as_its_html : forall l0, wl_static l0 = true -> wl_unesc l0 = false ->
  forall n, static_node n -> forall sm next nc st, LS l0 st ->
  LS l0 (fst (emit_node sm n next nc st)) /\
  (exists p, txt (fst (emit_node sm n next nc st)) = txt st ++ p /\ reads_as p (html_node n)) /\
  snd (emit_node sm n next nc st) = false.
Proof. intros l0 H1 H2 n. exact (static_node_renders l0 H1 H2 n). Qed.
Print Assumptions C01_static_tree_reads_as_its_html.

Theorem C01_static_body_reads_as_its_html : forall l0, wl_static l0 = true -> wl_unesc l0 = false ->
  forall sm l, Forall static_node l -> forall nc st, LS l0 st ->
  LS l0 (emit_list sm l nc st) /\ exists p, txt (emit_list sm l nc st) = txt st ++ p /\ reads_as p (html_list l).
Proof.
  intros l0 H1 H2 sm l Hl nc st H. apply (list_static l0 sm l); [|exact Hl|exact H].
  apply Forall_forall. intros n _. apply static_node_renders; assumption.
Qed.
Print Assumptions C01_static_body_reads_as_its_html.

(** a template with a static body: the generated function is the prologue, ONE WriteString of a literal, the error
    check and the epilogue; nothing else *)
Theorem C01_static_template_code : forall o c rest,
  Forall static_node (c :: rest) ->
  exists p, reads_as p (html_list (c :: rest)) /\
    item_err (Node (KGoht o) (c :: rest)) = None /\
    item_text (Node (KGoht o) (c :: rest)) =
      lit "func " ++ t_lit o ++ c_gohtEntry ++
      [9; 9] ++ write_string_open ++ lit """" ++ p ++ lit """)" ++ lit "; __err != nil { return }" ++ [10] ++
      c_gohtExit.
Proof. exact static_template_code. Qed.
Print Assumptions C01_static_template_code.

(** and the value of that literal, as Go reads it, is the document *)
Theorem C01_static_template_literal_value : forall p h, reads_as p h -> go_unquote ([34] ++ p ++ [34]) = Some h.
Proof. exact reads_as_literal. Qed.
Print Assumptions C01_static_template_literal_value.

(** Buffer.Bytes() then runs the whitespace-removal pass over what was written: on the HTML of a static tree whose
    literals hold neither `~` nor the first byte of the radioactive sign it is the identity, so the destination
    receives exactly [html_list] (the protocol from buffer to destination is C12) *)
Theorem C01_static_document_survives_whitespace_pass : forall l,
  (fix all (l : list node) : Prop := match l with [] => True | c :: r => clean_node c /\ all r end) l ->
  nuke (html_list l) = html_list l.
Proof. exact nuke_static_document. Qed.
Print Assumptions C01_static_document_survives_whitespace_pass.

(** templates with interpolation, `=` scripts, unescaped `!=` / `!` lines, dynamic and conditional attributes, object
    references `[obj]` (goht.ObjectID / BuildClassList), `@attributes` (goht.BuildAttributeList), the whitespace marks
    `>` `<`, comment blocks, the :javascript / :css / :plain / :preserve / :escaped filters, and
    a class attribute with a dynamic or quoted value (`{class: #{expr}}`: the value joins the arguments of BuildClassList; `{class: "x y"}`: its names join the
    class shorthands in the literal; in both cases no attribute of that name is written), and
    `-` lines (Go statements; blocks written without braces: if / else if / else chains, for, switch with its case lines;
    blocks written with their own braces: `- if x {` ... `- } else {` ... `- }`):
    the generated body is a run of literal chunks, dynamic blocks and Go statements `stmt { ... }`, [denotes],
    standing for the segments [segs_list body]: literal HTML ([SLit]), for each `= expr` / `#{expr}` the
    EscapeString-ed value of the expression ([SDyn]; [SRaw], the value as it is, after `!`), and for each `-` line its statement around the code of its
    nested block ([SBlock]; [SBlockOpen] / [SBlockCont] / [SBlockLast] for the links of an if / else chain, which share
    their braces: `if c {` ... `} else if d {` ... `} else {` ... `}`) — so the block renders exactly when, and as many times as, Go executes the statement.  [eval_segs rho] is the document
    under a valuation [rho] of the Go expressions; what Go does with a [denotes] run (a literal's value is appended,
    a dynamic block appends the escaped value or returns the error) is the trusted step. *)
Theorem C01_template_with_interpolation_code : forall o body,
  Forall dyn_node body -> kids_ok body ->
  exists (m' : bool) code,
    denotes 2 false m' code (segs_list false body) /\
    item_err (Node (KGoht o) body) = None /\
    item_text (Node (KGoht o) body) =
      lit "func " ++ t_lit o ++ c_gohtEntry ++ code ++ (if m' then close_text (Lo 2) else []) ++ c_gohtExit.
Proof. exact dyn_template_code. Qed.
Print Assumptions C01_template_with_interpolation_code.

(** the hypotheses of the theorem above are decided by an executable test, [body_in_fragment], which is sound; the
    C01 check runs the extracted test on every template it generates and reports in its evidence to how many of them
    the theorem applies *)
Theorem C01_fragment_test_sound : forall o body,
  body_in_fragment body = true ->
  exists (m' : bool) code,
    denotes 2 false m' code (segs_list false body) /\
    item_err (Node (KGoht o) body) = None /\
    item_text (Node (KGoht o) body) =
      lit "func " ++ t_lit o ++ c_gohtEntry ++ code ++ (if m' then close_text (Lo 2) else []) ++ c_gohtExit.
Proof. intros o body H. destruct (body_in_fragment_sound body H) as [H1 H2]. exact (dyn_template_code o body H1 H2). Qed.
Print Assumptions C01_fragment_test_sound.

Theorem C01_segments_of_static_tree : forall rho n, static_node n -> eval_segs rho (segs_of false false n) = html_node n.
Proof. exact eval_static. Qed.
Print Assumptions C01_segments_of_static_tree.

(** the hypotheses are met by what the parser produces for a real template, and the denoted HTML is the expected one *)
Definition ex_src : bytes :=
  lit "@goht T() {" ++ [10; 9] ++ lit "!!!" ++ [10; 9] ++ lit "%p#i.c.d{a: ""v<"", b}" ++ [10; 9; 9] ++ lit "t & <b>" ++ [10; 9; 9] ++
  lit "%br" ++ [10; 9; 9] ++ lit "/ note" ++ [10; 9; 9] ++ lit "%em x" ++ [10] ++ lit "}" ++ [10].
Definition ex_items : list node :=
  Eval vm_compute in match compile_parse ex_src with ODone (Node _ items) None => items | _ => [] end.

Example C01_nonvacuous :
  match ex_items with
  | Node (KGoht o) (c :: rest) :: _ =>
      Forall static_node (c :: rest) /\
      (fix all (l : list node) : Prop := match l with [] => True | c :: r => clean_node c /\ all r end) (c :: rest) /\
      html_list (c :: rest) =
        lit "<!DOCTYPE html>" ++ [10] ++ lit "<p id=""i"" class=""c d"" a=""v&lt;"" b>" ++ [10] ++ lit "t & <b>" ++ [10] ++ lit "<br>" ++
        lit "<!--note-->" ++ [10] ++ lit "<em>x</em>" ++ [10] ++ lit "</p>" ++ [10]
  | _ => False
  end.
Proof.
  cbv [ex_items]. split.
  - cbn.
    Ltac st1 :=
      match goal with
      | |- _ /\ _ => split
      | |- Forall _ [] => constructor
      | |- Forall _ (_ :: _) => constructor
      | |- _ = [] \/ _ => first [left; reflexivity | right]
      | |- True => exact I
      | |- static_node _ => cbn [static_node]
      | |- static_elem _ => unfold static_elem; cbn
      | |- static_text _ => unfold static_text; cbn
      | |- static_attr _ => unfold static_attr; cbn
      | |- static_class _ => unfold static_class; cbn
      | |- plain _ => unfold plain
      | |- bytes_ok _ => unfold bytes_ok; cbn
      | |- Forall _ (t_lit _) => cbn
      end.
    repeat st1. all: try lia; try discriminate; try reflexivity.
  - split; [|vm_compute; reflexivity].
    cbn. unfold clean_elem, clean_attr, clean. cbn.
    repeat match goal with
    | |- _ /\ _ => split
    | |- Forall _ [] => constructor
    | |- Forall _ (_ :: _) => constructor
    | |- True => exact I
    | |- ~ _ => let H := fresh in intro H; repeat (destruct H as [H|H]; try discriminate); try contradiction
    end.
Qed.
Print Assumptions C01_nonvacuous.

(** a real template with interpolation inside an element and a script line: its body is in the fragment, and its
    segments are the expected ones *)
Definition ex2_src : bytes :=
  lit "@goht T(a string, xs []string) {" ++ [10; 9] ++ lit "%p.c{title: #{a}, hidden ? #{a == """"}} hello #{a}!" ++ [10; 9] ++ lit "= a" ++ [10; 9] ++
  lit "!= a" ++ [10; 9] ++ lit "- n := len(xs)" ++ [10; 9] ++
  lit "- for _, x := range xs" ++ [10; 9; 9] ++ lit "%li= x" ++ [10; 9] ++ lit "- if a != """"" ++ [10; 9; 9] ++ lit "%b yes" ++ [10; 9] ++
  lit "- else if n > 0" ++ [10; 9; 9] ++ lit "%i some" ++ [10; 9] ++ lit "- else" ++ [10; 9; 9] ++ lit "%u no" ++ [10; 9] ++
  lit "- switch n" ++ [10; 9; 9] ++ lit "- case 1:" ++ [10; 9; 9; 9] ++ lit "%em one" ++ [10] ++ lit "}" ++ [10].
Definition ex2_items : list node :=
  Eval vm_compute in match compile_parse ex2_src with ODone (Node _ items) None => items | _ => [] end.

Example C01_nonvacuous_dynamic :
  match ex2_items with
  | Node (KGoht o) body :: _ =>
      Forall dyn_node body /\ kids_ok body /\
      match segs_list false body with
      | [_; _; _; SDynQ _; SBlock s0 _; _; _; SDyn _; _; _; _; SDyn _; _; SRaw _; _; SStmt s5; SBlock s1 b1; SBlockOpen s2 b2; SBlockCont s3 b3; SBlockLast s4 b4;
         SBlock s6 [SLine s7 b7]] =>
          s0 = lit "if a == """"" /\
          s1 = lit "for _, x := range xs" /\ s2 = lit "if a != """"" /\ s3 = lit "else if n > 0" /\ s4 = lit "else" /\
          s5 = lit "n := len(xs)" /\ s6 = lit "switch n" /\ s7 = lit "case 1:" /\ eval_segs (fun e => e) b7 = lit "<em>one</em>" ++ [10] /\
          eval_segs (fun e => lit "<" ++ e ++ lit ">") b1 = lit "<li>&lt;x&gt;</li>" ++ [10] /\
          eval_segs (fun e => e) b2 = lit "<b>yes</b>" ++ [10] /\ eval_segs (fun e => e) b4 = lit "<u>no</u>" ++ [10]
      | _ => False
      end
  | _ => False
  end.
Proof.
  cbv [ex2_items]. split; [|split; [vm_compute; repeat split; try reflexivity; intros; try assumption; discriminate|vm_compute; repeat split; reflexivity]].
  Ltac dn1 :=
    match goal with
    | |- _ /\ _ => split
    | |- Forall _ [] => constructor
    | |- Forall _ (_ :: _) => constructor
    | |- True => exact I
    | |- dyn_node _ => cbn [dyn_node]
    | |- kids_ok _ => vm_compute; repeat split; try reflexivity; intros; try assumption; try discriminate
    | |- dyn_text _ => unfold dyn_text, static_text; cbn
    | |- static_elem _ => unfold static_elem; cbn
    | |- dyn_elem _ => unfold dyn_elem; cbn
    | |- dyn_attr _ => unfold dyn_attr; cbn
    | |- plain _ => unfold plain
    | |- static_class _ => unfold static_class; cbn
    | |- block_stmt _ \/ _ \/ _ => first [left; unfold block_stmt; vm_compute; repeat split; reflexivity | right; left; vm_compute; repeat split; reflexivity | right; right; vm_compute; repeat split; reflexivity]
    | |- block_stmt _ => unfold block_stmt; vm_compute
    | |- raw_child _ => cbn [raw_child]; cbn
    | |- _ <> [] => discriminate
    | |- bytes_ok _ => unfold bytes_ok; cbn
    | |- _ \/ true = true => right; reflexivity
    | |- _ \/ false = true => left
    end.
  repeat dn1. all: try lia; try discriminate; try reflexivity.
Qed.
Print Assumptions C01_nonvacuous_dynamic.

(** object reference and @attributes: the id, the class list and the extra attributes come from the runtime helpers,
    with exactly the written expressions as arguments *)
Definition ex3_src : bytes :=
  lit "@goht T(u User, m map[string]bool) {" ++ [10; 9] ++ lit "%p#x.c[u]{@attributes: #{m}} hi" ++ [10] ++ lit "}" ++ [10].
Definition ex3_items : list node :=
  Eval vm_compute in match compile_parse ex3_src with ODone (Node _ items) None => items | _ => [] end.

Example C01_nonvacuous_helpers :
  match ex3_items with
  | Node (KGoht o) body :: _ =>
      Forall dyn_node body /\ kids_ok body /\
      match segs_list false body with
      | [SLit t; SObjId e; SLit i; SClassList args; SAttrList cmd; SLit _; _; _; _] =>
          t = lit "<p" /\ e = lit "u" /\ i = lit " id=""x""" /\ args = lit """c"", goht.ObjectClass(u)" /\ cmd = lit "m"
      | _ => False
      end
  | _ => False
  end.
Proof.
  cbv [ex3_items]. split; [|split; [vm_compute; repeat split; try reflexivity; intros; try assumption; discriminate|vm_compute; repeat split; reflexivity]].
  repeat dn1. all: try lia; try discriminate; try reflexivity.
  all: intros o0 Ho; injection Ho as <-; reflexivity.
Qed.
Print Assumptions C01_nonvacuous_helpers.

(** a class attribute: a dynamic value is the last argument of goht.BuildClassList (after the class shorthands and
    the object reference), a quoted one adds its names to the literal; no attribute named class is written *)
Definition ex6_src : bytes :=
  lit "@goht T(u User, cls string) {" ++ [10; 9] ++ lit "%p.c[u]{class: #{cls}, title: ""t""} hi" ++ [10; 9] ++
  lit "%i.d{class: #{cls}}" ++ [10; 9] ++ lit "%b.e{class: ""x y""}" ++ [10] ++ lit "}" ++ [10].
Definition ex6_items : list node :=
  Eval vm_compute in match compile_parse ex6_src with ODone (Node _ items) None => items | _ => [] end.

Example C01_nonvacuous_class_attribute :
  match ex6_items with
  | Node (KGoht o) body :: _ =>
      Forall dyn_node body /\ kids_ok body /\
      match segs_list false body with
      | [SLit t; SObjId e; SClassList args; SLit a1; SLit a2; SLit _; _; _; _; SLit t2; SClassList args2; SLit _; _; _; SLit t3; SLit c3; _; _; _] =>
          t = lit "<p" /\ e = lit "u" /\ args = lit """c"", goht.ObjectClass(u), cls" /\ a1 = lit " title=""" /\ a2 = lit "t""" /\
          t2 = lit "<i" /\ args2 = lit """d"", cls" /\ t3 = lit "<b" /\ c3 = lit " class=""e x y"""
      | _ => False
      end
  | _ => False
  end.
Proof.
  cbv [ex6_items]. split; [|split; [vm_compute; repeat split; try reflexivity; intros; try assumption; discriminate|vm_compute; repeat split; reflexivity]].
  repeat dn1. all: try lia; try discriminate; try reflexivity.
  all: try (intros o0 Ho; injection Ho as <-; reflexivity).
  all: try (intros c0 Hc0; injection Hc0 as <-; first [left; reflexivity | right; split; [reflexivity|eexists; split; [vm_compute; reflexivity|unfold bytes_ok; repeat constructor]]]).
  all: right; left; repeat split; unfold bytes_ok; repeat constructor.
Qed.
Print Assumptions C01_nonvacuous_class_attribute.

(** filters, a comment block and whitespace marks *)
Definition ex4_src : bytes :=
  lit "@goht T(a string) {" ++ [10; 9] ++ lit ":javascript" ++ [10; 9; 9] ++ lit "var x = ""#{a}"";" ++ [10; 9] ++
  lit ":plain" ++ [10; 9; 9] ++ lit "<b>#{a}</b>" ++ [10; 9] ++ lit ":preserve" ++ [10; 9; 9] ++ lit "k\n#{a}" ++ [10; 9] ++
  lit "/" ++ [10; 9; 9] ++ lit "%p>< in" ++ [10] ++ lit "}" ++ [10].
Definition ex4_items : list node :=
  Eval vm_compute in match compile_parse ex4_src with ODone (Node _ items) None => items | _ => [] end.

Example C01_nonvacuous_filters :
  match ex4_items with
  | Node (KGoht o) body :: _ =>
      Forall dyn_node body /\ kids_ok body /\
      eval_segs (fun e => lit "<" ++ e ++ lit ">") (segs_list false body) =
        lit "<script>" ++ [10] ++ lit "var x = ""&lt;a&gt;"";" ++ [10] ++ lit "</script>" ++
        lit "<b><a></b>" ++ [10] ++
        (* preserved text: a backslash and an n stay what they are (fix 1d27881), the line break becomes an entity *)
        lit "k\n<a>&#x000A;" ++ [10] ++
        lit "<!--" ++ [10] ++ c_NukeBefore ++ lit "<p>" ++ c_NukeAfter ++ lit "in" ++ c_NukeBefore ++ lit "</p>" ++ c_NukeAfter ++ lit "-->" ++ [10]
  | _ => False
  end.
Proof.
  cbv [ex4_items]. split; [|split; [vm_compute; repeat split; try reflexivity; intros; try assumption; discriminate|vm_compute; reflexivity]].
  Ltac dn2 :=
    first [ dn1
          | match goal with
            | |- (_ <> [] /\ _) \/ _ => first [left; split; [discriminate|] | right]
            | |- (_ = _ /\ _) \/ _ => first [left; split; [reflexivity|] | right]
            | |- _ = [] /\ _ => split; [reflexivity|]
            | |- false = true \/ _ => right
            | |- true = true \/ _ => left; reflexivity
            end ].
  repeat dn2. all: try lia; try discriminate; try reflexivity.
Qed.
Print Assumptions C01_nonvacuous_filters.

(** the same control flow written with explicit braces: three lines of Go, two of them with nested content *)
Definition ex5_src : bytes :=
  lit "@goht T(a string) {" ++ [10; 9] ++ lit "- if a == """" {" ++ [10; 9; 9] ++ lit "%s x" ++ [10; 9] ++
  lit "- } else {" ++ [10; 9; 9] ++ lit "%s y" ++ [10; 9] ++ lit "- }" ++ [10] ++ lit "}" ++ [10].
Definition ex5_items : list node :=
  Eval vm_compute in match compile_parse ex5_src with ODone (Node _ items) None => items | _ => [] end.

Example C01_nonvacuous_braces :
  match ex5_items with
  | Node (KGoht o) body :: _ =>
      Forall dyn_node body /\ kids_ok body /\
      match segs_list false body with
      | [SLine s1 b1; SLine s2 b2; SStmt s3] =>
          s1 = lit "if a == """" {" /\ s2 = lit "} else {" /\ s3 = lit "}" /\
          eval_segs (fun e => e) b1 = lit "<s>x</s>" ++ [10] /\ eval_segs (fun e => e) b2 = lit "<s>y</s>" ++ [10]
      | _ => False
      end
  | _ => False
  end.
Proof.
  cbv [ex5_items]. split; [|split; [vm_compute; repeat split; try reflexivity; intros; try assumption; discriminate|vm_compute; repeat split; reflexivity]].
  Ltac dn3 :=
    first [ dn2
          | match goal with
            | |- block_stmt _ \/ _ \/ _ =>
                first [ left; unfold block_stmt; vm_compute; repeat split; reflexivity
                      | right; left; vm_compute; repeat split; reflexivity
                      | right; right; vm_compute; repeat split; reflexivity ]
            end ].
  repeat dn3. all: try lia; try discriminate; try reflexivity.
Qed.
Print Assumptions C01_nonvacuous_braces.
