Base/Bytes.vo Base/Bytes.glob Base/Bytes.v.beautified Base/Bytes.required_vo: Base/Bytes.v 
Base/Bytes.vio: Base/Bytes.v 
Base/Bytes.vos Base/Bytes.vok Base/Bytes.required_vos: Base/Bytes.v 
Base/GoStr.vo Base/GoStr.glob Base/GoStr.v.beautified Base/GoStr.required_vo: Base/GoStr.v Base/Bytes.vo Gen/Consts.vo
Base/GoStr.vio: Base/GoStr.v Base/Bytes.vio Gen/Consts.vio
Base/GoStr.vos Base/GoStr.vok Base/GoStr.required_vos: Base/GoStr.v Base/Bytes.vos Gen/Consts.vos
Runtime/Rt.vo Runtime/Rt.glob Runtime/Rt.v.beautified Runtime/Rt.required_vo: Runtime/Rt.v Base/GoStr.vo
Runtime/Rt.vio: Runtime/Rt.v Base/GoStr.vio
Runtime/Rt.vos Runtime/Rt.vok Runtime/Rt.required_vos: Runtime/Rt.v Base/GoStr.vos
Proofs/SortProofs.vo Proofs/SortProofs.glob Proofs/SortProofs.v.beautified Proofs/SortProofs.required_vo: Proofs/SortProofs.v Base/Bytes.vo
Proofs/SortProofs.vio: Proofs/SortProofs.v Base/Bytes.vio
Proofs/SortProofs.vos Proofs/SortProofs.vok Proofs/SortProofs.required_vos: Proofs/SortProofs.v Base/Bytes.vos
Proofs/EscapeProofs.vo Proofs/EscapeProofs.glob Proofs/EscapeProofs.v.beautified Proofs/EscapeProofs.required_vo: Proofs/EscapeProofs.v Base/GoStr.vo
Proofs/EscapeProofs.vio: Proofs/EscapeProofs.v Base/GoStr.vio
Proofs/EscapeProofs.vos Proofs/EscapeProofs.vok Proofs/EscapeProofs.required_vos: Proofs/EscapeProofs.v Base/GoStr.vos
Proofs/RtProofs.vo Proofs/RtProofs.glob Proofs/RtProofs.v.beautified Proofs/RtProofs.required_vo: Proofs/RtProofs.v Base/GoStr.vo Runtime/Rt.vo Proofs/SortProofs.vo Proofs/EscapeProofs.vo
Proofs/RtProofs.vio: Proofs/RtProofs.v Base/GoStr.vio Runtime/Rt.vio Proofs/SortProofs.vio Proofs/EscapeProofs.vio
Proofs/RtProofs.vos Proofs/RtProofs.vok Proofs/RtProofs.required_vos: Proofs/RtProofs.v Base/GoStr.vos Runtime/Rt.vos Proofs/SortProofs.vos Proofs/EscapeProofs.vos
Properties/C19.vo Properties/C19.glob Properties/C19.v.beautified Properties/C19.required_vo: Properties/C19.v Base/GoStr.vo Runtime/Rt.vo Proofs/EscapeProofs.vo Proofs/RtProofs.vo
Properties/C19.vio: Properties/C19.v Base/GoStr.vio Runtime/Rt.vio Proofs/EscapeProofs.vio Proofs/RtProofs.vio
Properties/C19.vos Properties/C19.vok Properties/C19.required_vos: Properties/C19.v Base/GoStr.vos Runtime/Rt.vos Proofs/EscapeProofs.vos Proofs/RtProofs.vos
Gen/Consts.vo Gen/Consts.glob Gen/Consts.v.beautified Gen/Consts.required_vo: Gen/Consts.v Base/Bytes.vo
Gen/Consts.vio: Gen/Consts.v Base/Bytes.vio
Gen/Consts.vos Gen/Consts.vok Gen/Consts.required_vos: Gen/Consts.v Base/Bytes.vos
Compiler/Tok.vo Compiler/Tok.glob Compiler/Tok.v.beautified Compiler/Tok.required_vo: Compiler/Tok.v Base/GoStr.vo
Compiler/Tok.vio: Compiler/Tok.v Base/GoStr.vio
Compiler/Tok.vos Compiler/Tok.vok Compiler/Tok.required_vos: Compiler/Tok.v Base/GoStr.vos
Compiler/Lexer.vo Compiler/Lexer.glob Compiler/Lexer.v.beautified Compiler/Lexer.required_vo: Compiler/Lexer.v Compiler/Tok.vo Gen/Consts.vo
Compiler/Lexer.vio: Compiler/Lexer.v Compiler/Tok.vio Gen/Consts.vio
Compiler/Lexer.vos Compiler/Lexer.vok Compiler/Lexer.required_vos: Compiler/Lexer.v Compiler/Tok.vos Gen/Consts.vos
Compiler/Parser.vo Compiler/Parser.glob Compiler/Parser.v.beautified Compiler/Parser.required_vo: Compiler/Parser.v Compiler/Lexer.vo
Compiler/Parser.vio: Compiler/Parser.v Compiler/Lexer.vio
Compiler/Parser.vos Compiler/Parser.vok Compiler/Parser.required_vos: Compiler/Parser.v Compiler/Lexer.vos
Compiler/Emit.vo Compiler/Emit.glob Compiler/Emit.v.beautified Compiler/Emit.required_vo: Compiler/Emit.v Compiler/Parser.vo
Compiler/Emit.vio: Compiler/Emit.v Compiler/Parser.vio
Compiler/Emit.vos Compiler/Emit.vok Compiler/Emit.required_vos: Compiler/Emit.v Compiler/Parser.vos
Compiler/SrcMap.vo Compiler/SrcMap.glob Compiler/SrcMap.v.beautified Compiler/SrcMap.required_vo: Compiler/SrcMap.v Compiler/Emit.vo
Compiler/SrcMap.vio: Compiler/SrcMap.v Compiler/Emit.vio
Compiler/SrcMap.vos Compiler/SrcMap.vok Compiler/SrcMap.required_vos: Compiler/SrcMap.v Compiler/Emit.vos
Compiler/Compile.vo Compiler/Compile.glob Compiler/Compile.v.beautified Compiler/Compile.required_vo: Compiler/Compile.v Compiler/SrcMap.vo
Compiler/Compile.vio: Compiler/Compile.v Compiler/SrcMap.vio
Compiler/Compile.vos Compiler/Compile.vok Compiler/Compile.required_vos: Compiler/Compile.v Compiler/SrcMap.vos
Proofs/LexProofs.vo Proofs/LexProofs.glob Proofs/LexProofs.v.beautified Proofs/LexProofs.required_vo: Proofs/LexProofs.v Compiler/Lexer.vo
Proofs/LexProofs.vio: Proofs/LexProofs.v Compiler/Lexer.vio
Proofs/LexProofs.vos Proofs/LexProofs.vok Proofs/LexProofs.required_vos: Proofs/LexProofs.v Compiler/Lexer.vos
Proofs/NoDeadlockProofs.vo Proofs/NoDeadlockProofs.glob Proofs/NoDeadlockProofs.v.beautified Proofs/NoDeadlockProofs.required_vo: Proofs/NoDeadlockProofs.v Compiler/Compile.vo Proofs/LexProofs.vo
Proofs/NoDeadlockProofs.vio: Proofs/NoDeadlockProofs.v Compiler/Compile.vio Proofs/LexProofs.vio
Proofs/NoDeadlockProofs.vos Proofs/NoDeadlockProofs.vok Proofs/NoDeadlockProofs.required_vos: Proofs/NoDeadlockProofs.v Compiler/Compile.vos Proofs/LexProofs.vos
Properties/C06.vo Properties/C06.glob Properties/C06.v.beautified Properties/C06.required_vo: Properties/C06.v Compiler/Compile.vo Proofs/LexProofs.vo Proofs/NoDeadlockProofs.vo
Properties/C06.vio: Properties/C06.v Compiler/Compile.vio Proofs/LexProofs.vio Proofs/NoDeadlockProofs.vio
Properties/C06.vos Properties/C06.vok Properties/C06.required_vos: Properties/C06.v Compiler/Compile.vos Proofs/LexProofs.vos Proofs/NoDeadlockProofs.vos
Proofs/EmitProofs.vo Proofs/EmitProofs.glob Proofs/EmitProofs.v.beautified Proofs/EmitProofs.required_vo: Proofs/EmitProofs.v Compiler/Emit.vo
Proofs/EmitProofs.vio: Proofs/EmitProofs.v Compiler/Emit.vio
Proofs/EmitProofs.vos Proofs/EmitProofs.vok Proofs/EmitProofs.required_vos: Proofs/EmitProofs.v Compiler/Emit.vos
Proofs/PassThroughProofs.vo Proofs/PassThroughProofs.glob Proofs/PassThroughProofs.v.beautified Proofs/PassThroughProofs.required_vo: Proofs/PassThroughProofs.v Compiler/Emit.vo Proofs/EmitProofs.vo
Proofs/PassThroughProofs.vio: Proofs/PassThroughProofs.v Compiler/Emit.vio Proofs/EmitProofs.vio
Proofs/PassThroughProofs.vos Proofs/PassThroughProofs.vok Proofs/PassThroughProofs.required_vos: Proofs/PassThroughProofs.v Compiler/Emit.vos Proofs/EmitProofs.vos
Proofs/EmitInv.vo Proofs/EmitInv.glob Proofs/EmitInv.v.beautified Proofs/EmitInv.required_vo: Proofs/EmitInv.v Compiler/Emit.vo Proofs/EmitProofs.vo
Proofs/EmitInv.vio: Proofs/EmitInv.v Compiler/Emit.vio Proofs/EmitProofs.vio
Proofs/EmitInv.vos Proofs/EmitInv.vok Proofs/EmitInv.required_vos: Proofs/EmitInv.v Compiler/Emit.vos Proofs/EmitProofs.vos
Proofs/ParserShapeProofs.vo Proofs/ParserShapeProofs.glob Proofs/ParserShapeProofs.v.beautified Proofs/ParserShapeProofs.required_vo: Proofs/ParserShapeProofs.v Compiler/Compile.vo Proofs/EmitProofs.vo Proofs/PassThroughProofs.vo Proofs/EmitInv.vo
Proofs/ParserShapeProofs.vio: Proofs/ParserShapeProofs.v Compiler/Compile.vio Proofs/EmitProofs.vio Proofs/PassThroughProofs.vio Proofs/EmitInv.vio
Proofs/ParserShapeProofs.vos Proofs/ParserShapeProofs.vok Proofs/ParserShapeProofs.required_vos: Proofs/ParserShapeProofs.v Compiler/Compile.vos Proofs/EmitProofs.vos Proofs/PassThroughProofs.vos Proofs/EmitInv.vos
Properties/C15.vo Properties/C15.glob Properties/C15.v.beautified Properties/C15.required_vo: Properties/C15.v Compiler/Compile.vo Proofs/EmitProofs.vo Proofs/ParserShapeProofs.vo
Properties/C15.vio: Properties/C15.v Compiler/Compile.vio Proofs/EmitProofs.vio Proofs/ParserShapeProofs.vio
Properties/C15.vos Properties/C15.vok Properties/C15.required_vos: Properties/C15.v Compiler/Compile.vos Proofs/EmitProofs.vos Proofs/ParserShapeProofs.vos
Properties/C11.vo Properties/C11.glob Properties/C11.v.beautified Properties/C11.required_vo: Properties/C11.v Compiler/Compile.vo Proofs/EmitProofs.vo Proofs/PassThroughProofs.vo Proofs/ParserShapeProofs.vo
Properties/C11.vio: Properties/C11.v Compiler/Compile.vio Proofs/EmitProofs.vio Proofs/PassThroughProofs.vio Proofs/ParserShapeProofs.vio
Properties/C11.vos Properties/C11.vok Properties/C11.required_vos: Properties/C11.v Compiler/Compile.vos Proofs/EmitProofs.vos Proofs/PassThroughProofs.vos Proofs/ParserShapeProofs.vos
Proofs/DynamicProofs.vo Proofs/DynamicProofs.glob Proofs/DynamicProofs.v.beautified Proofs/DynamicProofs.required_vo: Proofs/DynamicProofs.v Compiler/Emit.vo Proofs/EmitProofs.vo Proofs/PassThroughProofs.vo
Proofs/DynamicProofs.vio: Proofs/DynamicProofs.v Compiler/Emit.vio Proofs/EmitProofs.vio Proofs/PassThroughProofs.vio
Proofs/DynamicProofs.vos Proofs/DynamicProofs.vok Proofs/DynamicProofs.required_vos: Proofs/DynamicProofs.v Compiler/Emit.vos Proofs/EmitProofs.vos Proofs/PassThroughProofs.vos
Proofs/VarProofs.vo Proofs/VarProofs.glob Proofs/VarProofs.v.beautified Proofs/VarProofs.required_vo: Proofs/VarProofs.v Compiler/Emit.vo Proofs/EmitProofs.vo Proofs/EmitInv.vo
Proofs/VarProofs.vio: Proofs/VarProofs.v Compiler/Emit.vio Proofs/EmitProofs.vio Proofs/EmitInv.vio
Proofs/VarProofs.vos Proofs/VarProofs.vok Proofs/VarProofs.required_vos: Proofs/VarProofs.v Compiler/Emit.vos Proofs/EmitProofs.vos Proofs/EmitInv.vos
Proofs/SegProofs.vo Proofs/SegProofs.glob Proofs/SegProofs.v.beautified Proofs/SegProofs.required_vo: Proofs/SegProofs.v Compiler/Emit.vo Proofs/Utf8Proofs.vo Proofs/QuoteProofs.vo Proofs/ChunkProofs.vo Proofs/EmitProofs.vo Proofs/PassThroughProofs.vo Proofs/DynamicProofs.vo Proofs/StaticProofs.vo
Proofs/SegProofs.vio: Proofs/SegProofs.v Compiler/Emit.vio Proofs/Utf8Proofs.vio Proofs/QuoteProofs.vio Proofs/ChunkProofs.vio Proofs/EmitProofs.vio Proofs/PassThroughProofs.vio Proofs/DynamicProofs.vio Proofs/StaticProofs.vio
Proofs/SegProofs.vos Proofs/SegProofs.vok Proofs/SegProofs.required_vos: Proofs/SegProofs.v Compiler/Emit.vos Proofs/Utf8Proofs.vos Proofs/QuoteProofs.vos Proofs/ChunkProofs.vos Proofs/EmitProofs.vos Proofs/PassThroughProofs.vos Proofs/DynamicProofs.vos Proofs/StaticProofs.vos
Properties/C02.vo Properties/C02.glob Properties/C02.v.beautified Properties/C02.required_vo: Properties/C02.v Base/GoStr.vo Proofs/EscapeProofs.vo Compiler/Emit.vo Proofs/EmitProofs.vo Proofs/DynamicProofs.vo Proofs/SegProofs.vo
Properties/C02.vio: Properties/C02.v Base/GoStr.vio Proofs/EscapeProofs.vio Compiler/Emit.vio Proofs/EmitProofs.vio Proofs/DynamicProofs.vio Proofs/SegProofs.vio
Properties/C02.vos Properties/C02.vok Properties/C02.required_vos: Properties/C02.v Base/GoStr.vos Proofs/EscapeProofs.vos Compiler/Emit.vos Proofs/EmitProofs.vos Proofs/DynamicProofs.vos Proofs/SegProofs.vos
Properties/C01.vo Properties/C01.glob Properties/C01.v.beautified Properties/C01.required_vo: Properties/C01.v Compiler/Compile.vo Base/Regex.vo Proofs/Utf8Proofs.vo Proofs/QuoteProofs.vo Proofs/EmitProofs.vo Proofs/StaticProofs.vo Proofs/StaticNukeProofs.vo Proofs/DynamicProofs.vo Proofs/SegProofs.vo
Properties/C01.vio: Properties/C01.v Compiler/Compile.vio Base/Regex.vio Proofs/Utf8Proofs.vio Proofs/QuoteProofs.vio Proofs/EmitProofs.vio Proofs/StaticProofs.vio Proofs/StaticNukeProofs.vio Proofs/DynamicProofs.vio Proofs/SegProofs.vio
Properties/C01.vos Properties/C01.vok Properties/C01.required_vos: Properties/C01.v Compiler/Compile.vos Base/Regex.vos Proofs/Utf8Proofs.vos Proofs/QuoteProofs.vos Proofs/EmitProofs.vos Proofs/StaticProofs.vos Proofs/StaticNukeProofs.vos Proofs/DynamicProofs.vos Proofs/SegProofs.vos
Properties/C03.vo Properties/C03.glob Properties/C03.v.beautified Properties/C03.required_vo: Properties/C03.v Compiler/Compile.vo Proofs/EmitProofs.vo Proofs/EmitInv.vo Proofs/VarProofs.vo Proofs/PassThroughProofs.vo Proofs/DynamicProofs.vo
Properties/C03.vio: Properties/C03.v Compiler/Compile.vio Proofs/EmitProofs.vio Proofs/EmitInv.vio Proofs/VarProofs.vio Proofs/PassThroughProofs.vio Proofs/DynamicProofs.vio
Properties/C03.vos Properties/C03.vok Properties/C03.required_vos: Properties/C03.v Compiler/Compile.vos Proofs/EmitProofs.vos Proofs/EmitInv.vos Proofs/VarProofs.vos Proofs/PassThroughProofs.vos Proofs/DynamicProofs.vos
Properties/C16.vo Properties/C16.glob Properties/C16.v.beautified Properties/C16.required_vo: Properties/C16.v Compiler/Compile.vo Proofs/SrcMapProofs.vo
Properties/C16.vio: Properties/C16.v Compiler/Compile.vio Proofs/SrcMapProofs.vio
Properties/C16.vos Properties/C16.vok Properties/C16.required_vos: Properties/C16.v Compiler/Compile.vos Proofs/SrcMapProofs.vos
Properties/C10.vo Properties/C10.glob Properties/C10.v.beautified Properties/C10.required_vo: Properties/C10.v Compiler/Compile.vo
Properties/C10.vio: Properties/C10.v Compiler/Compile.vio
Properties/C10.vos Properties/C10.vok Properties/C10.required_vos: Properties/C10.v Compiler/Compile.vos
Base/Regex.vo Base/Regex.glob Base/Regex.v.beautified Base/Regex.required_vo: Base/Regex.v Base/GoStr.vo Gen/Consts.vo
Base/Regex.vio: Base/Regex.v Base/GoStr.vio Gen/Consts.vio
Base/Regex.vos Base/Regex.vok Base/Regex.required_vos: Base/Regex.v Base/GoStr.vos Gen/Consts.vos
Properties/C14.vo Properties/C14.glob Properties/C14.v.beautified Properties/C14.required_vo: Properties/C14.v Base/Regex.vo Proofs/NukeProofs.vo
Properties/C14.vio: Properties/C14.v Base/Regex.vio Proofs/NukeProofs.vio
Properties/C14.vos Properties/C14.vok Properties/C14.required_vos: Properties/C14.v Base/Regex.vos Proofs/NukeProofs.vos
Proofs/Utf8Proofs.vo Proofs/Utf8Proofs.glob Proofs/Utf8Proofs.v.beautified Proofs/Utf8Proofs.required_vo: Proofs/Utf8Proofs.v Base/GoStr.vo
Proofs/Utf8Proofs.vio: Proofs/Utf8Proofs.v Base/GoStr.vio
Proofs/Utf8Proofs.vos Proofs/Utf8Proofs.vok Proofs/Utf8Proofs.required_vos: Proofs/Utf8Proofs.v Base/GoStr.vos
Proofs/QuoteProofs.vo Proofs/QuoteProofs.glob Proofs/QuoteProofs.v.beautified Proofs/QuoteProofs.required_vo: Proofs/QuoteProofs.v Base/GoStr.vo Compiler/Parser.vo Proofs/Utf8Proofs.vo
Proofs/QuoteProofs.vio: Proofs/QuoteProofs.v Base/GoStr.vio Compiler/Parser.vio Proofs/Utf8Proofs.vio
Proofs/QuoteProofs.vos Proofs/QuoteProofs.vok Proofs/QuoteProofs.required_vos: Proofs/QuoteProofs.v Base/GoStr.vos Compiler/Parser.vos Proofs/Utf8Proofs.vos
Proofs/ChunkProofs.vo Proofs/ChunkProofs.glob Proofs/ChunkProofs.v.beautified Proofs/ChunkProofs.required_vo: Proofs/ChunkProofs.v Compiler/Emit.vo Proofs/Utf8Proofs.vo Proofs/QuoteProofs.vo Proofs/EscapeProofs.vo
Proofs/ChunkProofs.vio: Proofs/ChunkProofs.v Compiler/Emit.vio Proofs/Utf8Proofs.vio Proofs/QuoteProofs.vio Proofs/EscapeProofs.vio
Proofs/ChunkProofs.vos Proofs/ChunkProofs.vok Proofs/ChunkProofs.required_vos: Proofs/ChunkProofs.v Compiler/Emit.vos Proofs/Utf8Proofs.vos Proofs/QuoteProofs.vos Proofs/EscapeProofs.vos
Properties/C04.vo Properties/C04.glob Properties/C04.v.beautified Properties/C04.required_vo: Properties/C04.v Compiler/Compile.vo Proofs/Utf8Proofs.vo Proofs/QuoteProofs.vo Proofs/EscapeProofs.vo Proofs/ChunkProofs.vo
Properties/C04.vio: Properties/C04.v Compiler/Compile.vio Proofs/Utf8Proofs.vio Proofs/QuoteProofs.vio Proofs/EscapeProofs.vio Proofs/ChunkProofs.vio
Properties/C04.vos Properties/C04.vok Properties/C04.required_vos: Properties/C04.v Compiler/Compile.vos Proofs/Utf8Proofs.vos Proofs/QuoteProofs.vos Proofs/EscapeProofs.vos Proofs/ChunkProofs.vos
Proofs/StaticProofs.vo Proofs/StaticProofs.glob Proofs/StaticProofs.v.beautified Proofs/StaticProofs.required_vo: Proofs/StaticProofs.v Compiler/Emit.vo Proofs/Utf8Proofs.vo Proofs/QuoteProofs.vo Proofs/EscapeProofs.vo Proofs/ChunkProofs.vo Proofs/EmitProofs.vo Proofs/PassThroughProofs.vo
Proofs/StaticProofs.vio: Proofs/StaticProofs.v Compiler/Emit.vio Proofs/Utf8Proofs.vio Proofs/QuoteProofs.vio Proofs/EscapeProofs.vio Proofs/ChunkProofs.vio Proofs/EmitProofs.vio Proofs/PassThroughProofs.vio
Proofs/StaticProofs.vos Proofs/StaticProofs.vok Proofs/StaticProofs.required_vos: Proofs/StaticProofs.v Compiler/Emit.vos Proofs/Utf8Proofs.vos Proofs/QuoteProofs.vos Proofs/EscapeProofs.vos Proofs/ChunkProofs.vos Proofs/EmitProofs.vos Proofs/PassThroughProofs.vos
Properties/C12.vo Properties/C12.glob Properties/C12.v.beautified Properties/C12.required_vo: Properties/C12.v Compiler/Compile.vo Runtime/Render.vo Proofs/RenderProofs.vo
Properties/C12.vio: Properties/C12.v Compiler/Compile.vio Runtime/Render.vio Proofs/RenderProofs.vio
Properties/C12.vos Properties/C12.vok Properties/C12.required_vos: Properties/C12.v Compiler/Compile.vos Runtime/Render.vos Proofs/RenderProofs.vos
Properties/C13.vo Properties/C13.glob Properties/C13.v.beautified Properties/C13.required_vo: Properties/C13.v Runtime/Pool.vo Proofs/RuntimeProofs.vo
Properties/C13.vio: Properties/C13.v Runtime/Pool.vio Proofs/RuntimeProofs.vio
Properties/C13.vos Properties/C13.vok Properties/C13.required_vos: Properties/C13.v Runtime/Pool.vos Proofs/RuntimeProofs.vos
Properties/C08.vo Properties/C08.glob Properties/C08.v.beautified Properties/C08.required_vo: Properties/C08.v Proxy/Proxy.vo Proofs/ProxyProofs.vo
Properties/C08.vio: Properties/C08.v Proxy/Proxy.vio Proofs/ProxyProofs.vio
Properties/C08.vos Properties/C08.vok Properties/C08.required_vos: Properties/C08.v Proxy/Proxy.vos Proofs/ProxyProofs.vos
Properties/C09.vo Properties/C09.glob Properties/C09.v.beautified Properties/C09.required_vo: Properties/C09.v Proxy/Proxy.vo Proofs/ProxyProofs.vo
Properties/C09.vio: Properties/C09.v Proxy/Proxy.vio Proofs/ProxyProofs.vio
Properties/C09.vos Properties/C09.vok Properties/C09.required_vos: Properties/C09.v Proxy/Proxy.vos Proofs/ProxyProofs.vos
Properties/C17.vo Properties/C17.glob Properties/C17.v.beautified Properties/C17.required_vo: Properties/C17.v Proxy/Proxy.vo Proofs/ProxyProofs.vo
Properties/C17.vio: Properties/C17.v Proxy/Proxy.vio Proofs/ProxyProofs.vio
Properties/C17.vos Properties/C17.vok Properties/C17.required_vos: Properties/C17.v Proxy/Proxy.vos Proofs/ProxyProofs.vos
Properties/C20.vo Properties/C20.glob Properties/C20.v.beautified Properties/C20.required_vo: Properties/C20.v Proxy/AddImport.vo Proofs/AddImportProofs.vo
Properties/C20.vio: Properties/C20.v Proxy/AddImport.vio Proofs/AddImportProofs.vio
Properties/C20.vos Properties/C20.vok Properties/C20.required_vos: Properties/C20.v Proxy/AddImport.vos Proofs/AddImportProofs.vos
Properties/C18.vo Properties/C18.glob Properties/C18.v.beautified Properties/C18.required_vo: Properties/C18.v Cli/Generate.vo Proofs/ProxyProofs.vo Proofs/GenerateProofs.vo
Properties/C18.vio: Properties/C18.v Cli/Generate.vio Proofs/ProxyProofs.vio Proofs/GenerateProofs.vio
Properties/C18.vos Properties/C18.vok Properties/C18.required_vos: Properties/C18.v Cli/Generate.vos Proofs/ProxyProofs.vos Proofs/GenerateProofs.vos
Proxy/AddImport.vo Proxy/AddImport.glob Proxy/AddImport.v.beautified Proxy/AddImport.required_vo: Proxy/AddImport.v Base/Regex.vo
Proxy/AddImport.vio: Proxy/AddImport.v Base/Regex.vio
Proxy/AddImport.vos Proxy/AddImport.vok Proxy/AddImport.required_vos: Proxy/AddImport.v Base/Regex.vos
Proofs/AddImportProofs.vo Proofs/AddImportProofs.glob Proofs/AddImportProofs.v.beautified Proofs/AddImportProofs.required_vo: Proofs/AddImportProofs.v Proxy/AddImport.vo
Proofs/AddImportProofs.vio: Proofs/AddImportProofs.v Proxy/AddImport.vio
Proofs/AddImportProofs.vos Proofs/AddImportProofs.vok Proofs/AddImportProofs.required_vos: Proofs/AddImportProofs.v Proxy/AddImport.vos
Proxy/Proxy.vo Proxy/Proxy.glob Proxy/Proxy.v.beautified Proxy/Proxy.required_vo: Proxy/Proxy.v Compiler/Compile.vo Proxy/AddImport.vo
Proxy/Proxy.vio: Proxy/Proxy.v Compiler/Compile.vio Proxy/AddImport.vio
Proxy/Proxy.vos Proxy/Proxy.vok Proxy/Proxy.required_vos: Proxy/Proxy.v Compiler/Compile.vos Proxy/AddImport.vos
Proofs/ProxyProofs.vo Proofs/ProxyProofs.glob Proofs/ProxyProofs.v.beautified Proofs/ProxyProofs.required_vo: Proofs/ProxyProofs.v Proxy/Proxy.vo
Proofs/ProxyProofs.vio: Proofs/ProxyProofs.v Proxy/Proxy.vio
Proofs/ProxyProofs.vos Proofs/ProxyProofs.vok Proofs/ProxyProofs.required_vos: Proofs/ProxyProofs.v Proxy/Proxy.vos
Cli/Generate.vo Cli/Generate.glob Cli/Generate.v.beautified Cli/Generate.required_vo: Cli/Generate.v Proxy/Proxy.vo
Cli/Generate.vio: Cli/Generate.v Proxy/Proxy.vio
Cli/Generate.vos Cli/Generate.vok Cli/Generate.required_vos: Cli/Generate.v Proxy/Proxy.vos
Proofs/GenerateProofs.vo Proofs/GenerateProofs.glob Proofs/GenerateProofs.v.beautified Proofs/GenerateProofs.required_vo: Proofs/GenerateProofs.v Cli/Generate.vo Proofs/ProxyProofs.vo
Proofs/GenerateProofs.vio: Proofs/GenerateProofs.v Cli/Generate.vio Proofs/ProxyProofs.vio
Proofs/GenerateProofs.vos Proofs/GenerateProofs.vok Proofs/GenerateProofs.required_vos: Proofs/GenerateProofs.v Cli/Generate.vos Proofs/ProxyProofs.vos
Runtime/Children.vo Runtime/Children.glob Runtime/Children.v.beautified Runtime/Children.required_vo: Runtime/Children.v Base/Bytes.vo
Runtime/Children.vio: Runtime/Children.v Base/Bytes.vio
Runtime/Children.vos Runtime/Children.vok Runtime/Children.required_vos: Runtime/Children.v Base/Bytes.vos
Runtime/Pool.vo Runtime/Pool.glob Runtime/Pool.v.beautified Runtime/Pool.required_vo: Runtime/Pool.v Base/Regex.vo
Runtime/Pool.vio: Runtime/Pool.v Base/Regex.vio
Runtime/Pool.vos Runtime/Pool.vok Runtime/Pool.required_vos: Runtime/Pool.v Base/Regex.vos
Runtime/Render.vo Runtime/Render.glob Runtime/Render.v.beautified Runtime/Render.required_vo: Runtime/Render.v Base/Regex.vo
Runtime/Render.vio: Runtime/Render.v Base/Regex.vio
Runtime/Render.vos Runtime/Render.vok Runtime/Render.required_vos: Runtime/Render.v Base/Regex.vos
Proofs/RenderProofs.vo Proofs/RenderProofs.glob Proofs/RenderProofs.v.beautified Proofs/RenderProofs.required_vo: Proofs/RenderProofs.v Runtime/Render.vo
Proofs/RenderProofs.vio: Proofs/RenderProofs.v Runtime/Render.vio
Proofs/RenderProofs.vos Proofs/RenderProofs.vok Proofs/RenderProofs.required_vos: Proofs/RenderProofs.v Runtime/Render.vos
Proofs/RuntimeProofs.vo Proofs/RuntimeProofs.glob Proofs/RuntimeProofs.v.beautified Proofs/RuntimeProofs.required_vo: Proofs/RuntimeProofs.v Runtime/Children.vo Runtime/Pool.vo
Proofs/RuntimeProofs.vio: Proofs/RuntimeProofs.v Runtime/Children.vio Runtime/Pool.vio
Proofs/RuntimeProofs.vos Proofs/RuntimeProofs.vok Proofs/RuntimeProofs.required_vos: Proofs/RuntimeProofs.v Runtime/Children.vos Runtime/Pool.vos
Properties/C05.vo Properties/C05.glob Properties/C05.v.beautified Properties/C05.required_vo: Properties/C05.v Runtime/Children.vo Proofs/RuntimeProofs.vo Compiler/Emit.vo Proofs/SegProofs.vo
Properties/C05.vio: Properties/C05.v Runtime/Children.vio Proofs/RuntimeProofs.vio Compiler/Emit.vio Proofs/SegProofs.vio
Properties/C05.vos Properties/C05.vok Properties/C05.required_vos: Properties/C05.v Runtime/Children.vos Proofs/RuntimeProofs.vos Compiler/Emit.vos Proofs/SegProofs.vos
Proofs/NukeProofs.vo Proofs/NukeProofs.glob Proofs/NukeProofs.v.beautified Proofs/NukeProofs.required_vo: Proofs/NukeProofs.v Base/Regex.vo
Proofs/NukeProofs.vio: Proofs/NukeProofs.v Base/Regex.vio
Proofs/NukeProofs.vos Proofs/NukeProofs.vok Proofs/NukeProofs.required_vos: Proofs/NukeProofs.v Base/Regex.vos
Proofs/StaticNukeProofs.vo Proofs/StaticNukeProofs.glob Proofs/StaticNukeProofs.v.beautified Proofs/StaticNukeProofs.required_vo: Proofs/StaticNukeProofs.v Compiler/Emit.vo Base/Regex.vo Proofs/NukeProofs.vo Proofs/EmitProofs.vo Proofs/StaticProofs.vo
Proofs/StaticNukeProofs.vio: Proofs/StaticNukeProofs.v Compiler/Emit.vio Base/Regex.vio Proofs/NukeProofs.vio Proofs/EmitProofs.vio Proofs/StaticProofs.vio
Proofs/StaticNukeProofs.vos Proofs/StaticNukeProofs.vok Proofs/StaticNukeProofs.required_vos: Proofs/StaticNukeProofs.v Compiler/Emit.vos Base/Regex.vos Proofs/NukeProofs.vos Proofs/EmitProofs.vos Proofs/StaticProofs.vos
Proofs/SrcMapProofs.vo Proofs/SrcMapProofs.glob Proofs/SrcMapProofs.v.beautified Proofs/SrcMapProofs.required_vo: Proofs/SrcMapProofs.v Compiler/SrcMap.vo
Proofs/SrcMapProofs.vio: Proofs/SrcMapProofs.v Compiler/SrcMap.vio
Proofs/SrcMapProofs.vos Proofs/SrcMapProofs.vok Proofs/SrcMapProofs.required_vos: Proofs/SrcMapProofs.v Compiler/SrcMap.vos
Proofs/TargetProofs.vo Proofs/TargetProofs.glob Proofs/TargetProofs.v.beautified Proofs/TargetProofs.required_vo: Proofs/TargetProofs.v Compiler/Emit.vo Proofs/EmitProofs.vo Proofs/EmitInv.vo Compiler/SrcMap.vo Proofs/SrcMapProofs.vo
Proofs/TargetProofs.vio: Proofs/TargetProofs.v Compiler/Emit.vio Proofs/EmitProofs.vio Proofs/EmitInv.vio Compiler/SrcMap.vio Proofs/SrcMapProofs.vio
Proofs/TargetProofs.vos Proofs/TargetProofs.vok Proofs/TargetProofs.required_vos: Proofs/TargetProofs.v Compiler/Emit.vos Proofs/EmitProofs.vos Proofs/EmitInv.vos Compiler/SrcMap.vos Proofs/SrcMapProofs.vos
Properties/C07.vo Properties/C07.glob Properties/C07.v.beautified Properties/C07.required_vo: Properties/C07.v Compiler/Compile.vo Proofs/EmitProofs.vo Proofs/TargetProofs.vo Proofs/SrcMapProofs.vo
Properties/C07.vio: Properties/C07.v Compiler/Compile.vio Proofs/EmitProofs.vio Proofs/TargetProofs.vio Proofs/SrcMapProofs.vio
Properties/C07.vos Properties/C07.vok Properties/C07.required_vos: Properties/C07.v Compiler/Compile.vos Proofs/EmitProofs.vos Proofs/TargetProofs.vos Proofs/SrcMapProofs.vos
