(** Model of internal/proxy/server.go:925-972 — getPackageFromItemDetail and addImport. *)
From GV Require Export Base.Regex.
Open Scope N_scope.

(** nonImportKeywordRegexp = ^(?:goht|func|var|const|type)\s *)
Definition keyword_then_space (kw : bytes) (line : bytes) : bool :=
  has_prefix kw line &&
  match skipn (List.length kw) line with c :: _ => re_space c | [] => false end.

Definition starts_keyword (line : bytes) : bool :=
  keyword_then_space (lit "goht") line || keyword_then_space (lit "func") line || keyword_then_space (lit "var") line ||
  keyword_then_space (lit "const") line || keyword_then_space (lit "type") line.

Inductive scan_result :=
| FoundGroupEnd (i : nat)
| ScanEnd (last_single : option nat).

(** the loop of addImport: [i] is the index of the head of [lines] *)
Fixpoint scan (lines : list bytes) (i : nat) (in_multi : bool) (last : option nat) : scan_result :=
  match lines with
  | [] => ScanEnd last
  | l :: rest =>
    if has_prefix (lit "import (") l then scan rest (S i) true last
    else if has_prefix (lit "import ") l then scan rest (S i) in_multi (Some i)
    else if has_prefix (lit ")") l && in_multi then FoundGroupEnd i
    else if starts_keyword l then ScanEnd last
    else scan rest (S i) in_multi last
  end.

(** addImport: the line at which to insert and the text to insert *)
Definition proxy_add_import (lines : list bytes) (pkg : bytes) : nat * bytes :=
  match scan lines 0 false None with
  | FoundGroupEnd i => (i, [9] ++ pkg ++ [10])
  | ScanEnd (Some k) => (S k, lit "import " ++ pkg ++ [10])
  | ScanEnd None => (2%nat, lit "import " ++ pkg ++ [10] ++ [10])
  end.

(** completionWithImport = ^.*\(from\s(".+")\)$ : with greedy [.*] the last position from which the rest
    matches; [.] does not match a line break, [\s] does *)
Definition tail_matches (r : bytes) : option bytes :=
  (* r = (from\s".+") to the end: returns the quoted part *)
  if has_prefix (lit "(from") r then
    match skipn 5 r with
    | sp :: q =>
      if re_space sp then
        match q with
        | 34 :: body =>
          match rev body with
          | 41 :: 34 :: mid_rev =>
            match mid_rev with
            | [] => None
            | _ => if mem_byte 10 mid_rev then None else Some (34 :: rev mid_rev ++ [34])
            end
          | _ => None
          end
        | _ => None
        end
      else None
    | [] => None
    end
  else None.

(** scan positions from the left, remembering the last match whose prefix has no line break *)
Fixpoint detail_scan (s : bytes) (prefix_ok : bool) (best : option bytes) : option bytes :=
  match s with
  | [] => best
  | c :: s' =>
    let best' := if prefix_ok then match tail_matches s with Some m => Some m | None => best end else best in
    detail_scan s' (prefix_ok && negb (N.eqb c 10)) best'
  end.

Definition detail_package (detail : bytes) : bytes :=
  match detail_scan detail true None with Some m => m | None => detail end.

(** the document after the edit: [text] inserted in front of line [i] *)
Definition apply_insert (lines : list bytes) (i : nat) (text : bytes) : list bytes :=
  (* text always ends with a line break: its lines, without the final empty piece *)
  let new_lines := removelast (split_byte 10 text) in
  firstn i lines ++ new_lines ++ skipn i lines.

(** which lines a file head declares as imports, line by line (the reading the template compiler's
    outer lexer implements; tied to it by the correspondence run of C20) *)
Definition strip_import (l : bytes) : bytes := trim_left (skipn 7 l).

Fixpoint line_imports (lines : list bytes) (in_group : bool) : list bytes :=
  match lines with
  | [] => []
  | l :: rest =>
    if in_group then
      if has_prefix (lit ")") l then line_imports rest false
      else match trim_left l with
           | [] => line_imports rest true
           | t => t :: line_imports rest true
           end
    else if has_prefix (lit "import (") l then line_imports rest true
    else if has_prefix (lit "import ") l then strip_import l :: line_imports rest false
    else line_imports rest false
  end.

Definition imports_of (lines : list bytes) : list bytes := line_imports lines false.
