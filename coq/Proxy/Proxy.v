(** Model of internal/proxy: server.go (document synchronisation, the overridden request methods, range
    translation, parseTemplate), client.go (PublishDiagnostics, ShowMessage), diagnostics_cache.go,
    document_contents.go (full-text documents), file_names.go, source_map_cache.go.
    A state machine [step : pstate -> event -> pstate * list out * reply].  The compiler as the proxy
    sees it is a [Section] variable, so every theorem holds for any compiler; the executable instance
    used by the correspondence run is the Coq compiler model. *)
From GV Require Export Compiler.Compile Proxy.AddImport.
Open Scope N_scope.

Definition uri := bytes.

Record pos := mkPos { p_line : Z; p_char : Z }.
Record range := mkRange { r_start : pos; r_end : pos }.
Record loc := mkLoc { l_uri : uri; l_range : range }.
Record diag := mkDiag { d_range : range; d_msg : bytes; d_goht : bool (* Source = "goht": the compiler's own *) }.

(** file_names.go *)
Definition suffix_goht : bytes := c_GohtFileExtension.
Definition suffix_goht_go : bytes := c_GeneratedFileExtension.
Definition is_goht_uri (u : uri) : bool := has_suffix suffix_goht u.
Definition is_goht_go_uri (u : uri) : bool := has_suffix suffix_goht_go u.
Definition to_goht_go (u : uri) : uri := u ++ lit ".go".
Definition to_goht (u : uri) : uri := firstn (List.length u - 3) u.

(** what the compiler gives the proxy for a buffer: generated code, source map, parse error (line, column, message) *)
Record compiled := mkC { c_code : bytes; c_map : list smentry; c_err : option (option (Z * Z) * bytes) }.

Fixpoint lookup {A} (k : bytes) (m : list (bytes * A)) : option A :=
  match m with [] => None | (k', v) :: m' => if beqb k k' then Some v else lookup k m' end.
Definition update {A} (k : bytes) (v : A) (m : list (bytes * A)) : list (bytes * A) :=
  (k, v) :: filter (fun kv => negb (beqb (fst kv) k)) m.
Definition remove {A} (k : bytes) (m : list (bytes * A)) : list (bytes * A) :=
  filter (fun kv => negb (beqb (fst kv) k)) m.

Record pstate := mkPS {
  ps_srcs : list (uri * bytes);            (* DocumentContents: template uri -> buffer *)
  ps_smc : list (uri * list smentry);      (* SourceMapCache *)
  ps_gosrcs : list (uri * bytes);          (* Server.goSrcs *)
  ps_dgoht : list (uri * list diag);       (* DiagnosticsCache.gohtDiagnostics *)
  ps_dgo : list (uri * list diag)          (* DiagnosticsCache.goDiagnostics *)
}.
Definition ps_init : pstate := mkPS [] [] [] [] [].

Inductive method :=
| MCompletion | MHover | MDefinition | MDeclaration | MTypeDefinition | MImplementation | MReferences
| MSignatureHelp | MPrepareRename | MOnTypeFormatting | MMoniker | MCodeLens | MCodeAction.

(** calls that reach the Go language server *)
Inductive dsout :=
| DsOpen (u : uri) (lang : bytes) (ver : Z) (text : bytes)
| DsChange (u : uri) (ver : Z) (text : bytes)
| DsClose (u : uri)
| DsSave (u : uri) (text : option bytes)
| DsReq (m : method) (u : uri) (p : pos).

(** notifications that reach the editor *)
Inductive clout :=
| ClDiag (u : uri) (ds : list diag)
| ClMsg (text : bytes).

Inductive out := Ds (o : dsout) | Cl (o : clout).

Inductive event :=
| EOpen (u : uri) (lang : bytes) (ver : Z) (text : bytes)
| EChange (u : uri) (ver : Z) (text : bytes)
| EClose (u : uri)
| ESave (u : uri) (text : option bytes)
| EReq (m : method) (u : uri) (p : pos) (answer : option (list loc))   (* scripted downstream answer; None = nil *)
| EGoDiag (u : uri) (ds : list diag)                                  (* gopls publishes diagnostics *)
| EGoMsg (text : bytes)                                               (* gopls shows a message *)
(* a change in two atomic parts, so that a message of the other connection can be delivered in between:
   part 1 = store the buffer, compile, update the diagnostics cache, notify the editor;
   part 2 = store code and map, forward the change *)
| EChange1 (u : uri) (ver : Z) (text : bytes)
| EChange2 (u : uri) (ver : Z).

Inductive reply :=
| RNone                      (* notification handled, no error *)
| RError                     (* an error was returned to the caller *)
| REmpty                     (* the method's empty answer, downstream not consulted *)
| RNil                       (* downstream's nil answer passed on *)
| RLocs (ls : list loc)      (* locations / ranges (uri empty for ranges in the requesting file) *)
| RAction (ds : list range) (edits : list loc).

Section Proxy.
Variable compile : bytes -> compiled.

Definition s2t_pos (m : list smentry) (p : pos) : option pos :=
  match s2t m (p_line p) (p_char p) with Some (l, c) => Some (mkPos l c) | None => None end.
Definition t2s_pos (m : list smentry) (p : pos) : option pos :=
  match t2s m (p_line p) (p_char p) with Some (l, c) => Some (mkPos l c) | None => None end.

(** goRangeToGohtRange: each end mapped independently if it has a counterpart *)
Definition go_range_to_goht (st : pstate) (u : uri) (r : range) : range :=
  match lookup u (ps_smc st) with
  | None => r
  | Some m =>
    mkRange (match t2s_pos m (r_start r) with Some p => p | None => r_start r end)
            (match t2s_pos m (r_end r) with Some p => p | None => r_end r end)
  end.

(** updatePosition *)
Definition update_position (st : pstate) (u : uri) (p : pos) : option (uri * pos) :=
  if negb (is_goht_uri u) then None
  else match lookup u (ps_smc st) with
       | None => None
       | Some m => match s2t_pos m p with Some q => Some (to_goht_go u, q) | None => None end
       end.

(** locations in generated template files go to their template, through that file's map; others unchanged *)
Definition translate_loc (st : pstate) (l : loc) : loc :=
  if is_goht_go_uri (l_uri l) then
    let gu := to_goht (l_uri l) in mkLoc gu (go_range_to_goht st gu (l_range l))
  else l.

Definition compiler_diag (e : option (Z * Z) * bytes) : diag :=
  let z (n : Z) := if Z.ltb n 1 then 0%Z else (n - 1)%Z in
  match fst e with
  | Some (l, c) => mkDiag (mkRange (mkPos (z l) (z c)) (mkPos (z l) (z c))) (snd e) true
  | None => mkDiag (mkRange (mkPos 0 0) (mkPos 0 0)) (snd e) true
  end.

Definition get_diags (u : uri) (m : list (uri * list diag)) : list diag :=
  match lookup u m with Some d => d | None => [] end.

(** parseTemplate: compiles the buffer, updates the diagnostics cache, notifies the editor *)
Definition parse_template (st : pstate) (u : uri) (text : bytes) : pstate * list out * compiled :=
  let c := compile text in
  match c_err c with
  | Some e =>
    let d := [compiler_diag e] in
    (* WithGoDiagnostics: remember our own, answer with the Go ones followed by ours *)
    let st' := mkPS (ps_srcs st) (ps_smc st) (ps_gosrcs st) (update u d (ps_dgoht st)) (ps_dgo st) in
    (st', [Cl (ClDiag u (get_diags u (ps_dgo st) ++ d))], c)
  | None =>
    let st' := mkPS (ps_srcs st) (ps_smc st) (ps_gosrcs st) (update u [] (ps_dgoht st)) (ps_dgo st) in
    (st', [Cl (ClDiag u [])], c)
  end.

Definition store_compiled (st : pstate) (u : uri) (c : compiled) : pstate :=
  mkPS (ps_srcs st) (update u (c_map c) (ps_smc st)) (update u (c_code c) (ps_gosrcs st)) (ps_dgoht st) (ps_dgo st).

(** the diagnostics translation of client.go *)
Definition translate_diag (m : list smentry) (d : diag) : diag :=
  let r := d_range d in
  match t2s_pos m (r_start r) with
  | None => d
  | Some s =>
    if Z.eqb (p_line (r_start r)) (p_line (r_end r)) then
      let len := (p_char (r_end r) - p_char (r_start r))%Z in
      mkDiag (mkRange s (mkPos (p_line s) (p_char s + len)%Z)) (d_msg d) (d_goht d)
    else match t2s_pos m (r_end r) with
         | None => d
         | Some e => mkDiag (mkRange s e) (d_msg d) (d_goht d)
         end
  end.

Definition position_method (m : method) : bool :=
  match m with MCodeLens | MCodeAction => false | _ => true end.

(** the empty value each method answers with when the position has no counterpart *)
Definition step (st : pstate) (e : event) : pstate * list out * reply :=
  match e with
  | EOpen u lang ver text =>
    if negb (is_goht_uri u) then (st, [Ds (DsOpen u lang ver text)], RNone)
    else
      let st1 := mkPS (update u text (ps_srcs st)) (ps_smc st) (ps_gosrcs st) (ps_dgoht st) (ps_dgo st) in
      let '(st2, outs, c) := parse_template st1 u text in
      let st3 := store_compiled st2 u c in
      (st3, outs ++ [Ds (DsOpen (to_goht_go u) (lit "go") ver (c_code c))], RNone)
  | EChange u ver text =>
    if negb (is_goht_uri u) then (st, [], RNone)
    else match lookup u (ps_srcs st) with
         | None => (st, [], RError)
         | Some _ =>
           let st1 := mkPS (update u text (ps_srcs st)) (ps_smc st) (ps_gosrcs st) (ps_dgoht st) (ps_dgo st) in
           let '(st2, outs, c) := parse_template st1 u text in
           let st3 := store_compiled st2 u c in
           (st3, outs ++ [Ds (DsChange (to_goht_go u) ver (c_code c))], RNone)
         end
  | EClose u =>
    if negb (is_goht_uri u) then (st, [Ds (DsClose u)], RNone)
    else (mkPS (remove u (ps_srcs st)) (ps_smc st) (remove u (ps_gosrcs st)) (ps_dgoht st) (ps_dgo st),
          [Ds (DsClose (to_goht_go u))], RNone)
  | ESave u text =>
    if negb (is_goht_uri u) then (st, [Ds (DsSave u text)], RNone)
    else
      let text' := match text with
                   | Some _ => Some (match lookup u (ps_gosrcs st) with Some g => g | None => [] end)
                   | None => None
                   end in
      (st, [Ds (DsSave (to_goht_go u) text')], RNone)
  | EReq m u p answer =>
    if position_method m then
      match update_position st u p with
      | None => (st, [], REmpty)
      | Some (gu, q) =>
        let outs := [Ds (DsReq m gu q)] in
        match answer with
        | None => (st, outs, RNil)
        | Some ls =>
          match m with
          | MDefinition | MDeclaration | MTypeDefinition | MImplementation | MReferences =>
            (st, outs, RLocs (map (translate_loc st) ls))
          | MHover | MPrepareRename =>
            match ls with
            | [] => (st, outs, RNil)
            | l :: _ => (st, outs, RLocs [mkLoc [] (go_range_to_goht st u (l_range l))])
            end
          | MCompletion | MOnTypeFormatting =>
            (st, outs, RLocs (map (fun l => mkLoc [] (go_range_to_goht st u (l_range l))) ls))
          | _ => (st, outs, RLocs [])
          end
        end
      end
    else if negb (is_goht_uri u) then (st, [Ds (DsReq m u p)], match answer with Some ls => RLocs ls | None => RNil end)
    else
      let outs := [Ds (DsReq m (to_goht_go u) p)] in
      match answer with
      | None => (st, outs, RNil)
      | Some ls =>
        match m with
        | MCodeLens => (st, outs, RLocs (map (fun l => mkLoc [] (go_range_to_goht st u (l_range l))) ls))
        | _ =>
          (* one code action: a diagnostic on the first range, one text document edit per location *)
          (st, outs, RAction (match ls with l :: _ => [go_range_to_goht st u (l_range l)] | [] => [] end)
                             (map (translate_loc st) ls))
        end
      end
  | EGoDiag u ds =>
    let gu := if is_goht_go_uri u then to_goht u else [] in
    match lookup gu (ps_smc st) with
    | None => (st, [], RError)
    | Some m =>
      let ds' := map (translate_diag m) ds in
      let st' := mkPS (ps_srcs st) (ps_smc st) (ps_gosrcs st) (ps_dgoht st) (update gu ds' (ps_dgo st)) in
      (st', [Cl (ClDiag gu (get_diags gu (ps_dgoht st) ++ ds'))], RNone)
    end
  | EGoMsg text =>
    if has_prefix c_doNotEditMessage text then (st, [], RNone) else (st, [Cl (ClMsg text)], RNone)
  | EChange1 u ver text =>
    if negb (is_goht_uri u) then (st, [], RNone)
    else match lookup u (ps_srcs st) with
         | None => (st, [], RError)
         | Some _ =>
           let st1 := mkPS (update u text (ps_srcs st)) (ps_smc st) (ps_gosrcs st) (ps_dgoht st) (ps_dgo st) in
           let '(st2, outs, _) := parse_template st1 u text in
           (st2, outs, RNone)
         end
  | EChange2 u ver =>
    match lookup u (ps_srcs st) with
    | None => (st, [], RError)
    | Some text =>
      let c := compile text in
      (store_compiled st u c, [Ds (DsChange (to_goht_go u) ver (c_code c))], RNone)
    end
  end.

Fixpoint run (st : pstate) (es : list event) : pstate * list (list out * reply) :=
  match es with
  | [] => (st, [])
  | e :: rest =>
    let '(st1, outs, r) := step st e in
    let '(st2, tr) := run st1 rest in
    (st2, (outs, r) :: tr)
  end.

End Proxy.

(** the executable instance: the Coq model of the compiler *)
Definition model_compile (text : bytes) : compiled :=
  match compile_parse text with
  | ODone t e =>
    let '(code, adds, _) := compose t in
    mkC code (sm_entries adds)
        (match e with
         | None => None
         | Some (PosErr l c m) => Some (Some (l, c), perr_string (PosErr l c m))
         | Some (PlainErr m) => Some (None, m)
         end)
  | _ => mkC [] [] (Some (None, lit "model: compiler did not return"))
  end.
