(** The lexer never spins (C06): between two tokens it makes a number of state calls bounded linearly in the
    input, for every input; so the only way left for the model to report a hang is the parser's own loop budget. *)
From GV Require Import Compiler.Compile Proofs.LexProofs Proofs.LexSafeProofs Proofs.NoDeadlockProofs Proofs.NoPanicProofs
  Proofs.LexProgressProofs Proofs.LexPumpProofs.
From Coq Require Import Lia.
Open Scope N_scope.

Definition live (n : nat) (lx : lexer) : Prop := safe lx /\ (A (lx_st lx) <= n)%nat.

Lemma mu_bound st l : (mu st l < rk_levels * (A l + 1))%nat.
Proof. unfold mu. destruct (rk_bound st) as [B0 B1]. destruct (Nat.eqb (A l) 0); lia. Qed.

Lemma next_token_not_budget fuel : forall lx, next_token fuel lx <> PBudget.
Proof.
  induction fuel as [|f IH]; intro lx; destruct lx as [st l q bl]; cbn [next_token lx_queue lx_state lx_st]; destruct q; try discriminate.
  - destruct st; discriminate.
  - assert (Hs : forall st0, (let '(st', l') := step st0 l in
                   if l_panic l' then PPanic
                   else if Nat.ltb c_token_queue_cap (List.length (List.rev (l_out l'))) then PDeadlock
                        else next_token f (mkLexer st' (with_out l' []) (List.rev (l_out l')) false)) <> PBudget).
    { intro st0. destruct (step st0 l) as [st' l']. destruct (l_panic l'); [discriminate|]. destruct (Nat.ltb _ _); [discriminate|]. apply IH. }
    destruct st; try apply Hs. discriminate.
Qed.

Theorem next_token_live n fuel lx : (rk_levels * (n + 1) <= fuel)%nat -> live n lx ->
  match next_token fuel lx with PTok _ lx' => live n lx' | _ => False end.
Proof.
  intros Hf [Hs Ha]. pose proof (next_token_safe fuel lx Hs) as H1.
  assert (Hol : ol (lx_st lx) = 0%nat) by apply Hs.
  pose proof (next_token_never_spins fuel lx Hol) as H2. pose proof (next_token_not_budget fuel lx) as H3.
  pose proof (next_token_A fuel lx) as H4.
  pose proof (mu_bound (lx_state lx) (lx_st lx)) as Hm.
  destruct (next_token fuel lx) as [t lx'| | | |]; try contradiction.
  - split; [exact H1|]. specialize (H4 t lx' Hol eq_refl). lia.
  - apply H2; [|reflexivity]. unfold rk_levels in *. nia.
Qed.

Lemma lex_fuel_enough input : (rk_levels * (List.length input + 1) <= lex_fuel input)%nat.
Proof. unfold lex_fuel, rk_levels. lia. Qed.

(** every outcome of the lexer but a token is excluded; what remains is the budget of the parser's loop *)
Theorem parse_crash_only_budget input c : parse_bytes input = Crashed c -> c = PBudget.
Proof.
  intro K.
  assert (G : ~ (c <> PBudget)).
  { refine (parse_never_bad (live (List.length input)) (fun c => c <> PBudget) input _ _ _ c K).
    - intros lx H. pose proof (next_token_live _ _ lx (lex_fuel_enough input) H) as Hn.
      destruct (next_token (lex_fuel input) lx); try contradiction. exact Hn.
    - intro H. apply H. reflexivity.
    - split; [split; [reflexivity|apply init_base]|apply Nat.le_refl]. }
  destruct c; try reflexivity; exfalso; apply G; discriminate.
Qed.

Theorem lexer_never_spins input : parse_bytes input <> Crashed PHang.
Proof. intro K. apply parse_crash_only_budget in K. discriminate. Qed.

Theorem compile_hang_only_parser_budget input : compile_parse input = OHang -> parse_bytes input = Crashed PBudget.
Proof.
  unfold compile_parse. destruct (parse_bytes input) as [t e|c] eqn:E; [discriminate|].
  pose proof (parse_crash_only_budget input c E) as ->. reflexivity.
Qed.
