(** A generic invariant principle for the lexer cursor: a property [B] of the cursor between operations, with an
    auxiliary [F] that holds right after a rune was read, once shown for the primitives (next, backup, the drop of
    the last rune, peekAhead, ignore, emit, errorf, the two field updates) holds after every helper and after every
    state function.  Instantiated for "no index out of range" (LexSafeProofs) and for "token lines lie inside the
    file" (LexLineProofs). *)
From GV Require Import Compiler.Lexer.
From Coq Require Import Lia ZArith.
Open Scope N_scope.

Definition Quiet (l : lexst) : Prop := l_width l = 0%nat.

Create HintDb lbase.

Section CursorInv.
Variables B F : lexst -> Prop.
Hypothesis H_next : forall l, B l ->
  B (snd (next l)) /\ match fst (next l) with Some _ => F (snd (next l)) | None => Quiet (snd (next l)) end.
Hypothesis H_backup : forall l, B l -> F l \/ Quiet l -> B (backup l).
Hypothesis H_drop : forall l, B l -> F l \/ Quiet l -> B (drop_width l).
Hypothesis peek_ahead_base : forall n l, B l -> B (snd (peek_ahead n l)).
Hypothesis ignore_base : forall l, B l -> B (ignore l).
Hypothesis with_indent_base : forall l i, B l -> B (with_indent l i).
Hypothesis emit_base : forall t l, B l -> B (emit t l).
Hypothesis errorf_base : forall m l, B l -> B (snd (errorf m l)).

Lemma Base_fq l : B l -> B (snd (next l)) /\ (F (snd (next l)) \/ Quiet (snd (next l))).
Proof. intro H. destruct (H_next l H) as [HB Hf]. split; [exact HB|]. destruct (fst (next l)); [left|right]; exact Hf. Qed.

Lemma peek_base l : B l -> B (snd (peek l)).
Proof.
  intro H. unfold peek. destruct (Base_fq l H) as [HB Hf]. destruct (next l) as [r l1]. cbn [snd] in *. apply H_backup; assumption.
Qed.



Lemma skip_base l : B l -> B (snd (skip l)).
Proof.
  intro H. unfold skip. destruct (Base_fq l H) as [HB Hf]. destruct (next l) as [r l1]. cbn [snd] in *. apply H_drop; assumption.
Qed.

Lemma accept_run_aux_base fuel valid : forall l, B l -> B (accept_run_aux fuel valid l).
Proof.
  induction fuel as [|x f IH]; intros l H; cbn [accept_run_aux]; destruct (Base_fq l H) as [HB Hf]; destruct (next l) as [r l1]; cbn [snd] in *;
    destruct (in_set valid r); try exact HB; try (apply IH; exact HB); apply H_backup; assumption.
Qed.
Lemma accept_run_base valid l : B l -> B (accept_run valid l).
Proof. apply accept_run_aux_base. Qed.

Lemma accept_until_aux_base fuel inv : forall l, B l -> B (accept_until_aux fuel inv l).
Proof.
  induction fuel as [|x f IH]; intros l H; cbn [accept_until_aux]; destruct (Base_fq l H) as [HB Hf]; destruct (next l) as [r l1]; cbn [snd] in *;
    destruct r as [c|]; try (apply H_backup; assumption);
    destruct (in_set inv (Some c)); try exact HB; try (apply IH; exact HB); apply H_backup; assumption.
Qed.
Lemma accept_until_base inv l : B l -> B (accept_until inv l).
Proof. apply accept_until_aux_base. Qed.

Lemma skip_run_aux_base fuel set : forall l, B l -> B (skip_run_aux fuel set l).
Proof.
  induction fuel as [|x f IH]; intros l H; cbn [skip_run_aux]; destruct (Base_fq l H) as [HB Hf]; destruct (next l) as [r l1]; cbn [snd] in *;
    destruct (in_set set r); try (apply H_backup; assumption); try (apply IH); apply H_drop; assumption.
Qed.
Lemma skip_run_base set l : B l -> B (skip_run set l).
Proof. apply skip_run_aux_base. Qed.

Lemma skip_until_aux_base fuel stop : forall l, B l -> B (skip_until_aux fuel stop l).
Proof.
  induction fuel as [|x f IH]; intros l H; cbn [skip_until_aux]; destruct (Base_fq l H) as [HB Hf]; destruct (next l) as [r l1]; cbn [snd] in *;
    destruct r as [c|]; try (apply H_backup; assumption);
    destruct (in_set stop (Some c)); try (apply H_backup; assumption); try (apply IH); apply H_drop; assumption.
Qed.
Lemma skip_until_base stop l : B l -> B (skip_until stop l).
Proof. apply skip_until_aux_base. Qed.

Lemma next_n_base n : forall l, B l -> B (next_n n l).
Proof. induction n as [|k IH]; intros l H; [exact H|]. cbn [next_n]. apply IH. apply (Base_fq l H). Qed.
Lemma skip_ahead_base n l : B l -> B (skip_ahead n l).
Proof. intro H. unfold skip_ahead. apply ignore_base. apply next_n_base. exact H. Qed.





Lemma to_quote_aux_base fuel q : forall esc l, B l ->
  B (snd (to_quote_aux fuel q esc l)) /\ (F (snd (to_quote_aux fuel q esc l)) \/ Quiet (snd (to_quote_aux fuel q esc l))).
Proof.
  induction fuel as [|x f IH]; intros esc l H; cbn [to_quote_aux]; destruct (Base_fq l H) as [HB Hf]; destruct (next l) as [r l1]; cbn [snd] in *;
    destruct r as [c|]; cbn [snd]; try (split; assumption);
    destruct (N.eqb c q && negb esc); cbn [snd]; try (split; assumption); apply IH; exact HB.
Qed.

Lemma to_brace_aux_base fuel e : forall esc inq qs l, B l ->
  B (snd (to_brace_aux fuel e esc inq qs l)) /\ (F (snd (to_brace_aux fuel e esc inq qs l)) \/ Quiet (snd (to_brace_aux fuel e esc inq qs l))).
Proof.
  induction fuel as [|x f IH]; intros esc inq qs l H; cbn [to_brace_aux]; destruct (Base_fq l H) as [HB Hf]; destruct (next l) as [r l1]; cbn [snd] in *;
    destruct r as [c|]; cbn [snd]; try (split; assumption);
    repeat match goal with |- context [if ?b then _ else _] => destruct b end; cbn [snd]; try (split; assumption); apply IH; exact HB.
Qed.
Lemma brace_base e l : B l ->
  B (snd (continue_to_matching_brace e l)) /\ (F (snd (continue_to_matching_brace e l)) \/ Quiet (snd (continue_to_matching_brace e l))).
Proof. apply to_brace_aux_base. Qed.

Lemma quote_base typ cap l : B l -> B (snd (continue_to_matching_quote typ cap l)).
Proof.
  intro H. unfold continue_to_matching_quote. pose proof (peek_base l H) as Hp. destruct (peek l) as [q l0]. cbn [snd] in Hp.
  destruct q as [qc|]; cbn [snd]; [|exact Hp]. destruct (N.eqb qc 96 || N.eqb qc 34); cbn [snd]; [|exact Hp].
  set (l1 := if cap then snd (next l0) else snd (skip l0)).
  assert (H1 : B l1) by (subst l1; destruct cap; [apply (Base_fq l0 Hp)|apply skip_base; exact Hp]).
  destruct (to_quote_aux_base (l_after l1) qc false l1 H1) as [H2 Hf2].
  destruct (to_quote_aux (l_after l1) qc false l1) as [r l2]. cbn [snd] in *.
  destruct r; cbn [snd]; [|exact H2]. destruct cap; cbn [snd].
  - apply emit_base. exact H2.
  - apply skip_base. apply emit_base. apply H_backup; assumption.
Qed.

Lemma haml_identifier_base typ l : B l -> B (snd (haml_identifier typ l)).
Proof.
  intro H. unfold haml_identifier.
  assert (H2 : B (accept_until c_mayFollowIdentifier (snd (skip l)))) by (apply accept_until_base; apply skip_base; exact H).
  destruct (current _); [apply errorf_base|cbn [snd]; apply emit_base]; exact H2.
Qed.

Lemma goht_start_loop_base fuel : forall l, B l -> B (snd (goht_start_loop fuel l)).
Proof.
  induction fuel as [|x f IH]; intros l H; cbn [goht_start_loop];
    pose proof (accept_until_base (lit ")") l H) as H1;
    (destruct (Nat.eqb _ _); [cbn [snd]; exact H1|]);
    destruct (Base_fq _ H1) as [H2 _]; destruct (next (accept_until (lit ")") l)) as [r l2]; cbn [snd] in *;
    destruct r; cbn [snd]; try exact H2; apply IH; exact H2.
Qed.

Lemma next_base l : B l -> B (snd (next l)).
Proof. intro H. apply (Base_fq l H). Qed.
Lemma brace_base1 e l : B l -> B (snd (continue_to_matching_brace e l)).
Proof. intro H. apply (brace_base e l H). Qed.
Lemma backup_fq l : B l -> F l \/ Quiet l -> B (backup l).
Proof. apply H_backup. Qed.

Local Hint Resolve peek_base peek_ahead_base ignore_base skip_base accept_run_base accept_until_base skip_run_base
  skip_until_base skip_ahead_base with_indent_base  emit_base errorf_base quote_base haml_identifier_base
  goht_start_loop_base next_base brace_base1 backup_fq : lbase.

Ltac bs := eauto 14 with lbase.

Ltac pairb f x :=
  let H := fresh "Hb" in assert (H : B (snd (f x))) by bs; destruct (f x) as [? ?]; cbn [snd] in H.

Ltac safe_case :=
  repeat first
  [ match goal with
    | |- context [match peek ?x with _ => _ end] => pairb peek x
    | |- context [match next ?x with _ => _ end] =>
        let H := fresh "Hb" in let H' := fresh "Hf" in
        assert (H : B (snd (next x)) /\ (F (snd (next x)) \/ Quiet (snd (next x)))) by (apply Base_fq; bs);
        destruct (next x) as [? ?]; cbn [snd] in H; destruct H as [H H']
    | |- context [match skip ?x with _ => _ end] => pairb skip x
    | |- context [match peek_ahead ?n ?x with _ => _ end] => pairb (peek_ahead n) x
    | |- context [match continue_to_matching_brace ?e ?x with _ => _ end] =>
        let H := fresh "Hb" in let H' := fresh "Hf" in
        assert (H : B (snd (continue_to_matching_brace e x)) /\ (F (snd (continue_to_matching_brace e x)) \/ Quiet (snd (continue_to_matching_brace e x)))) by (apply brace_base; bs);
        destruct (continue_to_matching_brace e x) as [? ?]; cbn [snd] in H; destruct H as [H H']
    | |- context [match goht_start_loop ?f ?x with _ => _ end] => pairb (goht_start_loop f) x
    | |- context [match continue_to_matching_quote ?t ?c ?x with _ => _ end] => pairb (continue_to_matching_quote t c) x
    | |- context [haml_identifier ?t ?x] => pairb (haml_identifier t) x
    | |- context [errorf ?m ?x] => pairb (errorf m) x
    end
  | match goal with
    | |- context [if ?c then _ else _] => destruct c
    | |- context [match ?x with _ => _ end] => destruct x
    end ];
  cbn [snd fst]; bs.

Theorem step_inv st l : B l -> B (snd (step st l)).
Proof.
  intro H. destruct st; unfold step; cbv zeta.
  all: safe_case.
Qed.

End CursorInv.
