(** addImport inserts exactly one import and disturbs nothing else (property C20). *)
From GV Require Import Proxy.AddImport.
From Coq Require Import Sorting.Permutation.
Open Scope N_scope.

(** the group state [line_imports] is in after reading a prefix *)
Fixpoint group_state (lines : list bytes) (g : bool) : bool :=
  match lines with
  | [] => g
  | l :: rest =>
    if g then (if has_prefix (lit ")") l then group_state rest false else group_state rest true)
    else if has_prefix (lit "import (") l then group_state rest true
    else group_state rest false
  end.

Lemma line_imports_app a : forall b g,
  line_imports (a ++ b) g = line_imports a g ++ line_imports b (group_state a g).
Proof.
  induction a as [|l a IH]; intros b g; [reflexivity|].
  cbn [app line_imports group_state]. destruct g.
  - destruct (has_prefix (lit ")") l); [apply IH|].
    destruct (trim_left l); [apply IH|]. cbn [app]. f_equal. apply IH.
  - destruct (has_prefix (lit "import (") l); [apply IH|].
    destruct (has_prefix (lit "import ") l); [cbn [app]; f_equal|]; apply IH.
Qed.

(** splitting a text that consists of lines each ended by a line break *)
Lemma split_aux_line s : forall cur t, ~ In 10 s ->
  split_byte_aux 10 (s ++ 10 :: t) cur = (rev cur ++ s) :: split_byte_aux 10 t [].
Proof.
  induction s as [|x s IH]; intros cur t Hn; cbn [app split_byte_aux].
  - rewrite N.eqb_refl, app_nil_r. reflexivity.
  - destruct (N.eqb_spec x 10) as [E|E]; [exfalso; apply Hn; left; auto|].
    rewrite IH by (intro H; apply Hn; right; exact H).
    cbn [rev]. rewrite <- app_assoc. reflexivity.
Qed.

Lemma new_lines_one s : ~ In 10 s -> removelast (split_byte 10 (s ++ [10])) = [s].
Proof.
  intro Hn. unfold split_byte. rewrite split_aux_line by exact Hn. reflexivity.
Qed.

Lemma new_lines_two s : ~ In 10 s -> removelast (split_byte 10 (s ++ [10] ++ [10])) = [s; []].
Proof.
  intro Hn. unfold split_byte. cbn [app]. rewrite split_aux_line by exact Hn.
  change (10 :: []) with ([] ++ 10 :: []). rewrite split_aux_line by (intros []). reflexivity.
Qed.

(** a package path as the completion detail carries it: quoted, on one line *)
Definition quoted (q : bytes) : Prop := (exists body, q = 34 :: body) /\ ~ In 10 q.

Lemma in_app_not (a b : bytes) x : ~ In x a -> ~ In x b -> ~ In x (a ++ b).
Proof. intros Ha Hb H. apply in_app_or in H as [H|H]; auto. Qed.

Lemma lit_import_no_nl : ~ In 10 (lit "import ").
Proof. cbn. intuition discriminate. Qed.

(** the inserted single-line import reads back as the import [q] *)
Lemma single_line_reads q : quoted q ->
  line_imports [lit "import " ++ q] false = [q].
Proof.
  intros [[body ->] _]. reflexivity.
Qed.

Lemma group_item_reads q rest : quoted q ->
  line_imports (([9] ++ q) :: rest) true = q :: line_imports rest true.
Proof.
  intros [[body ->] _]. reflexivity.
Qed.

Lemma i_line_not_paren p l : has_prefix (105 :: p) l = true -> has_prefix (lit ")") l = false.
Proof.
  destruct l as [|c l']; [discriminate|]. cbn [has_prefix lit N_of_ascii]. 
  destruct (N.eqb_spec 105 c) as [<-|Hc]; [intros _; reflexivity|discriminate].
Qed.

(** while scanning, [in_multi] of addImport and the group state of the reading agree, and the scan stops at the
    first line closing the group *)
Lemma scan_group lines : forall i0 m last i,
  scan lines i0 m last = FoundGroupEnd i ->
  exists j, i = (i0 + j)%nat /\ (j < List.length lines)%nat /\ group_state (firstn j lines) m = true /\
            has_prefix (lit ")") (nth j lines []) = true.
Proof.
  induction lines as [|l rest IH]; intros i0 m last i H; [discriminate|].
  cbn [scan] in H.
  destruct (has_prefix (lit "import (") l) eqn:Eg.
  - apply IH in H as [j [Hi [Hj [Hs Hp]]]]. exists (S j). repeat split; try (cbn [List.length]; lia).
    + cbn [firstn group_state]. destruct m.
      * (* a line "import (" does not start with ")" *)
        rewrite (i_line_not_paren _ _ Eg).
        exact Hs.
      * rewrite Eg. exact Hs.
    + exact Hp.
  - destruct (has_prefix (lit "import ") l) eqn:Es.
    + apply IH in H as [j [Hi [Hj [Hs Hp]]]]. exists (S j). repeat split; try (cbn [List.length]; lia).
      * cbn [firstn group_state]. destruct m.
        -- rewrite (i_line_not_paren _ _ Es).
           exact Hs.
        -- rewrite Eg. exact Hs.
      * exact Hp.
    + destruct (has_prefix (lit ")") l && m) eqn:Ec.
      * inversion H; subst. apply andb_true_iff in Ec as [Ec Em]. subst m.
        exists 0%nat. repeat split; try (cbn [List.length]; lia). exact Ec.
      * destruct (starts_keyword l); [discriminate|].
        apply IH in H as [j [Hi [Hj [Hs Hp]]]]. exists (S j). repeat split; try (cbn [List.length]; lia).
        -- cbn [firstn group_state]. destruct m.
           ++ rewrite andb_true_r in Ec. rewrite Ec. exact Hs.
           ++ rewrite Eg. exact Hs.
        -- exact Hp.
Qed.

Lemma firstn_skipn_nth {A} (l : list A) j d : (j < List.length l)%nat -> skipn j l = nth j l d :: skipn (S j) l.
Proof.
  revert j; induction l as [|x l IH]; intros j H; [cbn in H; lia|].
  destruct j; [reflexivity|]. cbn [skipn nth]. apply IH. cbn in H. lia.
Qed.

(** * The three cases of addImport *)

(** inside an import group: the new item becomes the last item of that group *)
Theorem add_import_group lines q i :
  quoted q -> scan lines 0 false None = FoundGroupEnd i ->
  proxy_add_import lines q = (i, [9] ++ q ++ [10]) /\
  imports_of (apply_insert lines i ([9] ++ q ++ [10])) =
    imports_of (firstn i lines) ++ [q] ++ imports_of (skipn (S i) lines) /\
  imports_of lines = imports_of (firstn i lines) ++ imports_of (skipn (S i) lines).
Proof.
  intros Hq Hs. unfold proxy_add_import. rewrite Hs. split; [reflexivity|].
  apply scan_group in Hs as [j [Hi [Hj [Hg Hp]]]]. cbn in Hi. subst j.
  unfold apply_insert, imports_of.
  assert (Hnl : ~ In 10 ([9] ++ q)).
  { apply in_app_not; [cbn; intuition discriminate|apply Hq]. }
  replace ([9] ++ q ++ [10]) with (([9] ++ q) ++ [10]) by (rewrite <- app_assoc; reflexivity).
  rewrite (new_lines_one _ Hnl).
  rewrite (firstn_skipn_nth lines i [] Hj).
  split.
  - rewrite line_imports_app, Hg. cbn [app]. rewrite (group_item_reads _ _ Hq).
    cbn [line_imports]. rewrite Hp. reflexivity.
  - rewrite <- (firstn_skipn i lines) at 1. rewrite line_imports_app, Hg.
    rewrite (firstn_skipn_nth lines i [] Hj). cbn [line_imports]. rewrite Hp. reflexivity.
Qed.

(** no line of the document opens an import group *)
Definition no_group (lines : list bytes) : Prop := Forall (fun l => has_prefix (lit "import (") l = false) lines.

Lemma no_group_state lines : no_group lines -> group_state lines false = false.
Proof. induction 1 as [|l rest Hl _ IH]; [reflexivity|]. cbn [group_state]. rewrite Hl. exact IH. Qed.

Lemma no_group_firstn lines : forall n, no_group lines -> no_group (firstn n lines).
Proof.
  induction lines as [|l rest IH]; intros [|n] H; cbn [firstn]; try constructor.
  - inversion H; assumption.
  - apply IH. inversion H; assumption.
Qed.

Lemma scan_some_bound lines : forall i0 m last k,
  scan lines i0 m last = ScanEnd (Some k) -> last = Some k \/ (i0 <= k < i0 + List.length lines)%nat.
Proof.
  induction lines as [|l rest IH]; intros i0 m last k H; cbn [scan] in H.
  - inversion H. auto.
  - destruct (has_prefix (lit "import (") l).
    + apply IH in H as [H|H]; [auto|right; cbn [List.length]; lia].
    + destruct (has_prefix (lit "import ") l).
      * apply IH in H as [H|H]; [inversion H; subst; right; cbn [List.length]; lia|right; cbn [List.length]; lia].
      * destruct (has_prefix (lit ")") l && m); [discriminate|].
        destruct (starts_keyword l); [inversion H; auto|].
        apply IH in H as [H|H]; [auto|right; cbn [List.length]; lia].
Qed.

(** single-line imports: the new import follows the last of them *)
Theorem add_import_single lines q k :
  quoted q -> no_group lines -> scan lines 0 false None = ScanEnd (Some k) ->
  proxy_add_import lines q = (S k, lit "import " ++ q ++ [10]) /\
  (k < List.length lines)%nat /\
  imports_of (apply_insert lines (S k) (lit "import " ++ q ++ [10])) =
    imports_of (firstn (S k) lines) ++ [q] ++ imports_of (skipn (S k) lines) /\
  imports_of lines = imports_of (firstn (S k) lines) ++ imports_of (skipn (S k) lines).
Proof.
  intros Hq Hng Hs. unfold proxy_add_import. rewrite Hs. split; [reflexivity|].
  apply scan_some_bound in Hs as [Hs|Hs]; [discriminate|]. split; [lia|].
  unfold apply_insert, imports_of.
  assert (Hnl : ~ In 10 (lit "import " ++ q)) by (apply in_app_not; [apply lit_import_no_nl|apply Hq]).
  replace (lit "import " ++ q ++ [10]) with ((lit "import " ++ q) ++ [10]) by (rewrite <- app_assoc; reflexivity).
  rewrite (new_lines_one _ Hnl).
  pose proof (no_group_state _ (no_group_firstn _ (S k) Hng)) as Hg.
  split.
  - rewrite line_imports_app, Hg. f_equal.
    change ([lit "import " ++ q] ++ skipn (S k) lines) with ((lit "import " ++ q) :: skipn (S k) lines).
    destruct Hq as [[body ->] _]. reflexivity.
  - rewrite <- (firstn_skipn (S k) lines) at 1. rewrite line_imports_app, Hg. reflexivity.
Qed.

(** no imports yet: the import goes below the package clause and its blank line *)
Theorem add_import_none lines q :
  quoted q -> no_group (firstn 2 lines) -> scan lines 0 false None = ScanEnd None ->
  proxy_add_import lines q = (2%nat, lit "import " ++ q ++ [10] ++ [10]) /\
  imports_of (apply_insert lines 2 (lit "import " ++ q ++ [10] ++ [10])) =
    imports_of (firstn 2 lines) ++ [q] ++ imports_of (skipn 2 lines) /\
  imports_of lines = imports_of (firstn 2 lines) ++ imports_of (skipn 2 lines).
Proof.
  intros Hq Hng Hs. unfold proxy_add_import. rewrite Hs. split; [reflexivity|].
  unfold apply_insert, imports_of.
  assert (Hnl : ~ In 10 (lit "import " ++ q)) by (apply in_app_not; [apply lit_import_no_nl|apply Hq]).
  replace (lit "import " ++ q ++ [10] ++ [10]) with ((lit "import " ++ q) ++ [10] ++ [10]) by (rewrite <- app_assoc; reflexivity).
  rewrite (new_lines_two _ Hnl).
  pose proof (no_group_state _ Hng) as Hg.
  split.
  - rewrite line_imports_app, Hg. f_equal.
    destruct Hq as [[body ->] _]. reflexivity.
  - rewrite <- (firstn_skipn 2 lines) at 1. rewrite line_imports_app, Hg. reflexivity.
Qed.

(** in every case: exactly the previous imports plus the new one *)
Corollary add_import_permutation (old_a old_b : list bytes) (q : bytes) (new : list bytes) :
  new = old_a ++ [q] ++ old_b -> Permutation new (q :: old_a ++ old_b).
Proof. intros ->. apply Permutation_sym, Permutation_middle. Qed.

(** getPackageFromItemDetail on the form gopls emits: ... (from "path") *)
Lemma mem_byte_false c l : ~ In c l -> mem_byte c l = false.
Proof.
  induction l as [|x l IH]; intro H; [reflexivity|]. cbn [mem_byte].
  destruct (N.eqb_spec c x) as [->|Hx]; [exfalso; apply H; left; reflexivity|].
  cbn [orb]. apply IH. intro Hin. apply H. right. exact Hin.
Qed.

Lemma tail_matches_exact p : p <> [] -> ~ In 10 p ->
  tail_matches (40 :: 102 :: 114 :: 111 :: 109 :: 32 :: 34 :: p ++ [34; 41]) = Some (34 :: p ++ [34]).
Proof.
  intros Hp Hn. unfold tail_matches.
  change (has_prefix (lit "(from") (40 :: 102 :: 114 :: 111 :: 109 :: 32 :: 34 :: p ++ [34; 41])) with true.
  cbn [skipn]. change (re_space 32) with true. cbn iota.
  rewrite rev_app_distr. cbn [rev app].
  destruct (rev p) as [|x l] eqn:Er.
  - exfalso. apply Hp. rewrite <- (rev_involutive p), Er. reflexivity.
  - rewrite <- Er. rewrite mem_byte_false.
    + rewrite rev_involutive. reflexivity.
    + intro H. apply Hn. apply in_rev. exact H.
Qed.
