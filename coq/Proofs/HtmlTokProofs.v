(** What "document structure" means for property C02, as a state machine: the tag-level part of the WHATWG HTML
    tokenizer (data, tag open, end tag open, tag name, attribute name / value states, self-closing, bogus comment)
    reading bytes and reporting STRUCTURAL events: a start or end tag begins, a byte of a tag or attribute name, an
    attribute begins, a tag ends.  Character data and the bytes of attribute VALUES are not structure.
    Theorem: an html-escaped value, inserted where the tokenizer is in the data state or inside a quoted attribute
    value, produces no event and leaves the tokenizer in the same state; hence the structure of the whole document
    is the structure of the document with nothing inserted, whatever the value.  The unquoted attribute value state
    and the name states are NOT safe (witnesses below): goht always writes the quotes, and known finding F38 is
    exactly an insertion in the tag name state. *)
From GV Require Import Base.GoStr Proofs.EscapeProofs.
Open Scope N_scope.

Inductive tstate :=
| Data | TagOpen | EndTagOpen | TagName | BeforeAttrName | AttrName | AfterAttrName | BeforeAttrVal
| AttrDQ | AttrSQ | AttrUnq | AfterAttrQ | SelfClosing | Bogus.

Inductive event := HOpen | HClose | HTagEnd | HAttr | HName (c : N).

Definition is_ws (c : N) : bool := N.eqb c 9 || N.eqb c 10 || N.eqb c 12 || N.eqb c 13 || N.eqb c 32.
Definition is_alpha (c : N) : bool := (N.leb 65 c && N.leb c 90) || (N.leb 97 c && N.leb c 122).

Definition before_attr_name (c : N) : tstate * list event :=
  if is_ws c then (BeforeAttrName, [])
  else if N.eqb c 47 then (SelfClosing, [])
  else if N.eqb c 62 then (Data, [HTagEnd])
  else (AttrName, [HAttr; HName c]).

Definition hstep (st : tstate) (c : N) : tstate * list event :=
  match st with
  | Data => if N.eqb c 60 then (TagOpen, []) else (Data, [])
  | TagOpen =>
    if N.eqb c 47 then (EndTagOpen, [])
    else if is_alpha c then (TagName, [HOpen; HName c])
    else if N.eqb c 33 || N.eqb c 63 then (Bogus, [])
    else if N.eqb c 60 then (TagOpen, []) else (Data, [])
  | EndTagOpen =>
    if is_alpha c then (TagName, [HClose; HName c])
    else if N.eqb c 62 then (Data, []) else (Bogus, [])
  | TagName =>
    if is_ws c then (BeforeAttrName, [])
    else if N.eqb c 47 then (SelfClosing, [])
    else if N.eqb c 62 then (Data, [HTagEnd])
    else (TagName, [HName c])
  | BeforeAttrName => before_attr_name c
  | AttrName =>
    if is_ws c then (AfterAttrName, [])
    else if N.eqb c 47 then (SelfClosing, [])
    else if N.eqb c 61 then (BeforeAttrVal, [])
    else if N.eqb c 62 then (Data, [HTagEnd])
    else (AttrName, [HName c])
  | AfterAttrName =>
    if is_ws c then (AfterAttrName, [])
    else if N.eqb c 47 then (SelfClosing, [])
    else if N.eqb c 61 then (BeforeAttrVal, [])
    else if N.eqb c 62 then (Data, [HTagEnd])
    else (AttrName, [HAttr; HName c])
  | BeforeAttrVal =>
    if is_ws c then (BeforeAttrVal, [])
    else if N.eqb c 34 then (AttrDQ, [])
    else if N.eqb c 39 then (AttrSQ, [])
    else if N.eqb c 62 then (Data, [HTagEnd])
    else (AttrUnq, [])
  | AttrDQ => if N.eqb c 34 then (AfterAttrQ, []) else (AttrDQ, [])
  | AttrSQ => if N.eqb c 39 then (AfterAttrQ, []) else (AttrSQ, [])
  | AttrUnq =>
    if is_ws c then (BeforeAttrName, [])
    else if N.eqb c 62 then (Data, [HTagEnd])
    else (AttrUnq, [])
  | AfterAttrQ => before_attr_name c
  | SelfClosing => if N.eqb c 62 then (Data, [HTagEnd]) else before_attr_name c
  | Bogus => if N.eqb c 62 then (Data, []) else (Bogus, [])
  end.

Fixpoint hrun (st : tstate) (s : bytes) : tstate * list event :=
  match s with
  | [] => (st, [])
  | c :: s' => let '(st1, e1) := hstep st c in let '(st2, e2) := hrun st1 s' in (st2, e1 ++ e2)
  end.

(** the structure of a document: the events from the data state *)
Definition structure (s : bytes) : list event := snd (hrun Data s).

Lemma run_app st a b :
  hrun st (a ++ b) = let '(st1, e1) := hrun st a in let '(st2, e2) := hrun st1 b in (st2, e1 ++ e2).
Proof.
  revert st. induction a as [|c a IH]; intro st.
  - cbn [app hrun]. destruct (hrun st b). reflexivity.
  - cbn [app hrun]. destruct (hstep st c) as [st1 e1]. rewrite IH.
    destruct (hrun st1 a) as [st2 e2]. destruct (hrun st2 b) as [st3 e3]. rewrite app_assoc. reflexivity.
Qed.

Lemma run_app' st a b :
  hrun st (a ++ b) = (fst (hrun (fst (hrun st a)) b), snd (hrun st a) ++ snd (hrun (fst (hrun st a)) b)).
Proof. rewrite run_app. destruct (hrun st a) as [st1 e1]. cbn [fst snd]. destruct (hrun st1 b). reflexivity. Qed.

(** the contexts in which goht places escaped values: character data, and attribute values it has quoted *)
Definition safe_ctx (st : tstate) : Prop := st = Data \/ st = AttrDQ \/ st = AttrSQ.

Lemma step_safe st c : safe_ctx st -> ~ meta c -> hstep st c = (st, []).
Proof.
  unfold meta. intros Hs Hm. destruct Hs as [Hs|[Hs|Hs]]; subst st; cbn [hstep].
  - destruct (N.eqb_spec c 60); [exfalso; apply Hm; auto|reflexivity].
  - destruct (N.eqb_spec c 34); [exfalso; apply Hm; auto|reflexivity].
  - destruct (N.eqb_spec c 39); [exfalso; apply Hm; auto|reflexivity].
Qed.

Lemma run_safe st s : safe_ctx st -> (forall b, In b s -> ~ meta b) -> hrun st s = (st, []).
Proof.
  intro Hs. induction s as [|c s IH]; intro H; [reflexivity|].
  cbn [hrun]. rewrite (step_safe st c Hs) by (apply H; left; reflexivity).
  rewrite IH by (intros b Hb; apply H; right; exact Hb). reflexivity.
Qed.

(** an escaped value is silent in a safe context *)
Theorem escaped_value_is_silent st v : safe_ctx st -> hrun st (html_escape v) = (st, []).
Proof. intro Hs. apply run_safe; [exact Hs|]. intros b Hb. exact (escape_chars v b Hb). Qed.

(** ... so the structure of the document does not depend on it: it is the structure with nothing inserted *)
Theorem structure_independent_of_value pre post v :
  safe_ctx (fst (hrun Data pre)) ->
  structure (pre ++ html_escape v ++ post) = structure (pre ++ post) /\
  fst (hrun Data (pre ++ html_escape v ++ post)) = fst (hrun Data (pre ++ post)).
Proof.
  intro Hs. unfold structure. rewrite !run_app'. cbn [fst snd].
  rewrite (escaped_value_is_silent _ v Hs). cbn [fst snd app]. split; reflexivity.
Qed.

Corollary structure_same_for_all_values pre post v v' :
  safe_ctx (fst (hrun Data pre)) ->
  structure (pre ++ html_escape v ++ post) = structure (pre ++ html_escape v' ++ post).
Proof.
  intro Hs. rewrite (proj1 (structure_independent_of_value pre post v Hs)),
                    (proj1 (structure_independent_of_value pre post v' Hs)). reflexivity.
Qed.

(** several values, each in a safe context: by iteration (stated for a list of static parts with values between) *)
Fixpoint weave (parts : list bytes) (vals : list bytes) : bytes :=
  match parts, vals with
  | p :: ps, v :: vs => p ++ html_escape v ++ weave ps vs
  | p :: ps, [] => p ++ weave ps []
  | [], _ => []
  end.

(** every value position is safe: the state reached after each static part but the last *)
Fixpoint all_safe (st : tstate) (parts : list bytes) : Prop :=
  match parts with
  | [] => True
  | [p] => True
  | p :: ps => safe_ctx (fst (hrun st p)) /\ all_safe (fst (hrun st p)) ps
  end.

Theorem weave_structure : forall parts vals st,
  all_safe st parts -> List.length vals = pred (List.length parts) ->
  hrun st (weave parts vals) = hrun st (List.concat parts).
Proof.
  induction parts as [|p ps IH]; intros vals st Hs Hl; [reflexivity|].
  destruct ps as [|p2 ps'].
  - destruct vals; [|discriminate]. reflexivity.
  - destruct vals as [|v vs]; [discriminate|].
    change (weave (p :: p2 :: ps') (v :: vs)) with (p ++ html_escape v ++ weave (p2 :: ps') vs).
    change (List.concat (p :: p2 :: ps')) with (p ++ List.concat (p2 :: ps')).
    change (all_safe st (p :: p2 :: ps')) with (safe_ctx (fst (hrun st p)) /\ all_safe (fst (hrun st p)) (p2 :: ps')) in Hs. destruct Hs as [Hs1 Hs2].
    rewrite !run_app'. cbn [fst snd].
    rewrite (escaped_value_is_silent _ v Hs1). cbn [fst snd app].
    rewrite (IH vs _ Hs2) by (cbn [List.length] in *; lia). reflexivity.
Qed.

(** the contexts that are NOT safe, by witness: the same escaped value changes the structure there *)
Example unquoted_value_not_safe :
  structure (lit "<a b=" ++ html_escape (lit "x y") ++ lit ">") <> structure (lit "<a b=" ++ html_escape (lit "xy") ++ lit ">").
Proof. vm_compute. discriminate. Qed.

Example tag_name_not_safe :
  structure (lit "<li" ++ html_escape (lit "a") ++ lit ">") <> structure (lit "<li" ++ html_escape (lit "b") ++ lit ">").
Proof. vm_compute. discriminate. Qed.
