(** The whitespace-removal pass on a WHOLE document (property C14), for every placement of the two markers.
    A document as generated code writes it into the buffer is a sequence of pieces: runs of text (static markup,
    escaped values, nested templates' output) and the two sentinels.  [spec] says what Buffer.Bytes() must return:
    the sentinels vanish, a run of text loses its leading white space iff an after-sentinel stands immediately in
    front of it, its trailing white space iff a before-sentinel stands immediately behind it, and nothing else
    changes.  [nuke_document] proves that the regexp pass (Base/Regex.v) computes exactly that, for every document
    whose text runs are inert (no byte of a marker look-alike: the complement is known finding F04). *)
From GV Require Import Base.Regex Proofs.NukeProofs.
Open Scope N_scope.

Inductive piece := PText (s : bytes) | PAfter | PBefore.

Definition piece_raw (p : piece) : bytes :=
  match p with PText s => s | PAfter => c_NukeAfter | PBefore => c_NukeBefore end.

Fixpoint raw (d : list piece) : bytes :=
  match d with [] => [] | p :: d' => piece_raw p ++ raw d' end.

(** text runs are maximal: no two adjacent *)
Fixpoint normal (d : list piece) : Prop :=
  match d with
  | PText _ :: ((PText _ :: _)) => False
  | _ :: d' => normal d'
  | [] => True
  end.

Fixpoint texts_inert (d : list piece) : Prop :=
  match d with
  | PText s :: d' => inert s /\ texts_inert d'
  | _ :: d' => texts_inert d'
  | [] => True
  end.

Definition rstrip_ws (s : bytes) : bytes := rev (drop_ws (rev s)).

Definition trim (l r : bool) (s : bytes) : bytes :=
  let s1 := if l then drop_ws s else s in if r then rstrip_ws s1 else s1.

Definition next_before (d : list piece) : bool := match d with PBefore :: _ => true | _ => false end.

(** [ap]: an after-sentinel stands immediately in front of the document *)
Fixpoint spec (ap : bool) (d : list piece) : bytes :=
  match d with
  | [] => []
  | PAfter :: d' => spec true d'
  | PBefore :: d' => spec false d'
  | PText s :: d' => trim ap (next_before d') s ++ spec false d'
  end.

(** * white space at the two ends of a string *)

Lemma drop_ws_split s : exists ws, all_ws ws /\ s = ws ++ drop_ws s.
Proof.
  induction s as [|c s [ws [Hws E]]].
  - exists []. split; [constructor|reflexivity].
  - cbn [drop_ws]. destruct (re_space c) eqn:Ec.
    + exists (c :: ws). split; [constructor; assumption|]. cbn [app]. f_equal. exact E.
    + exists []. split; [constructor|reflexivity].
Qed.

Lemma drop_ws_head u c r : drop_ws u = c :: r -> re_space c = false.
Proof.
  induction u as [|x u IH]; intro H; [discriminate|]. cbn [drop_ws] in H.
  destruct (re_space x) eqn:Ex; [exact (IH H)|]. inversion H; subst. exact Ex.
Qed.

Lemma all_ws_rev ws : all_ws ws -> all_ws (rev ws).
Proof. intro H. unfold all_ws in *. apply Forall_rev. exact H. Qed.

Lemma rstrip_split s : exists ws, all_ws ws /\ s = rstrip_ws s ++ ws.
Proof.
  destruct (drop_ws_split (rev s)) as [ws [Hws E]]. exists (rev ws). split; [apply all_ws_rev; exact Hws|].
  unfold rstrip_ws. rewrite <- rev_app_distr, <- E, rev_involutive. reflexivity.
Qed.

Lemma rstrip_last s : rstrip_ws s <> [] -> re_space (last (rstrip_ws s) 0) = false.
Proof.
  unfold rstrip_ws. destruct (drop_ws (rev s)) as [|c r] eqn:E; [intro H; exfalso; apply H; reflexivity|].
  intros _. cbn [rev]. rewrite last_last. eapply drop_ws_head. exact E.
Qed.

Lemma inert_app a b : inert (a ++ b) <-> inert a /\ inert b.
Proof.
  unfold inert. split.
  - intros [H1 H2]. split; split; intro K.
    + apply H1. apply in_or_app. left. exact K.
    + apply H2. apply in_or_app. left. exact K.
    + apply H1. apply in_or_app. right. exact K.
    + apply H2. apply in_or_app. right. exact K.
  - intros [[H1 H2] [H3 H4]]. split; intro K; apply in_app_or in K; tauto.
Qed.

Lemma inert_drop_ws s : inert s -> inert (drop_ws s).
Proof. intro H. destruct (drop_ws_split s) as [ws [_ E]]. rewrite E in H. apply inert_app in H. tauto. Qed.

Lemma inert_rstrip s : inert s -> inert (rstrip_ws s).
Proof. intro H. destruct (rstrip_split s) as [ws [_ E]]. rewrite E in H. apply inert_app in H. tauto. Qed.

Lemma inert_trim l r s : inert s -> inert (trim l r s).
Proof.
  intro H. unfold trim. destruct l, r; auto using inert_drop_ws, inert_rstrip.
Qed.

Lemma all_ws_not_226 ws t : all_ws ws -> ~ starts_226 t -> ~ starts_226 (ws ++ t).
Proof.
  intros Hws Ht. destruct Hws as [|w ws' Hw _]; [exact Ht|]. cbn [app starts_226].
  destruct (N.eqb_spec w 226) as [->|Hn]; [discriminate Hw|].
  destruct w as [|p]; [tauto|]. do 8 (destruct p as [p|p|]; try tauto).
Qed.

(** * text in front of anything that cannot complete a before-sentinel *)

Lemma no_before_through_text s : forall t,
  inert s -> has_prefix c_NukeBefore (drop_ws t) = false -> ~ starts_226 t ->
  has_prefix c_NukeBefore (drop_ws (s ++ t)) = false.
Proof.
  induction s as [|c s IH]; intros t [H126 H226] Hb Ht; [exact Hb|].
  assert (Hi : inert s) by (split; intro K; [apply H126|apply H226]; right; exact K).
  cbn [app drop_ws]. destruct (re_space c) eqn:Ec; [apply IH; assumption|].
  cbn [has_prefix c_NukeBefore]. destruct (N.eqb_spec 62 c) as [<-|_]; [|reflexivity].
  cbn [andb]. destruct (s ++ t) as [|d r] eqn:E; [reflexivity|].
  cbn [has_prefix]. destruct (N.eqb_spec 226 d) as [<-|_]; [|reflexivity].
  exfalso. destruct s as [|d' s'].
  - cbn [app] in E. subst t. apply Ht. exact I.
  - cbn [app] in E. inversion E; subst. apply H226. right. left. reflexivity.
Qed.

Theorem nuke_text_then s : forall t,
  inert s -> has_prefix c_NukeBefore (drop_ws t) = false -> ~ starts_226 t ->
  nuke (s ++ t) = s ++ nuke t.
Proof.
  induction s as [|c s IH]; intros t Hi Hb Ht; [reflexivity|].
  rewrite nuke_unfold. cbn [app].
  assert (Hc : c <> 126) by (intro E; apply (proj1 Hi); left; auto).
  rewrite (not_after_head c (s ++ t) Hc).
  change (c :: s ++ t) with ((c :: s) ++ t). rewrite (no_before_through_text (c :: s) t Hi Hb Ht).
  cbn [app]. f_equal. apply IH; try assumption.
  destruct Hi as [H1 H2]. split; intro K; [apply H1|apply H2]; right; exact K.
Qed.

(** * the document theorem *)

Definition starts_marker_or_ends (d : list piece) : Prop :=
  match d with PText _ :: _ => False | _ => True end.

Lemma drop_ws_raw_marker d : starts_marker_or_ends d -> drop_ws (raw d) = raw d.
Proof. destruct d as [|[s| |] d']; cbn; tauto. Qed.

Lemma normal_tail p d : normal (p :: d) -> normal d.
Proof. destruct p, d as [|[?| |] ?]; cbn; tauto. Qed.

Lemma normal_text_next s d : normal (PText s :: d) -> starts_marker_or_ends d.
Proof. destruct d as [|[?| |] ?]; cbn; tauto. Qed.

Lemma texts_inert_tail p d : texts_inert (p :: d) -> texts_inert d.
Proof. destruct p; cbn; tauto. Qed.

Lemma nuke_before0 t : nuke (c_NukeBefore ++ t) = nuke t.
Proof. exact (nuke_before [] t (Forall_nil _)). Qed.

(** what stands behind a text run, by cases; [u] is the run after the left trim *)
Lemma text_run u d :
  inert u -> starts_marker_or_ends d ->
  (forall ap : bool, nuke (if ap then drop_ws (raw d) else raw d) = spec ap d) ->
  nuke (u ++ raw d) = (if next_before d then rstrip_ws u else u) ++ spec false d.
Proof.
  intros Hu Hd IH. destruct d as [|[s| |] d'].
  - cbn [raw next_before spec]. rewrite !app_nil_r. apply nuke_inert. exact Hu.
  - contradiction.
  - (* an after-sentinel follows: the text stays as it is, trailing white space included *)
    cbn [next_before]. rewrite nuke_text_then; [f_equal; exact (IH false)|exact Hu|reflexivity|].
    cbn [raw piece_raw app c_NukeAfter starts_226]. tauto.
  - (* a before-sentinel follows: the trailing white space goes *)
    cbn [next_before raw piece_raw spec].
    destruct (rstrip_split u) as [ws [Hws E]].
    assert (Hn : nuke (ws ++ c_NukeBefore ++ raw d') = spec false d').
    { rewrite (nuke_before ws _ Hws). specialize (IH false). cbn [raw piece_raw spec] in IH.
      rewrite nuke_before0 in IH. exact IH. }
    rewrite E at 1. rewrite <- app_assoc.
    destruct (rstrip_ws u) as [|c r] eqn:Er.
    + cbn [app]. exact Hn.
    + rewrite <- Er in *. rewrite nuke_text; [f_equal; exact Hn|apply inert_rstrip; exact Hu|rewrite Er; discriminate| |].
      * apply rstrip_last. rewrite Er. discriminate.
      * apply all_ws_not_226; [exact Hws|]. cbn [app c_NukeBefore starts_226]. tauto.
Qed.

Theorem nuke_document_gen : forall d (ap : bool), normal d -> texts_inert d ->
  nuke (if ap then drop_ws (raw d) else raw d) = spec ap d.
Proof.
  induction d as [|p d IH]; intros ap Hn Hi.
  - destruct ap; reflexivity.
  - pose proof (normal_tail _ _ Hn) as Hn'. pose proof (texts_inert_tail _ _ Hi) as Hi'.
    destruct p as [s| |].
    + pose proof (normal_text_next _ _ Hn) as Hd. destruct Hi as [Hs _].
      cbn [raw piece_raw spec]. unfold trim.
      assert (IH' : forall ap : bool, nuke (if ap then drop_ws (raw d) else raw d) = spec ap d)
        by (intro a; apply IH; assumption).
      destruct ap.
      * destruct (drop_ws_split s) as [ws [Hws E]].
        assert (Ed : drop_ws (s ++ raw d) = drop_ws s ++ raw d).
        { rewrite E at 1. rewrite <- app_assoc, (drop_ws_app_ws _ _ Hws).
          destruct (drop_ws s) as [|c r] eqn:Es.
          - cbn [app]. apply drop_ws_raw_marker. exact Hd.
          - cbn [app drop_ws]. rewrite (drop_ws_head _ _ _ Es). reflexivity. }
        rewrite Ed. apply text_run; [apply inert_drop_ws; exact Hs|exact Hd|exact IH'].
      * apply text_run; [exact Hs|exact Hd|exact IH'].
    + cbn [raw piece_raw spec].
      replace (if ap then drop_ws (c_NukeAfter ++ raw d) else c_NukeAfter ++ raw d) with (c_NukeAfter ++ raw d)
        by (destruct ap; reflexivity).
      rewrite nuke_after. exact (IH true Hn' Hi').
    + cbn [raw piece_raw spec].
      replace (if ap then drop_ws (c_NukeBefore ++ raw d) else c_NukeBefore ++ raw d) with (c_NukeBefore ++ raw d)
        by (destruct ap; reflexivity).
      rewrite nuke_before0. exact (IH false Hn' Hi').
Qed.

Theorem nuke_document d : normal d -> texts_inert d -> nuke (raw d) = spec false d.
Proof. intros Hn Hi. exact (nuke_document_gen d false Hn Hi). Qed.

(** what Render writes is inert again: no sentinel (nor a look-alike) survives, wherever the sentinels stood *)
Theorem spec_inert : forall d ap, texts_inert d -> inert (spec ap d).
Proof.
  induction d as [|p d IH]; intros ap Hi.
  - split; intros [].
  - destruct p as [s| |]; cbn [spec].
    + destruct Hi as [Hs Hi']. apply inert_app. split; [apply inert_trim; exact Hs|apply IH; exact Hi'].
    + apply IH. exact Hi.
    + apply IH. exact Hi.
Qed.

Theorem nuke_document_marker_free d : normal d -> texts_inert d ->
  contains c_NukeAfter (nuke (raw d)) = false /\ contains c_NukeBefore (nuke (raw d)) = false.
Proof.
  intros Hn Hi. rewrite (nuke_document d Hn Hi). apply inert_marker_free. apply spec_inert. exact Hi.
Qed.

(** nothing but white space is ever removed, and only next to a sentinel: the text of the result is the text of
    the document minus white-space bytes (stated on the non-blank bytes, which are kept in order) *)
Definition non_ws (s : bytes) : bytes := filter (fun c => negb (re_space c)) s.

Lemma non_ws_app a b : non_ws (a ++ b) = non_ws a ++ non_ws b.
Proof. apply filter_app. Qed.

Lemma non_ws_all_ws ws : all_ws ws -> non_ws ws = [].
Proof. induction 1 as [|c ws Hc _ IH]; [reflexivity|]. cbn [non_ws filter]. rewrite Hc. exact IH. Qed.

Lemma non_ws_drop_ws s : non_ws (drop_ws s) = non_ws s.
Proof.
  destruct (drop_ws_split s) as [ws [Hws E]]. rewrite E at 2. rewrite non_ws_app, (non_ws_all_ws _ Hws). reflexivity.
Qed.

Lemma non_ws_rstrip s : non_ws (rstrip_ws s) = non_ws s.
Proof.
  destruct (rstrip_split s) as [ws [Hws E]]. rewrite E at 2. rewrite non_ws_app, (non_ws_all_ws _ Hws), app_nil_r. reflexivity.
Qed.

Fixpoint texts (d : list piece) : bytes :=
  match d with PText s :: d' => s ++ texts d' | _ :: d' => texts d' | [] => [] end.

Theorem spec_keeps_all_text : forall d ap, non_ws (spec ap d) = non_ws (texts d).
Proof.
  induction d as [|p d IH]; intro ap; [reflexivity|].
  destruct p as [s| |]; cbn [spec texts]; [|apply IH|apply IH].
  rewrite !non_ws_app, IH. f_equal. unfold trim.
  destruct ap, (next_before d); rewrite ?non_ws_rstrip, ?non_ws_drop_ws; reflexivity.
Qed.

(** * the hypotheses as an executable test (extracted: the C14 check evaluates it on every document it draws) *)

Definition inertb (s : bytes) : bool := negb (mem_byte 126 s) && negb (mem_byte 226 s).

Fixpoint doc_ok (d : list piece) : bool :=
  match d with
  | PText s :: d' => inertb s && match d' with PText _ :: _ => false | _ => true end && doc_ok d'
  | _ :: d' => doc_ok d'
  | [] => true
  end.

Lemma mem_byte_in c s : In c s -> mem_byte c s = true.
Proof.
  induction s as [|x s IH]; intros []; cbn [mem_byte].
  - subst. rewrite N.eqb_refl. reflexivity.
  - rewrite IH by assumption. apply orb_true_r.
Qed.

Lemma inertb_sound s : inertb s = true -> inert s.
Proof.
  unfold inertb, inert. intro H. apply andb_true_iff in H as [H1 H2].
  split; intro K; apply mem_byte_in in K; rewrite K in *; discriminate.
Qed.

Lemma doc_ok_sound d : doc_ok d = true -> normal d /\ texts_inert d.
Proof.
  induction d as [|p d IH]; intro H; [split; exact I|].
  destruct p as [s| |]; cbn [doc_ok] in H.
  - apply andb_true_iff in H as [H H3]. apply andb_true_iff in H as [H1 H2].
    destruct (IH H3) as [Hn Hi]. split.
    + destruct d as [|[?| |] ?]; cbn [normal] in *; try discriminate; assumption.
    + split; [apply inertb_sound; exact H1|exact Hi].
  - destruct (IH H) as [Hn Hi]. split; assumption.
  - destruct (IH H) as [Hn Hi]. split; assumption.
Qed.

Theorem nuke_document_checked d : doc_ok d = true ->
  nuke (raw d) = spec false d /\
  contains c_NukeAfter (nuke (raw d)) = false /\ contains c_NukeBefore (nuke (raw d)) = false /\
  non_ws (nuke (raw d)) = non_ws (texts d).
Proof.
  intro H. destruct (doc_ok_sound d H) as [Hn Hi].
  split; [apply nuke_document; assumption|].
  split; [apply nuke_document_marker_free; assumption|].
  split; [apply nuke_document_marker_free; assumption|].
  rewrite (nuke_document d Hn Hi). apply spec_keeps_all_text.
Qed.

(** the interface for the extracted driver: the document as written, the test, the specification *)
Definition doc_check (d : list piece) : bool * bytes * bytes := (doc_ok d, raw d, spec false d).

(** running the pass again changes nothing: what Render writes is a fixed point of the eraser (a document that went
    through Buffer.Bytes once, e.g. written by a template into a plain io.Writer and embedded again, is left alone) *)
Theorem nuke_document_idempotent d : normal d -> texts_inert d -> nuke (nuke (raw d)) = nuke (raw d).
Proof.
  intros Hn Hi. rewrite (nuke_document d Hn Hi). apply nuke_inert. apply spec_inert. exact Hi.
Qed.

(** concatenation: a nested template's pieces spliced into its caller's document are trimmed by the caller's sentinels
    exactly like literal text: [raw] and [texts] are morphisms, so the document theorem applies to the whole render *)
Lemma raw_app d1 d2 : raw (d1 ++ d2) = raw d1 ++ raw d2.
Proof. induction d1 as [|p d1 IH]; [reflexivity|]. cbn [app raw]. rewrite IH, app_assoc. reflexivity. Qed.

Lemma texts_app d1 d2 : texts (d1 ++ d2) = texts d1 ++ texts d2.
Proof.
  induction d1 as [|p d1 IH]; [reflexivity|]. destruct p; cbn [app texts]; rewrite IH; [rewrite app_assoc|..]; reflexivity.
Qed.

Lemma texts_inert_app d1 d2 : texts_inert d1 -> texts_inert d2 -> texts_inert (d1 ++ d2).
Proof.
  induction d1 as [|p d1 IH]; intros H1 H2; [exact H2|]. destruct p; cbn [app texts_inert] in *; [split; [tauto|apply IH; tauto]|apply IH; assumption..].
Qed.
