(** Every state call of the lexer makes progress, and the pump never spins (C06). *)
From GV Require Import Compiler.Lexer Proofs.LexProofs Proofs.LexProgressProofs
  Proofs.LexProgressG0 Proofs.LexProgressG1 Proofs.LexProgressG2 Proofs.LexProgressG3.
From Coq Require Import Lia.
Open Scope N_scope.

Theorem step_progress st l : st <> SNil -> progress st l.
Proof.
  intro Hst. destruct (grp st) as [|[|[|[|k]]]] eqn:Hg.
  - apply progress_g0; assumption.
  - apply progress_g1; assumption.
  - apply progress_g2; assumption.
  - apply progress_g3; assumption.
  - exfalso. destruct st; cbn [grp] in Hg; discriminate Hg.
Qed.

(** * the pump: a bounded number of state calls separates two tokens *)
Definition rk_levels : nat := 9.
Definition mu (st : lstate) (l : lexst) : nat := A l * rk_levels + (if Nat.eqb (A l) 0 then rk0 st else rk1 st).

Lemma rk_bound st : (rk0 st < rk_levels /\ rk1 st < rk_levels)%nat.
Proof. unfold rk_levels. destruct st; cbn; lia. Qed.

Lemma mu_decreases st l : st <> SNil -> ol (snd (step st l)) = ol l ->
  (mu (fst (step st l)) (snd (step st l)) < mu st l)%nat /\ (A (snd (step st l)) <= A l)%nat.
Proof.
  intros Hst Hol. destruct (step_progress st l Hst) as [Hle Hd]. split; [|exact Hle].
  destruct Hd as [Hd|[Hd|Hd]]; [lia| |].
  - unfold mu. destruct (rk_bound (fst (step st l))) as [B0 B1]. unfold rk_levels in *.
    destruct (Nat.eqb (A (snd (step st l))) 0); destruct (Nat.eqb (A l) 0); lia.
  - destruct (Nat.eq_dec (A (snd (step st l))) (A l)) as [E|N].
    + unfold mu. rewrite E. destruct (Nat.eqb (A l) 0); lia.
    + unfold mu. destruct (rk_bound (fst (step st l))) as [B0 B1]. unfold rk_levels in *.
      destruct (Nat.eqb (A (snd (step st l))) 0); destruct (Nat.eqb (A l) 0); lia.
Qed.

Lemma A_with_out l o : A (with_out l o) = A l. Proof. reflexivity. Qed.

Theorem next_token_never_spins fuel : forall lx,
  ol (lx_st lx) = 0%nat -> (mu (lx_state lx) (lx_st lx) < fuel)%nat -> next_token fuel lx <> PHang.
Proof.
  induction fuel as [|f IH]; intros lx Hol Hmu; [lia|].
  destruct lx as [st l q bl]. cbn [lx_st lx_state] in *. cbn [next_token lx_queue lx_state lx_st].
  destruct q as [|t q]; [|discriminate].
  assert (Hs : st <> SNil ->
     (let '(st', l') := step st l in
      if l_panic l' then PPanic
      else if Nat.ltb c_token_queue_cap (List.length (List.rev (l_out l'))) then PDeadlock
           else next_token f (mkLexer st' (with_out l' []) (List.rev (l_out l')) false)) <> PHang).
  { intro Hst. pose proof (mu_decreases st l Hst) as Hd. destruct (step st l) as [st' l']. cbn [fst snd] in Hd.
    destruct (l_panic l'); [discriminate|]. destruct (Nat.ltb _ _); [discriminate|].
    destruct (l_out l') as [|t0 o0] eqn:Eo.
    - apply IH; cbn [lx_st lx_state]; [reflexivity|]. unfold ol in Hd, Hol. rewrite Eo, Hol in Hd. destruct (Hd eq_refl) as [Hlt _].
      unfold mu in *. rewrite A_with_out. lia.
    - destruct f as [|f']; cbn [next_token lx_queue]; destruct (List.rev (t0 :: o0)) eqn:Er; try discriminate;
        apply (f_equal (@List.length token)) in Er; rewrite rev_length in Er; cbn in Er; lia. }
  destruct st; try (apply Hs; discriminate). discriminate.
Qed.

(** the reader never grows: what remains after pulling a token is at most what remained before *)
Lemma next_token_A fuel : forall lx t lx', ol (lx_st lx) = 0%nat -> next_token fuel lx = PTok t lx' ->
  (A (lx_st lx') <= A (lx_st lx))%nat.
Proof.
  induction fuel as [|f IH]; intros lx t lx' Hol H; destruct lx as [st l q bl]; cbn [next_token lx_queue lx_state lx_st] in *.
  - destruct q; [destruct st; try discriminate|]; injection H as _ <-; cbn [lx_st]; lia.
  - destruct q as [|t0 q]; [|injection H as _ <-; cbn [lx_st]; lia].
    assert (Hs : st <> SNil ->
       (let '(st', l') := step st l in
        if l_panic l' then PPanic
        else if Nat.ltb c_token_queue_cap (List.length (List.rev (l_out l'))) then PDeadlock
             else next_token f (mkLexer st' (with_out l' []) (List.rev (l_out l')) false)) = PTok t lx' -> (A (lx_st lx') <= A l)%nat).
    { intros Hst K. destruct (step_progress st l Hst) as [Hle _]. destruct (step st l) as [st' l']. cbn [snd] in Hle.
      destruct (l_panic l'); [discriminate|]. destruct (Nat.ltb _ _); [discriminate|].
      apply IH in K; [|reflexivity]. cbn [lx_st] in K. rewrite A_with_out in K. lia. }
    destruct st; try (apply Hs; [discriminate|exact H]). injection H as _ <-. cbn [lx_st]. lia.
Qed.
