(** No input makes the compiler panic (C06): the lexer cursor invariant of LexSafeProofs, carried through the
    token pump and the parser, excludes the out-of-range outcome for every input. *)
From GV Require Import Compiler.Compile Proofs.LexProofs Proofs.LexSafeProofs Proofs.NoDeadlockProofs.
From Coq Require Import Lia.
Open Scope N_scope.

Definition safe (lx : lexer) : Prop := lok lx /\ Base (lx_st lx).

Lemma init_base input : Base (init_lex input).
Proof. unfold Base, init_lex. cbn. split; [reflexivity|]. split; [repeat constructor; lia|lia]. Qed.

Lemma next_token_safe fuel : forall lx, safe lx ->
  match next_token fuel lx with PTok _ lx' => safe lx' | PDeadlock => False | PPanic => False | _ => True end.
Proof.
  induction fuel as [|f IH]; intros lx [H HB]; destruct lx as [st l q bl]; unfold safe, lok in *; cbn [lx_st] in *.
  - cbn [next_token lx_queue lx_state lx_st]. destruct q; [|split; assumption]. destruct st; try exact I; split; assumption.
  - cbn [next_token lx_queue lx_state lx_st]. destruct q as [|t q]; [|split; assumption].
    assert (Hs : forall st0, match (let '(st', l') := step st0 l in
                   if l_panic l' then PPanic
                   else if Nat.ltb c_token_queue_cap (List.length (rev (l_out l'))) then PDeadlock
                        else next_token f (mkLexer st' (with_out l' []) (rev (l_out l')) false)) with
                 | PTok _ lx' => ol (lx_st lx') = 0%nat /\ Base (lx_st lx') | PDeadlock => False | PPanic => False | _ => True end).
    { intro st0. pose proof (step_emits_few st0 l) as Hb. pose proof (step_base st0 l HB) as HB'.
      destruct (step st0 l) as [st' l']. cbn [snd] in Hb, HB'.
      destruct (l_panic l') eqn:Ep; [destruct HB' as (K & _); congruence|].
      rewrite rev_length. unfold ol in Hb, H. rewrite H in Hb.
      destruct (Nat.ltb_spec c_token_queue_cap (List.length (l_out l'))) as [Hlt|_].
      - pose proof cap_ok. lia.
      - apply (IH (mkLexer st' (with_out l' []) (rev (l_out l')) false)). split; [reflexivity|exact HB']. }
    destruct st; try apply Hs. split; assumption.
Qed.

Theorem parse_never_panics input : parse_bytes input <> Crashed PPanic /\ parse_bytes input <> Crashed PDeadlock.
Proof.
  assert (G : forall c, parse_bytes input = Crashed c -> ~ (c = PPanic \/ c = PDeadlock)).
  { refine (parse_never_bad safe (fun c => c = PPanic \/ c = PDeadlock) input _ _ _).
    - intros lx H. pose proof (next_token_safe (lex_fuel input) lx H) as Hn.
      destruct (next_token (lex_fuel input) lx); try exact Hn; intros [K|K]; try discriminate; contradiction.
    - intros [K|K]; discriminate.
    - split; [reflexivity|apply init_base]. }
  split; intro K; apply (G _ K); [left|right]; reflexivity.
Qed.

Theorem compile_never_panics input : compile_parse input <> OPanic.
Proof.
  unfold compile_parse. destruct (parse_never_panics input) as [H _].
  destruct (parse_bytes input) as [t e|c]; [discriminate|]. destruct c; try discriminate. congruence.
Qed.
