(** Generated-side bounds of the position map (property C16): every position the emitter records for a fragment,
    and every position reached by walking into the fragment, is an existing position of the generated text: its
    line exists and its column lies within that line or at its end.  For every tree, with or without source map. *)
From GV Require Import Compiler.Compile Proofs.EmitProofs Proofs.TargetProofs.
Open Scope N_scope.

(** the n-th line (0-based) of a text, without its line break *)
Fixpoint line_at (n : nat) (s : bytes) : bytes :=
  match s with
  | [] => []
  | x :: s' =>
    if N.eqb x 10 then match n with O => [] | S n' => line_at n' s' end
    else match n with O => x :: line_at O s' | S _ => line_at n s' end
  end.

Lemma line_at_past_break a : forall n r, line_at (S (count_byte 10 a) + n) (a ++ 10 :: r) = line_at n r.
Proof.
  induction a as [|x a IH]; intros n r.
  - reflexivity.
  - cbn [app count_byte line_at]. destruct (N.eqb_spec 10 x) as [<-|Hne].
    + cbn [N.eqb Pos.eqb]. change (S (1 + count_byte 10 a) + n)%nat with (S (S (count_byte 10 a) + n)). apply IH.
    + destruct (N.eqb_spec x 10) as [->|_]; [congruence|]. cbn [Nat.add]. apply IH.
Qed.

Lemma line_at_first b : forall post, count_byte 10 b = 0%nat -> line_at 0 (b ++ post) = b ++ line_at 0 post.
Proof.
  induction b as [|x b IH]; intros post H; [reflexivity|].
  cbn [count_byte] in H. cbn [app line_at]. destruct (N.eqb_spec 10 x) as [<-|Hne]; [lia|].
  destruct (N.eqb_spec x 10) as [->|_]; [congruence|]. rewrite IH by lia. reflexivity.
Qed.

Lemma lib_none s : lib 10 s = None -> count_byte 10 s = 0%nat.
Proof.
  induction s as [|x s IH]; intro H; [reflexivity|]. cbn [lib] in H. cbn [count_byte].
  destruct (lib 10 s) as [j|]; [discriminate|]. destruct (N.eqb_spec x 10) as [->|Hne]; [discriminate|].
  destruct (N.eqb_spec 10 x); [congruence|]. apply IH. reflexivity.
Qed.

Lemma lib_split s i : lib 10 s = Some i ->
  exists a b, s = a ++ 10 :: b /\ List.length a = i /\ count_byte 10 b = 0%nat.
Proof.
  revert i. induction s as [|x s IH]; intros i H; [discriminate|]. cbn [lib] in H.
  destruct (lib 10 s) as [j|] eqn:E.
  - injection H as <-. destruct (IH j eq_refl) as (a & b & -> & Hl & Hb).
    exists (x :: a), b. split; [reflexivity|]. split; [cbn [List.length]; rewrite Hl; reflexivity|exact Hb].
  - destruct (N.eqb_spec x 10) as [->|Hne]; [|discriminate]. injection H as <-.
    exists [], s. split; [reflexivity|]. split; [reflexivity|]. apply lib_none. exact E.
Qed.

(** a position is IN a text: it is the position of the end of one of its prefixes *)
Definition in_text (out : bytes) (p : Z * Z) : Prop := exists pre post, out = pre ++ post /\ pos_of pre = p.

(** ... then its line exists and its column lies within that line or at its end (1-based) *)
Theorem in_text_bounds out l c : in_text out (l, c) ->
  exists n k : nat, l = (1 + Z.of_nat n)%Z /\ c = (1 + Z.of_nat k)%Z /\
    (n <= count_byte 10 out)%nat /\ (k <= List.length (line_at n out))%nat.
Proof.
  intros (pre & post & -> & Hp). unfold pos_of, pos_after in Hp. cbn [fst snd] in Hp. rewrite last_index_spec in Hp.
  apply pair_equal_spec in Hp as [Hl Hc]. exists (count_byte 10 pre).
  destruct (lib 10 pre) as [i|] eqn:E.
  - destruct (lib_split pre i E) as (a & b & -> & Hi & Hb).
    exists (List.length b). repeat split.
    + lia.
    + rewrite <- Hc. rewrite app_length. cbn [List.length]. lia.
    + rewrite !count_byte_app. lia.
    + rewrite count_byte_app. cbn [count_byte N.eqb Pos.eqb]. rewrite Hb.
      replace (count_byte 10 a + (1 + 0))%nat with (S (count_byte 10 a) + 0)%nat by lia.
      rewrite <- app_assoc. cbn [app]. rewrite line_at_past_break, (line_at_first b post Hb), app_length. lia.
  - pose proof (lib_none pre E) as H0. exists (List.length pre). repeat split.
    + lia.
    + lia.
    + rewrite count_byte_app. lia.
    + rewrite H0, (line_at_first pre post H0), app_length. lia.
Qed.

(** every recorded target position, and every position inside the recorded fragment, is in the generated text *)
Theorem targets_in_text sm root a k :
  let w := emit_tree sm root in
  In a (w_adds w) -> (k <= List.length (sa_text a))%nat ->
  in_text (output_of w) (pos_after (sa_tline a, sa_tcol a) (firstn k (sa_text a))).
Proof.
  cbv zeta. intros Hin Hk. destruct (emit_tree_targets sm root) as [_ Hall].
  rewrite Forall_forall in Hall. destruct (Hall a Hin) as (pre & post & Hout & Hpos).
  exists (pre ++ firstn k (sa_text a)), (skipn k (sa_text a) ++ post). split.
  - rewrite Hout, <- !app_assoc. f_equal. rewrite app_assoc, firstn_skipn. reflexivity.
  - unfold pos_of. rewrite <- pos_after_app. fold (pos_of pre). rewrite Hpos. reflexivity.
Qed.

(** for a fragment on one line, in the 0-based coordinates of the map's entries: entry number k of the fragment has an
    existing target line and a target column within it (or at its end) *)
Theorem target_entries_in_bounds sm root a k :
  let w := emit_tree sm root in
  In a (w_adds w) -> count_byte 10 (sa_text a) = 0%nat -> (k <= List.length (sa_text a))%nat ->
  exists n c : nat, (sa_tline a - 1 = Z.of_nat n)%Z /\ (sa_tcol a - 1 + Z.of_nat k = Z.of_nat c)%Z /\
    (n <= count_byte 10 (output_of w))%nat /\ (c <= List.length (line_at n (output_of w)))%nat.
Proof.
  cbv zeta. intros Hin Hnl Hk.
  pose proof (targets_in_text sm root a k Hin Hk) as H. cbv zeta in H.
  assert (Hf : count_byte 10 (firstn k (sa_text a)) = 0%nat).
  { clear - Hnl. revert k. induction (sa_text a) as [|x l IH]; intro k; [destruct k; reflexivity|].
    destruct k; [reflexivity|]. cbn [firstn count_byte] in *. destruct (N.eqb 10 x); [lia|]. apply IH. lia. }
  rewrite (pos_after_no_newline _ _ Hf) in H. cbn [fst snd] in H.
  destruct (in_text_bounds _ _ _ H) as (n & c & Hl & Hc & Hn & Hcc).
  exists n, c. rewrite firstn_length in Hc. repeat split; try assumption; lia.
Qed.

(** [line_at] is the line that SourceMap.Add's own splitting (strings.Split on the line break) yields *)
Lemma nth_split_aux s : forall cur n,
  nth n (split_byte_aux 10 s cur) [] = match n with O => rev cur ++ line_at 0 s | S _ => line_at n s end.
Proof.
  induction s as [|x s IH]; intros cur n.
  - cbn [split_byte_aux line_at]. destruct n as [|n]; [cbn; rewrite app_nil_r; reflexivity|destruct n; reflexivity].
  - cbn [split_byte_aux line_at]. destruct (N.eqb_spec x 10) as [->|Hne].
    + destruct n as [|n]; [cbn [nth]; rewrite app_nil_r; reflexivity|].
      cbn [nth]. rewrite IH. destruct n; reflexivity.
    + rewrite IH. destruct n as [|n]; [|reflexivity].
      cbn [rev]. rewrite <- app_assoc. reflexivity.
Qed.

Theorem line_at_is_split_line n s : line_at n s = nth n (split_byte 10 s) [].
Proof. unfold split_byte. rewrite nth_split_aux. destruct n; reflexivity. Qed.
