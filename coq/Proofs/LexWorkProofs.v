(** The total work of the lexer is linear in the input (C06): from every state and cursor it reaches its final
    state within [levels2 * (bytes left + 1)] state calls, and has then sent at most four tokens per call. *)
From GV Require Import Compiler.Lexer Proofs.LexProofs Proofs.LexProgressProofs Proofs.LexTotalProofs.
From Coq Require Import Lia.
Open Scope N_scope.

(** * the whole run of the lexer *)
Definition levels2 : nat := 46.
Definition mu2 (st : lstate) (l : lexst) : nat := A l * levels2 + rank2 st l.

Lemma rank2_bound st l : (rank2 st l < levels2)%nat.
Proof.
  unfold rank2, levels2. destruct (hd_rune l) as [c|].
  - destruct st; cbn [rt1]; try lia; match goal with |- context [if ?b then _ else _] => destruct b end; lia.
  - destruct st; cbn [rt0]; lia.
Qed.

Lemma mu2_decreases st l : st <> SNil ->
  (mu2 (fst (step st l)) (snd (step st l)) < mu2 st l)%nat /\ (A (snd (step st l)) <= A l)%nat.
Proof.
  intro Hst. destruct (step_progress2 st l Hst) as [Hle Hd]. split; [|exact Hle]. unfold mu2.
  pose proof (rank2_bound (fst (step st l)) (snd (step st l))) as Hb. unfold levels2 in *.
  destruct Hd as [Hd|Hd]; [lia|]. lia.
Qed.

(** [k] state calls of the lexer alone, the tokens piling up in [l_out] *)
Fixpoint steps (k : nat) (st : lstate) (l : lexst) : lstate * lexst :=
  match k with
  | O => (st, l)
  | S k' => match st with
            | SNil => (st, l)
            | _ => steps k' (fst (step st l)) (snd (step st l))
            end
  end.

Theorem lexer_reaches_its_end : forall k st l, (mu2 st l <= k)%nat -> fst (steps k st l) = SNil.
Proof.
  induction k as [|k IH]; intros st l Hk.
  - cbn [steps fst]. destruct st; try reflexivity; exfalso;
      match type of Hk with (mu2 ?s l <= _)%nat => assert (Hn : s <> SNil) by discriminate; pose proof (mu2_decreases s l Hn) as [Hd _]; lia end.
  - cbn [steps]. destruct st; try reflexivity;
      match goal with |- fst (steps k (fst (step ?s l)) _) = _ => apply IH; assert (Hn : s <> SNil) by discriminate; pose proof (mu2_decreases s l Hn) as [Hd _]; lia end.
Qed.

Theorem lexer_total_tokens : forall k st l, (ol (snd (steps k st l)) <= ol l + 4 * k)%nat.
Proof.
  induction k as [|k IH]; intros st l; [cbn [steps snd]; lia|].
  cbn [steps]. destruct st; try (cbn [snd]; lia);
    match goal with |- (ol (snd (steps k (fst (step ?s l)) _)) <= _)%nat =>
      pose proof (IH (fst (step s l)) (snd (step s l))) as H1; pose proof (step_emits_few s l) as H2; lia end.
Qed.

(** the total work of the lexer on an input is linear in its length *)
Theorem lexer_total_work_linear input :
  let k := (levels2 * (List.length input + 1))%nat in
  fst (steps k SGoLineStart (init_lex input)) = SNil /\
  (ol (snd (steps k SGoLineStart (init_lex input))) <= 4 * k)%nat.
Proof.
  cbv zeta. split.
  - apply lexer_reaches_its_end. unfold mu2. pose proof (rank2_bound SGoLineStart (init_lex input)) as Hb.
    change (A (init_lex input)) with (List.length input). unfold levels2 in *. lia.
  - pose proof (lexer_total_tokens (levels2 * (List.length input + 1)) SGoLineStart (init_lex input)) as H.
    change (ol (init_lex input)) with 0%nat in H. lia.
Qed.
