(** The result of the parse does not depend on the budgets (C06): above the linear bounds, more budget for the pump,
    for the parser's loop, or for the loops inside the parse methods changes nothing.  So the tree of
    [C06_parse_terminates] is the tree, not an artefact of a budget. *)
From GV Require Import Compiler.Compile Proofs.LexProofs Proofs.LexProgressProofs Proofs.LexTotalProofs Proofs.LexWorkProofs
  Proofs.LexEndProofs Proofs.NoDeadlockProofs Proofs.LexSafeProofs Proofs.NoPanicProofs Proofs.LexPumpProofs Proofs.NoSpinProofs
  Proofs.ParserShapeProofs Proofs.ParserTermProofs.
From Coq Require Import Lia ZArith.
Open Scope N_scope.

(** * the pump *)
Lemma next_token_queue fuel st l t q bl : next_token fuel (mkLexer st l (t :: q) bl) = PTok t (mkLexer st l q bl).
Proof. destruct fuel; reflexivity. Qed.

Lemma next_token_stable : forall f f' lx, ol (lx_st lx) = 0%nat ->
  (mu (lx_state lx) (lx_st lx) < f)%nat -> (mu (lx_state lx) (lx_st lx) < f')%nat -> next_token f lx = next_token f' lx.
Proof.
  induction f as [|f IH]; intros f' lx Hol H1 H2; [lia|]. destruct f' as [|f']; [lia|].
  destruct lx as [st l q bl]. cbn [lx_st lx_state] in *. cbn [next_token lx_queue lx_state lx_st].
  destruct q as [|t q]; [|reflexivity].
  assert (Hs : st <> SNil ->
     (let '(st', l') := step st l in
      if l_panic l' then PPanic
      else if Nat.ltb c_token_queue_cap (List.length (List.rev (l_out l'))) then PDeadlock
           else next_token f (mkLexer st' (with_out l' []) (List.rev (l_out l')) false)) =
     (let '(st', l') := step st l in
      if l_panic l' then PPanic
      else if Nat.ltb c_token_queue_cap (List.length (List.rev (l_out l'))) then PDeadlock
           else next_token f' (mkLexer st' (with_out l' []) (List.rev (l_out l')) false))).
  { intro Hst. pose proof (mu_decreases st l Hst) as Hd. destruct (step st l) as [st' l']. cbn [fst snd] in Hd.
    destruct (l_panic l'); [reflexivity|]. destruct (Nat.ltb _ _); [reflexivity|].
    destruct (l_out l') as [|t0 o0] eqn:Eo.
    - apply IH; cbn [lx_st lx_state]; [reflexivity| |]; unfold ol in Hd, Hol; rewrite Eo, Hol in Hd; destruct (Hd eq_refl) as [Hlt _];
        unfold mu in *; rewrite A_with_out; lia.
    - destruct (List.rev (t0 :: o0)) as [|t1 q1] eqn:Er.
      + apply (f_equal (@List.length token)) in Er. rewrite rev_length in Er. cbn in Er. lia.
      + rewrite !next_token_queue. reflexivity. }
  destruct st; try (apply Hs; discriminate). reflexivity.
Qed.

(** * the parser *)
Section Stable.
Variable n : nat.                      (* the length of the input *)
Variables lf lf' : nat.                (* two budgets of the pump *)
Hypothesis Hlf : (rk_levels * (n + 1) <= lf)%nat.
Hypothesis Hlf' : (rk_levels * (n + 1) <= lf')%nat.

Definition Reach (p : parser) : Prop := Inv p /\ live n (p_lexer p).

Lemma p_next_stable p : Reach p -> p_next lf p = p_next lf' p.
Proof.
  intros [(Hl & _ & _) [_ Ha]]. unfold p_next. rewrite (next_token_stable lf lf' (p_lexer p) Hl); [reflexivity| |];
    pose proof (mu_bound (lx_state (p_lexer p)) (lx_st (p_lexer p))) as Hm; unfold rk_levels in *; nia.
Qed.

Lemma p_next_reach p tk p1 : Reach p -> p_next lf p = ROk (tk, p1) -> Reach p1 /\ pulled_from p (tk, p1).
Proof.
  intros [Hi Hv] E. pose proof (p_next_rel lf p Hi) as Hn. rewrite E in Hn. cbn [okc] in Hn. split; [|exact Hn].
  split; [exact (proj1 (proj2 Hn))|]. unfold p_next in E.
  pose proof (next_token_live n lf (p_lexer p) Hlf Hv) as Hl. destruct (next_token lf (p_lexer p)); try discriminate.
  injection E as _ <-. exact Hl.
Qed.

Lemma phi_pos p : St p -> (1 <= Phi p)%nat.
Proof. intro H. pose proof (depth_pos p H). unfold Phi. lia. Qed.

Lemma handle_node_stable : forall fuel fuel' indent p, Reach p -> is_root (top_kind p) = false ->
  (Phi p <= fuel)%nat -> (Phi p <= fuel')%nat -> handle_node lf fuel indent p = handle_node lf' fuel' indent p.
Proof.
  induction fuel as [|f IH]; intros fuel' indent p Hr Hroot H1 H2; pose proof (phi_pos p (inv_st p (proj1 Hr))) as Hp; [lia|].
  destruct fuel' as [|f']; [lia|]. cbn [handle_node]. cbv zeta. rewrite <- (p_next_stable p Hr).
  destruct (t_typ (p_peek p)) eqn:Ht; try reflexivity.
  destruct (Z.leb _ _); [reflexivity|].
  destruct (p_next lf p) as [[tk p1]|e q|c] eqn:En; try reflexivity.
  destruct (p_next_reach p tk p1 Hr En) as [Hr1 Hn].
  destruct (pulled_down p tk p1 Hn (nonfinal p _ Ht eq_refl)) as (_ & Hlt & _).
  apply IH; [exact Hr1| |lia|lia]. pose proof (proj1 (proj2 (proj2 Hn))) as Hs. cbn [snd] in Hs. unfold top_kind in *. rewrite Hs. exact Hroot.
Qed.

Lemma parse_attributes_stable : forall fuel fuel' o i d p, Reach p ->
  (Phi p <= fuel)%nat -> (Phi p <= fuel')%nat -> parse_attributes lf fuel o i d p = parse_attributes lf' fuel' o i d p.
Proof.
  induction fuel as [|f IH]; intros fuel' o i d p Hr H1 H2; pose proof (phi_pos p (inv_st p (proj1 Hr))) as Hp; [lia|].
  destruct fuel' as [|f']; [lia|]. cbn [parse_attributes]. cbv zeta. rewrite <- (p_next_stable p Hr).
  destruct (toktype_eqb (t_typ (p_peek p)) TAttrName) eqn:Ea; cbn [negb]; [|reflexivity].
  destruct (p_next lf p) as [[nt p1]|e q|c] eqn:En; try reflexivity.
  destruct (p_next_reach p nt p1 Hr En) as [Hr1 Hn].
  destruct (pulled_down p nt p1 Hn (nonfinal_eqb p _ Ea eq_refl)) as (_ & Hlt & _).
  destruct (toktype_eqb (t_typ (p_peek p1)) TAttrOperator) eqn:Eo; [|apply IH; [exact Hr1|lia|lia]].
  rewrite <- (p_next_stable p1 Hr1).
  destruct (p_next lf p1) as [[op p2]|e q|c] eqn:En1; try reflexivity.
  destruct (p_next_reach p1 op p2 Hr1 En1) as [Hr2 Hn1].
  destruct (pulled_down p1 op p2 Hn1 (nonfinal_eqb p1 _ Eo eq_refl)) as (_ & Hlt1 & _).
  destruct (beqb (t_lit op) (lit "?") && negb (toktype_eqb (t_typ (p_peek p2)) TAttrDynamicValue)); [reflexivity|].
  destruct (negb (toktype_eqb (t_typ (p_peek p2)) TAttrDynamicValue) && negb (toktype_eqb (t_typ (p_peek p2)) TAttrEscapedValue)) eqn:Ev; [reflexivity|].
  assert (Hf2 : final_tok (p_peek p2) = false).
  { unfold final_tok. destruct (t_typ (p_peek p2)); cbn in Ev |- *; try reflexivity; discriminate. }
  rewrite <- (p_next_stable p2 Hr2).
  destruct (p_next lf p2) as [[og p3]|e q|c] eqn:En2; try reflexivity.
  destruct (p_next_reach p2 og p3 Hr2 En2) as [Hr3 Hn2].
  destruct (pulled_down p2 og p3 Hn2 Hf2) as (_ & Hlt2 & _).
  match goal with |- context [match ?vv with Some _ => _ | None => _ end] => destruct vv as [val|] end; [|reflexivity].
  apply IH; [exact Hr3|lia|lia].
Qed.

Lemma parse_element_stable fuel fuel' origin indent d p : Reach p -> top_kind p = KElement origin indent d ->
  (Phi p <= fuel)%nat -> (Phi p <= fuel')%nat ->
  parse_element lf fuel origin indent d p = parse_element lf' fuel' origin indent d p.
Proof.
  intros Hr Hk H1 H2. assert (Hroot : is_root (top_kind p) = false) by (rewrite Hk; reflexivity).
  unfold parse_element. cbv zeta. rewrite <- (p_next_stable p Hr).
  rewrite (handle_node_stable fuel fuel' (indent + 1)%Z p Hr Hroot H1 H2).
  rewrite (parse_attributes_stable (S fuel) (S fuel') origin indent d p Hr ltac:(lia) ltac:(lia)).
  reflexivity.
Qed.

Lemma parse_step_stable fuel fuel' p : Reach p -> (Phi p <= fuel)%nat -> (Phi p <= fuel')%nat ->
  parse_step lf fuel p = parse_step lf' fuel' p.
Proof.
  intros Hr H1 H2. unfold parse_step. cbv zeta. rewrite <- (p_next_stable p Hr).
  destruct (top_kind p) as [pkg user|toks|origin|origin|origin indent d|origin|origin indent|origin|origin indent|origin indent complete|origin|origin indent|origin|fk origin indent] eqn:Hk;
    try reflexivity.
  - (* goht *)
    assert (Hroot : is_root (top_kind p) = false) by (rewrite Hk; reflexivity).
    rewrite (handle_node_stable fuel fuel' 0%Z p Hr Hroot H1 H2). reflexivity.
  - apply parse_element_stable; assumption.
  - assert (Hroot : is_root (top_kind p) = false) by (rewrite Hk; reflexivity).
    rewrite (handle_node_stable fuel fuel' (indent + 1)%Z p Hr Hroot H1 H2). reflexivity.
  - assert (Hroot : is_root (top_kind p) = false) by (rewrite Hk; reflexivity).
    rewrite (handle_node_stable fuel fuel' indent p Hr Hroot H1 H2). reflexivity.
  - assert (Hroot : is_root (top_kind p) = false) by (rewrite Hk; reflexivity).
    rewrite (handle_node_stable fuel fuel' (indent + 1)%Z p Hr Hroot H1 H2). reflexivity.
  - assert (Hroot : is_root (top_kind p) = false) by (rewrite Hk; reflexivity).
    rewrite (handle_node_stable fuel fuel' (indent + 1)%Z p Hr Hroot H1 H2). reflexivity.
Qed.

Lemma parse_step_reach fuel p p1 : Reach p -> parse_step lf fuel p = ROk p1 -> Reach p1 /\ StepRes p p1.
Proof.
  intros [Hi Hv] E. pose proof (parse_step_rel lf fuel p Hi) as Hs. pose proof (parse_step_St lf fuel p (inv_st p Hi)) as Hst.
  assert (Hok : okr (fun c => c <> PBudget) (P (live n)) (parse_step lf fuel p)).
  { apply (parse_step_ok lf (live n) (fun c => c <> PBudget)).
    - intros lx0 H0. pose proof (next_token_live _ lf lx0 Hlf H0) as Hn0. destruct (next_token lf lx0); try contradiction. exact Hn0.
    - exact Hv. }
  rewrite E in *. cbn [okc okq okr] in *. split; [|exact Hs]. split; [|exact Hok].
  destruct Hs as [[A B] _]. split; [exact A|split; [exact B|exact Hst]].
Qed.

Lemma parse_loop_stable : forall fuel fuel' p, Reach p -> (Phi p < fuel)%nat -> (Phi p < fuel')%nat ->
  parse_loop lf fuel p = parse_loop lf' fuel' p.
Proof.
  induction fuel as [|f IH]; intros fuel' p Hr H1 H2; [lia|]. destruct fuel' as [|f']; [lia|]. cbn [parse_loop].
  rewrite <- (parse_step_stable (S f) (S f') p Hr ltac:(lia) ltac:(lia)).
  destruct (parse_step lf (S f) p) as [p1|e q|c] eqn:E; try reflexivity.
  destruct (parse_step_reach (S f) p p1 Hr E) as [Hr1 [_ [Hd|He]]].
  - destruct (toktype_eqb (t_typ (p_token p1)) TEOF); [reflexivity|]. apply IH; [exact Hr1|lia|lia].
  - rewrite He. reflexivity.
Qed.
End Stable.

(** for all budgets above the linear bounds the parse is the same *)
Theorem parse_budget_irrelevant input lf pf lf' pf' :
  (rk_levels * (List.length input + 1) <= lf)%nat -> (rk_levels * (List.length input + 1) <= lf')%nat ->
  (parse_budget input <= pf)%nat -> (parse_budget input <= pf')%nat ->
  parse_bytes_with lf pf input = parse_bytes_with lf' pf' input.
Proof.
  intros Hlf Hlf' Hpf Hpf'. unfold parse_bytes_with. cbv zeta. cbn [p_lexer p_stack].
  assert (Hlive : live (List.length input) (new_lexer input)).
  { split; [split; [reflexivity|apply init_base]|apply Nat.le_refl]. }
  assert (Hmu : (mu SGoLineStart (init_lex input) < rk_levels * (List.length input + 1))%nat).
  { pose proof (mu_bound SGoLineStart (init_lex input)) as Hm. change (A (init_lex input)) with (List.length input) in Hm. exact Hm. }
  rewrite <- (next_token_stable lf lf' (new_lexer input) eq_refl); [|cbn [new_lexer lx_state lx_st]; lia|cbn [new_lexer lx_state lx_st]; lia].
  pose proof (next_token_live (List.length input) lf (new_lexer input) Hlf Hlive) as Hn.
  pose proof (next_token_tau lf (new_lexer input)) as Ht. pose proof (next_token_end lf (new_lexer input) tok_eof) as He.
  destruct (next_token lf (new_lexer input)) as [tk lx| | | |]; try reflexivity.
  specialize (Ht tk lx eq_refl eq_refl). specialize (He tk lx eq_refl I eq_refl).
  set (p1 := mkP lx [mkFrame (KRoot default_pkg []) []] tok_eof tk).
  assert (Hst : St p1).
  { unfold St. cbn. exists default_pkg, []. split; [reflexivity|]. split; [split; [constructor|intros i []]|constructor]. }
  assert (Hr : Reach (List.length input) p1).
  { split; [split; [exact (proj1 (proj1 Hn))|split; [exact He|exact Hst]]|exact Hn]. }
  assert (Hphi : (Phi p1 < parse_budget input)%nat).
  { unfold Phi, p1. cbn [p_lexer stack_depth p_stack List.length]. pose proof (mu2_init input) as Hm.
    assert (Ht0 : (tau lx <= tau (new_lexer input))%nat) by (destruct Ht as [Ht|[_ Ht]]; [lia|rewrite Ht; lia]).
    unfold tau at 2 in Ht0. cbn [new_lexer lx_queue lx_state lx_st List.length] in Ht0. unfold parse_budget. lia. }
  rewrite (parse_loop_stable (List.length input) lf lf' Hlf Hlf' pf pf' p1 Hr ltac:(lia) ltac:(lia)). reflexivity.
Qed.
