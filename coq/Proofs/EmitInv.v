(** A generic invariant principle for the emitter: whatever is preserved by the handful of primitive writer
    operations is preserved by the emission of every tree.  (Used for the source-map invariant of C07 and the
    variable-name invariant of C03.) *)
From GV Require Import Compiler.Emit Proofs.EmitProofs.
Open Scope N_scope.

Section Inv.
Variable I : est -> Prop.
Hypothesis I_wr : forall x st, I st -> I (wr x st).
Hypothesis I_set_local : forall l st, I st -> I (set_local st l).
Hypothesis I_after_var : forall st, I st -> I (after_var st).
(** [reset_var_name] is used by template declarations only: an invariant that does not survive it can still be
    had for trees without them (set [allow_reset] to [False]) *)
Variable allow_reset : Prop.
Hypothesis I_reset : allow_reset -> forall st, I st -> I (reset_var_name st).
Hypothesis I_fail : forall m st, I st -> I (fail_with m st).
(** the three shapes in which a fragment is written and recorded: the token's literal; for a `-` line the
    literal without surrounding white space; for a `?` attribute the attribute's value *)
Hypothesis I_write_tok : forall sm t st, I st -> I (tw_write_add sm (t_lit t) t st).
Hypothesis I_write_trim : forall sm t st, I st -> I (tw_write_add sm (go_trim_space (t_lit t)) t st).
Hypothesis I_write_val : forall sm a st, I st -> I (tw_write_add sm (a_value a) (a_origin a) st).
Hypothesis I_write_indent_tok : forall sm t st, I st -> I (tw_write_indent_add sm (t_lit t) t st).

Lemma add_err_handler_inv st : I st -> I (snd (add_err_handler st)).
Proof. intro H. unfold add_err_handler. destruct (wl_errh (snd st)); cbn [snd]; [apply I_set_local|]; exact H. Qed.

Lemma close_string_literal_inv st : I st -> I (close_string_literal st).
Proof.
  intro H. unfold close_string_literal. pose proof (add_err_handler_inv st H) as H1.
  destruct (add_err_handler st) as [h s1]. cbn [snd] in H1. apply I_wr. apply I_set_local. exact H1.
Qed.

Lemma close_if_static_inv st : I st -> I (close_if_static st).
Proof. intro H. unfold close_if_static. destruct (wl_static (snd st)); [apply close_string_literal_inv|]; exact H. Qed.

Lemma tw_wr_inv x st : I st -> I (tw_wr x st).
Proof. intro H. apply (I_wr x). apply close_if_static_inv. exact H. Qed.

Lemma tw_wri_inv x st : I st -> I (tw_wri x st).
Proof. intro H. unfold tw_wri, tw_write_indent. apply (I_wr x). apply I_wr. apply close_if_static_inv. exact H. Qed.

Lemma tw_write_string_literal_inv x st : I st -> I (tw_write_string_literal x st).
Proof.
  intro H. unfold tw_write_string_literal. destruct (wl_static (snd st)); [apply I_wr; exact H|].
  apply I_wr. apply I_set_local. apply I_wr. apply I_wr. exact H.
Qed.

Lemma tw_write_string_indent_inv x st : I st -> I (tw_write_string_indent x st).
Proof. intro H. unfold tw_write_string_indent. do 4 apply I_wr. apply close_if_static_inv. exact H. Qed.

Lemma tw_write_error_handler_inv st : I st -> I (tw_write_error_handler st).
Proof.
  intro H. unfold tw_write_error_handler. destruct (wl_static (snd st)); [apply close_string_literal_inv; exact H|].
  pose proof (add_err_handler_inv st H) as H1. destruct (add_err_handler st) as [h s1]. apply I_wr. exact H1.
Qed.

Lemma tw_close_inv st : I st -> I (tw_close st).
Proof. apply close_if_static_inv. Qed.

Lemma set_unesc_inv v st : I st -> I (set_unesc v st).
Proof. intro H. unfold set_unesc. apply I_set_local. exact H. Qed.

Lemma write_formatted_text_inv sm t st : I st -> I (write_formatted_text sm t st).
Proof.
  intro H. unfold write_formatted_text. destruct (fmt_text_match (t_lit t)) as [[verb expr]|].
  - cbv zeta. apply tw_wr_inv.
    apply (I_write_tok sm (mkTok TDynamicText expr (t_line t) (t_col t + Z.of_nat (List.length (t_lit t)) - Z.of_nat (List.length expr))%Z)).
    apply tw_wr_inv. apply (I_write_tok sm (mkTok TDynamicText verb (t_line t) (t_col t))). apply tw_wr_inv. exact H.
  - apply I_write_tok. exact H.
Qed.

Ltac inv1 :=
  lazymatch goal with
  | H : I ?s |- I ?s => exact H
  | |- I (tw_wr _ _) => apply tw_wr_inv
  | |- I (tw_wri _ _) => apply tw_wri_inv
  | |- I (tw_write_string_literal _ _) => apply tw_write_string_literal_inv
  | |- I (tw_write_string_indent _ _) => apply tw_write_string_indent_inv
  | |- I (tw_write_error_handler _) => apply tw_write_error_handler_inv
  | |- I (tw_close _) => apply tw_close_inv
  | |- I (tw_write_add _ (t_lit ?t) ?t _) => apply I_write_tok
  | |- I (tw_write_add _ (go_trim_space (t_lit ?t)) ?t _) => apply I_write_trim
  | |- I (tw_write_add _ (a_value ?a) (a_origin ?a) _) => apply I_write_val
  | |- I (tw_write_indent_add _ (t_lit ?t) ?t _) => apply I_write_indent_tok
  | |- I (fail_with _ _) => apply I_fail
  | |- I (set_unesc _ _) => apply set_unesc_inv
  | |- I (write_formatted_text _ _ _) => apply write_formatted_text_inv
  | |- I (after_var _) => apply I_after_var
  | |- I (reset_var_name _) => apply I_reset; [assumption|]
  | |- I (set_local _ _) => apply I_set_local
  end.
Ltac inv := repeat inv1.

Lemma emit_dynamic_inv sm t st : I st -> I (emit_dynamic sm t st).
Proof.
  intro H. unfold emit_dynamic. cbv zeta.
  match goal with |- context [if ?c then _ else _] => destruct c end; inv.
Qed.

Lemma emit_text_inv sm t st : I st -> I (emit_text sm t st).
Proof.
  intro H. unfold emit_text. cbv zeta.
  destruct (toktype_eqb (t_typ t) TDynamicText); [apply emit_dynamic_inv; exact H|].
  match goal with |- context [if ?c then _ else _] => destruct c end; inv.
Qed.

Lemma write_class_args_inv sm l : forall st, I st -> I (write_class_args sm l st).
Proof.
  induction l as [|x rest IH]; intros st H; [exact H|].
  cbn [write_class_args]. cbv zeta. apply IH. destruct rest; destruct (t_typ x); inv.
Qed.

Lemma render_class_inv sm l st : I st -> I (render_class sm l st).
Proof.
  intro H. unfold render_class. destruct l as [|x l]; [exact H|].
  match goal with |- context [if ?c then _ else _] => destruct c end.
  - destruct (first_unquote_failure (x :: l)); inv.
  - cbv zeta. inv. apply write_class_args_inv. inv.
Qed.

Lemma render_attrs_inv sm l : forall st, I st -> I (render_attrs sm l st).
Proof.
  induction l as [|[k a] rest IH]; intros st H; [exact H|].
  cbn [render_attrs]. cbv zeta. apply IH.
  destruct (a_value a) eqn:Ev; [inv|]. rewrite <- Ev. destruct (a_bool a); [inv|]. destruct (a_dyn a); inv.
Qed.

Lemma render_attributes_inv sm d st : I st -> I (render_attributes sm d st).
Proof.
  intro H. unfold render_attributes. cbv zeta.
  set (st1 := match e_objref d with Some o => _ | None => st end).
  assert (H1 : I st1) by (subst st1; destruct (e_objref d); inv).
  clearbody st1.
  set (st2 := match e_id d with [] => st1 | _ => _ end).
  assert (H2 : I st2) by (subst st2; destruct (e_id d); inv).
  clearbody st2.
  destruct (match omap_get (e_attrs d) (lit "class") with Some c => _ | None => _ end) as [classes2 attrs].
  assert (H4 : I (render_attrs sm attrs (render_class sm classes2 st2))) by (apply render_attrs_inv; apply render_class_inv; exact H2).
  destruct (e_attrs_cmd d); [exact H4|]. inv.
Qed.

Lemma fold_inv {A} (f : est -> A -> est) (l : list A) : (forall st a, I st -> I (f st a)) -> forall st, I st -> I (fold_left f l st).
Proof. intro Hf. induction l as [|x l IH]; intros st H; [exact H|]. cbn [fold_left]. apply IH. apply Hf. exact H. Qed.

Lemma body_inv sm ec k ch next nc st :
  match k with KGoht _ => allow_reset | _ => True end ->
  (forall nc0 s0, I s0 -> I (ec ch nc0 s0)) -> I st -> I (fst (emit_node_body sm ec k ch next nc st)).
Proof.
  intros Hal Hec H. unfold emit_node_body.
  Ltac invx Hec :=
    repeat first
    [ inv1
    | lazymatch goal with
      | |- ?I (fold_left _ _ _) => apply fold_inv; [intros ? ? ?|]
      | |- ?I (if _ then _ else _) => fail
      | |- ?I (render_attributes _ _ _) => apply render_attributes_inv
      | |- ?I (emit_text _ _ _) => apply emit_text_inv
      | |- ?I (emit_dynamic _ _ _) => apply emit_dynamic_inv
      | |- ?I (?f ?l _ _) => apply Hec
      end ].
  destruct k as [pkg user|toks|origin|origin|origin indent d|origin|origin indent|origin|origin indent|origin indent complete|origin|origin indent|origin|fk origin indent]; cbv zeta.
  - cbn [fst]. apply Hec. destruct user; destruct (Z.ltb 0 (t_line pkg)); invx Hec.
  - cbn [fst]. apply fold_inv; [|exact H]. intros s0 t H0. destruct (toktype_eqb (t_typ t) TNewLine); invx Hec.
  - cbn [fst]. invx Hec.
  - cbn [fst]. invx Hec.
  - destruct (e_selfclosing d); cbn [fst].
    + destruct (e_nuke_outer d); invx Hec.
    + destruct (e_nuke_outer d), (e_nuke_inner d), (match ch with [c] => kind_is_newline c | _ => false end); invx Hec.
  - cbn [fst]. invx Hec.
  - destruct (t_lit origin); cbn [fst]; invx Hec.
  - cbn [fst]. invx Hec.
  - cbn [fst]. invx Hec.
  - destruct (negb match ch with [] => false | _ => true end); [cbn [fst]; invx Hec|].
    destruct (is_silent next).
    + match goal with |- context [if ?c then (_, false) else _] => destruct c end; cbn [fst]; invx Hec.
    + destruct (any_prefix c_openingStatements (go_trim_space (t_lit origin))); cbn [fst]; invx Hec.
  - cbn [fst]. invx Hec.
  - destruct ch; cbn [fst]; invx Hec.
  - cbn [fst]. invx Hec.
  - destruct fk; cbn [fst]; [invx Hec|invx Hec|].
    destruct (beqb (t_lit origin) (lit "plain") || beqb (t_lit origin) (lit "preserve")), (beqb (t_lit origin) (lit "preserve")); invx Hec.
Qed.

Fixpoint goht_ok (n : node) : Prop :=
  match n with
  | Node k ch =>
    match k with KGoht _ => allow_reset | _ => True end /\
    (fix all (l : list node) : Prop := match l with [] => True | c :: r => goht_ok c /\ all r end) ch
  end.

Definition node_inv_at (sm : bool) (n : node) : Prop :=
  goht_ok n -> forall next nc st, I st -> I (fst (emit_node sm n next nc st)).

Lemma list_inv sm (l : list node) : Forall (node_inv_at sm) l ->
  (fix all (l : list node) : Prop := match l with [] => True | c :: r => goht_ok c /\ all r end) l ->
  forall nc st, I st -> I (emit_list sm l nc st).
Proof.
  induction 1 as [|c rest Hc _ IH]; intros Hok nc st H; [exact H|]. destruct Hok as [Hc1 Hr].
  cbn [emit_list]. pose proof (Hc Hc1 (hd_error rest) nc st H) as H1.
  destruct (emit_node sm c (hd_error rest) nc st) as [s1 f1]. cbn [fst] in H1. apply IH; assumption.
Qed.

Theorem emit_node_inv sm n : node_inv_at sm n.
Proof.
  induction n as [k ch IH] using node_ind2. intros [Hk Hch] next nc st H.
  rewrite emit_node_unfold. apply body_inv; [exact Hk| |exact H]. intros nc0 s0 H0. apply list_inv; assumption.
Qed.

End Inv.

Lemma goht_ok_True n : goht_ok True n.
Proof.
  induction n as [k ch IH] using node_ind2. cbn [goht_ok]. split; [destruct k; exact I|].
  induction IH as [|c r Hc _ IHr]; [exact I|split; assumption].
Qed.
