(** What each static chunk of the emitter (Compiler/Emit.v, [chunk_*]) stands for inside a Go string literal. *)
From GV Require Import Compiler.Emit Proofs.Utf8Proofs Proofs.QuoteProofs Proofs.EscapeProofs.
Open Scope N_scope.

Ltac plain_const := apply reads_as_plain; repeat constructor; cbn; try lia; discriminate.

Lemma reads_quote_mark : reads_as (lit "\""") [34].
Proof. exact reads_as_escaped_quote. Qed.

Lemma chunk_text_escaped_ok t : bytes_ok t ->
  reads_as (chunk_text_escaped t) (html_escape t) /\ html_unescape5 (html_escape t) = t.
Proof.
  intro H. split; [|apply unescape_escape]. apply reads_as_quote. apply bytes_ok_html_escape. exact H.
Qed.

Lemma chunk_tag_ok tag : bytes_ok tag ->
  reads_as (chunk_tag_open tag) (lit "<" ++ tag) /\ reads_as (chunk_tag_close tag) (lit "</" ++ tag ++ lit ">").
Proof.
  intro H. split; unfold chunk_tag_open, chunk_tag_close.
  - apply reads_as_app; [plain_const|apply reads_as_quote; exact H].
  - apply reads_as_app; [plain_const|]. apply reads_as_app; [apply reads_as_quote; exact H|plain_const].
Qed.

Lemma quoted_attr p v : bytes_ok v -> Forall plain p ->
  reads_as (p ++ lit "\""" ++ quote_literal (html_escape v) ++ lit "\""") (p ++ [34] ++ html_escape v ++ [34]).
Proof.
  intros H Hp. apply reads_as_app; [apply reads_as_plain; exact Hp|].
  apply reads_as_app; [exact reads_quote_mark|].
  apply reads_as_app; [apply reads_as_quote; apply bytes_ok_html_escape; exact H|exact reads_quote_mark].
Qed.

Lemma chunk_id_ok i : bytes_ok i ->
  reads_as (chunk_id i) (lit " id=" ++ [34] ++ html_escape i ++ [34]) /\ html_unescape5 (html_escape i) = i.
Proof.
  intro H. split; [|apply unescape_escape].
  apply (quoted_attr (lit " id=") i H). repeat constructor; cbn; try lia; discriminate.
Qed.

Lemma chunk_class_ok names : bytes_ok names ->
  reads_as (chunk_class names) (lit " class=" ++ [34] ++ html_escape names ++ [34]) /\ html_unescape5 (html_escape names) = names.
Proof.
  intro H. split; [|apply unescape_escape].
  apply (quoted_attr (lit " class=") names H). repeat constructor; cbn; try lia; discriminate.
Qed.

Lemma chunk_attr_value_ok v : bytes_ok v ->
  reads_as (chunk_attr_value v) (html_escape v ++ [34]) /\ html_unescape5 (html_escape v) = v.
Proof.
  intro H. split; [|apply unescape_escape]. unfold chunk_attr_value.
  apply reads_as_app; [apply reads_as_quote; apply bytes_ok_html_escape; exact H|exact reads_quote_mark].
Qed.

Lemma chunk_attr_name_ok name : Forall plain name ->
  reads_as (chunk_attr_name name) (lit " " ++ name) /\ reads_as (chunk_attr_open name) (lit " " ++ name ++ lit "=" ++ [34]).
Proof.
  intro H. split; unfold chunk_attr_name, chunk_attr_open.
  - apply reads_as_app; [plain_const|apply reads_as_plain; exact H].
  - apply reads_as_app; [plain_const|]. apply reads_as_app; [apply reads_as_plain; exact H|].
    change (lit "=\""") with (lit "=" ++ lit "\"""). apply reads_as_app; [plain_const|exact reads_quote_mark].
Qed.

Lemma chunk_comment_ok text : bytes_ok text ->
  reads_as (chunk_comment text) (lit "<!--" ++ html_escape text ++ lit "-->" ++ [10]) /\ html_unescape5 (html_escape text) = text.
Proof.
  intro H. split; [|apply unescape_escape]. unfold chunk_comment.
  apply reads_as_app; [plain_const|]. apply reads_as_app; [apply reads_as_quote; apply bytes_ok_html_escape; exact H|].
  change (lit "-->\n") with (lit "-->" ++ [92; 110]). apply reads_as_app; [plain_const|exact reads_as_escaped_newline].
Qed.
