(** The parser's loop ends (C06): every iteration uses up a budget that is linear in the input -- it pulls a token,
    or pops a frame, or is the last one.  [Phi] = twice the token budget of the lexer plus the depth of the stack. *)
From GV Require Import Compiler.Compile Proofs.LexProofs Proofs.LexProgressProofs Proofs.LexTotalProofs Proofs.LexWorkProofs
  Proofs.LexEndProofs Proofs.NoDeadlockProofs Proofs.LexSafeProofs Proofs.NoPanicProofs Proofs.LexPumpProofs Proofs.NoSpinProofs Proofs.ParserShapeProofs.
From Coq Require Import Lia ZArith.
Open Scope N_scope.

Section Term.
Variable lexfuel : nat.

Definition Phi (p : parser) : nat := (2 * tau (p_lexer p) + stack_depth p)%nat.
Definition Inv (p : parser) : Prop := lok (p_lexer p) /\ EndInv (p_lexer p) (p_peek p) /\ St p.

Definition okc {A} (Q : A -> Prop) (r : presult A) : Prop :=
  match r with ROk a => Q a | RErr _ _ => True | RCrash c => c <> PBudget end.

Lemma okc_weaken {A} (Q Q' : A -> Prop) r : (forall a, Q a -> Q' a) -> okc Q r -> okc Q' r.
Proof. destruct r; cbn; auto. Qed.

(** pulling a token *)
Definition pulled_from (p : parser) (tp : token * parser) : Prop :=
  fst tp = p_peek p /\ Inv (snd tp) /\ p_stack (snd tp) = p_stack p /\ p_token (snd tp) = p_peek p /\
  (tau (p_lexer (snd tp)) <= tau (p_lexer p))%nat /\
  (final_tok (p_peek p) = false -> (tau (p_lexer (snd tp)) < tau (p_lexer p))%nat).

Lemma p_next_rel p : Inv p -> okc (pulled_from p) (p_next lexfuel p).
Proof.
  intros (Hl & He & Hs). unfold p_next.
  pose proof (next_token_ok lexfuel (p_lexer p) Hl) as H1.
  pose proof (next_token_tau lexfuel (p_lexer p)) as H2. pose proof (next_token_end lexfuel (p_lexer p) (p_peek p)) as H3.
  pose proof (next_token_not_budget lexfuel (p_lexer p)) as H4.
  destruct (next_token lexfuel (p_lexer p)) as [t lx'| | | |]; cbn [okc]; try discriminate; [|congruence].
  specialize (H2 t lx' Hl eq_refl). specialize (H3 t lx' Hl He eq_refl).
  unfold pulled_from. cbn [fst snd p_lexer p_stack p_token p_peek]. split; [reflexivity|].
  split; [split; [exact H1|split; [exact H3|exact Hs]]|]. split; [reflexivity|]. split; [reflexivity|].
  destruct H2 as [H2|[[Hst Hq] Heq]].
  - split; [lia|intros _; exact H2].
  - subst lx'. split; [lia|]. intro Hf. exfalso. unfold EndInv in He. rewrite Hst, Hq in He. cbn [List.last] in He. congruence.
Qed.

(** popping frames *)
Definition popped (p p' : parser) : Prop :=
  p_lexer p' = p_lexer p /\ p_peek p' = p_peek p /\ p_token p' = p_token p /\ (stack_depth p' <= stack_depth p)%nat /\ St p'.

Lemma popped_refl p : St p -> popped p p.
Proof. intro H. unfold popped. split; [reflexivity|]. split; [reflexivity|]. split; [reflexivity|]. split; [apply Nat.le_refl|exact H]. Qed.

Lemma pop_facts p : St p -> is_root (top_kind p) = false ->
  popped p (pop p) /\ (stack_depth (pop p) < stack_depth p)%nat.
Proof.
  intros Hs Hr. pose proof (wf_pop p Hs) as Hp. unfold pop in Hp. unfold St in Hs. unfold pop, top_kind, stack_depth, popped in *.
  destruct (p_stack p) as [|f [|g rest]] eqn:E.
  - contradiction.
  - cbn [wf] in Hs. destruct Hs as (pkg & user & Hk & _). rewrite Hk in Hr. discriminate.
  - unfold set_stack in *. cbn [p_lexer p_peek p_token p_stack List.length] in *.
    unfold stack_depth. cbn [p_stack]. rewrite E. cbn [List.length].
    split; [split; [reflexivity|split; [reflexivity|split; [reflexivity|split; [lia|exact Hp]]]]|lia].
Qed.

Lemma popped_trans p p1 p2 : popped p p1 -> popped p1 p2 -> popped p p2.
Proof. intros (A1 & A2 & A3 & A4 & A5) (B1 & B2 & B3 & B4 & B5). unfold popped. split; [congruence|]. split; [congruence|]. split; [congruence|]. split; [lia|exact B5]. Qed.

Lemma back_to_indent_rel fuel i : forall p, St p ->
  okc (fun p' => popped p p' /\ ((0 < fuel)%nat -> (i < kind_indent (top_kind p))%Z -> (stack_depth p' < stack_depth p)%nat))
      (back_to_indent fuel i p).
Proof.
  induction fuel as [|f IH]; intros p Hs; cbn [back_to_indent okc].
  - split; [apply popped_refl; exact Hs|lia].
  - destruct (is_root (top_kind p)) eqn:Hr; [exact I|].
    destruct (Z.leb_spec (kind_indent (top_kind p)) i) as [Hle|Hgt].
    + cbn [okc]. split; [apply popped_refl; exact Hs|lia].
    + destruct (pop_facts p Hs Hr) as [Hp Hd]. pose proof (IH (pop p) (proj2 (proj2 (proj2 (proj2 Hp))))) as Hi.
      destruct (back_to_indent f i (pop p)) as [p'|e q|c]; cbn [okc] in *; try exact I; try exact Hi.
      destruct Hi as [Hq _]. split; [eapply popped_trans; eassumption|]. intros _ _. destruct Hq as (_ & _ & _ & Hq & _). lia.
Qed.

Lemma back_to_type_rel fuel t : forall p, St p ->
  okc (fun p' => popped p p' /\ ((0 < fuel)%nat -> ntype_eqb (kind_ntype (top_kind p)) t = false -> (stack_depth p' < stack_depth p)%nat))
      (back_to_type fuel t p).
Proof.
  induction fuel as [|f IH]; intros p Hs; cbn [back_to_type okc].
  - split; [apply popped_refl; exact Hs|lia].
  - destruct (ntype_eqb (kind_ntype (top_kind p)) t) eqn:Ht.
    + cbn [okc]. split; [apply popped_refl; exact Hs|intros _ K; discriminate].
    + destruct (is_root (top_kind p)) eqn:Hr; [exact I|].
      destruct (pop_facts p Hs Hr) as [Hp Hd]. pose proof (IH (pop p) (proj2 (proj2 (proj2 (proj2 Hp))))) as Hi.
      destruct (back_to_type f t (pop p)) as [p'|e q|c]; cbn [okc] in *; try exact I; try exact Hi.
      destruct Hi as [Hq _]. split; [eapply popped_trans; eassumption|]. intros _ _. destruct Hq as (_ & _ & _ & Hq & _). lia.
Qed.

Lemma back_to_parent_rel p : St p -> okc (fun p' => popped p p' /\ (stack_depth p' < stack_depth p)%nat) (back_to_parent p).
Proof.
  intro Hs. unfold back_to_parent. destruct (is_root (top_kind p)) eqn:Hr; [exact I|]. cbn [okc]. apply pop_facts; assumption.
Qed.

(** what a step may do to the parser: [Q p p'] = the invariant holds again and the budget went down *)
Definition Down (p p' : parser) : Prop := Inv p' /\ (Phi p' < Phi p)%nat.
Definition Weak (p p' : parser) : Prop := Inv p' /\ (Phi p' <= Phi p)%nat.

Lemma popped_inv p p' : Inv p -> popped p p' -> Weak p p'.
Proof.
  intros (Hl & He & _) (A1 & A2 & A3 & A4 & A5). unfold Weak, Inv, Phi. rewrite A1, A2. split; [split; [exact Hl|split; [exact He|exact A5]]|lia].
Qed.
Lemma popped_down p p' : Inv p -> popped p p' -> (stack_depth p' < stack_depth p)%nat -> Down p p'.
Proof.
  intros (Hl & He & _) (A1 & A2 & A3 & A4 & A5) Hd. unfold Down, Inv, Phi. rewrite A1, A2. split; [split; [exact Hl|split; [exact He|exact A5]]|lia].
Qed.

Definition Core (p : parser) : Prop := lok (p_lexer p) /\ EndInv (p_lexer p) (p_peek p).
Lemma inv_core p : Inv p -> Core p. Proof. intros (A & B & _). split; assumption. Qed.
Lemma inv_st p : Inv p -> St p. Proof. intros (_ & _ & C). exact C. Qed.

Lemma depth_add_node p k : stack_depth (add_node p k) = S (stack_depth p). Proof. reflexivity. Qed.
Lemma depth_add_child p n : stack_depth (add_child p n) = stack_depth p.
Proof. unfold add_child, stack_depth. destruct (p_stack p) eqn:E; [rewrite E; reflexivity|reflexivity]. Qed.
Lemma depth_set_top_kind p k : stack_depth (set_top_kind p k) = stack_depth p.
Proof. unfold set_top_kind, stack_depth. destruct (p_stack p) eqn:E; [rewrite E; reflexivity|reflexivity]. Qed.
Lemma lexer_add_child p n : p_lexer (add_child p n) = p_lexer p /\ p_peek (add_child p n) = p_peek p.
Proof. unfold add_child. destruct (p_stack p); split; reflexivity. Qed.
Lemma lexer_set_top_kind p k : p_lexer (set_top_kind p k) = p_lexer p /\ p_peek (set_top_kind p k) = p_peek p.
Proof. unfold set_top_kind. destruct (p_stack p); split; reflexivity. Qed.

(** after a pull that used budget: the four ways in which the parse methods go on *)
Lemma pulled_down p tk p1 : pulled_from p (tk, p1) -> final_tok (p_peek p) = false ->
  Core p1 /\ (Phi p1 < Phi p)%nat /\
  (forall n, Core (add_child p1 n) /\ (Phi (add_child p1 n) < Phi p)%nat) /\
  (forall k, Core (add_node p1 k) /\ (Phi (add_node p1 k) < Phi p)%nat) /\
  (forall k, Core (set_top_kind p1 k) /\ (Phi (set_top_kind p1 k) < Phi p)%nat).
Proof.
  intros (_ & Hi & Hs & _ & _ & Hlt) Hf. cbn [snd] in *. specialize (Hlt Hf). pose proof (inv_core p1 Hi) as Hc.
  assert (Hd : stack_depth p1 = stack_depth p) by (unfold stack_depth; rewrite Hs; reflexivity).
  split; [exact Hc|]. split; [unfold Phi; lia|]. split; [|split].
  - intro n. destruct (lexer_add_child p1 n) as [E1 E2]. unfold Core, Phi. rewrite E1, E2, depth_add_child. split; [exact Hc|lia].
  - intro k. split; [exact Hc|]. unfold Phi. rewrite depth_add_node. cbn [add_node set_stack p_lexer]. lia.
  - intro k. destruct (lexer_set_top_kind p1 k) as [E1 E2]. unfold Core, Phi. rewrite E1, E2, depth_set_top_kind. split; [exact Hc|lia].
Qed.

Definition Res (p : parser) (strict : Prop) (p' : parser) : Prop :=
  Core p' /\ (Phi p' <= Phi p)%nat /\ (strict -> (Phi p' < Phi p)%nat).

Lemma nonfinal p t : t_typ (p_peek p) = t -> toktype_eqb t TEOF || toktype_eqb t TError = false -> final_tok (p_peek p) = false.
Proof. intros H1 H2. unfold final_tok. rewrite H1. exact H2. Qed.

Lemma depth_pos p : St p -> (0 < stack_depth p)%nat.
Proof. unfold St, stack_depth. destruct (p_stack p); [contradiction|cbn; lia]. Qed.

Lemma ntype_eqb_false a b : a <> b -> ntype_eqb a b = false.
Proof. destruct a, b; cbn; intro H; try reflexivity; congruence. Qed.

Lemma popped_res p p' (strict : Prop) : Inv p -> popped p p' -> (strict -> (stack_depth p' < stack_depth p)%nat) -> Res p strict p'.
Proof.
  intros (Hl & He & _) (A1 & A2 & A3 & A4 & A5) Hd. unfold Res, Core, Phi. rewrite A1, A2.
  split; [split; assumption|]. split; [lia|intro K; specialize (Hd K); lia].
Qed.

Ltac res_pull H1 H2 H3 H4 H5 :=
  unfold Res;
  let A := fresh "A" in let B := fresh "B" in
  match goal with
  | |- Core (add_child _ ?n) /\ _ => destruct (H3 n) as [A B]
  | |- Core (add_node _ ?k) /\ _ => destruct (H4 k) as [A B]
  | |- Core (set_top_kind _ ?k) /\ _ => destruct (H5 k) as [A B]
  | |- Core _ /\ _ => pose proof H1 as A; pose proof H2 as B
  end; split; [exact A|split; [lia|intros _; exact B]].

Lemma handle_node_rel fuel : forall indent p, Inv p -> is_root (top_kind p) = false ->
  okc (Res p (t_typ (p_peek p) = TGohtEnd -> kind_ntype (top_kind p) <> NtGoht)) (handle_node lexfuel fuel indent p).
Proof.
  induction fuel as [|f IH]; intros indent p Hi Hr; cbn [handle_node]; cbv zeta;
    pose proof (p_next_rel p Hi) as Hn;
    destruct (t_typ (p_peek p)) eqn:Ht; try exact I.
  all: try (destruct (p_next lexfuel p) as [[tk p1]|e q|c]; cbn [okc] in *; [|exact I|exact Hn];
            destruct (pulled_down p tk p1 Hn (nonfinal p _ Ht eq_refl)) as (H1 & H2 & H3 & H4 & H5)).
  all: try solve [res_pull H1 H2 H3 H4 H5].
  all: try solve [repeat match goal with |- context [if ?c then _ else _] => destruct c end; cbn [okc]; try exact I; res_pull H1 H2 H3 H4 H5].
  all: try (* `}` *) solve [
    pose proof (back_to_type_rel (stack_depth p) NtGoht p (inv_st p Hi)) as Hb;
    destruct (back_to_type (stack_depth p) NtGoht p) as [p'|e q|c]; cbn [okc] in *; try exact I; try exact Hb;
    destruct Hb as [Hp Hd]; apply (popped_res p p' _ Hi Hp); intro K; apply Hd; [apply depth_pos; exact (inv_st p Hi)|apply ntype_eqb_false; apply K; reflexivity] ].
  all: destruct (Z.leb_spec (zlen (t_lit (p_peek p))) (kind_indent (top_kind p))) as [Hle|Hgt].
  all: try solve [
    pose proof (back_to_indent_rel (stack_depth p) (zlen (t_lit (p_peek p)) - 1) p (inv_st p Hi)) as Hb;
    destruct (back_to_indent (stack_depth p) (zlen (t_lit (p_peek p)) - 1) p) as [p'|e q|c]; cbn [okc] in *; try exact I; try exact Hb;
    destruct Hb as [Hp Hd]; apply (popped_res p p' _ Hi Hp); intros _; apply Hd; [apply depth_pos; exact (inv_st p Hi)|lia] ].
  all: destruct (p_next lexfuel p) as [[tk p1]|e q|c]; cbn [okc] in *; [|exact I|exact Hn];
       destruct (pulled_down p tk p1 Hn (nonfinal p _ Ht eq_refl)) as (H1 & H2 & H3 & H4 & H5).
  - res_pull H1 H2 H3 H4 H5.
  - destruct Hn as (_ & Hi1 & Hs1 & _). cbn [snd] in *.
    assert (Hr1 : is_root (top_kind p1) = false) by (unfold top_kind in *; rewrite Hs1; exact Hr).
    pose proof (IH (zlen (t_lit (p_peek p))) p1 Hi1 Hr1) as Hh.
    destruct (handle_node lexfuel f (zlen (t_lit (p_peek p))) p1) as [p'|e q|c]; cbn [okc] in *; try exact I; try exact Hh.
    destruct Hh as (C1 & C2 & _). split; [exact C1|split; [lia|intros _; lia]].
Qed.

Lemma toktype_eqb_true a b : toktype_eqb a b = true -> a = b.
Proof. destruct a, b; cbn; intro H; try discriminate; reflexivity. Qed.

Lemma nonfinal_eqb p t : toktype_eqb (t_typ (p_peek p)) t = true -> toktype_eqb t TEOF || toktype_eqb t TError = false -> final_tok (p_peek p) = false.
Proof. intros H1 H2. apply toktype_eqb_true in H1. apply (nonfinal p t H1 H2). Qed.

Lemma res_chain p p1 p' (s s' : Prop) : Core p1 -> (Phi p1 < Phi p)%nat -> Res p1 s p' -> Res p s' p'.
Proof. intros _ H (A & B & _). split; [exact A|split; [lia|intros _; lia]]. Qed.

Lemma parse_attributes_rel fuel origin0 indent0 : forall d p, Inv p ->
  okc (fun dp => Res p ((0 < fuel)%nat /\ t_typ (p_peek p) = TAttrName) (snd dp)) (parse_attributes lexfuel fuel origin0 indent0 d p).
Proof.
  induction fuel as [|f IH]; intros d p Hi; cbn [parse_attributes]; cbv zeta.
  - cbn [okc snd]. split; [apply inv_core; exact Hi|split; [lia|intros [K _]; lia]].
  - destruct (toktype_eqb (t_typ (p_peek p)) TAttrName) eqn:Ea; cbn [negb].
    2:{ cbn [okc snd]. split; [apply inv_core; exact Hi|split; [lia|intros [_ K]; rewrite K in Ea; discriminate]]. }
    pose proof (p_next_rel p Hi) as Hn. destruct (p_next lexfuel p) as [[nt p1]|e q|c]; cbn [okc] in *; [|exact I|exact Hn].
    destruct (pulled_down p nt p1 Hn (nonfinal_eqb p _ Ea eq_refl)) as (H1 & H2 & _).
    pose proof (proj1 (proj2 Hn)) as Hi1. cbn [snd] in Hi1.
    destruct (toktype_eqb (t_typ (p_peek p1)) TAttrOperator) eqn:Eo.
    2:{ match goal with |- okc _ (parse_attributes _ f _ _ ?d' p1) => pose proof (IH d' p1 Hi1) as Hr; destruct (parse_attributes lexfuel f origin0 indent0 d' p1) as [[d2 p2]|e q|c] end;
        cbn [okc snd] in *; try exact I; try exact Hr. eapply res_chain; eassumption. }
    pose proof (p_next_rel p1 Hi1) as Hn1. destruct (p_next lexfuel p1) as [[op p2]|e q|c]; cbn [okc] in *; [|exact I|exact Hn1].
    destruct (pulled_down p1 op p2 Hn1 (nonfinal_eqb p1 _ Eo eq_refl)) as (G1 & G2 & _).
    pose proof (proj1 (proj2 Hn1)) as Hi2. cbn [snd] in Hi2.
    destruct (beqb (t_lit op) (lit "?") && negb (toktype_eqb (t_typ (p_peek p2)) TAttrDynamicValue)); [exact I|].
    destruct (negb (toktype_eqb (t_typ (p_peek p2)) TAttrDynamicValue) && negb (toktype_eqb (t_typ (p_peek p2)) TAttrEscapedValue)) eqn:Ev; [exact I|].
    assert (Hf2 : final_tok (p_peek p2) = false).
    { unfold final_tok. destruct (t_typ (p_peek p2)); cbn in Ev |- *; try reflexivity; discriminate. }
    pose proof (p_next_rel p2 Hi2) as Hn2. destruct (p_next lexfuel p2) as [[og p3]|e q|c]; cbn [okc] in *; [|exact I|exact Hn2].
    destruct (pulled_down p2 og p3 Hn2 Hf2) as (K1 & K2 & _).
    pose proof (proj1 (proj2 Hn2)) as Hi3. cbn [snd] in Hi3.
    match goal with |- context [match ?vv with Some _ => _ | None => _ end] => destruct vv as [val|] end; [|exact I].
    match goal with |- okc _ (parse_attributes _ f _ _ ?d' p3) => pose proof (IH d' p3 Hi3) as Hr; destruct (parse_attributes lexfuel f origin0 indent0 d' p3) as [[d4 p4]|e q|c] end;
      cbn [okc snd] in *; try exact I; try exact Hr.
    destruct Hr as (A & B & _). split; [exact A|split; [lia|intros _; lia]].
Qed.

Lemma res_set_top_kind p p1 k (s : Prop) : Core p1 -> (Phi p1 < Phi p)%nat -> Res p s (set_top_kind p1 k).
Proof.
  intros Hc Hlt. destruct (lexer_set_top_kind p1 k) as [E1 E2]. unfold Res, Core, Phi in *. rewrite E1, E2, depth_set_top_kind.
  split; [exact Hc|split; [lia|intros _; lia]].
Qed.
Lemma res_add_child p p1 n (s : Prop) : Core p1 -> (Phi p1 < Phi p)%nat -> Res p s (add_child p1 n).
Proof.
  intros Hc Hlt. destruct (lexer_add_child p1 n) as [E1 E2]. unfold Res, Core, Phi in *. rewrite E1, E2, depth_add_child.
  split; [exact Hc|split; [lia|intros _; lia]].
Qed.

Lemma handle_node_strict fuel indent p : Inv p -> is_root (top_kind p) = false -> kind_ntype (top_kind p) <> NtGoht ->
  okc (Res p True) (handle_node lexfuel fuel indent p).
Proof.
  intros Hi Hr Hk. pose proof (handle_node_rel fuel indent p Hi Hr) as H.
  destruct (handle_node lexfuel fuel indent p); cbn [okc] in *; try exact I; try exact H.
  destruct H as (A & B & C). split; [exact A|split; [exact B|intros _; apply C; intros _; exact Hk]].
Qed.

Lemma parse_element_rel fuel origin indent d p : Inv p -> top_kind p = KElement origin indent d ->
  okc (Res p True) (parse_element lexfuel fuel origin indent d p).
Proof.
  intros Hi Hk.
  assert (Hr : is_root (top_kind p) = false) by (rewrite Hk; reflexivity).
  assert (Hnt : kind_ntype (top_kind p) <> NtGoht) by (rewrite Hk; discriminate).
  pose proof (handle_node_strict fuel (indent + 1)%Z p Hi Hr Hnt) as Hh.
  pose proof (p_next_rel p Hi) as Hn.
  assert (Hback : (zlen (t_lit (p_peek p)) <= indent)%Z ->
            okc (Res p True) (back_to_indent (stack_depth p) (zlen (t_lit (p_peek p)) - 1) p)).
  { intro Hle. pose proof (back_to_indent_rel (stack_depth p) (zlen (t_lit (p_peek p)) - 1) p (inv_st p Hi)) as Hb.
    destruct (back_to_indent (stack_depth p) (zlen (t_lit (p_peek p)) - 1) p) as [p'|e q|c]; cbn [okc] in *; try exact I; try exact Hb.
    destruct Hb as [Hp Hd]. apply (popped_res p p' _ Hi Hp). intros _. apply Hd; [apply depth_pos; exact (inv_st p Hi)|rewrite Hk; cbn [kind_indent]; lia]. }
  unfold parse_element. cbv zeta.
  destruct (e_complete d).
  - destruct (t_typ (p_peek p)) eqn:Ht; try exact Hh.
    destruct (Z.leb_spec (zlen (t_lit (p_peek p))) indent) as [Hle|Hgt]; [apply Hback; exact Hle|].
    destruct (e_disallow d || e_selfclosing d); [destruct (e_selfclosing d); exact I|]. exact Hh.
  - destruct (t_typ (p_peek p)) eqn:Ht; try exact Hh.
    all: try (destruct (p_next lexfuel p) as [[tk p1]|e q|c]; cbn [okc] in *; [|exact I|exact Hn];
              destruct (pulled_down p tk p1 Hn (nonfinal p _ Ht eq_refl)) as (H1 & H2 & H3 & H4 & H5)).
    all: try solve [apply res_set_top_kind; assumption].
    + (* newline: the line of the element is complete *)
      match goal with |- context [set_top_kind p1 ?K] => destruct (H5 K) as [A B] end.
      match goal with |- context [if ?c then _ else _] => destruct c end;
        [apply res_add_child; assumption|split; [exact A|split; [lia|intros _; exact B]]].
    + (* attributes *)
      pose proof (parse_attributes_rel (S fuel) origin indent d p Hi) as Ha.
      destruct (parse_attributes lexfuel (S fuel) origin indent d p) as [[d' p1]|e q|c]; cbn [okc snd] in *; try exact I; try exact Ha.
      destruct Ha as (A & B & C). apply res_set_top_kind; [exact A|apply C; split; [lia|exact Ht]].
Qed.

Definition StepRes (p p' : parser) : Prop :=
  Core p' /\ ((Phi p' < Phi p)%nat \/ toktype_eqb (t_typ (p_token p')) TEOF = true).

Lemma res_step p p' : Res p True p' -> StepRes p p'.
Proof. intros (A & _ & C). split; [exact A|left; apply C; exact I]. Qed.

Lemma okc_res_step p r : okc (Res p True) r -> okc (StepRes p) r.
Proof. apply okc_weaken. apply res_step. Qed.

Lemma back_to_indent_strict p i : Inv p -> (i < kind_indent (top_kind p))%Z -> okc (Res p True) (back_to_indent (stack_depth p) i p).
Proof.
  intros Hi Hlt. pose proof (back_to_indent_rel (stack_depth p) i p (inv_st p Hi)) as Hb.
  destruct (back_to_indent (stack_depth p) i p) as [p'|e q|c]; cbn [okc] in *; try exact I; try exact Hb.
  destruct Hb as [Hp Hd]. apply (popped_res p p' _ Hi Hp). intros _. apply Hd; [apply depth_pos; exact (inv_st p Hi)|exact Hlt].
Qed.

Lemma back_to_type_strict p t : Inv p -> kind_ntype (top_kind p) <> t -> okc (Res p True) (back_to_type (stack_depth p) t p).
Proof.
  intros Hi Hne. pose proof (back_to_type_rel (stack_depth p) t p (inv_st p Hi)) as Hb.
  destruct (back_to_type (stack_depth p) t p) as [p'|e q|c]; cbn [okc] in *; try exact I; try exact Hb.
  destruct Hb as [Hp Hd]. apply (popped_res p p' _ Hi Hp). intros _. apply Hd; [apply depth_pos; exact (inv_st p Hi)|apply ntype_eqb_false; exact Hne].
Qed.

Lemma back_to_type_weak p1 t : Inv p1 -> okc (Res p1 False) (back_to_type (stack_depth p1) t p1).
Proof.
  intros Hi. pose proof (back_to_type_rel (stack_depth p1) t p1 (inv_st p1 Hi)) as Hb.
  destruct (back_to_type (stack_depth p1) t p1) as [p'|e q|c]; cbn [okc] in *; try exact I; try exact Hb.
  destruct Hb as [Hp _]. apply (popped_res p1 p' _ Hi Hp). intros [].
Qed.

Lemma back_to_parent_weak p1 : Inv p1 -> okc (Res p1 False) (back_to_parent p1).
Proof.
  intros Hi. pose proof (back_to_parent_rel p1 (inv_st p1 Hi)) as Hb.
  destruct (back_to_parent p1) as [p'|e q|c]; cbn [okc] in *; try exact I; try exact Hb.
  destruct Hb as [Hp _]. apply (popped_res p1 p' _ Hi Hp). intros [].
Qed.

Lemma chain_step p p1 r : Core p1 -> (Phi p1 < Phi p)%nat -> okc (Res p1 False) r -> okc (StepRes p) r.
Proof.
  intros _ Hlt H. destruct r as [p'|e q|c]; cbn [okc] in *; try exact I; try exact H.
  destruct H as (A & B & _). split; [exact A|left; lia].
Qed.

Theorem parse_step_rel fuel p : Inv p -> okc (StepRes p) (parse_step lexfuel fuel p).
Proof.
  intro Hi. pose proof (p_next_rel p Hi) as Hn. unfold parse_step. cbv zeta.
  destruct (top_kind p) as [pkg user|toks|origin|origin|origin indent d|origin|origin indent|origin|origin indent|origin indent complete|origin|origin indent|origin|fk origin indent] eqn:Hk;
    try exact I.
  - (* root *)
    destruct (t_typ (p_peek p)) eqn:Ht; try exact I.
    all: destruct (p_next lexfuel p) as [[tk p1]|e q|c]; cbn [okc] in *; [|exact I|exact Hn].
    all: try (destruct (pulled_down p tk p1 Hn (nonfinal p _ Ht eq_refl)) as (H1 & H2 & H3 & H4 & H5);
              apply res_step; res_pull H1 H2 H3 H4 H5).
    (* the end of the file: the token just consumed is the EOF, the loop stops *)
    destruct Hn as (_ & Hi1 & _ & Htok & _). cbn [snd] in *. split; [apply inv_core; exact Hi1|right]. rewrite Htok, Ht. reflexivity.
  - (* code *)
    assert (Hne : kind_ntype (top_kind p) <> NtRoot) by (rewrite Hk; discriminate).
    destruct (t_typ (p_peek p)) eqn:Ht; try exact I; try (apply okc_res_step; apply back_to_type_strict; assumption).
    all: destruct (p_next lexfuel p) as [[tk p1]|e q|c]; cbn [okc] in *; [|exact I|exact Hn].
    all: destruct (pulled_down p tk p1 Hn (nonfinal p _ Ht eq_refl)) as (H1 & H2 & H3 & H4 & H5); apply res_step; res_pull H1 H2 H3 H4 H5.
  - (* goht *)
    assert (Hr : is_root (top_kind p) = false) by (rewrite Hk; reflexivity).
    pose proof (handle_node_rel fuel 0%Z p Hi Hr) as Hh.
    destruct (t_typ (p_peek p)) eqn:Ht;
      try (destruct (handle_node lexfuel fuel 0 p) as [p'|e q|c]; cbn [okc] in *; try exact I; try exact Hh;
           destruct Hh as (A & _ & C); split; [exact A|left; apply C; discriminate]).
    destruct (p_next lexfuel p) as [[tk p1]|e q|c]; cbn [okc] in *; [|exact I|exact Hn].
    destruct (pulled_down p tk p1 Hn (nonfinal p _ Ht eq_refl)) as (H1 & H2 & _).
    apply (chain_step p p1 _ H1 H2). apply back_to_type_weak. exact (proj1 (proj2 Hn)).
  - apply okc_res_step. apply parse_element_rel; assumption.
  - (* comment *)
    assert (Hr : is_root (top_kind p) = false) by (rewrite Hk; reflexivity).
    assert (Hnt : kind_ntype (top_kind p) <> NtGoht) by (rewrite Hk; discriminate).
    pose proof (okc_res_step p _ (handle_node_strict fuel (indent + 1)%Z p Hi Hr Hnt)) as Hh.
    destruct (t_typ (p_peek p)) eqn:Ht; try exact Hh.
    destruct (Z.leb_spec (zlen (t_lit (p_peek p))) indent) as [Hle|Hgt].
    + apply okc_res_step. apply back_to_indent_strict; [exact Hi|rewrite Hk; cbn [kind_indent]; lia].
    + destruct (negb _); [exact I|exact Hh].
  - (* unescape *)
    assert (Hr : is_root (top_kind p) = false) by (rewrite Hk; reflexivity).
    assert (Hnt : kind_ntype (top_kind p) <> NtGoht) by (rewrite Hk; discriminate).
    pose proof (okc_res_step p _ (handle_node_strict fuel indent p Hi Hr Hnt)) as Hh.
    destruct (t_typ (p_peek p)) eqn:Ht; try exact Hh.
    pose proof (back_to_parent_rel p (inv_st p Hi)) as Hb.
    destruct (back_to_parent p) as [p'|e q|c]; cbn [okc] in *; try exact I; try exact Hb.
    destruct Hb as [Hp Hd]. apply res_step. apply (popped_res p p' _ Hi Hp). intros _. exact Hd.
  - (* silent *)
    assert (Hr : is_root (top_kind p) = false) by (rewrite Hk; reflexivity).
    assert (Hnt : kind_ntype (top_kind p) <> NtGoht) by (rewrite Hk; discriminate).
    pose proof (okc_res_step p _ (handle_node_strict fuel (indent + 1)%Z p Hi Hr Hnt)) as Hh.
    destruct (t_typ (p_peek p)) eqn:Ht; try exact Hh.
    destruct complete; [exact Hh|].
    destruct (p_next lexfuel p) as [[tk p1]|e q|c]; cbn [okc] in *; [|exact I|exact Hn].
    destruct (pulled_down p tk p1 Hn (nonfinal p _ Ht eq_refl)) as (H1 & H2 & H3 & H4 & H5); apply res_step; res_pull H1 H2 H3 H4 H5.
  - (* render *)
    apply okc_res_step. apply handle_node_strict; [exact Hi|rewrite Hk; reflexivity|rewrite Hk; discriminate].
  - (* filter *)
    match goal with |- context [if ?c then _ else _] => destruct c eqn:Etext end.
    + assert (Hf : final_tok (p_peek p) = false).
      { unfold final_tok. destruct fk; destruct (t_typ (p_peek p)); cbn in Etext |- *; try reflexivity; discriminate. }
      destruct (p_next lexfuel p) as [[tk p1]|e q|c]; cbn [okc] in *; [|exact I|exact Hn].
      destruct (pulled_down p tk p1 Hn Hf) as (H1 & H2 & H3 & H4 & H5); apply res_step; res_pull H1 H2 H3 H4 H5.
    + destruct (t_typ (p_peek p)) eqn:Ht; try exact I.
      destruct (p_next lexfuel p) as [[tk p1]|e q|c]; cbn [okc] in *; [|exact I|exact Hn].
      destruct (pulled_down p tk p1 Hn (nonfinal p _ Ht eq_refl)) as (H1 & H2 & _).
      apply (chain_step p p1 _ H1 H2). apply back_to_parent_weak. exact (proj1 (proj2 Hn)).
Qed.

Theorem parse_loop_terminates : forall fuel p, Inv p -> (Phi p < fuel)%nat -> parse_loop lexfuel fuel p <> RCrash PBudget.
Proof.
  induction fuel as [|f IH]; intros p Hi Hlt; [lia|]. cbn [parse_loop].
  pose proof (parse_step_rel (S f) p Hi) as Hs. pose proof (parse_step_St lexfuel (S f) p (inv_st p Hi)) as Hst.
  destruct (parse_step lexfuel (S f) p) as [p1|e q|c]; cbn [okc okq] in *; [|discriminate|congruence].
  destruct Hs as [Hc [Hd|He]].
  - destruct (toktype_eqb (t_typ (p_token p1)) TEOF); [discriminate|]. apply IH; [|lia].
    destruct Hc as [A B]. split; [exact A|split; [exact B|exact Hst]].
  - rewrite He. discriminate.
Qed.
End Term.

(** * the whole parse, with any budgets at least as large as the linear bounds *)
Definition parse_bytes_with (lf pf : nat) (input : bytes) : parse_outcome :=
  let p0 := mkP (new_lexer input) [mkFrame (KRoot default_pkg []) []] tok_eof tok_eof in
  match next_token lf (p_lexer p0) with
  | PTok t lx =>
    let p1 := mkP lx (p_stack p0) tok_eof t in
    match parse_loop lf pf p1 with
    | ROk p2 => Parsed (collapse (stack_depth p2) p2) None
    | RErr e p2 => Parsed (collapse (stack_depth p2) p2) (Some e)
    | RCrash c => Crashed c
    end
  | c => Crashed c
  end.

Lemma parse_bytes_is input : parse_bytes input = parse_bytes_with (lex_fuel input) (parse_fuel input) input.
Proof. reflexivity. Qed.

(** the budget of the parser's loop: linear in the input *)
Definition parse_budget (input : bytes) : nat := (2 * (5 * (levels2 * (List.length input + 1))) + 2)%nat.

Lemma mu2_init input : (mu2 SGoLineStart (init_lex input) < levels2 * (List.length input + 1))%nat.
Proof.
  unfold mu2. pose proof (rank2_bound SGoLineStart (init_lex input)) as Hb.
  change (A (init_lex input)) with (List.length input). unfold levels2 in *. lia.
Qed.

(** for every input and every pair of budgets at least as large as the linear bounds, the compiler model returns a
    tree (with or without an error): it does not hang, spin, run out of budget, panic or block *)
Theorem parse_terminates input lf pf :
  (rk_levels * (List.length input + 1) <= lf)%nat -> (parse_budget input <= pf)%nat ->
  exists t e, parse_bytes_with lf pf input = Parsed t e.
Proof.
  intros Hlf Hpf. unfold parse_bytes_with. cbv zeta. cbn [p_lexer p_stack].
  assert (Hlive : live (List.length input) (new_lexer input)).
  { split; [split; [reflexivity|apply init_base]|apply Nat.le_refl]. }
  pose proof (next_token_live (List.length input) lf (new_lexer input) Hlf Hlive) as Hn.
  pose proof (next_token_tau lf (new_lexer input)) as Ht. pose proof (next_token_end lf (new_lexer input) tok_eof) as He.
  destruct (next_token lf (new_lexer input)) as [tk lx| | | |]; try contradiction.
  specialize (Ht tk lx eq_refl eq_refl). specialize (He tk lx eq_refl I eq_refl).
  set (p1 := mkP lx [mkFrame (KRoot default_pkg []) []] tok_eof tk).
  assert (Hst : St p1).
  { unfold St. cbn. exists default_pkg, []. split; [reflexivity|]. split; [split; [constructor|intros i []]|constructor]. }
  assert (Hi : Inv p1) by (split; [exact (proj1 (proj1 Hn))|split; [exact He|exact Hst]]).
  assert (Hphi : (Phi p1 < pf)%nat).
  { unfold Phi, p1. cbn [p_lexer stack_depth p_stack List.length]. pose proof (mu2_init input) as Hm.
    assert (Ht0 : (tau lx <= tau (new_lexer input))%nat) by (destruct Ht as [Ht|[_ Ht]]; [lia|rewrite Ht; lia]).
    unfold tau at 2 in Ht0. cbn [new_lexer lx_queue lx_state lx_st List.length] in Ht0. unfold parse_budget in Hpf. lia. }
  pose proof (parse_loop_terminates lf pf p1 Hi Hphi) as Hb.
  (* the other abnormal outcomes: the generic lift of NoDeadlockProofs with the invariant [live] *)
  assert (Hok : okr (fun c => c <> PBudget) (P (live (List.length input))) (parse_loop lf pf p1)).
  { apply (parse_loop_ok lf (live (List.length input)) (fun c => c <> PBudget)).
    - intros lx0 H0. pose proof (next_token_live _ lf lx0 Hlf H0) as Hn0.
      destruct (next_token lf lx0); try contradiction. exact Hn0.
    - intro H. apply H. reflexivity.
    - exact Hn. }
  destruct (parse_loop lf pf p1) as [p2|e p2|c]; [eexists; eexists; reflexivity|eexists; eexists; reflexivity|].
  exfalso. cbn [okr] in Hok. apply Hok. intro Hc. subst c. apply Hb. reflexivity.
Qed.

(** the outcome of the compile with explicit budgets (run by the C06 check next to the executable model, which has
    smaller ones, on the smaller inputs of its corpus) *)
Definition compile_parse_with (lf pf : nat) (input : bytes) : outcome :=
  match parse_bytes_with lf pf input with
  | Parsed t e => ODone t e
  | Crashed PPanic => OPanic
  | Crashed PDeadlock => ODeadlock
  | Crashed _ => OHang
  end.

Lemma compile_parse_is input : compile_parse input = compile_parse_with (lex_fuel input) (parse_fuel input) input.
Proof. reflexivity. Qed.
