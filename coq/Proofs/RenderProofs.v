(** Render is all-or-nothing and reports every failure (C12), for every program of the model Runtime/Render.v,
    every set of failing sites and every destination behaviour. *)
From GV Require Import Runtime.Render.
From Coq Require Import Lia.
Open Scope N_scope.

Section R.
Variable templates : list (list fstmt).

Lemma run_error_is_real fails fuel : forall stmts ch buf buf' s,
  frun templates fails fuel stmts ch buf = (buf', Some (SSite s)) -> fails s = true.
Proof.
  induction fuel as [|f IH]; intros stmts ch buf buf' s H; [discriminate|].
  cbn [frun] in H. destruct stmts as [|st rest]; [discriminate|].
  destruct st as [x|site x| |callee [blk|]].
  - eapply IH; exact H.
  - destruct (fails site) eqn:Ef; [injection H as _ <-; exact Ef|eapply IH; exact H].
  - destruct ch as [[body cap]|].
    + destruct (frun templates fails f body cap buf) as [b1 [e|]] eqn:E1; [injection H as _ ->; eapply IH; exact E1|eapply IH; exact H].
    + eapply IH; exact H.
  - destruct (frun templates fails f (fbody_of templates callee) (Some (FClo blk ch)) buf) as [b1 [e|]] eqn:E1;
      [injection H as _ ->; eapply IH; exact E1|eapply IH; exact H].
  - destruct (frun templates fails f (fbody_of templates callee) None buf) as [b1 [e|]] eqn:E1;
      [injection H as _ ->; eapply IH; exact E1|eapply IH; exact H].
Qed.

Lemma run_error_kind fails fuel : forall stmts ch buf buf' e,
  frun templates fails fuel stmts ch buf = (buf', Some e) -> e <> SOk /\ e <> SWriter.
Proof.
  induction fuel as [|f IH]; intros stmts ch buf buf' e H; [injection H as _ <-; split; discriminate|].
  cbn [frun] in H. destruct stmts as [|st rest]; [discriminate|].
  destruct st as [x|site x| |callee [blk|]].
  - eapply IH; exact H.
  - destruct (fails site); [injection H as _ <-; split; discriminate|eapply IH; exact H].
  - destruct ch as [[body cap]|].
    + destruct (frun templates fails f body cap buf) as [b1 [e1|]] eqn:E1; [injection H as _ <-; eapply IH; exact E1|eapply IH; exact H].
    + eapply IH; exact H.
  - destruct (frun templates fails f (fbody_of templates callee) (Some (FClo blk ch)) buf) as [b1 [e1|]] eqn:E1;
      [injection H as _ <-; eapply IH; exact E1|eapply IH; exact H].
  - destruct (frun templates fails f (fbody_of templates callee) None buf) as [b1 [e1|]] eqn:E1;
      [injection H as _ <-; eapply IH; exact E1|eapply IH; exact H].
Qed.

(** a body that succeeded did not meet a failing site: it wrote what it writes when nothing fails *)
Lemma run_success_no_failure fails fuel : forall stmts ch buf buf',
  frun templates fails fuel stmts ch buf = (buf', None) -> frun templates (fun _ => false) fuel stmts ch buf = (buf', None).
Proof.
  induction fuel as [|f IH]; intros stmts ch buf buf' H; [discriminate|].
  cbn [frun] in *. destruct stmts as [|st rest]; [exact H|].
  destruct st as [x|site x| |callee [blk|]].
  - apply IH; exact H.
  - destruct (fails site); [discriminate|]. apply IH; exact H.
  - destruct ch as [[body cap]|].
    + destruct (frun templates fails f body cap buf) as [b1 [e|]] eqn:E1; [discriminate|]. rewrite (IH _ _ _ _ E1). apply IH; exact H.
    + apply IH; exact H.
  - destruct (frun templates fails f (fbody_of templates callee) (Some (FClo blk ch)) buf) as [b1 [e|]] eqn:E1; [discriminate|].
    rewrite (IH _ _ _ _ E1). apply IH; exact H.
  - destruct (frun templates fails f (fbody_of templates callee) None buf) as [b1 [e|]] eqn:E1; [discriminate|].
    rewrite (IH _ _ _ _ E1). apply IH; exact H.
Qed.

(** when nothing fails the body succeeds (unless the recursion bound of the model is hit) *)
Lemma run_no_failure fuel : forall stmts ch buf buf' e,
  frun templates (fun _ => false) fuel stmts ch buf = (buf', Some e) -> e = SFuel.
Proof.
  induction fuel as [|f IH]; intros stmts ch buf buf' e H; [injection H as _ <-; reflexivity|].
  cbn [frun] in H. destruct stmts as [|st rest]; [discriminate|].
  destruct st as [x|site x| |callee [blk|]].
  - eapply IH; exact H.
  - eapply IH; exact H.
  - destruct ch as [[body cap]|].
    + destruct (frun templates (fun _ => false) f body cap buf) as [b1 [e1|]] eqn:E1; [injection H as _ <-; eapply IH; exact E1|eapply IH; exact H].
    + eapply IH; exact H.
  - destruct (frun templates (fun _ => false) f (fbody_of templates callee) (Some (FClo blk ch)) buf) as [b1 [e1|]] eqn:E1;
      [injection H as _ <-; eapply IH; exact E1|eapply IH; exact H].
  - destruct (frun templates (fun _ => false) f (fbody_of templates callee) None buf) as [b1 [e1|]] eqn:E1;
      [injection H as _ <-; eapply IH; exact E1|eapply IH; exact H].
Qed.

(** * the property *)
(** a failure inside: an error naming a site that did fail, and the destination was not touched *)
Theorem failure_inside_writes_nothing fails fuel i m acc s :
  render_top templates fails fuel i m = (acc, SSite s) -> acc = [] /\ fails s = true.
Proof.
  unfold render_top. destruct (frun templates fails fuel (fbody_of templates i) None []) as [buf [e|]] eqn:E.
  - intro H. injection H as <- ->. split; [reflexivity|]. eapply run_error_is_real; exact E.
  - destruct (dest_write m (nuke buf)) as [a failed]. destruct failed; discriminate.
Qed.

(** success: the destination accepted, in one call, the complete document *)
Theorem success_delivers_document fails fuel i m acc :
  render_top templates fails fuel i m = (acc, SOk) -> acc = [document templates fuel i].
Proof.
  unfold render_top, document. destruct (frun templates fails fuel (fbody_of templates i) None []) as [buf [e|]] eqn:E.
  - intro H. injection H as _ ->. destruct (run_error_kind _ _ _ _ _ _ _ E) as [K _]. congruence.
  - rewrite (run_success_no_failure _ _ _ _ _ _ E). cbn [fst].
    destruct m; cbn [dest_write]; intro H; try discriminate. injection H as <-. reflexivity.
Qed.

(** a failing destination: reported, after exactly one call, and only after the body had succeeded *)
Theorem writer_failure_reported fails fuel i m acc :
  render_top templates fails fuel i m = (acc, SWriter) ->
  m <> WOk /\ acc = [fst (dest_write m (document templates fuel i))].
Proof.
  unfold render_top, document. destruct (frun templates fails fuel (fbody_of templates i) None []) as [buf [e|]] eqn:E.
  - intro H. injection H as _ ->. destruct (run_error_kind _ _ _ _ _ _ _ E) as [_ K]. congruence.
  - rewrite (run_success_no_failure _ _ _ _ _ _ E). cbn [fst].
    destruct m; cbn [dest_write]; intro H; try discriminate; injection H as <-; (split; [discriminate|reflexivity]).
Qed.

(** a destination that fails is reported, whatever it is *)
Theorem writer_failure_not_swallowed fails fuel i m acc st :
  render_top templates fails fuel i m = (acc, st) -> m <> WOk -> st <> SOk.
Proof.
  unfold render_top. destruct (frun templates fails fuel (fbody_of templates i) None []) as [buf [e|]] eqn:E.
  - intros H Hm. injection H as _ <-. exact (proj1 (run_error_kind _ _ _ _ _ _ _ E)).
  - destruct m; cbn [dest_write]; intros H Hm; try congruence; injection H as _ <-; discriminate.
Qed.

(** all or nothing: unless Render returns nil, a destination that does not itself take part of a failing write
    has received nothing *)
Theorem all_or_nothing fails fuel i m acc st :
  render_top templates fails fuel i m = (acc, st) -> st <> SOk -> m <> WShort -> List.concat acc = [].
Proof.
  unfold render_top. destruct (frun templates fails fuel (fbody_of templates i) None []) as [buf [e|]] eqn:E.
  - intros H _ _. injection H as <- _. reflexivity.
  - destruct m; cbn [dest_write]; intros H Hst Hm; injection H as <- <-; try congruence. reflexivity.
Qed.

(** when nothing fails and the destination works, Render returns nil *)
Theorem no_failure_succeeds fuel i acc st :
  render_top templates (fun _ => false) fuel i WOk = (acc, st) -> st = SOk \/ st = SFuel.
Proof.
  unfold render_top. destruct (frun templates (fun _ => false) fuel (fbody_of templates i) None []) as [buf [e|]] eqn:E.
  - intro H. injection H as _ <-. right. eapply run_no_failure; exact E.
  - cbn [dest_write]. intro H. injection H as _ <-. left. reflexivity.
Qed.
End R.
