(** Static template content renders as the document it denotes (C01, static fragment): for every tree made of
    elements with static ids, classes and attributes, text, comments and doctype, of any size and depth, the
    chunks the emitter puts into the Go string literal read, by Go's rules, as exactly the HTML of the tree. *)
From GV Require Import Compiler.Emit Proofs.Utf8Proofs Proofs.QuoteProofs Proofs.EscapeProofs Proofs.ChunkProofs Proofs.EmitProofs Proofs.PassThroughProofs.
From Coq Require Import Lia.
Open Scope N_scope.

(** * what the static fragment is, and its HTML *)
Definition static_attr (a : attribute) : Prop :=
  Forall plain (a_name a) /\ (a_value a = [] \/ (a_bool a = false /\ a_dyn a = false /\ bytes_ok (a_value a))).

Definition attr_html (a : attribute) : bytes :=
  match a_value a with
  | [] => lit " " ++ a_name a
  | v => lit " " ++ a_name a ++ lit "=" ++ [34] ++ html_escape v ++ [34]
  end.

Definition static_class (c : token) : Prop := t_typ c = TClass /\ bytes_ok (t_lit c).

Definition class_html (l : list token) : bytes :=
  match l with [] => [] | _ => lit " class=" ++ [34] ++ html_escape (join (lit " ") (map t_lit l)) ++ [34] end.

Definition static_elem (d : elem) : Prop :=
  bytes_ok (e_tag d) /\ bytes_ok (e_id d) /\ Forall static_class (e_classes d) /\ e_objref d = None /\
  omap_get (e_attrs d) (lit "class") = None /\ Forall (fun kv => static_attr (snd kv)) (e_attrs d) /\
  e_attrs_cmd d = [] /\ e_nuke_inner d = false /\ e_nuke_outer d = false.

Definition elem_open_html (d : elem) : bytes :=
  lit "<" ++ e_tag d ++
  match e_id d with [] => [] | i => lit " id=" ++ [34] ++ html_escape i ++ [34] end ++
  class_html (e_classes d) ++ List.concat (map (fun kv => attr_html (snd kv)) (e_attrs d)) ++ lit ">".

Definition static_text (o : token) : Prop :=
  bytes_ok (t_lit o) /\ toktype_eqb (t_typ o) TDynamicText = false /\ toktype_eqb (t_typ o) TPreserveText = false.

Definition text_html (o : token) : bytes :=
  if toktype_eqb (t_typ o) TPlainText then t_lit o else html_escape (t_lit o).

Definition only_newline (ch : list node) : bool := match ch with [c] => kind_is_newline c | _ => false end.

Fixpoint static_node (n : node) : Prop :=
  match n with
  | Node k ch =>
    let all := (fix all (l : list node) : Prop := match l with [] => True | c :: r => static_node c /\ all r end) in
    match k with
    | KElement _ _ d => static_elem d /\ all ch
    | KText o => static_text o
    | KNewLine _ => True
    | KDoctype _ => True
    | KComment o _ => t_lit o <> [] /\ bytes_ok (t_lit o)
    | _ => False
    end
  end.

Fixpoint html_node (n : node) : bytes :=
  match n with
  | Node k ch =>
    let kids := (fix kids (l : list node) : bytes := match l with [] => [] | c :: r => html_node c ++ kids r end) in
    match k with
    | KElement _ _ d =>
      elem_open_html d ++
      (if e_selfclosing d then [] else (if only_newline ch then [] else kids ch) ++ lit "</" ++ e_tag d ++ lit ">" ++ [10])
    | KText o => text_html o
    | KNewLine _ => [10]
    | KDoctype _ => lit "<!DOCTYPE html>"
    | KComment o _ => lit "<!--" ++ html_escape (t_lit o) ++ lit "-->" ++ [10]
    | _ => []
    end
  end.

Definition html_list (l : list node) : bytes := List.concat (map html_node l).

Lemma html_kids_eq l : (fix kids (l : list node) : bytes := match l with [] => [] | c :: r => html_node c ++ kids r end) l = html_list l.
Proof. induction l as [|c r IH]; [reflexivity|]. unfold html_list. cbn [map List.concat]. rewrite IH. reflexivity. Qed.

Lemma static_all_eq l : (fix all (l : list node) : Prop := match l with [] => True | c :: r => static_node c /\ all r end) l <-> Forall static_node l.
Proof. induction l as [|c r IH]; [split; constructor|]. split; [intros [H1 H2]; constructor; [exact H1|apply IH; exact H2]|intro H; inversion H; split; [assumption|apply IH; assumption]]. Qed.

(** * the emitter inside an open string literal *)
Section InLiteral.
Variable l0 : wlocal.    (* the writer's local state while the literal is open: it does not change *)
Hypothesis l0_static : wl_static l0 = true.
Hypothesis l0_esc : wl_unesc l0 = false.

Definition LS (st : est) : Prop := w_err (fst st) = None /\ snd st = l0.

Definition Step (st st' : est) (h : bytes) : Prop := exists p, txt st' = txt st ++ p /\ reads_as p h.

Lemma Step_refl st : Step st st [].
Proof. exists []. split; [rewrite app_nil_r; reflexivity|apply reads_as_nil]. Qed.

Lemma Step_trans a b c h1 h2 : Step a b h1 -> Step b c h2 -> Step a c (h1 ++ h2).
Proof.
  intros (p1 & T1 & R1) (p2 & T2 & R2). exists (p1 ++ p2). split; [rewrite T2, T1, app_assoc; reflexivity|apply reads_as_app; assumption].
Qed.

Lemma chunk_step p h st : LS st -> reads_as p h ->
  LS (tw_write_string_literal p st) /\ Step st (tw_write_string_literal p st) h.
Proof.
  intros (He & Hl) Hr. destruct st as [[o n l c a e] loc]. cbn [fst snd w_err] in *. subst e loc.
  unfold tw_write_string_literal. cbn [snd]. rewrite l0_static. unfold wr, write, w_write. cbn [fst snd w_err].
  split; [split; reflexivity|].
  exists p. split; [|exact Hr]. unfold txt. cbn [fst w_out rev]. rewrite concat_app. cbn. rewrite app_nil_r. reflexivity.
Qed.

Ltac chunk H Hr :=
  let L := fresh "L" in let S := fresh "S" in
  destruct (chunk_step _ _ _ H Hr) as [L S].

(** * attributes, classes, the opening tag *)
Lemma render_attrs_static sm (l : list (bytes * attribute)) : forall st,
  Forall (fun kv => static_attr (snd kv)) l -> LS st ->
  LS (render_attrs sm l st) /\ Step st (render_attrs sm l st) (List.concat (map (fun kv => attr_html (snd kv)) l)).
Proof.
  induction l as [|[k a] rest IH]; intros st Hall H; [split; [exact H|apply Step_refl]|].
  inversion Hall as [|? ? [Hname Hval] Hrest]; subst. cbn [snd] in *. cbn [render_attrs map List.concat]. cbv zeta.
  destruct (chunk_attr_name_ok (a_name a) Hname) as [Rn Ro].
  unfold attr_html at 1. cbn [snd].
  destruct (a_value a) as [|v0 v] eqn:Ev.
  - destruct (chunk_step _ _ _ H Rn) as [L1 S1]. destruct (IH _ Hrest L1) as [L2 S2].
    split; [exact L2|]. eapply Step_trans; eassumption.
  - destruct Hval as [Hv|(Hb & Hd & Hok)]; [discriminate|]. rewrite Hb, Hd.
    destruct (chunk_step _ _ _ H Ro) as [L1 S1].
    destruct (chunk_attr_value_ok (v0 :: v) Hok) as [Rv _].
    destruct (chunk_step _ _ _ L1 Rv) as [L2 S2]. destruct (IH _ Hrest L2) as [L3 S3].
    split; [exact L3|].
    replace (lit " " ++ a_name a ++ lit "=" ++ [34] ++ html_escape (v0 :: v) ++ [34])
      with ((lit " " ++ a_name a ++ lit "=" ++ [34]) ++ (html_escape (v0 :: v) ++ [34])) by (rewrite <- !app_assoc; reflexivity).
    eapply Step_trans; [eapply Step_trans; eassumption|exact S3].
Qed.

Lemma bytes_ok_app a b : bytes_ok a -> bytes_ok b -> bytes_ok (a ++ b).
Proof. intros Ha Hb. apply Forall_app. split; assumption. Qed.

Lemma bytes_ok_join l : Forall bytes_ok l -> bytes_ok (join (lit " ") l).
Proof.
  induction 1 as [|x l Hx Hl IH]; [constructor|]. cbn [join]. destruct l as [|y l']; [exact Hx|].
  apply bytes_ok_app; [exact Hx|]. apply bytes_ok_app; [repeat constructor; cbn; lia|exact IH].
Qed.

Lemma class_names_static l : Forall static_class l -> class_names l = map t_lit l /\ first_unquote_failure l = None /\
  forallb (fun c => negb (toktype_eqb (t_typ c) TObjectRef || toktype_eqb (t_typ c) TAttrDynamicValue)) l = true.
Proof.
  induction 1 as [|c l [Ht Hb] _ (IH1 & IH2 & IH3)]; [repeat split|].
  unfold class_names in *. cbn [map first_unquote_failure forallb]. unfold class_static_name at 1 3. rewrite Ht.
  rewrite IH1, IH2, IH3. repeat split.
Qed.

Lemma render_class_static sm l st : Forall static_class l -> LS st ->
  LS (render_class sm l st) /\ Step st (render_class sm l st) (class_html l).
Proof.
  intros Hall H. destruct l as [|c l]; [split; [exact H|apply Step_refl]|].
  destruct (class_names_static _ Hall) as (Hn & Hf & Hq). unfold render_class. rewrite Hq, Hf, Hn.
  assert (Hok : bytes_ok (join (lit " ") (map t_lit (c :: l)))).
  { apply bytes_ok_join. clear - Hall. induction Hall as [|x r [_ Hx] _ IH]; constructor; assumption. }
  destruct (chunk_class_ok _ Hok) as [Rc _]. apply chunk_step; assumption.
Qed.

Lemma render_attributes_static sm d st : static_elem d -> LS st ->
  LS (render_attributes sm d st) /\
  Step st (render_attributes sm d st)
       (match e_id d with [] => [] | i => lit " id=" ++ [34] ++ html_escape i ++ [34] end ++
        class_html (e_classes d) ++ List.concat (map (fun kv => attr_html (snd kv)) (e_attrs d))).
Proof.
  intros (Htag & Hid & Hcl & Hobj & Hca & Hat & Hcmd & _) H. unfold render_attributes. cbv zeta. rewrite Hobj, Hca, Hcmd.
  set (st2 := match e_id d with [] => st | _ => _ end).
  assert (H2 : LS st2 /\ Step st st2 (match e_id d with [] => [] | i => lit " id=" ++ [34] ++ html_escape i ++ [34] end)).
  { subst st2. destruct (e_id d) as [|i0 i] eqn:Ei; [split; [exact H|apply Step_refl]|].
    destruct (chunk_id_ok (i0 :: i) Hid) as [Ri _]. apply chunk_step; assumption. }
  destruct H2 as [L2 S2]. clearbody st2.
  destruct (render_class_static sm (e_classes d) st2 Hcl L2) as [L3 S3].
  destruct (render_attrs_static sm (e_attrs d) _ Hat L3) as [L4 S4].
  split; [exact L4|]. eapply Step_trans; [exact S2|]. eapply Step_trans; eassumption.
Qed.

(** * nodes *)
Definition node_static_at (n : node) : Prop :=
  static_node n -> forall sm next nc st, LS st ->
  LS (fst (emit_node sm n next nc st)) /\ Step st (fst (emit_node sm n next nc st)) (html_node n) /\ snd (emit_node sm n next nc st) = false.

Lemma list_static sm (l : list node) : Forall node_static_at l -> Forall static_node l -> forall nc st, LS st ->
  LS (emit_list sm l nc st) /\ Step st (emit_list sm l nc st) (html_list l).
Proof.
  induction 1 as [|c rest Hc _ IH]; intros Hs nc st H; [split; [exact H|apply Step_refl]|].
  inversion Hs as [|? ? Hsc Hsr]; subst. cbn [emit_list]. destruct (Hc Hsc sm (hd_error rest) nc st H) as (L1 & S1 & F1).
  destruct (emit_node sm c (hd_error rest) nc st) as [s1 f1]. cbn [fst snd] in *.
  destruct (IH Hsr f1 s1 L1) as [L2 S2]. split; [exact L2|]. unfold html_list. cbn [map List.concat]. eapply Step_trans; eassumption.
Qed.

Lemma plain_const_reads p : Forall plain p -> reads_as p p.
Proof. apply reads_as_plain. Qed.

Theorem static_node_renders n : node_static_at n.
Proof.
  induction n as [k ch IH] using node_ind2. intros Hs sm next nc st H.
  rewrite emit_node_unfold. cbn [static_node] in Hs. cbn [html_node]. rewrite html_kids_eq.
  destruct k; try contradiction; unfold emit_node_body; cbv zeta.
  - (* doctype *)
    cbn [fst snd]. assert (R : reads_as (lit "<!DOCTYPE html>") (lit "<!DOCTYPE html>")) by (apply reads_as_plain; repeat constructor; cbn; try lia; discriminate).
    destruct (chunk_step _ _ _ H R) as [L S]. auto.
  - (* element *)
    destruct Hs as [Hd Hch]. apply static_all_eq in Hch.
    pose proof Hd as (Htag & _ & _ & _ & _ & _ & _ & Hni & Hno). rewrite Hni, Hno.
    destruct (chunk_tag_ok (e_tag d) Htag) as [Rto Rtc].
    destruct (chunk_step _ _ _ H Rto) as [L1 S1].
    destruct (render_attributes_static sm d _ Hd L1) as [L2 S2].
    assert (Rgt : reads_as (lit ">") (lit ">")) by (apply reads_as_plain; repeat constructor; cbn; try lia; discriminate).
    destruct (chunk_step _ _ _ L2 Rgt) as [L3 S3].
    set (st4 := tw_write_string_literal (lit ">") _) in *.
    assert (S4 : Step st st4 (elem_open_html d)).
    { unfold elem_open_html.
      match goal with |- Step _ _ (?a ++ ?b ++ ?x ++ ?c ++ ?e ++ ?g) =>
        replace (a ++ b ++ x ++ c ++ e ++ g) with ((a ++ b) ++ (x ++ c ++ e) ++ g) by (rewrite <- !app_assoc; reflexivity) end.
      eapply Step_trans; [exact S1|]. eapply Step_trans; [exact S2|exact S3]. }
    destruct (e_selfclosing d); cbn [fst snd].
    + rewrite app_nil_r. auto.
    + fold (only_newline ch).
      set (st6 := if only_newline ch then st4 else emit_list sm ch false st4).
      assert (H6 : LS st6 /\ Step st4 st6 (if only_newline ch then [] else html_list ch)).
      { subst st6. destruct (only_newline ch); [split; [exact L3|apply Step_refl]|]. apply list_static; assumption. }
      destruct H6 as [L6 S6].
      destruct (chunk_step _ _ _ L6 Rtc) as [L8 S8].
      destruct (chunk_step _ _ _ L8 reads_as_escaped_newline) as [L9 S9].
      split; [exact L9|]. split; [|reflexivity].
      eapply Step_trans; [exact S4|]. eapply Step_trans; [exact S6|].
      replace (lit "</" ++ e_tag d ++ lit ">" ++ [10]) with ((lit "</" ++ e_tag d ++ lit ">") ++ [10]) by (rewrite <- !app_assoc; reflexivity).
      eapply Step_trans; eassumption.
  - (* newline *)
    cbn [fst snd]. destruct (chunk_step _ _ _ H reads_as_escaped_newline) as [L S]. auto.
  - (* comment *)
    destruct Hs as [Hne Hok]. destruct (t_lit origin) as [|c0 c] eqn:El; [congruence|]. cbn [fst snd].
    destruct (chunk_comment_ok (c0 :: c) Hok) as [Rc _]. destruct (chunk_step _ _ _ H Rc) as [L S]. auto.
  - (* text *)
    destruct Hs as (Hok & Hdyn & Hpre). cbn [fst snd]. unfold emit_text, text_html. rewrite Hdyn, Hpre.
    pose proof H as (He & Hl). rewrite Hl, l0_esc. cbv zeta.
    destruct (toktype_eqb (t_typ origin) TPlainText); cbn [orb negb].
    + assert (R : reads_as (chunk_text_plain (t_lit origin)) (t_lit origin)) by (apply reads_as_quote; exact Hok).
      destruct (chunk_step _ _ st H R) as [L S]. auto.
    + destruct (chunk_text_escaped_ok (t_lit origin) Hok) as [R _].
      destruct (chunk_step _ _ st H R) as [L S]. auto.
Qed.
End InLiteral.

(** * a whole template *)
(** the first static chunk written while no literal is open opens one *)
Definition open_lit (st : est) : est :=
  set_local (wr (write_string_open ++ lit """") (wr (tabs (wl_indent (snd st))) st))
            (mkWL (wl_indent (snd st)) true true (wl_unesc (snd st))).

Lemma twsl_open s st : wl_static (snd st) = false ->
  tw_write_string_literal s st = tw_write_string_literal s (open_lit st).
Proof.
  intro Hs. unfold tw_write_string_literal at 1. rewrite Hs.
  unfold tw_write_string_literal, open_lit. cbn [set_local snd wl_static]. reflexivity.
Qed.

Lemma static_node_opens sm n next nc st : static_node n -> wl_static (snd st) = false ->
  emit_node sm n next nc st = emit_node sm n next nc (open_lit st).
Proof.
  intros Hs Hst. destruct n as [k ch]. rewrite !emit_node_unfold. cbn [static_node] in Hs.
  destruct k; try contradiction; unfold emit_node_body; cbv zeta.
  - rewrite (twsl_open _ st Hst). reflexivity.
  - destruct Hs as [(_ & _ & _ & _ & _ & _ & _ & _ & Hno) _]. rewrite Hno. rewrite (twsl_open _ st Hst). reflexivity.
  - rewrite (twsl_open _ st Hst). reflexivity.
  - destruct Hs as [Hne _]. destruct (t_lit origin); [congruence|]. rewrite (twsl_open _ st Hst). reflexivity.
  - destruct Hs as (_ & Hdyn & Hpre). unfold emit_text. rewrite Hdyn, Hpre. cbv zeta.
    change (wl_unesc (snd (open_lit st))) with (wl_unesc (snd st)).
    destruct (negb _); rewrite (twsl_open _ st Hst); reflexivity.
Qed.

Lemma wr_txt x st : w_err (fst st) = None -> txt (wr x st) = txt st ++ x.
Proof.
  destruct st as [[o n l c a e] loc]. cbn [fst w_err]. intros ->. unfold wr, write, w_write, txt. cbn [fst snd w_err w_out rev].
  rewrite concat_app. cbn. rewrite app_nil_r. reflexivity.
Qed.

Lemma wr_err x st : w_err (fst st) = None -> w_err (fst (wr x st)) = None /\ snd (wr x st) = snd st.
Proof. apply wr_quiet. Qed.

(** a template whose body is static: one WriteString of a literal that reads as the body's HTML, the error check, the epilogue *)
Theorem static_template_code o c rest :
  Forall static_node (c :: rest) ->
  exists p, reads_as p (html_list (c :: rest)) /\
    item_err (Node (KGoht o) (c :: rest)) = None /\
    item_text (Node (KGoht o) (c :: rest)) =
      lit "func " ++ t_lit o ++ c_gohtEntry ++
      [9; 9] ++ write_string_open ++ lit """" ++ p ++ lit """)" ++ lit "; __err != nil { return }" ++ [10] ++
      c_gohtExit.
Proof.
  intro Hall. unfold item_text, item_err. rewrite emit_node_unfold. unfold emit_node_body. cbv zeta. cbn [fst].
  assert (Q0 : quiet (reset_var_name init_st)) by (split; reflexivity).
  destruct (tw_wr_quiet (lit "func ") _ Q0) as [Q1 L1].
  destruct (tw_write_add_quiet false (t_lit o) o _ Q1) as [Q2 L2].
  destruct (tw_wr_quiet c_gohtEntry _ Q2) as [Q3 L3].
  set (st4 := tw_wr c_gohtEntry (tw_write_add false (t_lit o) o (tw_wr (lit "func ") (reset_var_name init_st)))) in *.
  assert (T4 : txt st4 = lit "func " ++ t_lit o ++ c_gohtEntry).
  { subst st4. rewrite tw_wr_txt by exact Q2. rewrite tw_write_add_txt by exact Q1.
    rewrite tw_wr_txt by exact Q0. change (txt (reset_var_name init_st)) with (@nil N). cbn [app]. rewrite <- app_assoc. reflexivity. }
  assert (E4 : snd st4 = wl_init) by (rewrite L3, L2, L1; reflexivity).
  set (sb := set_local st4 (indent_local (snd st4) 2)).
  assert (Hsb : wl_static (snd sb) = false) by (subst sb; cbn [set_local snd indent_local wl_static]; rewrite E4; reflexivity).
  (* the first child opens the literal *)
  inversion Hall as [|? ? Hc Hrest]; subst.
  cbn [emit_list]. rewrite (static_node_opens false c (hd_error rest) false sb Hc Hsb).
  change (let '(st', nc') := emit_node false c (hd_error rest) false (open_lit sb) in emit_list false rest nc' st')
    with (emit_list false (c :: rest) false (open_lit sb)).
  assert (Eb : w_err (fst sb) = None) by (subst sb; destruct Q3 as [A _]; exact A).
  destruct (wr_err (tabs (wl_indent (snd sb))) sb Eb) as [E1 _].
  destruct (wr_err (write_string_open ++ lit """") _ E1) as [E2 _].
  set (l0 := mkWL 2 true true false).
  assert (LSo : LS l0 (open_lit sb)).
  { unfold open_lit, LS. cbn [set_local fst snd]. split; [exact E2|]. subst sb l0. cbn [set_local snd indent_local wl_indent wl_unesc]. rewrite E4. reflexivity. }
  assert (To : txt (open_lit sb) = txt st4 ++ [9; 9] ++ write_string_open ++ lit """").
  { unfold open_lit. rewrite txt_set_local. rewrite wr_txt by exact E1. rewrite wr_txt by exact Eb.
    subst sb. cbn [set_local snd indent_local wl_indent]. rewrite E4. cbn [wl_init wl_indent plus tabs brepeat].
    change (txt (fst st4, _)) with (txt st4). rewrite <- app_assoc. reflexivity. }
  assert (Hn : Forall (node_static_at l0) (c :: rest)) by (apply Forall_forall; intros n _; apply static_node_renders; reflexivity).
  destruct (list_static l0 false (c :: rest) Hn Hall false _ LSo) as [[E5 L5] (p & T5 & R5)].
  set (st5 := emit_list false (c :: rest) false (open_lit sb)) in *.
  exists p. split; [exact R5|].
  (* closing the literal, the pending error check, then the epilogue *)
  unfold tw_close, close_if_static. rewrite L5. cbn [l0 wl_static].
  unfold close_string_literal, add_err_handler. rewrite L5. cbn [l0 wl_errh wl_indent wl_static wl_unesc fst snd set_local].
  set (st6 := wr _ _).
  assert (E6 : w_err (fst st6) = None /\ snd st6 = mkWL 2 false false false).
  { subst st6. apply wr_quiet. exact E5. }
  assert (T6 : txt st6 = txt st5 ++ lit """)" ++ lit "; __err != nil { return }" ++ [10]).
  { subst st6. rewrite wr_txt by exact E5. reflexivity. }
  assert (Q7 : quiet (set_local st6 (snd st4))).
  { split; [exact (proj1 E6)|]. cbn [set_local snd]. rewrite E4. reflexivity. }
  destruct (tw_wr_quiet c_gohtExit _ Q7) as [[E8 _] _].
  split; [exact E8|].
  rewrite tw_wr_txt by exact Q7. rewrite txt_set_local.
  rewrite T6, T5, To, T4. rewrite <- !app_assoc. reflexivity.
Qed.
