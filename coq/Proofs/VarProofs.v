(** Temporaries of the generated code (C03): a name handed out inside a template is never handed out again
    in that template. *)
From GV Require Import Compiler.Emit Proofs.EmitProofs Proofs.EmitInv.
From Coq Require Import Lia ZifyN ZifyNat NArith Ring.
Open Scope N_scope.

(** * strconv.Itoa is injective *)
Definition dstep (a d : N) : N := 10 * a + (d - 48).
Definition dv_from (a : N) (l : bytes) : N := fold_left dstep l a.

Lemma dv_from_split l : forall a, dv_from a l = a * 10 ^ N.of_nat (List.length l) + dv_from 0 l.
Proof.
  induction l as [|x l IH]; intro a; [cbn; lia|].
  unfold dv_from in *. cbn [fold_left List.length]. rewrite (IH (dstep a x)), (IH (dstep 0 x)).
  rewrite Nat2N.inj_succ, N.pow_succ_r'. unfold dstep. lia.
Qed.

Lemma dv_cons x acc : dv_from 0 (x :: acc) = (x - 48) * 10 ^ N.of_nat (List.length acc) + dv_from 0 acc.
Proof.
  unfold dv_from at 1. cbn [fold_left]. fold (dv_from (dstep 0 x) acc). rewrite dv_from_split. unfold dstep.
  replace (10 * 0 + (x - 48)) with (x - 48) by lia. reflexivity.
Qed.

Lemma itoa_aux_val f : forall n acc, n < 2 ^ N.of_nat f ->
  dv_from 0 (itoa_aux f n acc) = n * 10 ^ N.of_nat (List.length acc) + dv_from 0 acc.
Proof.
  induction f as [|f IH]; intros n acc Hn.
  - cbn in Hn. assert (n = 0) by lia. subst. cbn [itoa_aux]. lia.
  - cbn [itoa_aux]. cbv zeta.
    assert (Hd : n mod 10 < 10) by (apply N.mod_lt; lia).
    assert (Hq : n = 10 * (n / 10) + n mod 10) by (apply N.div_mod; lia).
    set (P := 10 ^ N.of_nat (List.length acc)).
    destruct (N.eqb_spec (n / 10) 0) as [E|E].
    + rewrite dv_cons. fold P. replace (48 + n mod 10 - 48) with n by lia. reflexivity.
    + rewrite IH.
      * rewrite dv_cons. fold P. cbn [List.length]. rewrite Nat2N.inj_succ, N.pow_succ_r'. fold P.
        replace (48 + n mod 10 - 48) with (n mod 10) by lia.
        set (q := n / 10) in *. set (d := n mod 10) in *. rewrite Hq. ring.
      * rewrite Nat2N.inj_succ, N.pow_succ_r' in Hn. apply N.div_lt_upper_bound; lia.
Qed.

Lemma itoa_val n : dv_from 0 (itoa n) = n.
Proof.
  unfold itoa. rewrite itoa_aux_val; [cbn; lia|].
  destruct (N.eq_dec n 0) as [->|Hn]; [cbn; lia|].
  rewrite Nat2N.inj_succ, N2Nat.id. apply N.log2_spec. lia.
Qed.

Theorem itoa_inj n m : itoa n = itoa m -> n = m.
Proof. intro H. rewrite <- (itoa_val n), <- (itoa_val m), H. reflexivity. Qed.

(** * the name is a function of the counter, the counter goes up by one with each name *)
Lemma var_name_is st : w_err (fst st) = None ->
  var_name_of st = lit "__var" ++ itoa (N.of_nat (S (w_num (fst st)))) /\
  w_num (fst (after_var st)) = S (w_num (fst st)) /\ w_err (fst (after_var st)) = None.
Proof.
  destruct st as [[o n l c a e] loc]. cbn [fst w_err]. intros ->. unfold var_name_of, after_var, get_var_name. cbn. auto.
Qed.

Lemma names_differ s1 s2 : w_err (fst s1) = None -> w_err (fst s2) = None -> w_num (fst s1) <> w_num (fst s2) ->
  var_name_of s1 <> var_name_of s2.
Proof.
  intros E1 E2 Hn Heq. destruct (var_name_is s1 E1) as [N1 _]. destruct (var_name_is s2 E2) as [N2 _].
  rewrite N1, N2 in Heq. apply app_inv_head in Heq. apply itoa_inj in Heq. lia.
Qed.

(** * inside a template the counter never goes down *)
Section Mono.
Variable n0 : nat.
Definition Inum (st : est) : Prop := (n0 <= w_num (fst st))%nat.

Lemma Inum_wr x st : Inum st -> Inum (wr x st).
Proof. destruct st as [[o n l c a e] loc]. unfold Inum, wr, write, w_write. cbn [fst snd w_err]. destruct e; exact (fun H => H). Qed.
Lemma Inum_set_local l st : Inum st -> Inum (set_local st l).
Proof. exact (fun H => H). Qed.
Lemma Inum_after_var st : Inum st -> Inum (after_var st).
Proof. destruct st as [[o n l c a e] loc]. unfold Inum, after_var, get_var_name. cbn [fst snd w_err w_num]. destruct e; cbn; lia. Qed.
Lemma Inum_fail m st : Inum st -> Inum (fail_with m st).
Proof. destruct st as [[o n l c a e] loc]. unfold Inum, fail_with. cbn [fst snd w_err]. destruct e; exact (fun H => H). Qed.
Lemma Inum_add sm t x r st : Inum st -> Inum (tw_add sm t x r st).
Proof. destruct st as [[o n l c a e] loc]. unfold Inum, tw_add. cbn [fst snd w_err]. destruct e; [|destruct sm]; exact (fun H => H). Qed.
Lemma Inum_write_add sm x t st : Inum st -> Inum (tw_write_add sm x t st).
Proof. intro H. unfold tw_write_add. apply Inum_add. apply (tw_wr_inv Inum Inum_wr Inum_set_local). exact H. Qed.
Lemma Inum_write_indent_add sm x t st : Inum st -> Inum (tw_write_indent_add sm x t st).
Proof. intro H. unfold tw_write_indent_add. apply Inum_add. apply (tw_wri_inv Inum Inum_wr Inum_set_local). exact H. Qed.

Theorem counter_monotone sm n next nc st : goht_ok False n -> Inum st -> Inum (fst (emit_node sm n next nc st)).
Proof.
  intro Hg.
  apply (emit_node_inv Inum Inum_wr Inum_set_local Inum_after_var False (fun F : False => match F with end) Inum_fail
           (fun sm t st => Inum_write_add sm (t_lit t) t st)
           (fun sm t st => Inum_write_add sm (go_trim_space (t_lit t)) t st)
           (fun sm a st => Inum_write_add sm (a_value a) (a_origin a) st)
           (fun sm t st => Inum_write_indent_add sm (t_lit t) t st) sm n Hg).
Qed.
End Mono.

(** a name handed out is not handed out again after any further piece of the same template has been emitted *)
Theorem name_not_reused sm n next nc st1 :
  goht_ok False n -> w_err (fst st1) = None ->
  let st3 := fst (emit_node sm n next nc (after_var st1)) in
  w_err (fst st3) = None -> var_name_of st3 <> var_name_of st1.
Proof.
  intros Hg E1 st3 E3. destruct (var_name_is st1 E1) as (_ & Hnum & _).
  pose proof (counter_monotone (S (w_num (fst st1))) sm n next nc (after_var st1) Hg) as Hm.
  unfold Inum in Hm. specialize (Hm ltac:(rewrite Hnum; lia)). fold st3 in Hm.
  apply names_differ; [exact E3|exact E1|lia].
Qed.
