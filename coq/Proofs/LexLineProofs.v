(** Every token the lexer sends -- error tokens included -- carries a line number inside the file (C10): at least 1
    and at most one more than the file has line breaks.  An instance of the generic cursor invariant (LexCursorInv):
    the reader holds exactly the input, and there is at most one line counter more than line breaks were read. *)
From GV Require Import Compiler.Lexer Proofs.Utf8Proofs Proofs.LexProofs Proofs.LexCursorInv Proofs.LexSafeProofs Proofs.LexProgressProofs.
From Coq Require Import Lia ZArith.
Open Scope N_scope.

Lemma nl_rev a : nl (List.rev a) = nl a.
Proof. pose proof (nl_rev_append a []) as H. rewrite <- rev_alt in H. rewrite H. unfold nl. cbn. lia. Qed.

Lemma nl_firstn_skipn k s : nl s = (nl (firstn k s) + nl (skipn k s))%nat.
Proof. rewrite <- nl_app, firstn_skipn. reflexivity. Qed.

(** only the rune 10 has the byte 10 in its encoding, once *)
Lemma decode_nl s r n : decode_rune s = Some (r, n) -> nl (firstn n s) = if N.eqb r 10 then 1%nat else 0%nat.
Proof.
  unfold decode_rune, cont. intro H.
  destruct s as [|b0 t]; [discriminate|].
  destruct (N.ltb_spec b0 128) as [L0|G0].
  { injection H as <- <-. cbn [firstn]. unfold nl. cbn [count_byte]. rewrite (N.eqb_sym 10 b0). destruct (N.eqb b0 10); reflexivity. }
  assert (Hb0 : N.eqb 10 b0 = false) by (apply N.eqb_neq; lia).
  assert (Hone : nl (firstn 1 (b0 :: t)) = 0%nat) by (cbn [firstn]; unfold nl; cbn [count_byte]; rewrite Hb0; reflexivity).
  assert (Hc : forall b, (N.leb 128 b && N.ltb b 192)%bool = true -> N.eqb 10 b = false).
  { intros b Hb. apply Bool.andb_true_iff in Hb. destruct Hb as [Hb _]. apply N.leb_le in Hb. apply N.eqb_neq. lia. }
  repeat match type of H with
  | (if ?c then _ else _) = _ => destruct c eqn:?
  | match ?x with _ => _ end = _ => destruct x eqn:?
  | (let _ := _ in _) = _ => cbv zeta in H
  end; try discriminate; injection H as <- <-; try exact Hone.
  all: cbn [firstn]; unfold nl; cbn [count_byte]; rewrite Hb0.
  all: repeat match goal with
       | E : (_ && _)%bool = true |- _ => apply Bool.andb_true_iff in E; destruct E
       end.
  all: repeat match goal with
       | E : context [if ?c then _ else _] |- _ => destruct c eqn:?
       end.
  all: repeat match goal with
       | E : (_ <? _) = false |- _ => apply N.ltb_ge in E
       | E : (_ <? _) = true |- _ => apply N.ltb_lt in E
       | E : (_ <=? _) = true |- _ => apply N.leb_le in E
       | E : (_ =? _) = true |- _ => apply N.eqb_eq in E
       | E : (_ =? _) = false |- _ => apply N.eqb_neq in E
       end.
  all: repeat match goal with |- context [N.eqb 10 ?b] => destruct (N.eqb_spec 10 b); [exfalso; lia|] end.
  all: match goal with |- context [N.eqb ?v 10] => destruct (N.eqb_spec v 10); [exfalso; lia|reflexivity] end.
Qed.

Section Lines.
Variable input : bytes.

Definition tok_ok (t : token) : Prop := (1 <= t_line t <= 1 + Z.of_nat (nl input))%Z.

Definition Ext (l : lexst) : Prop :=
  List.rev (l_before l) ++ l_after l = input /\
  (List.length (l_pos l) <= 1 + nl (l_before l))%nat /\
  Forall tok_ok (l_out l).

(** right after a rune was read: UnreadRune gives back at most one line break, and only if the line counter says so *)
Definition ExtF (l : lexst) : Prop :=
  match l_prev l with
  | Some n => (n <= List.length (l_before l))%nat /\
              (nl (firstn n (l_before l)) <= match l_pos l with c :: _ => if Z.eqb c 0 then 1 else 0 | [] => 0 end)%nat
  | None => True
  end.

Definition B2 (l : lexst) : Prop := Base l /\ Ext l.
Definition F2 (l : lexst) : Prop := Fresh l /\ ExtF l.

Lemma next_ext l : Base l -> Ext l ->
  Ext (snd (next l)) /\ match fst (next l) with Some _ => ExtF (snd (next l)) | None => True end.
Proof.
  intros HB (J3 & J2 & J4). destruct (base_pos_nonempty l HB) as (c & rest & Hp). destruct HB as (_ & Hpos & _).
  destruct l as [bf af pv s w ps ind out pn]. cbn [l_pos l_before l_after l_out l_prev] in *. subst ps.
  inversion Hpos as [|? ? Hc Hrest]; subst.
  unfold next. cbn [l_after l_before]. destruct (decode_rune af) as [[r n]|] eqn:Hd.
  - pose proof (decode_width _ _ _ Hd) as Hw. pose proof (decode_nl _ _ _ Hd) as Hn. rewrite take_onto_eq.
    unfold with_reader, with_pos, with_width, with_s. cbn [l_pos l_s l_width l_panic l_before l_after l_prev l_indent l_out fst snd].
    assert (Hlen : List.length (List.rev (firstn n af)) = n) by (rewrite rev_length, firstn_length; lia).
    assert (Hfirst : firstn n (List.rev (firstn n af) ++ bf) = List.rev (firstn n af)).
    { rewrite firstn_app, Hlen, Nat.sub_diag. cbn [firstn]. rewrite app_nil_r. rewrite <- Hlen at 1. apply firstn_all. }
    unfold Ext, ExtF. cbn [l_pos l_before l_after l_out l_prev].
    split; [split; [|split; [|exact J4]]|].
    + rewrite rev_app_distr, rev_involutive, <- app_assoc, firstn_skipn. exact J3.
    + rewrite nl_app, nl_rev, Hn. cbn [List.length] in *. destruct (N.eqb r 10); cbn [List.length]; lia.
    + split; [rewrite app_length, Hlen; lia|]. rewrite Hfirst, nl_rev, Hn.
      destruct (N.eqb r 10); [cbn; lia|]. destruct (Z.eqb_spec (c + 1) 0); [lia|]. lia.
  - cbn [fst snd]. split; [|exact I]. unfold Ext, with_width, with_reader. cbn [l_pos l_before l_after l_out]. auto.
Qed.

Lemma backup_fields l w c rest c' rest' :
  l_width l = S w -> l_pos l = c :: rest -> (if Z.eqb c 0 then rest else c :: rest) = c' :: rest' ->
  l_out (backup l) = l_out l /\ l_pos (backup l) = (c' - 1)%Z :: rest' /\
  (l_before (backup l), l_after (backup l)) =
    match l_prev l with
    | Some n => (skipn n (l_before l), List.rev (firstn n (l_before l)) ++ l_after l)
    | None => (l_before l, l_after l)
    end.
Proof.
  intros Hw Hp Hpp. unfold backup. rewrite Hw, Hp, Hpp.
  destruct l as [bf af pv s w0 ps ind out pn]. cbn [l_pos l_before l_after l_out l_prev l_width l_s with_pos] in *.
  destruct pv as [n|]; cbn [l_prev l_before l_after with_pos]; [rewrite take_onto_eq|];
    match goal with |- context [if ?b then _ else _] => destruct b end; repeat split.
Qed.

Lemma backup_ext l : B2 l -> F2 l \/ Quiet l -> Ext (backup l).
Proof.
  intros [HB (J3 & J2 & J4)] Hf. destruct (l_width l) as [|w] eqn:Hw.
  { unfold backup. rewrite Hw. repeat split; assumption. }
  destruct Hf as [[[Hlen Hfp] HF]|Hq]; [|unfold Quiet in Hq; congruence].
  destruct (l_pos l) as [|c rest] eqn:Hp; [contradiction|].
  assert (Hpp : exists c' rest', (if Z.eqb c 0 then rest else c :: rest) = c' :: rest').
  { destruct Hfp as [Hc|(Hc & (c' & rest' & Hr & _) & _)].
    - destruct (Z.eqb_spec c 0); [lia|]. eauto.
    - subst c rest. cbn. eauto. }
  destruct Hpp as (c' & rest' & Hpp).
  destruct (backup_fields l w c rest c' rest' Hw Hp Hpp) as (Ho & Hps & Hrd).
  unfold Ext. rewrite Ho, Hps. unfold ExtF in HF. rewrite Hp in HF.
  destruct (l_prev l) as [n|].
  - destruct HF as [Hn Hnl]. injection Hrd as -> ->. split; [|split; [|exact J4]].
    + rewrite app_assoc, <- rev_app_distr, firstn_skipn. exact J3.
    + pose proof (nl_firstn_skipn n (l_before l)) as Hs. cbn [List.length] in *.
      destruct (Z.eqb c 0); [subst rest|injection Hpp as <- <-]; cbn [List.length] in *; lia.
  - injection Hrd as -> ->. split; [exact J3|split; [|exact J4]]. cbn [List.length] in *.
    destruct (Z.eqb c 0); [subst rest|injection Hpp as <- <-]; cbn [List.length] in *; lia.
Qed.

Lemma drop_width_ext l : Ext l -> Ext (drop_width l).
Proof. unfold drop_width. destruct (Nat.ltb _ _); exact (fun H => H). Qed.

Lemma nl_input_ge l : List.rev (l_before l) ++ l_after l = input -> (nl (l_before l) <= nl input)%nat.
Proof. intro H. rewrite <- H, nl_app, nl_rev. lia. Qed.

Lemma position_line l : Base l -> Ext l -> (1 <= fst (fst (position l)) <= 1 + Z.of_nat (nl input))%Z.
Proof.
  intros (_ & _ & Hn) (J3 & J2 & _). pose proof (nl_input_ge l J3) as Hi. unfold position. fold (nl (l_s l)).
  destruct (nth_error (l_pos l) (nl (l_s l))); cbn [fst]; lia.
Qed.

Lemma emit_ext t l : Base l -> Ext l -> Ext (emit t l).
Proof.
  intros HB HE. pose proof (position_line l HB HE) as Hl. destruct HE as (J3 & J2 & J4).
  unfold emit. destruct (position l) as [[line col] bad]. cbn [fst] in Hl.
  unfold Ext. destruct bad; cbn [l_before l_after l_pos l_out with_s with_out set_panic]; (split; [exact J3|split; [exact J2|]]); constructor; assumption.
Qed.

Lemma errorf_ext m l : Base l -> Ext l -> Ext (snd (errorf m l)).
Proof.
  intros HB HE. pose proof (position_line l HB HE) as Hl. destruct HE as (J3 & J2 & J4).
  unfold errorf. destruct (position l) as [[line col] bad]. cbn [fst] in Hl.
  unfold Ext. destruct bad; cbn [snd l_before l_after l_pos l_out with_out set_panic]; (split; [exact J3|split; [exact J2|]]); constructor; assumption.
Qed.

(** the generic principle, instantiated *)
Theorem step_lines st l : B2 l -> B2 (snd (step st l)).
Proof.
  apply (step_inv B2 F2).
  - intros l0 [HB HE]. destruct (next_spec l0 HB) as [HB' HF']. destruct (next_ext l0 HB HE) as [HE' HX'].
    split; [split; assumption|]. destruct (fst (next l0)); [split; assumption|exact HF'].
  - intros l0 HB2 Hf. split; [|apply backup_ext; assumption]. apply backup_spec; [apply HB2|]. destruct Hf as [[Hf _]|Hq]; [left|right]; assumption.
  - intros l0 [HB HE] Hf. split; [|apply drop_width_ext; exact HE]. apply drop_width_spec; [exact HB|]. destruct Hf as [[Hf _]|Hq]; [left|right]; assumption.
  - intros n l0 [HB HE]. split; [apply peek_ahead_base; exact HB|exact HE].
  - intros l0 [HB HE]. split; [apply ignore_base; exact HB|exact HE].
  - intros l0 i H. exact H.
  - intros t l0 [HB HE]. split; [apply emit_base; exact HB|apply emit_ext; assumption].
  - intros m l0 [HB HE]. split; [apply errorf_base; exact HB|apply errorf_ext; assumption].
Qed.

Lemma init_lines : B2 (init_lex input).
Proof.
  split.
  - unfold Base, init_lex. cbn. split; [reflexivity|]. split; [repeat constructor; lia|lia].
  - unfold Ext, init_lex. cbn [l_before l_after l_pos l_out List.rev app List.length]. repeat split; [lia|constructor].
Qed.

End Lines.

(** * through the pump: every token the parser receives *)
Definition LL (input : bytes) (lx : lexer) : Prop :=
  B2 input (lx_st lx) /\ l_out (lx_st lx) = [] /\ Forall (tok_ok input) (lx_queue lx).

Lemma new_lexer_lines input : LL input (new_lexer input).
Proof. split; [apply init_lines|]. split; [reflexivity|constructor]. Qed.

Theorem next_token_lines input fuel : forall lx, LL input lx ->
  match next_token fuel lx with
  | PTok t lx' => (t = tok_eof \/ tok_ok input t) /\ LL input lx'
  | _ => True
  end.
Proof.
  Ltac ll_same := match goal with HB : B2 _ _, Ho : l_out _ = [] |- LL _ _ =>
                    unfold LL; cbn [lx_st lx_queue]; split; [exact HB|split; [exact Ho|first [assumption|constructor]]] end.
  induction fuel as [|f IH]; intros lx (HB & Ho & Hq); destruct lx as [st l q bl]; cbn [lx_st lx_queue] in *;
    cbn [next_token lx_queue lx_state lx_st].
  - destruct q as [|t q]; [destruct st; try exact I; split; [left; reflexivity|ll_same]|].
    inversion Hq; subst. split; [right; assumption|ll_same].
  - destruct q as [|t q]; [|inversion Hq; subst; split; [right; assumption|ll_same]].
    assert (Hs : forall st0, match (let '(st', l') := step st0 l in
                   if l_panic l' then PPanic
                   else if Nat.ltb c_token_queue_cap (List.length (List.rev (l_out l'))) then PDeadlock
                        else next_token f (mkLexer st' (with_out l' []) (List.rev (l_out l')) false)) with
                 | PTok t lx' => (t = tok_eof \/ tok_ok input t) /\ LL input lx' | _ => True end).
    { intro st0. pose proof (step_lines input st0 l HB) as HB'. destruct (step st0 l) as [st' l']. cbn [snd] in HB'.
      destruct (l_panic l'); [exact I|]. destruct (Nat.ltb _ _); [exact I|].
      apply IH. destruct HB' as [Hb (J3 & J2 & J4)]. split; [split; [exact Hb|split; [exact J3|split; [exact J2|constructor]]]|].
      split; [reflexivity|]. cbn [lx_queue]. apply Forall_rev. exact J4. }
    destruct st; try apply Hs. split; [left; reflexivity|ll_same].
Qed.
