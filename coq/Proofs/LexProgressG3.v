(** progress of the lexer states of group 3 (see LexProgressProofs) *)
From GV Require Import Compiler.Lexer Proofs.LexProofs Proofs.LexProgressProofs.
From Coq Require Import Lia.
Open Scope N_scope.

Lemma progress_g3 st l : st <> SNil -> grp st = 3%nat -> progress st l.
Proof.
  intros Hst Hg. destruct st; cbn [grp] in Hg; try discriminate Hg; try congruence; try apply filter_content_progress; try apply ignore_indented_progress; clear Hg Hst.
  all: prog_group.
Qed.
