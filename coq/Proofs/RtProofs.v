(** Proofs about the runtime helper model (property C19 and the escaping half of C02). *)
From GV Require Import Base.GoStr Runtime.Rt Proofs.SortProofs Proofs.EscapeProofs.
From Coq Require Import Sorting.Permutation.
Open Scope N_scope.

(** Two argument values that differ only in map iteration order *)
Inductive gval_perm : gval -> gval -> Prop :=
| GPStr s : gval_perm (VStr s) (VStr s)
| GPStrs l : gval_perm (VStrs l) (VStrs l)
| GPMapB m m' : Permutation m m' -> gval_perm (VMapB m) (VMapB m')
| GPMapS m m' : Permutation m m' -> gval_perm (VMapS m) (VMapS m')
| GPOther t : gval_perm (VOther t) (VOther t).

Lemma perm_filter {A} (f : A -> bool) l l' : Permutation l l' -> Permutation (filter f l) (filter f l').
Proof.
  induction 1 as [|x l l' Hp IH|x y l|l l' l'' H1 IH1 H2 IH2]; simpl.
  - constructor.
  - destruct (f x); [constructor|]; assumption.
  - destruct (f x), (f y); try apply Permutation_refl. apply perm_swap.
  - eapply Permutation_trans; eassumption.
Qed.

Lemma class_items_perm v v' : gval_perm v v' -> class_items v = class_items v'.
Proof.
  destruct 1 as [s|l|m m' Hp|m m' Hp|t]; simpl; try reflexivity.
  f_equal. apply sort_perm_invariant. unfold true_keys.
  apply Permutation_map. apply perm_filter. exact Hp.
Qed.

Theorem class_list_perm args args' :
  Forall2 gval_perm args args' -> build_class_list args = build_class_list args'.
Proof.
  unfold build_class_list. intro H. f_equal.
  induction H as [|v v' a a' Hv Ha IH]; simpl; [reflexivity|].
  rewrite (class_items_perm _ _ Hv), IH. reflexivity.
Qed.

Lemma attr_entries_perm v v' : gval_perm v v' ->
  match attr_entries v, attr_entries v' with
  | Some l, Some l' => Permutation l l'
  | None, None => True
  | _, _ => False
  end.
Proof.
  destruct 1 as [s|l|m m' Hp|m m' Hp|t]; simpl; try exact I;
    apply Permutation_map; apply perm_filter; exact Hp.
Qed.

Lemma attr_entries_all_perm args args' : Forall2 gval_perm args args' ->
  match attr_entries_all args, attr_entries_all args' with
  | Some l, Some l' => Permutation l l'
  | None, None => True
  | _, _ => False
  end.
Proof.
  induction 1 as [|v v' a a' Hv Ha IH]; simpl; [constructor|].
  pose proof (attr_entries_perm _ _ Hv) as H1.
  destruct (attr_entries v), (attr_entries v'); try contradiction; try exact I.
  destruct (attr_entries_all a), (attr_entries_all a'); try contradiction; try exact I.
  apply Permutation_app; assumption.
Qed.

Theorem attr_list_perm args args' :
  Forall2 gval_perm args args' -> build_attr_list args = build_attr_list args'.
Proof.
  intro H. unfold build_attr_list. pose proof (attr_entries_all_perm _ _ H) as Hp.
  destruct (attr_entries_all args), (attr_entries_all args'); try contradiction; simpl; [|reflexivity].
  f_equal. f_equal. apply sort_perm_invariant. exact Hp.
Qed.

(** ** Contracts *)

Definition class_supported (v : gval) : bool :=
  match v with VStr _ | VStrs _ | VMapB _ => true | _ => false end.
Definition attr_supported (v : gval) : bool :=
  match v with VMapB _ | VMapS _ => true | _ => false end.

Theorem class_unsupported_is_error args :
  build_class_list args = None <-> exists v, In v args /\ class_supported v = false.
Proof.
  unfold build_class_list. induction args as [|v a IH]; simpl.
  - split; [discriminate|intros [v [[] _]]].
  - destruct (class_items v) eqn:Ev.
    + destruct (class_items_all a) eqn:Ea; simpl in *.
      * split; [discriminate|]. intros [w [[Hw|Hw] Hs]].
        -- subst. destruct w; simpl in *; discriminate.
        -- apply proj2 in IH. assert (None = None :> option bytes) by reflexivity.
           exfalso. assert (X : @None bytes = None) by reflexivity.
           specialize (IH (ex_intro _ w (conj Hw Hs))). discriminate.
      * split; [intros _|reflexivity]. destruct (proj1 IH eq_refl) as [w [Hw Hs]].
        exists w; auto.
    + split; [intros _|reflexivity]. exists v. split; [auto|].
      destruct v; simpl in *; try discriminate; reflexivity.
Qed.

Theorem attr_unsupported_is_error args :
  build_attr_list args = None <-> exists v, In v args /\ attr_supported v = false.
Proof.
  unfold build_attr_list. induction args as [|v a IH]; simpl.
  - split; [discriminate|intros [v [[] _]]].
  - destruct (attr_entries v) eqn:Ev.
    + destruct (attr_entries_all a) eqn:Ea; simpl in *.
      * split; [discriminate|]. intros [w [[Hw|Hw] Hs]].
        -- subst. destruct w; simpl in *; discriminate.
        -- specialize (proj2 IH (ex_intro _ w (conj Hw Hs))). discriminate.
      * split; [intros _|reflexivity]. destruct (proj1 IH eq_refl) as [w [Hw Hs]].
        exists w; auto.
    + split; [intros _|reflexivity]. exists v. split; [auto|].
      destruct v; simpl in *; try discriminate; reflexivity.
Qed.

(** what one argument contributes to the class list *)
Definition contributes_class (v : gval) (c : bytes) : Prop :=
  c <> [] /\
  match v with
  | VStr s => c = s
  | VStrs l => In c l
  | VMapB m => In (c, true) m
  | _ => False
  end.

Lemma nonempty_true s : nonempty s = true <-> s <> [].
Proof. destruct s; simpl; split; congruence. Qed.

Lemma class_items_spec v l c : class_items v = Some l -> (In c l <-> contributes_class v c).
Proof.
  unfold contributes_class. destruct v as [s|ls|m|m|t]; simpl; intro H; inversion H; subst; clear H.
  - destruct s as [|b s]; simpl.
    + split; [intros []|intros [Hn H]; contradiction].
    + split.
      * intros [H|[]]. subst. split; [discriminate|reflexivity].
      * intros [_ H]. left. congruence.
  - rewrite filter_In, nonempty_true. tauto.
  - split.
    + intro H. apply (Permutation_in _ (Permutation_sym (sort_perm _))) in H.
      unfold true_keys in H. apply in_map_iff in H as [[k b] [Hk Hin]]. simpl in Hk. subst.
      apply filter_In in Hin as [Hin Hb]. simpl in Hb. apply andb_true_iff in Hb as [Hb Hn].
      subst. apply nonempty_true in Hn. auto.
    + intros [Hn Hin]. apply (Permutation_in _ (sort_perm _)). unfold true_keys.
      apply in_map_iff. exists (c, true). split; [reflexivity|]. apply filter_In. split; [assumption|].
      simpl. apply nonempty_true. assumption.
Qed.

Lemma class_items_all_spec args l c : class_items_all args = Some l ->
  (In c l <-> exists v, In v args /\ contributes_class v c).
Proof.
  revert l; induction args as [|v a IH]; simpl; intros l H.
  - inversion H; subst. split; [intros []|intros [v [[] _]]].
  - destruct (class_items v) eqn:Ev; [|discriminate].
    destruct (class_items_all a) eqn:Ea; [|discriminate]. inversion H; subst; clear H.
    rewrite in_app_iff, (class_items_spec _ _ c Ev), (IH _ eq_refl). split.
    + intros [H|[w [Hw Hc]]]; [exists v; auto|exists w; auto].
    + intros [w [[Hw|Hw] Hc]]; [subst; auto|right; exists w; auto].
Qed.

(** BuildClassList: the result is the escaped, space-joined list of exactly the
    non-blank strings, slice items and true-valued keys (each escaped once: decoding
    the result gives the plain joined list). *)
Theorem class_list_contract args r :
  build_class_list args = Some r ->
  exists items, html_unescape5 r = join (lit " ") items /\
    r = html_escape (join (lit " ") items) /\
    forall c, In c items <-> exists v, In v args /\ contributes_class v c.
Proof.
  unfold build_class_list. destruct (class_items_all args) as [items|] eqn:E; [|discriminate].
  simpl. intro H; inversion H; subst. exists items. split; [apply unescape_escape|].
  split; [reflexivity|]. intro c. apply class_items_all_spec. exact E.
Qed.

Definition contributes_attr (v : gval) (e : bytes) : Prop :=
  match v with
  | VMapS m => exists k x, In (k, x) m /\ x <> [] /\
                 e = html_escape k ++ lit "=""" ++ html_escape x ++ lit """"
  | VMapB m => exists k, In (k, true) m /\ e = html_escape k
  | _ => False
  end.

Lemma attr_entries_spec v l e : attr_entries v = Some l -> (In e l <-> contributes_attr v e).
Proof.
  destruct v as [s|ls|m|m|t]; simpl; intro H; inversion H; subst; clear H.
  - rewrite in_map_iff. split.
    + intros [[k b] [He Hin]]. apply filter_In in Hin as [Hin Hb]. simpl in *. subst. exists k. auto.
    + intros [k [Hin He]]. exists (k, true). split; [auto|]. apply filter_In. auto.
  - rewrite in_map_iff. split.
    + intros [[k x] [He Hin]]. apply filter_In in Hin as [Hin Hb]. simpl in *.
      apply nonempty_true in Hb. exists k, x. auto.
    + intros [k [x [Hin [Hx He]]]]. exists (k, x). split; [auto|]. apply filter_In. split; [auto|].
      apply nonempty_true. assumption.
Qed.

Lemma attr_entries_all_spec args l e : attr_entries_all args = Some l ->
  (In e l <-> exists v, In v args /\ contributes_attr v e).
Proof.
  revert l; induction args as [|v a IH]; simpl; intros l H.
  - inversion H; subst. split; [intros []|intros [v [[] _]]].
  - destruct (attr_entries v) eqn:Ev; [|discriminate].
    destruct (attr_entries_all a) eqn:Ea; [|discriminate]. inversion H; subst; clear H.
    rewrite in_app_iff, (attr_entries_spec _ _ e Ev), (IH _ eq_refl). split.
    + intros [H|[w [Hw Hc]]]; [exists v; auto|exists w; auto].
    + intros [w [[Hw|Hw] Hc]]; [subst; auto|right; exists w; auto].
Qed.

Theorem attr_list_contract args r :
  build_attr_list args = Some r ->
  exists entries, r = join (lit " ") (sort_bytes entries) /\
    forall e, In e (sort_bytes entries) <-> exists v, In v args /\ contributes_attr v e.
Proof.
  unfold build_attr_list. destruct (attr_entries_all args) as [entries|] eqn:E; [|discriminate].
  simpl. intro H; inversion H; subst. exists entries. split; [reflexivity|]. intro e.
  rewrite <- (attr_entries_all_spec _ _ e E). split; intro Hin.
  - eapply Permutation_in; [apply Permutation_sym, sort_perm|exact Hin].
  - eapply Permutation_in; [apply sort_perm|exact Hin].
Qed.

(** an attribute entry decodes back to its key and value: escaped exactly once *)
Lemma attr_entry_decodes k x :
  html_unescape5 (html_escape k) = k /\ html_unescape5 (html_escape x) = x.
Proof. split; apply unescape_escape. Qed.

(** ** Object references *)
Theorem object_id_contract o prefix :
  object_id o prefix =
  match obj_id o with
  | None => []
  | Some i => html_escape (join (lit "_") (first_prefix prefix ++ opt_list (obj_class o) ++ [i]))
  end.
Proof. reflexivity. Qed.

Theorem object_id_decodes o prefix i :
  obj_id o = Some i ->
  html_unescape5 (object_id o prefix) = join (lit "_") (first_prefix prefix ++ opt_list (obj_class o) ++ [i]).
Proof. unfold object_id. intros ->. apply unescape_escape. Qed.

Theorem object_class_contract o prefix :
  object_class o prefix =
  match obj_class o with
  | None => []
  | Some c => join (lit "_") (first_prefix prefix ++ [c])
  end.
Proof. reflexivity. Qed.

(** a single string (e.g. the object class) passed through BuildClassList is escaped once *)
Theorem class_list_single s :
  s <> [] -> build_class_list [VStr s] = Some (html_escape s).
Proof.
  intro H. unfold build_class_list. destruct s as [|b s]; [contradiction|].
  cbn [class_items_all class_items nonempty option_map app join]. reflexivity.
Qed.
