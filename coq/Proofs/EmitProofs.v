(** The emitter's output does not depend on the position bookkeeping (C15):
    two runs of any emitter step, from states that agree on what the text depends on (variable counter, error,
    the writer's local flags), write the same chunks and stay in agreement, whether or not a source map is
    attached, wherever in the file they start and whatever was written before. *)
From GV Require Import Compiler.Emit.
Open Scope N_scope.

Section Sim.
Variables b b' : est.     (* the states the two runs are compared against: only the chunks written since count *)

(** [Rn c s s']: same error, same local writer state, same variable counter when [c] is set, and the same
    chunks written since [b] / [b'] *)
Definition Rn (c : bool) (s s' : est) : Prop :=
  (c = true -> w_num (fst s) = w_num (fst s')) /\
  w_err (fst s) = w_err (fst s') /\
  snd s = snd s' /\
  exists d, w_out (fst s) = d ++ w_out (fst b) /\ w_out (fst s') = d ++ w_out (fst b').

Lemma Rn_weaken c s s' : Rn c s s' -> Rn false s s'.
Proof. intros (_ & He & Hl & Hd). split; [discriminate|]. auto. Qed.

Lemma Rn_local c s s' : Rn c s s' -> snd s = snd s'.
Proof. intros (_ & _ & Hl & _). exact Hl. Qed.

Ltac open_states :=
  repeat match goal with
  | s : est |- _ => destruct s as [[? ? ? ? ? ?] ?]
  end.

Ltac open_R :=
  repeat match goal with
  | H : Rn _ _ _ |- _ => destruct H as (?Hn & ?He & ?Hl & ?d & ?Hd & ?Hd')
  end; cbn [fst snd w_num w_err w_out w_line w_col w_adds] in *; subst.

Lemma wr_sim c x s s' : Rn c s s' -> Rn c (wr x s) (wr x s').
Proof.
  intro H. destruct s as [[o n l cl a e] loc], s' as [[o' n' l' cl' a' e'] loc']. open_R.
  unfold wr, write, w_write. cbn [fst snd w_err]. destruct e'; cbn [fst snd].
  - split; [exact Hn|]. split; [reflexivity|]. split; [reflexivity|]. exists d. auto.
  - split; [exact Hn|]. split; [reflexivity|]. split; [reflexivity|]. exists (x :: d). cbn. split; reflexivity.
Qed.

Lemma set_local_sim c l s s' : Rn c s s' -> Rn c (set_local s l) (set_local s' l).
Proof. intros (Hn & He & Hl & Hd). split; [exact Hn|]. split; [exact He|]. split; [reflexivity|exact Hd]. Qed.

Lemma add_err_handler_sim c s s' : Rn c s s' ->
  fst (add_err_handler s) = fst (add_err_handler s') /\ Rn c (snd (add_err_handler s)) (snd (add_err_handler s')).
Proof.
  intro H. pose proof (Rn_local _ _ _ H) as Hl. unfold add_err_handler. rewrite Hl.
  destruct (wl_errh (snd s')); cbn [fst snd]; (split; [reflexivity|]); [apply set_local_sim|]; exact H.
Qed.

Lemma close_string_literal_sim c s s' : Rn c s s' -> Rn c (close_string_literal s) (close_string_literal s').
Proof.
  intro H. unfold close_string_literal.
  destruct (add_err_handler_sim _ _ _ H) as [Hf Hs]. pose proof (Rn_local _ _ _ H) as Hl. pose proof (Rn_local _ _ _ Hs) as Hl2.
  destruct (add_err_handler s) as [h s1], (add_err_handler s') as [h' s1']. cbn [fst snd] in *. subst h'. rewrite Hl, Hl2.
  apply wr_sim. apply set_local_sim. exact Hs.
Qed.

Lemma close_if_static_sim c s s' : Rn c s s' -> Rn c (close_if_static s) (close_if_static s').
Proof.
  intro H. unfold close_if_static. rewrite (Rn_local _ _ _ H).
  destruct (wl_static (snd s')); [apply close_string_literal_sim|]; exact H.
Qed.

Lemma tw_wr_sim c x s s' : Rn c s s' -> Rn c (tw_wr x s) (tw_wr x s').
Proof. intro H. apply (wr_sim c x). apply close_if_static_sim. exact H. Qed.

Lemma tw_wri_sim c x s s' : Rn c s s' -> Rn c (tw_wri x s) (tw_wri x s').
Proof.
  intro H. unfold tw_wri, tw_write_indent. pose proof (close_if_static_sim _ _ _ H) as H1.
  rewrite (Rn_local _ _ _ H1). apply (wr_sim c x). apply wr_sim. exact H1.
Qed.

Lemma tw_write_string_literal_sim c x s s' : Rn c s s' -> Rn c (tw_write_string_literal x s) (tw_write_string_literal x s').
Proof.
  intro H. unfold tw_write_string_literal. rewrite (Rn_local _ _ _ H).
  destruct (wl_static (snd s')); [apply wr_sim; exact H|].
  apply wr_sim. apply set_local_sim. apply wr_sim. apply wr_sim. exact H.
Qed.

Lemma tw_write_string_indent_sim c x s s' : Rn c s s' -> Rn c (tw_write_string_indent x s) (tw_write_string_indent x s').
Proof.
  intro H. unfold tw_write_string_indent. pose proof (close_if_static_sim _ _ _ H) as H1.
  rewrite (Rn_local _ _ _ H1). do 4 apply wr_sim. exact H1.
Qed.

Lemma tw_write_error_handler_sim c s s' : Rn c s s' -> Rn c (tw_write_error_handler s) (tw_write_error_handler s').
Proof.
  intro H. unfold tw_write_error_handler. rewrite (Rn_local _ _ _ H).
  destruct (wl_static (snd s')); [apply close_string_literal_sim; exact H|].
  destruct (add_err_handler_sim _ _ _ H) as [Hf Hs].
  destruct (add_err_handler s) as [h s1], (add_err_handler s') as [h' s1']. cbn [fst snd] in *. subst h'.
  apply wr_sim. exact Hs.
Qed.

Lemma tw_close_sim c s s' : Rn c s s' -> Rn c (tw_close s) (tw_close s').
Proof. apply close_if_static_sim. Qed.

Lemma var_name_sim s s' : Rn true s s' -> var_name_of s = var_name_of s'.
Proof.
  intro H. destruct s as [[o n l cl a e] loc], s' as [[o' n' l' cl' a' e'] loc']. open_R.
  unfold var_name_of, get_var_name. cbn [fst snd w_err w_num]. destruct e'; cbn [fst w_num]; [reflexivity|]. rewrite (Hn eq_refl). reflexivity.
Qed.

Lemma after_var_sim s s' : Rn true s s' -> Rn true (after_var s) (after_var s').
Proof.
  intro H. destruct s as [[o n l cl a e] loc], s' as [[o' n' l' cl' a' e'] loc']. open_R.
  unfold after_var, get_var_name. cbn [fst snd w_err w_num]. destruct e'; cbn [fst snd].
  - split; [exact Hn|]. split; [reflexivity|]. split; [reflexivity|]. exists d. auto.
  - split; [intros _; cbn; rewrite (Hn eq_refl); reflexivity|]. split; [reflexivity|]. split; [reflexivity|]. exists d. auto.
Qed.

Lemma reset_var_name_sim c s s' : Rn c s s' -> Rn true (reset_var_name s) (reset_var_name s').
Proof.
  intro H. destruct s as [[o n l cl a e] loc], s' as [[o' n' l' cl' a' e'] loc']. open_R.
  unfold reset_var_name. cbn [fst snd]. split; [reflexivity|]. split; [reflexivity|]. split; [reflexivity|]. exists d. auto.
Qed.

Lemma tw_add_sim c sm sm' t x r r' s s' : Rn c s s' -> Rn c (tw_add sm t x r s) (tw_add sm' t x r' s').
Proof.
  intro H. destruct s as [[o n l cl a e] loc], s' as [[o' n' l' cl' a' e'] loc']. open_R.
  unfold tw_add. cbn [fst snd w_err]. destruct e'.
  - split; [exact Hn|]. split; [reflexivity|]. split; [reflexivity|]. exists d. auto.
  - destruct sm, sm'; cbn [fst snd]; (split; [exact Hn|]); (split; [reflexivity|]); (split; [reflexivity|]); exists d; auto.
Qed.

Lemma tw_write_add_sim c sm sm' x t s s' : Rn c s s' -> Rn c (tw_write_add sm x t s) (tw_write_add sm' x t s').
Proof. intro H. unfold tw_write_add. apply tw_add_sim. apply (tw_wr_sim c x). exact H. Qed.

Lemma tw_write_indent_add_sim c sm sm' x t s s' : Rn c s s' -> Rn c (tw_write_indent_add sm x t s) (tw_write_indent_add sm' x t s').
Proof. intro H. unfold tw_write_indent_add. apply tw_add_sim. apply (tw_wri_sim c x). exact H. Qed.

Lemma fail_with_sim c m s s' : Rn c s s' -> Rn c (fail_with m s) (fail_with m s').
Proof.
  intro H. destruct s as [[o n l cl a e] loc], s' as [[o' n' l' cl' a' e'] loc']. open_R.
  unfold fail_with. cbn [fst snd w_err]. destruct e'; (split; [exact Hn|]); (split; [reflexivity|]); (split; [reflexivity|]); exists d; auto.
Qed.

Lemma set_unesc_sim c v s s' : Rn c s s' -> Rn c (set_unesc v s) (set_unesc v s').
Proof. intro H. unfold set_unesc. rewrite (Rn_local _ _ _ H). apply set_local_sim. exact H. Qed.

Lemma write_formatted_text_sim c sm sm' t s s' : Rn c s s' -> Rn c (write_formatted_text sm t s) (write_formatted_text sm' t s').
Proof.
  intro H. unfold write_formatted_text. destruct (fmt_text_match (t_lit t)) as [[verb expr]|].
  - cbv zeta. apply tw_wr_sim. apply tw_write_add_sim. apply tw_wr_sim. apply tw_write_add_sim. apply tw_wr_sim. exact H.
  - apply tw_write_add_sim. exact H.
Qed.

Lemma indent_sim c k s s' : Rn c s s' -> Rn c (set_local s (indent_local (snd s) k)) (set_local s' (indent_local (snd s') k)).
Proof. intro H. rewrite (Rn_local _ _ _ H). apply set_local_sim. exact H. Qed.

Lemma restore_sim c s6 s6' s4 s4' : Rn c s6 s6' -> Rn c s4 s4' -> Rn c (set_local s6 (snd s4)) (set_local s6' (snd s4')).
Proof. intros H6 H4. rewrite (Rn_local _ _ _ H4). apply set_local_sim. exact H6. Qed.

End Sim.

Ltac sim1 :=
  lazymatch goal with
  | H : Rn ?b0 ?b1 ?c ?s ?s' |- Rn ?b0 ?b1 ?c ?s ?s' => exact H
  | |- Rn _ _ _ (tw_wr _ _) (tw_wr _ _) => apply tw_wr_sim
  | |- Rn _ _ _ (tw_wri _ _) (tw_wri _ _) => apply tw_wri_sim
  | |- Rn _ _ _ (tw_write_string_literal _ _) (tw_write_string_literal _ _) => apply tw_write_string_literal_sim
  | |- Rn _ _ _ (tw_write_string_indent _ _) (tw_write_string_indent _ _) => apply tw_write_string_indent_sim
  | |- Rn _ _ _ (tw_write_error_handler _) (tw_write_error_handler _) => apply tw_write_error_handler_sim
  | |- Rn _ _ _ (tw_close _) (tw_close _) => apply tw_close_sim
  | |- Rn _ _ _ (tw_write_add _ _ _ _) (tw_write_add _ _ _ _) => apply tw_write_add_sim
  | |- Rn _ _ _ (tw_write_indent_add _ _ _ _) (tw_write_indent_add _ _ _ _) => apply tw_write_indent_add_sim
  | |- Rn _ _ _ (tw_add _ _ _ _ _) (tw_add _ _ _ _ _) => apply tw_add_sim
  | |- Rn _ _ _ (fail_with _ _) (fail_with _ _) => apply fail_with_sim
  | |- Rn _ _ _ (set_unesc _ _) (set_unesc _ _) => apply set_unesc_sim
  | |- Rn _ _ _ (write_formatted_text _ _ _) (write_formatted_text _ _ _) => apply write_formatted_text_sim
  | |- Rn _ _ _ (after_var _) (after_var _) => apply after_var_sim
  | |- Rn _ _ _ (reset_var_name _) (reset_var_name _) => apply (reset_var_name_sim _ _ true)
  | |- Rn _ _ _ (set_local ?s (indent_local (snd ?s) _)) (set_local ?s' (indent_local (snd ?s') _)) => apply indent_sim
  | |- Rn _ _ _ (set_local _ (snd _)) (set_local _ (snd _)) => apply restore_sim
  | |- Rn _ _ _ (set_local _ ?l) (set_local _ ?l) => apply set_local_sim
  end.
Ltac sim := repeat sim1.

Section Sim2.
Variables b b' : est.

Lemma emit_dynamic_sim sm sm' t s s' : Rn b b' true s s' -> Rn b b' true (emit_dynamic sm t s) (emit_dynamic sm' t s').
Proof.
  intro H. unfold emit_dynamic. cbv zeta. rewrite (var_name_sim _ _ _ _ H).
  set (v := var_name_of s').
  assert (H3 : Rn b b' true (tw_wri (lit "if " ++ v ++ lit ", __err = goht.CaptureErrors(") (tw_wri (lit "var " ++ v ++ lit " string" ++ [10]) (after_var s)))
                       (tw_wri (lit "if " ++ v ++ lit ", __err = goht.CaptureErrors(") (tw_wri (lit "var " ++ v ++ lit " string" ++ [10]) (after_var s')))) by sim.
  rewrite (Rn_local _ _ _ _ _ H3).
  match goal with |- context [if ?c then _ else _] => destruct c end; sim.
Qed.

Lemma emit_text_sim sm sm' t s s' : Rn b b' true s s' -> Rn b b' true (emit_text sm t s) (emit_text sm' t s').
Proof.
  intro H. unfold emit_text. cbv zeta. rewrite (Rn_local _ _ _ _ _ H).
  destruct (toktype_eqb (t_typ t) TDynamicText); [apply emit_dynamic_sim; exact H|].
  match goal with |- context [if ?c then _ else _] => destruct c end; sim.
Qed.

Lemma write_class_args_sim c sm sm' l : forall s s', Rn b b' c s s' -> Rn b b' c (write_class_args sm l s) (write_class_args sm' l s').
Proof.
  induction l as [|x rest IH]; intros s s' H; [exact H|].
  cbn [write_class_args]. cbv zeta. apply IH.
  destruct rest; destruct (t_typ x); sim.
Qed.

Lemma render_class_sim sm sm' l s s' : Rn b b' true s s' -> Rn b b' true (render_class sm l s) (render_class sm' l s').
Proof.
  intro H. unfold render_class. destruct l as [|x l]; [exact H|].
  match goal with |- context [if ?c then _ else _] => destruct c end.
  - destruct (first_unquote_failure (x :: l)); sim.
  - cbv zeta. rewrite (var_name_sim _ _ _ _ H). sim. apply write_class_args_sim. sim.
Qed.

Lemma render_attrs_sim sm sm' l : forall s s', Rn b b' true s s' -> Rn b b' true (render_attrs sm l s) (render_attrs sm' l s').
Proof.
  induction l as [|[k a] rest IH]; intros s s' H; [exact H|].
  cbn [render_attrs]. cbv zeta. apply IH.
  destruct (a_value a); [sim|]. destruct (a_bool a); [sim|]. destruct (a_dyn a); sim.
Qed.

Lemma render_attributes_sim sm sm' d s s' : Rn b b' true s s' -> Rn b b' true (render_attributes sm d s) (render_attributes sm' d s').
Proof.
  intro H. unfold render_attributes. cbv zeta.
  set (st1 := match e_objref d with Some o => _ | None => s end).
  set (st1' := match e_objref d with Some o => _ | None => s' end).
  assert (H1 : Rn b b' true st1 st1').
  { subst st1 st1'. destruct (e_objref d); [|exact H]. rewrite (var_name_sim _ _ _ _ H). sim. }
  clearbody st1 st1'.
  set (st2 := match e_id d with [] => st1 | _ => _ end).
  set (st2' := match e_id d with [] => st1' | _ => _ end).
  assert (H2 : Rn b b' true st2 st2').
  { subst st2 st2'. destruct (e_id d); sim. }
  clearbody st2 st2'.
  destruct (match omap_get (e_attrs d) (lit "class") with Some c => _ | None => _ end) as [classes2 attrs].
  assert (H4 : Rn b b' true (render_attrs sm attrs (render_class sm classes2 st2)) (render_attrs sm' attrs (render_class sm' classes2 st2'))).
  { apply render_attrs_sim. apply render_class_sim. exact H2. }
  destruct (e_attrs_cmd d); [exact H4|].
  rewrite (var_name_sim _ _ _ _ H4). sim.
Qed.

End Sim2.

(** induction over trees *)
Fixpoint node_ind2 (P : node -> Prop) (H : forall k ch, Forall P ch -> P (Node k ch)) (n : node) : P n :=
  match n with
  | Node k ch =>
    H k ch ((fix all (l : list node) : Forall P l :=
               match l with [] => Forall_nil P | c :: r => Forall_cons c (node_ind2 P H c) (all r) end) ch)
  end.

(** the loop inside [emit_node] is [emit_list] *)
Lemma emit_node_unfold sm k ch next nc st :
  emit_node sm (Node k ch) next nc st = emit_node_body sm (emit_list sm) k ch next nc st.
Proof.
  cbn [emit_node]. f_equal.
Qed.

Section SimNode.
Variables b b' : est.
Notation R := (Rn b b' true).

Ltac simb := sim.

Lemma fold_imports_sim l : forall s s', R s s' ->
  R (fold_left (fun s i => tw_wr (lit "import " ++ i ++ [10]) s) l s) (fold_left (fun s i => tw_wr (lit "import " ++ i ++ [10]) s) l s').
Proof. induction l as [|x l IH]; intros s s' H; [exact H|]. cbn [fold_left]. apply IH. apply tw_wr_sim. exact H. Qed.

Lemma fold_user_imports_sim sm sm' (l : list token) : forall s s', R s s' ->
  R (fold_left (fun s (i : token) => tw_wr [10] (tw_write_indent_add sm (t_lit i) i s)) l s)
    (fold_left (fun s (i : token) => tw_wr [10] (tw_write_indent_add sm' (t_lit i) i s)) l s').
Proof. induction l as [|x l IH]; intros s s' H; [exact H|]. cbn [fold_left]. apply IH. apply tw_wr_sim. apply tw_write_indent_add_sim. exact H. Qed.

Lemma fold_code_sim sm sm' (l : list token) : forall s s', R s s' ->
  R (fold_left (fun s (t : token) => if toktype_eqb (t_typ t) TNewLine then tw_wr (t_lit t) s else tw_write_add sm (t_lit t) t s) l s)
    (fold_left (fun s (t : token) => if toktype_eqb (t_typ t) TNewLine then tw_wr (t_lit t) s else tw_write_add sm' (t_lit t) t s) l s').
Proof.
  induction l as [|x l IH]; intros s s' H; [exact H|]. cbn [fold_left]. apply IH.
  destruct (toktype_eqb (t_typ x) TNewLine); [apply tw_wr_sim|apply tw_write_add_sim]; exact H.
Qed.

Lemma fold_lines_sim (l : list bytes) : forall s s', R s s' ->
  R (fold_left (fun s line => tw_wri line s) l s) (fold_left (fun s line => tw_wri line s) l s').
Proof. induction l as [|x l IH]; intros s s' H; [exact H|]. cbn [fold_left]. apply IH. apply tw_wri_sim. exact H. Qed.

Definition R2 (p p' : est * bool) : Prop := R (fst p) (fst p') /\ snd p = snd p'.

Lemma body_sim sm sm' ec ec' k ch next nc s s' :
  (forall nc0 s0 s0', R s0 s0' -> R (ec ch nc0 s0) (ec' ch nc0 s0')) ->
  R s s' -> R2 (emit_node_body sm ec k ch next nc s) (emit_node_body sm' ec' k ch next nc s').
Proof.
  intros Hec H. unfold emit_node_body, R2.
  Ltac simx Hec :=
    repeat first
    [ sim1
    | lazymatch goal with
      | |- Rn _ _ _ (fold_left _ _ _) (fold_left _ _ _) =>
        first [apply fold_imports_sim | apply fold_user_imports_sim | apply fold_code_sim | apply fold_lines_sim]
      | |- Rn _ _ _ (render_attributes _ _ _) (render_attributes _ _ _) => apply render_attributes_sim
      | |- Rn _ _ _ (emit_text _ _ _) (emit_text _ _ _) => apply emit_text_sim
      | |- Rn _ _ _ (emit_dynamic _ _ _) (emit_dynamic _ _ _) => apply emit_dynamic_sim
      | |- Rn _ _ _ (?f ?l _ _) (?g ?l _ _) => apply Hec
      end ].
  destruct k as [pkg user|toks|origin|origin|origin indent d|origin|origin indent|origin|origin indent|origin indent complete|origin|origin indent|origin|fk origin indent]; cbv zeta.
  - (* root *) cbn [fst snd]. split; [|reflexivity]. apply Hec.
    destruct user; [destruct (Z.ltb 0 (t_line pkg)); simx Hec|].
    destruct (Z.ltb 0 (t_line pkg)); simx Hec.
  - (* code *) cbn [fst snd]. split; [|reflexivity]. simx Hec.
  - (* goht *) cbn [fst snd]. split; [|reflexivity]. simx Hec.
  - (* doctype *) cbn [fst snd]. split; [|reflexivity]. simx Hec.
  - (* element *)
    destruct (e_selfclosing d); cbn [fst snd]; (split; [|reflexivity]).
    + destruct (e_nuke_outer d); simx Hec.
    + destruct (e_nuke_outer d), (e_nuke_inner d), (match ch with [c] => kind_is_newline c | _ => false end); simx Hec.
  - (* newline *) cbn [fst snd]. split; [|reflexivity]. simx Hec.
  - (* comment *) destruct (t_lit origin); cbn [fst snd]; (split; [|reflexivity]); simx Hec.
  - (* text *) cbn [fst snd]. split; [|reflexivity]. simx Hec.
  - (* unescape *) cbn [fst snd]. split; [|reflexivity]. simx Hec.
  - (* silent *)
    destruct (negb match ch with [] => false | _ => true end); [cbn [fst snd]; split; [|reflexivity]; simx Hec|].
    destruct (is_silent next).
    + match goal with |- context [if ?c then (_, false) else _] => destruct c end; cbn [fst snd]; (split; [|reflexivity]); simx Hec.
    + destruct (any_prefix c_openingStatements (go_trim_space (t_lit origin))); cbn [fst snd]; (split; [|reflexivity]); simx Hec.
  - (* script *) cbn [fst snd]. split; [|reflexivity]. simx Hec.
  - (* render *)
    destruct ch; cbn [fst snd]; (split; [|reflexivity]); [simx Hec|].
    rewrite (var_name_sim _ _ _ _ H). simx Hec.
  - (* children *) cbn [fst snd]. split; [|reflexivity]. simx Hec.
  - (* filter *)
    destruct fk; cbn [fst snd]; (split; [|reflexivity]); [simx Hec|simx Hec|].
    destruct (beqb (t_lit origin) (lit "plain") || beqb (t_lit origin) (lit "preserve")), (beqb (t_lit origin) (lit "preserve")); simx Hec.
Qed.
End SimNode.

Section SimTree.
Variables b b' : est.
Notation R := (Rn b b' true).

Definition node_sim_at (sm sm' : bool) (n : node) : Prop :=
  forall next nc s s', R s s' -> R2 b b' (emit_node sm n next nc s) (emit_node sm' n next nc s').

Lemma list_sim sm sm' (l : list node) : Forall (node_sim_at sm sm') l ->
  forall nc s s', R s s' -> R (emit_list sm l nc s) (emit_list sm' l nc s').
Proof.
  induction 1 as [|c rest Hc _ IH]; intros nc s s' H; [exact H|].
  cbn [emit_list]. destruct (Hc (hd_error rest) nc s s' H) as [H1 H2].
  destruct (emit_node sm c (hd_error rest) nc s) as [s1 f1], (emit_node sm' c (hd_error rest) nc s') as [s1' f1'].
  cbn [fst snd] in *. subst f1'. apply IH. exact H1.
Qed.

Theorem emit_node_sim sm sm' n : node_sim_at sm sm' n.
Proof.
  induction n as [k ch IH] using node_ind2. intros next nc s s' H.
  rewrite !emit_node_unfold. apply body_sim; [|exact H].
  intros nc0 s0 s0' H0. apply list_sim; assumption.
Qed.
End SimTree.

(** * Consequences *)
Lemma Rn_refl st : Rn st st true st st.
Proof. split; [reflexivity|]. split; [reflexivity|]. split; [reflexivity|]. exists []. split; reflexivity. Qed.

(** the text and the error are the same with and without a source map *)
Theorem emit_tree_sm_independent root :
  w_out (emit_tree true root) = w_out (emit_tree false root) /\ w_err (emit_tree true root) = w_err (emit_tree false root).
Proof.
  unfold emit_tree.
  destruct (emit_node_sim (ws_init, wl_init) (ws_init, wl_init) true false root None false _ _ (Rn_refl _)) as [(_ & He & _ & d & Hd & Hd') _].
  split; [|exact He]. rewrite Hd, Hd'. reflexivity.
Qed.

Theorem generate_is_compose root : generate root = (fst (fst (compose root)), snd (compose root)).
Proof.
  unfold generate, compose. cbn [fst snd]. destruct (emit_tree_sm_independent root) as [Ho He].
  unfold output_of. rewrite Ho, He. reflexivity.
Qed.

(** * The generated file is the header followed by each top-level item's own code *)
Definition item (n : node) : Prop := match n with Node (KCode _) _ | Node (KGoht _) _ => True | _ => False end.

Definition init_st : est := (ws_init, wl_init).
Definition txt (st : est) : bytes := List.concat (List.rev (w_out (fst st))).

(** the code and the error of one top-level item, generated on its own *)
Definition item_text (n : node) : bytes := txt (fst (emit_node false n None false init_st)).
Definition item_err (n : node) : option bytes := w_err (fst (fst (emit_node false n None false init_st))).

Definition quiet (st : est) : Prop := w_err (fst st) = None /\ wl_static (snd st) = false.

Lemma wr_quiet x st : w_err (fst st) = None -> w_err (fst (wr x st)) = None /\ snd (wr x st) = snd st.
Proof. destruct st as [[o n l c a e] loc]. cbn. intros ->. cbn. auto. Qed.

Lemma tw_wr_quiet x st : quiet st -> quiet (tw_wr x st) /\ snd (tw_wr x st) = snd st.
Proof.
  intros [He Hs]. unfold tw_wr, tw_write, close_if_static. rewrite Hs.
  destruct (wr_quiet x st He) as [H1 H2]. unfold wr in *. unfold quiet. rewrite H1, H2. auto.
Qed.

Lemma tw_add_quiet sm t x r st : quiet st -> quiet (tw_add sm t x r st) /\ snd (tw_add sm t x r st) = snd st.
Proof.
  destruct st as [[o n l c a e] loc]. unfold quiet, tw_add. cbn. intros [-> Hs]. destruct sm; cbn; auto.
Qed.

Lemma tw_write_add_quiet sm x t st : quiet st -> quiet (tw_write_add sm x t st) /\ snd (tw_write_add sm x t st) = snd st.
Proof.
  intro H. unfold tw_write_add. destruct (tw_wr_quiet x st H) as [H1 H2]. fold (tw_wr x st).
  destruct (tw_add_quiet sm t x (fst (tw_write x st)) (tw_wr x st) H1) as [H3 H4]. split; [exact H3|]. rewrite H4. exact H2.
Qed.

Lemma fold_code_quiet sm (l : list token) : forall st, quiet st ->
  let f := fun s (t : token) => if toktype_eqb (t_typ t) TNewLine then tw_wr (t_lit t) s else tw_write_add sm (t_lit t) t s in
  quiet (fold_left f l st) /\ snd (fold_left f l st) = snd st.
Proof.
  induction l as [|x l IH]; intros st H; [cbn; auto|]. cbn [fold_left]. cbv zeta in *.
  assert (Hx : quiet (if toktype_eqb (t_typ x) TNewLine then tw_wr (t_lit x) st else tw_write_add sm (t_lit x) x st) /\
               snd (if toktype_eqb (t_typ x) TNewLine then tw_wr (t_lit x) st else tw_write_add sm (t_lit x) x st) = snd st).
  { destruct (toktype_eqb (t_typ x) TNewLine); [apply tw_wr_quiet|apply tw_write_add_quiet]; exact H. }
  destruct Hx as [Hq Hl]. destruct (IH _ Hq) as [H1 H2]. split; [exact H1|]. rewrite H2. exact Hl.
Qed.

Lemma fold_code_sim_any b b' c sm sm' (l : list token) : forall s s', Rn b b' c s s' ->
  Rn b b' c (fold_left (fun s (t : token) => if toktype_eqb (t_typ t) TNewLine then tw_wr (t_lit t) s else tw_write_add sm (t_lit t) t s) l s)
            (fold_left (fun s (t : token) => if toktype_eqb (t_typ t) TNewLine then tw_wr (t_lit t) s else tw_write_add sm' (t_lit t) t s) l s').
Proof.
  induction l as [|x l IH]; intros s s' H; [exact H|]. cbn [fold_left]. apply IH.
  destruct (toktype_eqb (t_typ x) TNewLine); [apply tw_wr_sim|apply tw_write_add_sim]; exact H.
Qed.

Lemma reset_idem st : reset_var_name (reset_var_name st) = reset_var_name st.
Proof. destruct st as [[o n l c a e] loc]. reflexivity. Qed.

Lemma goht_from_reset sm o ch next nc st :
  emit_node sm (Node (KGoht o) ch) next nc st = emit_node sm (Node (KGoht o) ch) None false (reset_var_name st).
Proof. rewrite !emit_node_unfold. unfold emit_node_body. rewrite reset_idem. reflexivity. Qed.

(** one item, started anywhere after other items, writes its own code and leaves the writer as it found it *)
Lemma item_sim sm n next nc st : item n -> Rn st init_st false st init_st ->
  Rn st init_st false (fst (emit_node sm n next nc st)) (fst (emit_node false n None false init_st)).
Proof.
  intros Hi H. destruct n as [k ch]. destruct k; try contradiction.
  - rewrite !emit_node_unfold. unfold emit_node_body. cbn [fst]. apply fold_code_sim_any. exact H.
  - rewrite (goht_from_reset sm), (goht_from_reset false origin ch None false init_st).
    apply Rn_weaken with (c := true).
    apply (emit_node_sim st init_st sm false (Node (KGoht origin) ch) None false).
    apply (reset_var_name_sim _ _ false). exact H.
Qed.

Lemma item_local sm n next nc st : item n -> quiet st -> snd (fst (emit_node sm n next nc st)) = snd st.
Proof.
  intros Hi Hq. destruct n as [k ch]. destruct k; try contradiction; rewrite emit_node_unfold; unfold emit_node_body; cbn [fst].
  - apply (fold_code_quiet sm toks st Hq).
  - cbv zeta.
    assert (Hr : quiet (reset_var_name st) /\ snd (reset_var_name st) = snd st).
    { destruct st as [[o n l c a e] loc]. exact (conj Hq eq_refl). }
    destruct Hr as [Hr1 Hr2].
    destruct (tw_wr_quiet (lit "func ") _ Hr1) as [H1 L1].
    destruct (tw_write_add_quiet sm (t_lit origin) origin _ H1) as [H2 L2].
    destruct (tw_wr_quiet c_gohtEntry _ H2) as [H3 L3].
    set (st4 := tw_wr c_gohtEntry _) in *.
    set (st6 := tw_close _).
    assert (Hl4 : snd st4 = snd st) by (rewrite L3, L2, L1, Hr2; reflexivity).
    unfold tw_wr, tw_write, close_if_static, set_local. cbn [snd].
    destruct H3 as [_ Hs]. rewrite Hs. unfold write. cbn [fst snd]. destruct (w_write c_gohtExit (fst st6)). cbn [snd]. exact Hl4.
Qed.

Lemma txt_delta st st' d : w_out (fst st') = d ++ w_out (fst st) -> txt st' = txt st ++ List.concat (List.rev d).
Proof. intro H. unfold txt. rewrite H, rev_app_distr, concat_app. reflexivity. Qed.

Theorem items_concat sm (l : list node) : forall nc st,
  Forall item l -> Forall (fun n => item_err n = None) l -> quiet st -> snd st = wl_init ->
  let st' := emit_list sm l nc st in
  txt st' = txt st ++ List.concat (map item_text l) /\ w_err (fst st') = None /\ snd st' = wl_init.
Proof.
  induction l as [|n rest IH]; intros nc st Hit Herr Hq Hl; cbv zeta.
  - cbn [emit_list map List.concat]. rewrite app_nil_r. destruct Hq. auto.
  - inversion Hit as [|? ? Hi Hit']; subst. inversion Herr as [|? ? He Herr']; subst.
    cbn [emit_list].
    assert (H0 : Rn st init_st false st init_st).
    { split; [discriminate|]. split; [destruct Hq as [-> _]; reflexivity|]. split; [exact Hl|]. exists []. split; reflexivity. }
    pose proof (item_sim sm n (hd_error rest) nc st Hi H0) as (_ & He1 & Hl1 & d & Hd & Hd').
    pose proof (item_local sm n (hd_error rest) nc st Hi Hq) as Hloc.
    destruct (emit_node sm n (hd_error rest) nc st) as [st1 f1]. cbn [fst snd] in *.
    assert (Hq1 : quiet st1).
    { split; [rewrite He1; exact He|]. rewrite Hloc. destruct Hq; assumption. }
    destruct (IH f1 st1 Hit' Herr' Hq1 (eq_trans Hloc Hl)) as (Ht & Hen & Hln).
    split; [|split; assumption].
    rewrite Ht. cbn [map List.concat]. rewrite (txt_delta st st1 d Hd), <- app_assoc. f_equal. f_equal.
    unfold item_text. rewrite (txt_delta init_st _ d); [reflexivity|]. rewrite Hd'. reflexivity.
Qed.

Lemma tw_wri_quiet x st : quiet st -> quiet (tw_wri x st) /\ snd (tw_wri x st) = snd st.
Proof.
  intros [He Hs]. unfold tw_wri, tw_write_indent, close_if_static. rewrite Hs.
  destruct (wr_quiet (tabs (wl_indent (snd st))) st He) as [H1 H2].
  destruct (wr_quiet x _ H1) as [H3 H4]. unfold wr in *. unfold quiet. rewrite H3, H4, H2. auto.
Qed.

Lemma tw_write_indent_add_quiet sm x t st : quiet st -> quiet (tw_write_indent_add sm x t st) /\ snd (tw_write_indent_add sm x t st) = snd st.
Proof.
  intro H. unfold tw_write_indent_add. destruct (tw_wri_quiet x st H) as [H1 H2]. fold (tw_wri x st).
  destruct (tw_add_quiet sm t x (fst (tw_write_indent x st)) (tw_wri x st) H1) as [H3 H4]. split; [exact H3|]. rewrite H4. exact H2.
Qed.

Lemma fold_imports_quiet (l : list bytes) : forall st, quiet st ->
  quiet (fold_left (fun s i => tw_wr (lit "import " ++ i ++ [10]) s) l st) /\
  snd (fold_left (fun s i => tw_wr (lit "import " ++ i ++ [10]) s) l st) = snd st.
Proof.
  induction l as [|x l IH]; intros st H; [cbn; auto|]. cbn [fold_left].
  destruct (tw_wr_quiet (lit "import " ++ x ++ [10]) st H) as [H1 H2]. destruct (IH _ H1) as [H3 H4].
  split; [exact H3|]. rewrite H4. exact H2.
Qed.

Lemma fold_user_imports_quiet sm (l : list token) : forall st, quiet st ->
  quiet (fold_left (fun s (i : token) => tw_wr [10] (tw_write_indent_add sm (t_lit i) i s)) l st) /\
  snd (fold_left (fun s (i : token) => tw_wr [10] (tw_write_indent_add sm (t_lit i) i s)) l st) = snd st.
Proof.
  induction l as [|x l IH]; intros st H; [cbn; auto|]. cbn [fold_left].
  destruct (tw_write_indent_add_quiet sm (t_lit x) x st H) as [H1 H2].
  destruct (tw_wr_quiet [10] _ H1) as [H3 H4]. destruct (IH _ H3) as [H5 H6].
  split; [exact H5|]. rewrite H6, H4. exact H2.
Qed.

(** the state after the file header: package clause and imports *)
Definition header_state (sm : bool) (pkg : token) (user : list token) : est :=
  fst (emit_node sm (Node (KRoot pkg user) []) None false init_st).

Lemma root_unfold sm pkg user items :
  emit_tree sm (Node (KRoot pkg user) items) = fst (emit_list sm items false (header_state sm pkg user)).
Proof. unfold emit_tree, header_state. rewrite !emit_node_unfold. reflexivity. Qed.

Lemma header_quiet sm pkg user : quiet (header_state sm pkg user) /\ snd (header_state sm pkg user) = wl_init.
Proof.
  unfold header_state. rewrite emit_node_unfold. unfold emit_node_body. cbn [emit_list fst]. cbv zeta.
  assert (Q0 : quiet init_st) by (split; reflexivity).
  assert (E0 : snd init_st = wl_init) by reflexivity.
  generalize dependent init_st. intros st0 Q0 E0.
  destruct (tw_wr_quiet c_header st0 Q0) as [Q1 L1]. rewrite E0 in L1.
  generalize dependent (tw_wr c_header st0). intros st1 Q1 E1.
  destruct (tw_wr_quiet (lit "package ") st1 Q1) as [Q2 L2]. rewrite E1 in L2.
  generalize dependent (tw_wr (lit "package ") st1). intros st2 Q2 E2.
  assert (H4 : forall st4, st4 = (if Z.ltb 0 (t_line pkg) then tw_write_add sm (t_lit pkg) pkg st2 else tw_wr (t_lit pkg) st2) ->
                quiet st4 /\ snd st4 = wl_init).
  { intros st4 ->. destruct (Z.ltb 0 (t_line pkg)).
    - destruct (tw_write_add_quiet sm (t_lit pkg) pkg _ Q2) as [A B]. split; [exact A|rewrite B; exact E2].
    - destruct (tw_wr_quiet (t_lit pkg) _ Q2) as [A B]. split; [exact A|rewrite B; exact E2]. }
  destruct (H4 _ eq_refl) as [Q4 E4]. clear H4.
  generalize dependent (if Z.ltb 0 (t_line pkg) then tw_write_add sm (t_lit pkg) pkg st2 else tw_wr (t_lit pkg) st2). intros st4 Q4 E4.
  destruct (tw_wr_quiet [10; 10] st4 Q4) as [Q5 L5]. rewrite E4 in L5.
  generalize dependent (tw_wr [10; 10] st4). intros st5 Q5 E5.
  destruct (fold_imports_quiet c_rootImports st5 Q5) as [Q6 L6]. rewrite E5 in L6.
  generalize dependent (fold_left (fun s i => tw_wr (lit "import " ++ i ++ [10]) s) c_rootImports st5). intros st6 Q6 E6.
  destruct user as [|u user]; [split; assumption|].
  destruct (tw_wr_quiet (lit "import (" ++ [10]) st6 Q6) as [Q7 L7]. rewrite E6 in L7.
  generalize dependent (tw_wr (lit "import (" ++ [10]) st6). intros s1 Q7 E7.
  assert (Q8 : quiet (set_local s1 (indent_local (snd s1) 1))).
  { destruct Q7 as [A B]. split; [exact A|]. cbn [set_local snd indent_local wl_static]. exact B. }
  destruct (fold_user_imports_quiet sm (u :: user) _ Q8) as [Q9 L9].
  generalize dependent (fold_left (fun s (i : token) => tw_wr [10] (tw_write_indent_add sm (t_lit i) i s)) (u :: user) (set_local s1 (indent_local (snd s1) 1))).
  intros s2 Q9 L9.
  assert (Q10 : quiet (set_local s2 (snd s1))).
  { destruct Q9 as [A _]. destruct Q7 as [_ B]. split; [exact A|exact B]. }
  destruct (tw_wr_quiet (lit ")" ++ [10]) _ Q10) as [Q11 L11].
  split; [exact Q11|]. rewrite L11. cbn [set_local snd]. exact E7.
Qed.

Definition header_text (pkg : token) (user : list token) : bytes := txt (header_state false pkg user).

(** If every top-level item generates without error on its own, the generated file is the header followed by the
    items' own code, in order.  So the code of one template does not depend on its siblings. *)
Theorem file_is_concatenation pkg user items :
  Forall item items -> Forall (fun n => item_err n = None) items ->
  generate (Node (KRoot pkg user) items) = (header_text pkg user ++ List.concat (map item_text items), None).
Proof.
  intros Hit Herr. unfold generate. rewrite root_unfold.
  destruct (header_quiet false pkg user) as [Hq Hl].
  destruct (items_concat false items false _ Hit Herr Hq Hl) as (Ht & He & _).
  fold (txt (emit_list false items false (header_state false pkg user))) in *.
  unfold output_of. change (List.concat (rev (w_out (fst (emit_list false items false (header_state false pkg user))))))
    with (txt (emit_list false items false (header_state false pkg user))).
  rewrite Ht, He. reflexivity.
Qed.

Corollary sibling_independent pkg user pre post pkg' user' pre' post' t :
  Forall item (pre ++ t :: post) -> Forall (fun n => item_err n = None) (pre ++ t :: post) ->
  Forall item (pre' ++ t :: post') -> Forall (fun n => item_err n = None) (pre' ++ t :: post') ->
  fst (generate (Node (KRoot pkg user) (pre ++ t :: post))) =
    (header_text pkg user ++ List.concat (map item_text pre)) ++ item_text t ++ List.concat (map item_text post) /\
  fst (generate (Node (KRoot pkg' user') (pre' ++ t :: post'))) =
    (header_text pkg' user' ++ List.concat (map item_text pre')) ++ item_text t ++ List.concat (map item_text post').
Proof.
  intros H1 H2 H3 H4. rewrite (file_is_concatenation _ _ _ H1 H2), (file_is_concatenation _ _ _ H3 H4). cbn [fst].
  rewrite !map_app, !concat_app. cbn [map List.concat]. rewrite <- !app_assoc. split; reflexivity.
Qed.
