(** The lexer never spins (C06): every state call either sends a token, or consumes input, or moves to a state of
    lower rank; so a bounded number of state calls (linear in the input) separates two tokens.
    [A] is the number of bytes the reader still holds, [pn] what UnreadRune could give back. *)
From GV Require Import Compiler.Lexer Proofs.LexProofs.
From Coq Require Import Lia.
Open Scope N_scope.

Definition A (l : lexst) : nat := List.length (l_after l).
Definition pn (l : lexst) : nat := match l_prev l with Some n => n | None => 0%nat end.
(** the first rune the reader holds *)
Definition hd_rune (l : lexst) : rune := option_map fst (decode_rune (l_after l)).

Lemma decode_width s r n : decode_rune s = Some (r, n) -> (1 <= n <= List.length s)%nat.
Proof.
  unfold decode_rune. intro H.
  repeat match type of H with
  | match ?x with _ => _ end = _ => destruct x
  | (if ?c then _ else _) = _ => destruct c
  | (let _ := _ in _) = _ => cbv zeta in H
  end; try discriminate; injection H as _ <-; cbn [List.length]; lia.
Qed.

Lemma decode_nonempty s : s <> [] -> decode_rune s <> None.
Proof.
  destruct s as [|b t]; [congruence|]. intros _. unfold decode_rune.
  repeat match goal with |- context [match ?x with _ => _ end] => destruct x | |- context [if ?c then _ else _] => destruct c end; discriminate.
Qed.

Lemma take_onto_eq n : forall a b, take_onto n a b = (skipn n a, List.rev (firstn n a) ++ b).
Proof.
  induction n as [|k IH]; intros a b; [reflexivity|]. destruct a as [|x a]; [reflexivity|].
  cbn [take_onto skipn firstn List.rev]. rewrite IH. rewrite <- app_assoc. reflexivity.
Qed.

Lemma take_onto_back n a b : (n <= List.length a)%nat ->
  take_onto n (List.rev (firstn n a) ++ b) (skipn n a) = (b, a).
Proof.
  intro H. rewrite take_onto_eq.
  assert (Hl : List.length (List.rev (firstn n a)) = n) by (rewrite rev_length, firstn_length; lia).
  rewrite skipn_app, firstn_app, Hl, Nat.sub_diag. cbn [skipn firstn]. rewrite app_nil_r.
  rewrite <- Hl at 1. rewrite skipn_all. rewrite <- Hl at 1. rewrite firstn_all. rewrite rev_involutive, firstn_skipn. reflexivity.
Qed.

(** * next *)
Lemma next_fst l : fst (next l) = hd_rune l.
Proof. unfold next, hd_rune. destruct (decode_rune (l_after l)) as [[r n]|]; [|reflexivity]. destruct (take_onto n (l_after l) (l_before l)). reflexivity. Qed.

Lemma next_R l :
  (A (snd (next l)) + pn (snd (next l)) <= A l)%nat /\ (0 < A l -> A (snd (next l)) < A l)%nat /\ (A l = 0%nat -> fst (next l) = None).
Proof.
  unfold next, A, pn. destruct (decode_rune (l_after l)) as [[r n]|] eqn:Hd.
  - pose proof (decode_width _ _ _ Hd) as Hw. rewrite take_onto_eq.
    destruct (l_pos (with_reader l _ _ (Some n))); cbn [snd fst l_after l_prev with_s with_width with_pos set_panic with_reader];
      rewrite skipn_length; repeat split; try lia; intro K; lia.
  - assert (He : l_after l = []) by (destruct (l_after l) as [|b t] eqn:E; [reflexivity|]; exfalso; apply (decode_nonempty (b :: t)); [discriminate|exact Hd]).
    cbn [snd fst l_after l_prev with_s with_width with_pos set_panic with_reader]. rewrite He. cbn [List.length]. repeat split; lia.
Qed.

(** * backup *)
Lemma backup_R l : (A (backup l) + pn (backup l) <= A l + pn l)%nat.
Proof.
  unfold backup. destruct (l_width l) as [|w]; [lia|].
  set (l1 := match l_pos l with [] => set_panic l | c :: rest => _ end).
  assert (H1 : l_after l1 = l_after l /\ l_before l1 = l_before l /\ l_prev l1 = l_prev l).
  { subst l1. destruct (l_pos l) as [|c rest]; [repeat split|]. destruct (if Z.eqb c 0 then rest else c :: rest); repeat split. }
  destruct H1 as (Ha & Hb & Hp). unfold A, pn. rewrite <- Ha, <- Hp.
  destruct (l_prev l1) as [n|] eqn:Ep.
  - rewrite take_onto_eq. match goal with |- context [if ?c then _ else _] => destruct c end;
      cbn [l_after l_prev with_s set_panic with_reader]; rewrite app_length, rev_length, firstn_length. all: lia.
  - match goal with |- context [if ?c then _ else _] => destruct c end; cbn [l_after l_prev with_s set_panic]; rewrite Ep; lia.
Qed.

(** * peek leaves the reader where it was *)
Lemma encode_nonempty r : encode_rune r <> [].
Proof. unfold encode_rune. repeat match goal with |- context [if ?c then _ else _] => destruct c end; discriminate. Qed.

Lemma peek_reader l : l_after (snd (peek l)) = l_after l /\ l_prev (snd (peek l)) = None /\ fst (peek l) = hd_rune l.
Proof.
  unfold peek. pose proof (next_fst l) as Hf. unfold next in *. unfold hd_rune in *.
  destruct (decode_rune (l_after l)) as [[r n]|] eqn:Hd.
  - pose proof (decode_width _ _ _ Hd) as Hw. rewrite take_onto_eq in *. cbn [fst snd] in *. split; [|split; [|exact Hf]].
    + unfold backup. cbn [l_width with_s with_width].
      destruct (List.length (encode_rune r)) as [|w] eqn:El; [apply length_zero_iff_nil in El; destruct (encode_nonempty r El)|].
      match goal with |- l_after (if ?c then _ else _) = _ => destruct c end; cbn [l_after set_panic with_s];
        repeat match goal with |- context [match ?x with [] => _ | _ :: _ => _ end] => destruct x end;
        cbn [l_prev l_before l_after with_pos with_s with_width with_reader set_panic];
        rewrite take_onto_back by lia; reflexivity.
    + unfold backup. cbn [l_width with_s with_width].
      destruct (List.length (encode_rune r)) as [|w] eqn:El; [apply length_zero_iff_nil in El; destruct (encode_nonempty r El)|].
      match goal with |- l_prev (if ?c then _ else _) = _ => destruct c end; cbn [l_prev set_panic with_s];
        repeat match goal with |- context [match ?x with [] => _ | _ :: _ => _ end] => destruct x end;
        cbn [l_prev l_before l_after with_pos with_s with_width with_reader set_panic];
        rewrite take_onto_back by lia; reflexivity.
  - cbn [fst snd] in *. unfold backup. cbn. repeat split. 
Qed.

(** * what each helper does to the reader *)
Definition RD (l l' : lexst) : Prop := (A l' + pn l' <= A l)%nat.          (* read from [l] *)
Definition RW (l l' : lexst) : Prop := (A l' + pn l' <= A l + pn l)%nat.   (* may only have given back *)
Definition RK (l l' : lexst) : Prop := A l' = A l /\ pn l' = pn l.         (* reader untouched *)

Lemma RD_RW l l' : RD l l' -> RW l l'. Proof. unfold RD, RW. lia. Qed.
Lemma RD_trans l l1 l2 : RD l l1 -> RW l1 l2 -> RD l l2. Proof. unfold RD, RW. lia. Qed.
Lemma RD_trans' l l1 l2 : RD l l1 -> RD l1 l2 -> RD l l2. Proof. unfold RD. lia. Qed.

Lemma next_RD l : RD l (snd (next l)). Proof. apply next_R. Qed.
Lemma next_strict l : (0 < A l -> A (snd (next l)) < A l)%nat. Proof. apply next_R. Qed.
Lemma next_eof l : A l = 0%nat -> fst (next l) = None. Proof. apply next_R. Qed.

Lemma backup_RW l : RW l (backup l). Proof. apply backup_R. Qed.

Lemma peek_A l : A (snd (peek l)) = A l /\ pn (snd (peek l)) = 0%nat.
Proof. destruct (peek_reader l) as (Ha & Hp & _). unfold A, pn. rewrite Ha, Hp. split; reflexivity. Qed.
Lemma peek_eof l : A l = 0%nat -> fst (peek l) = None.
Proof. intro H. destruct (peek_reader l) as (_ & _ & Hf). rewrite Hf. unfold hd_rune. unfold A in H. apply length_zero_iff_nil in H. rewrite H. reflexivity. Qed.
Lemma peek_RD l : RD l (snd (peek l)). Proof. unfold RD. destruct (peek_A l) as [-> ->]. lia. Qed.

Lemma peek_ahead_A n l : A (snd (peek_ahead n l)) = A l /\ pn (snd (peek_ahead n l)) = 0%nat.
Proof. split; reflexivity. Qed.

Lemma drop_width_RK l : RK l (drop_width l).
Proof. unfold drop_width. destruct (Nat.ltb _ _); split; reflexivity. Qed.
Lemma ignore_RK l : RK l (ignore l). Proof. split; reflexivity. Qed.
Lemma with_indent_RK l i : RK l (with_indent l i). Proof. split; reflexivity. Qed.
Lemma emit_RK t l : RK l (emit t l).
Proof. unfold emit. destruct (position l) as [[line col] bad]. destruct bad; split; reflexivity. Qed.
Lemma errorf_RK m l : RK l (snd (errorf m l)).
Proof. unfold errorf. destruct (position l) as [[line col] bad]. destruct bad; split; reflexivity. Qed.

Lemma skip_RD l : RD l (snd (skip l)).
Proof. unfold skip. pose proof (next_RD l) as H. destruct (next l) as [r l1]. cbn [snd] in *. destruct (drop_width_RK l1) as [Ha Hp]. unfold RD in *. rewrite Ha, Hp. exact H. Qed.
Lemma skip_strict l : (0 < A l -> A (snd (skip l)) < A l)%nat.
Proof. unfold skip. pose proof (next_strict l) as H. destruct (next l) as [r l1]. cbn [snd] in *. destruct (drop_width_RK l1) as [Ha Hp]. rewrite Ha. exact H. Qed.
Lemma skip_eof l : A l = 0%nat -> fst (skip l) = None.
Proof. unfold skip. pose proof (next_eof l) as H. destruct (next l) as [r l1]. exact H. Qed.

Ltac rd_loop IH :=
  match goal with
  | l : lexst |- _ =>
    pose proof (next_RD l) as Hn; destruct (next l) as [r l1]; cbn [snd] in *;
    pose proof (backup_RW l1) as Hb; pose proof (drop_width_RK l1) as [Hd1 Hd2]
  end.

Lemma accept_run_aux_RD fuel valid : forall l, RD l (accept_run_aux fuel valid l).
Proof.
  induction fuel as [|x f IH]; intro l; cbn [accept_run_aux]; pose proof (next_RD l) as Hn; destruct (next l) as [r l1]; cbn [snd] in *;
    pose proof (backup_RW l1) as Hb; try pose proof (IH l1) as Hi; destruct (in_set valid r); unfold RD, RW in *; lia.
Qed.
Lemma accept_run_RD valid l : RD l (accept_run valid l). Proof. apply accept_run_aux_RD. Qed.

Lemma accept_until_aux_RD fuel inv : forall l, RD l (accept_until_aux fuel inv l).
Proof.
  induction fuel as [|x f IH]; intro l; cbn [accept_until_aux]; pose proof (next_RD l) as Hn; destruct (next l) as [r l1]; cbn [snd] in *;
    pose proof (backup_RW l1) as Hb; try pose proof (IH l1) as Hi; destruct r as [c|]; try destruct (in_set inv (Some c)); unfold RD, RW in *; lia.
Qed.
Lemma accept_until_RD inv l : RD l (accept_until inv l). Proof. apply accept_until_aux_RD. Qed.

Lemma skip_run_aux_RD fuel set : forall l, RD l (skip_run_aux fuel set l).
Proof.
  induction fuel as [|x f IH]; intro l; cbn [skip_run_aux]; pose proof (next_RD l) as Hn; destruct (next l) as [r l1]; cbn [snd] in *;
    pose proof (backup_RW l1) as Hb; destruct (drop_width_RK l1) as [Hd1 Hd2]; try pose proof (IH (drop_width l1)) as Hi;
    destruct (in_set set r); unfold RD, RW in *; lia.
Qed.
Lemma skip_run_RD set l : RD l (skip_run set l). Proof. apply skip_run_aux_RD. Qed.

Lemma skip_until_aux_RD fuel stop : forall l, RD l (skip_until_aux fuel stop l).
Proof.
  induction fuel as [|x f IH]; intro l; cbn [skip_until_aux]; pose proof (next_RD l) as Hn; destruct (next l) as [r l1]; cbn [snd] in *;
    pose proof (backup_RW l1) as Hb; destruct (drop_width_RK l1) as [Hd1 Hd2]; try pose proof (IH (drop_width l1)) as Hi;
    destruct r as [c|]; try destruct (in_set stop (Some c)); unfold RD, RW in *; lia.
Qed.
Lemma skip_until_RD stop l : RD l (skip_until stop l). Proof. apply skip_until_aux_RD. Qed.

Lemma next_n_RW n : forall l, RW l (next_n n l).
Proof.
  induction n as [|k IH]; intro l; cbn [next_n]; [unfold RW; lia|]. pose proof (next_RD l) as Hn. pose proof (IH (snd (next l))) as Hi. unfold RD, RW in *. lia.
Qed.
Lemma skip_ahead_RW n l : RW l (skip_ahead n l).
Proof. unfold skip_ahead. pose proof (next_n_RW n l) as H. destruct (ignore_RK (next_n n l)) as [Ha Hp]. unfold RW in *. rewrite Ha, Hp. exact H. Qed.

Lemma to_quote_aux_RD fuel q : forall esc l, RD l (snd (to_quote_aux fuel q esc l)).
Proof.
  induction fuel as [|x f IH]; intros esc l; cbn [to_quote_aux]; pose proof (next_RD l) as Hn; destruct (next l) as [r l1]; cbn [snd] in *;
    destruct r as [c|]; cbn [snd]; try exact Hn; destruct (N.eqb c q && negb esc); cbn [snd]; try exact Hn.
  apply (RD_trans' l l1); [exact Hn|apply IH].
Qed.

Lemma to_brace_aux_RD fuel e : forall esc inq qs l, RD l (snd (to_brace_aux fuel e esc inq qs l)).
Proof.
  induction fuel as [|x f IH]; intros esc inq qs l; cbn [to_brace_aux]; pose proof (next_RD l) as Hn; destruct (next l) as [r l1]; cbn [snd] in *;
    destruct r as [c|]; cbn [snd]; try exact Hn;
    repeat match goal with |- context [if ?b then _ else _] => destruct b end; cbn [snd]; try exact Hn;
    (apply (RD_trans' l l1); [exact Hn|apply IH]).
Qed.
Lemma brace_RD e l : RD l (snd (continue_to_matching_brace e l)). Proof. apply to_brace_aux_RD. Qed.

Lemma quote_RD typ cap l : RD l (snd (continue_to_matching_quote typ cap l)).
Proof.
  unfold continue_to_matching_quote. pose proof (peek_RD l) as Hp. destruct (peek l) as [q l0]. cbn [snd] in Hp.
  destruct q as [qc|]; cbn [snd]; [|exact Hp]. destruct (N.eqb qc 96 || N.eqb qc 34); cbn [snd]; [|exact Hp].
  set (l1 := if cap then snd (next l0) else snd (skip l0)).
  assert (H1 : RD l0 l1) by (subst l1; destruct cap; [apply next_RD|apply skip_RD]).
  pose proof (to_quote_aux_RD (l_after l1) qc false l1) as H2. destruct (to_quote_aux (l_after l1) qc false l1) as [r l2]. cbn [snd] in *.
  assert (H3 : RD l l2) by (unfold RD in *; lia).
  destruct r; cbn [snd]; [|exact H3]. destruct cap; cbn [snd].
  - destruct (emit_RK typ l2) as [Ha Hq]. unfold RD in *. rewrite Ha, Hq. exact H3.
  - pose proof (backup_RW l2) as Hb. destruct (emit_RK typ (backup l2)) as [Ha Hq]. pose proof (skip_RD (emit typ (backup l2))) as Hs.
    unfold RD, RW in *. lia.
Qed.

Lemma haml_identifier_RD typ l : RD l (snd (haml_identifier typ l)).
Proof.
  unfold haml_identifier. pose proof (skip_RD l) as H1. pose proof (accept_until_RD c_mayFollowIdentifier (snd (skip l))) as H2.
  set (l2 := accept_until c_mayFollowIdentifier (snd (skip l))) in *.
  destruct (current l2).
  - destruct (errorf_RK (toktype_name typ ++ lit " identifier expected") l2) as [Ha Hp]. unfold RD in *. rewrite Ha, Hp. lia.
  - cbn [snd]. destruct (emit_RK typ l2) as [Ha Hp]. unfold RD in *. rewrite Ha, Hp. lia.
Qed.

Lemma goht_start_loop_RD fuel : forall l, RD l (snd (goht_start_loop fuel l)).
Proof.
  induction fuel as [|x f IH]; intro l; cbn [goht_start_loop];
    pose proof (accept_until_RD (lit ")") l) as H1;
    (destruct (Nat.eqb _ _); [cbn [snd]; exact H1|]);
    pose proof (next_RD (accept_until (lit ")") l)) as H2; destruct (next (accept_until (lit ")") l)) as [r l2]; cbn [snd] in *;
    assert (H3 : RD l l2) by (unfold RD in *; lia);
    destruct r; cbn [snd]; try exact H3. apply (RD_trans' l l2); [exact H3|apply IH].
Qed.

(** * loops and the first rune *)
Lemma hd_after l l' : l_after l' = l_after l -> hd_rune l' = hd_rune l /\ A l' = A l.
Proof. intro H. unfold hd_rune, A. rewrite H. split; reflexivity. Qed.

Lemma skip_until_strict stop l c : hd_rune l = Some c -> mem_byte c stop = false -> (A (skip_until stop l) < A l)%nat.
Proof.
  intros Hh Hm. unfold skip_until. pose proof (next_fst l) as Hf. rewrite Hh in Hf.
  assert (Hpos : (0 < A l)%nat) by (unfold hd_rune, A in *; destruct (l_after l); [discriminate|cbn; lia]).
  pose proof (next_strict l Hpos) as Hs.
  destruct (l_after l) as [|b f]; cbn [skip_until_aux]; destruct (next l) as [r l1]; cbn [fst snd] in *; subst r; cbn [in_set]; rewrite Hm; cbv iota;
    destruct (drop_width_RK l1) as [Ha _].
  - rewrite Ha. exact Hs.
  - pose proof (skip_until_aux_RD f stop (drop_width l1)) as Hr. unfold RD in Hr. rewrite Ha in Hr.
    apply Nat.le_lt_trans with (m := A l1); [|exact Hs]. apply Nat.le_trans with (2 := Hr). apply Nat.le_add_r.
Qed.

Lemma accept_until_strict inv l c : hd_rune l = Some c -> mem_byte c inv = false -> (A (accept_until inv l) < A l)%nat.
Proof.
  intros Hh Hm. unfold accept_until. pose proof (next_fst l) as Hf. rewrite Hh in Hf.
  assert (Hpos : (0 < A l)%nat) by (unfold hd_rune, A in *; destruct (l_after l); [discriminate|cbn; lia]).
  pose proof (next_strict l Hpos) as Hs.
  destruct (l_after l) as [|b f]; cbn [accept_until_aux]; destruct (next l) as [r l1]; cbn [fst snd] in *; subst r; cbn [in_set]; rewrite Hm; cbv iota; [lia|].
  pose proof (accept_until_aux_RD f inv l1) as Hr. unfold RD in Hr. lia.
Qed.

Lemma accept_until_stop inv l c : hd_rune l = Some c -> mem_byte c inv = true -> accept_until inv l = snd (peek l).
Proof.
  intros Hh Hm. unfold accept_until, peek. pose proof (next_fst l) as Hf. rewrite Hh in Hf.
  destruct (l_after l) as [|b f]; cbn [accept_until_aux]; destruct (next l) as [r l1]; cbn [fst snd] in *; subst r; cbn [in_set]; rewrite Hm; cbv iota; reflexivity.
Qed.

Lemma accept_run_strict valid l c : hd_rune l = Some c -> mem_byte c valid = true -> (A (accept_run valid l) < A l)%nat.
Proof.
  intros Hh Hm. unfold accept_run. pose proof (next_fst l) as Hf. rewrite Hh in Hf.
  assert (Hpos : (0 < A l)%nat) by (unfold hd_rune, A in *; destruct (l_after l); [discriminate|cbn; lia]).
  pose proof (next_strict l Hpos) as Hs.
  destruct (l_after l) as [|b f]; cbn [accept_run_aux]; destruct (next l) as [r l1]; cbn [fst snd] in *; subst r; cbn [in_set]; rewrite Hm; cbv iota; [lia|].
  pose proof (accept_run_aux_RD f valid l1) as Hr. unfold RD in Hr. lia.
Qed.

(** * tokens: the two helpers that always / on success send one *)
Lemma ol_haml_identifier_eq typ l : ol (snd (haml_identifier typ l)) = S (ol l).
Proof.
  unfold haml_identifier.
  assert (H : ol (accept_until c_mayFollowIdentifier (snd (skip l))) = ol l) by (unfold ol; rewrite out_accept_until, out_skip; reflexivity).
  destruct (current _); [rewrite ol_errorf|cbn [snd]; rewrite ol_emit]; lia.
Qed.

Lemma quote_emits typ cap l c :
  fst (continue_to_matching_quote typ cap l) = Some c -> N.eqb c 96 || N.eqb c 34 = true ->
  ol (snd (continue_to_matching_quote typ cap l)) = S (ol l).
Proof.
  unfold continue_to_matching_quote. pose proof (out_peek l) as Hp. destruct (peek l) as [q l0]. cbn [snd] in Hp.
  destruct q as [qc|]; cbn [fst snd]; [|discriminate].
  destruct (N.eqb qc 96 || N.eqb qc 34) eqn:Eq; cbn [fst snd]; [|intros K; injection K as ->; congruence].
  set (l1 := if cap then snd (next l0) else snd (skip l0)).
  assert (H1 : l_out l1 = l_out l) by (subst l1; destruct cap; rewrite ?out_next, ?out_skip; exact Hp).
  pose proof (out_to_quote_aux (l_after l1) qc false l1) as H2. destruct (to_quote_aux (l_after l1) qc false l1) as [r l2]. cbn [snd] in *.
  destruct r; cbn [fst snd]; [|discriminate]. intros _ _.
  destruct cap; cbn [snd].
  - rewrite ol_emit. unfold ol. rewrite H2, H1. reflexivity.
  - unfold ol. rewrite out_skip. fold (ol (emit typ (backup l2))). rewrite ol_emit. unfold ol. rewrite out_backup, H2, H1. reflexivity.
Qed.

Lemma ol_quote_ge typ cap l : (ol l <= ol (snd (continue_to_matching_quote typ cap l)))%nat.
Proof.
  unfold continue_to_matching_quote. pose proof (out_peek l) as Hp. destruct (peek l) as [q l0]. cbn [snd] in Hp.
  destruct q as [qc|]; cbn [snd]; [|unfold ol; rewrite Hp; lia].
  destruct (N.eqb qc 96 || N.eqb qc 34); cbn [snd]; [|unfold ol; rewrite Hp; lia].
  set (l1 := if cap then snd (next l0) else snd (skip l0)).
  assert (H1 : l_out l1 = l_out l) by (subst l1; destruct cap; rewrite ?out_next, ?out_skip; exact Hp).
  pose proof (out_to_quote_aux (l_after l1) qc false l1) as H2. destruct (to_quote_aux (l_after l1) qc false l1) as [r l2]. cbn [snd] in *.
  destruct r; cbn [snd]; [|unfold ol; rewrite H2, H1; lia].
  destruct cap; cbn [snd].
  - rewrite ol_emit. unfold ol. rewrite H2, H1. lia.
  - unfold ol. rewrite out_skip. fold (ol (emit typ (backup l2))). rewrite ol_emit. unfold ol. rewrite out_backup, H2, H1. lia.
Qed.

(** * ranks: [rk1] while input remains, [rk0] at the end of input *)
Definition rk1 (st : lstate) : nat :=
  match st with
  | SNil => 0 | SStopped => 1
  | SGohtNewLine => 1 | SGohtLineEnd => 2
  | SGoLineEnd => 1 | SGoCode => 2 | SPackage => 3 | SGohtStart => 1 | STemplate => 3 | SImportStart => 3 | SGoLineStart => 4 | SImports => 5
  | SGohtIndent => 1 | SGohtLineStart => 3
  | SDynamicText => 1 | STextContent => 3 | STextStart => 4
  | STag | SId | SClass | SObjectReference | SDoctype | SUnescaped | SSilentScript | SComment | SVoidTag
  | SWhitespaceRemoval | SFilterStart => 1
  | SCommandCode => 1 | SOutputCode => 2
  | SAttributesStart => 1
  | SGohtContentEnd | SGohtContent | SGohtContentStart => 5
  | SAttributesEnd => 6 | SAttributeCommand => 1 | SAttributeCommandStart => 2 | SAttributeName => 1 | SAttribute => 7 | SAttributeEnd => 8
  | SAttributeStaticValue | SAttributeDynamicValue | SAttributeOperator => 1 | SAttributeValue => 2
  | SIgnoreIndented _ => 4
  | SFilterDynamicText _ _ => 1 | SFilterContent _ _ => 2 | SFilterIndent _ _ => 3 | SFilterLineStart _ _ => 4
  end.

Definition rk0 (st : lstate) : nat :=
  match st with
  | SDynamicText => 4
  | SAttributesStart => 8
  | SFilterLineStart _ _ => 1 | SFilterContent _ _ => 2 | SFilterIndent _ _ => 3 | SFilterDynamicText _ _ => 3
  | _ => rk1 st
  end.

Definition progress (st : lstate) (l : lexst) : Prop :=
  (A (snd (step st l)) <= A l)%nat /\
  ((ol l < ol (snd (step st l)))%nat \/ (A (snd (step st l)) < A l)%nat \/
   (if Nat.eqb (A l) 0 then rk0 (fst (step st l)) < rk0 st else rk1 (fst (step st l)) < rk1 st)%nat).

Ltac facts t :=
  lazymatch t with
  | snd (next ?x) => facts x; pose proof (next_RD x); pose proof (next_strict x)
  | snd (skip ?x) => facts x; pose proof (skip_RD x); pose proof (skip_strict x)
  | backup ?x => facts x; pose proof (backup_RW x)
  | ignore ?x => facts x; pose proof (ignore_RK x)
  | with_indent ?x ?i => facts x; pose proof (with_indent_RK x i)
  | emit ?t ?x => facts x; pose proof (emit_RK t x)
  | accept_run ?v ?x => facts x; pose proof (accept_run_RD v x)
  | accept_until ?v ?x => facts x; pose proof (accept_until_RD v x)
  | skip_run ?v ?x => facts x; pose proof (skip_run_RD v x)
  | skip_until ?v ?x => facts x; pose proof (skip_until_RD v x)
  | skip_ahead ?n ?x => facts x; pose proof (skip_ahead_RW n x)
  | _ => idtac
  end.

Ltac split_eof :=
  repeat match goal with
  | H : A ?x = 0%nat -> ?r = None |- _ =>
      destruct (Nat.eq_dec (A x) 0) as [?e|?ne];
      [ let K := fresh "K" in pose proof (H e) as K; clear H; first [subst r | discriminate K | idtac] | clear H ]
  end.

Ltac prog_case :=
  repeat first
  [ match goal with
    | |- context [has_prefix ?a ?b] => destruct (has_prefix a b) eqn:?
    | |- context [match current ?x with _ => _ end] => destruct (current x) eqn:?
    end
  | match goal with
    | |- context [match peek ?x with _ => _ end] =>
        facts x; pose proof (ol_peek x); pose proof (peek_A x); pose proof (peek_eof x); pose proof (peek_reader x); destruct (peek x) as [? ?]; cbn [fst snd] in *
    | |- context [match next ?x with _ => _ end] =>
        facts x; pose proof (ol_next x); pose proof (next_RD x); pose proof (next_strict x); pose proof (next_eof x); destruct (next x) as [? ?]; cbn [fst snd] in *
    | |- context [match skip ?x with _ => _ end] =>
        facts x; pose proof (ol_skip x); pose proof (skip_RD x); pose proof (skip_strict x); pose proof (skip_eof x); destruct (skip x) as [? ?]; cbn [fst snd] in *
    | |- context [match peek_ahead ?n ?x with _ => _ end] =>
        facts x; pose proof (ol_peek_ahead n x); pose proof (peek_ahead_A n x); pose proof (eq_refl : l_after (snd (peek_ahead n x)) = l_after x); destruct (peek_ahead n x) as [? ?]; cbn [fst snd] in *
    | |- context [match continue_to_matching_brace ?e ?x with _ => _ end] =>
        facts x; pose proof (ol_brace e x); pose proof (brace_RD e x); destruct (continue_to_matching_brace e x) as [? ?]; cbn [fst snd] in *
    | |- context [match goht_start_loop ?f ?x with _ => _ end] =>
        facts x; pose proof (ol_goht_loop f x); pose proof (goht_start_loop_RD f x); destruct (goht_start_loop f x) as [? ?]; cbn [fst snd] in *
    | |- context [match continue_to_matching_quote ?t ?c ?x with _ => _ end] =>
        facts x; pose proof (ol_continue_to_matching_quote t c x); pose proof (ol_quote_ge t c x); pose proof (quote_RD t c x); pose proof (quote_emits t c x);
        destruct (continue_to_matching_quote t c x) as [? ?]; cbn [fst snd] in *
    | |- context [haml_identifier ?t ?x] =>
        facts x; pose proof (ol_haml_identifier_eq t x); pose proof (haml_identifier_RD t x); destruct (haml_identifier t x) as [? ?]; cbn [fst snd] in *
    | |- context [errorf ?m ?x] =>
        facts x; pose proof (ol_errorf m x); pose proof (errorf_RK m x); destruct (errorf m x) as [? ?]; cbn [fst snd] in *
    end
  | match goal with
    | |- context [if ?c then _ else _] => destruct c eqn:?
    | |- context [match ?x with _ => _ end] => destruct x eqn:?
    end ].

Ltac use_quote :=
  repeat match goal with
  | H : forall c : N, Some ?n = Some c -> _ -> _ |- _ =>
      first [ let K := fresh "K" in
              assert (K : N.eqb n 96 || N.eqb n 34 = true)
                by (match goal with Hq : negb (N.eqb n 34) && negb (N.eqb n 96) = false |- _ => revert Hq end;
                    destruct (N.eqb n 34), (N.eqb n 96); cbn; congruence);
              specialize (H n eq_refl K)
            | clear H ]
  | H : forall c : N, None = Some c -> _ -> _ |- _ => clear H
  end.

Ltac prog_solve :=
  cbn [fst snd];
  match goal with |- (A ?t <= _)%nat /\ _ => facts t end;
  unfold RD, RW, RK in *; autorewrite with olr in *;
  split; [lia | first [ left; lia | right; left; lia | right; right; cbn [rk0 rk1]; lia ] ].



(** * the two states whose progress depends on which rune comes first *)
Lemma hd_rune_some l : A l <> 0%nat -> exists c, hd_rune l = Some c.
Proof.
  intro H. unfold hd_rune, A in *. destruct (l_after l) as [|b0 t0]; [cbn in H; congruence|].
  destruct (decode_rune (b0 :: t0)) as [[c w]|] eqn:E; [exists c; reflexivity|]. exfalso. apply (decode_nonempty (b0 :: t0)); [discriminate|exact E].
Qed.
Lemma hd_rune_none l : A l = 0%nat -> hd_rune l = None.
Proof. intro H. unfold hd_rune, A in *. apply length_zero_iff_nil in H. rewrite H. reflexivity. Qed.

Lemma filter_content_progress n k l : progress (SFilterContent n k) l.
Proof.
  unfold progress, step. cbv zeta.
  set (stopset := lit "#" ++ [10; 13]).
  set (l1 := accept_until stopset l).
  pose proof (accept_until_RD stopset l) as H1. fold l1 in H1.
  destruct (peek_reader l1) as (Hp1 & _ & Hp3). pose proof (peek_A l1) as [Hp4 Hp5]. pose proof (ol_peek l1) as Ho.
  assert (Ho1 : ol l1 = ol l) by apply ol_accept_until.
  destruct (peek l1) as [r l2]. cbn [fst snd] in *. unfold RD in H1.
  destruct (rune_is r 35) eqn:Er; cbn [fst snd].
  - split; [lia|]. destruct (Nat.eqb_spec (A l) 0) as [Hz|Hnz].
    + exfalso. assert (Hz1 : A l1 = 0%nat) by lia. rewrite (hd_rune_none l1 Hz1) in Hp3. subst r. discriminate.
    + right; right. cbn. lia.
  - set (l3 := accept_run [10; 13] l2). pose proof (accept_run_RD [10; 13] l2) as H3. fold l3 in H3. unfold RD in H3.
    assert (Ho3 : ol l3 = ol l) by (unfold l3; rewrite ol_accept_run; lia).
    assert (Hstrict : A l <> 0%nat -> (A l3 < A l)%nat).
    { intro Hnz. destruct (hd_rune_some l Hnz) as [c Hh]. destruct (mem_byte c stopset) eqn:Hm.
      - pose proof (accept_until_stop stopset l c Hh Hm) as Hstop. fold l1 in Hstop.
        destruct (peek_reader l) as (Hq1 & _ & Hq3).
        assert (Ha2 : l_after l2 = l_after l) by (rewrite Hp1, Hstop; exact Hq1).
        assert (Hh2 : hd_rune l2 = Some c) by (unfold hd_rune in *; rewrite Ha2; exact Hh).
        assert (Hr : r = Some c) by (rewrite Hp3, Hstop; unfold hd_rune; rewrite Hq1; exact Hh).
        rewrite Hr in Er. cbn [rune_is] in Er.
        assert (Hv : mem_byte c [10; 13] = true).
        { revert Hm. unfold stopset. change (lit "#") with [35]. cbn [app mem_byte]. rewrite Er. cbn [orb]. exact (fun H => H). }
        pose proof (accept_run_strict [10; 13] l2 c Hh2 Hv) as Hs. fold l3 in Hs.
        assert (Ha1 : A l2 = A l) by (unfold A; rewrite Ha2; reflexivity). lia.
      - pose proof (accept_until_strict stopset l c Hh Hm) as Hs. fold l1 in Hs. lia. }
    destruct (current l3) eqn:Ec; cbn [fst snd].
    + split; [lia|]. destruct (Nat.eqb_spec (A l) 0) as [Hz|Hnz]; [right; right; cbn; lia|right; left; apply Hstrict; exact Hnz].
    + destruct (emit_RK k l3) as [Ha Hq]. rewrite Ha. split; [lia|]. left. rewrite ol_emit. lia.
Qed.

Lemma ignore_indented_progress n l : progress (SIgnoreIndented n) l.
Proof.
  unfold progress. destruct (Nat.eqb_spec (A l) 0) as [Hz|Hnz].
  all: unfold step; cbv zeta.
  all: prog_case.
  all: try solve [prog_solve].
  all: split_eof; cbn [rune_is in_set] in *; try discriminate.
  all: try solve [prog_solve].
  match goal with
    | Hp : l_after ?l0 = l_after l /\ _ /\ Some ?c = hd_rune l, Ha : l_after ?l1 = l_after ?l0,
      Hc : (?c =? 10) || (?c =? 13) = false |- _ =>
        destruct Hp as (Hp1 & _ & Hp3);
        assert (Hh : hd_rune l1 = Some c) by (unfold hd_rune in *; rewrite Ha, Hp1; symmetry; exact Hp3);
        assert (Hm : mem_byte c [10; 13] = false) by (cbn [mem_byte]; rewrite Bool.orb_false_r; exact Hc);
        pose proof (skip_until_strict [10; 13] l1 c Hh Hm) as Hs;
        assert (Ha1 : A l1 = A l) by (unfold A; rewrite Ha, Hp1; reflexivity)
  end.
  cbn [fst snd]. split; [lia|right; left; lia].
Qed.

(** * the states in four groups (proved in four files, so that they are checked in parallel) *)
Definition grp (st : lstate) : nat :=
  match st with
  | SAttributeName => 0
  | SGoLineStart | SGoLineEnd | SPackage | SImportStart | SImports | SGoCode | STemplate | SGohtStart
  | SGohtLineStart | SGohtIndent | SGohtContentStart | SGohtContent | SGohtContentEnd | SGohtLineEnd
  | SGohtNewLine | STag | SId | SClass | SObjectReference | SAttributesStart | SAttributesEnd => 1
  | SAttribute | SAttributeOperator | SAttributeValue | SAttributeStaticValue
  | SAttributeDynamicValue | SAttributeCommandStart | SAttributeCommand | SAttributeEnd
  | SWhitespaceRemoval | STextStart | STextContent | SDynamicText | SDoctype | SUnescaped => 2
  | _ => 3
  end.

Ltac prog_group :=
  match goal with l : lexst |- _ =>
    unfold progress; destruct (Nat.eqb_spec (A l) 0) as [Hz|Hnz];
    unfold step; cbv zeta;
    prog_case;
    try solve [prog_solve];
    split_eof; cbn [rune_is in_set] in *; try discriminate;
    try solve [prog_solve];
    use_quote;
    solve [prog_solve]
  end.
