(** `goht generate` on the abstract file system: what is written, what is left alone (property C18). *)
From GV Require Import Cli.Generate Proofs.ProxyProofs.
From Coq Require Import Sorting.Permutation.
Open Scope N_scope.

Section Proofs.
Variable compile : bytes -> option bytes.
Variable now : Z.

Definition target (a : action) : bytes := match a with Remove p => p | Write p _ => p end.

(** the last action of a list that touches path [p] *)
Fixpoint last_on (p : bytes) (acts : list action) (acc : option action) : option action :=
  match acts with
  | [] => acc
  | a :: rest => last_on p rest (if beqb (target a) p then Some a else acc)
  end.

Definition effect (a : option action) (old : option file) : option file :=
  match a with
  | None => old
  | Some (Remove _) => None
  | Some (Write _ c) => Some (mkFile c now)
  end.

Lemma apply_lookup p a fs :
  lookup p (apply_action now fs a) = if beqb (target a) p then effect (Some a) (lookup p fs) else lookup p fs.
Proof.
  destruct a as [q|q c]; cbn [apply_action target effect].
  - destruct (beqb q p) eqn:E.
    + apply beqb_eq in E. subst. apply lookup_remove_same.
    + apply lookup_remove_other. rewrite beqb_sym. exact E.
  - destruct (beqb q p) eqn:E.
    + apply beqb_eq in E. subst. apply lookup_update_same.
    + apply lookup_update_other. rewrite beqb_sym. exact E.
Qed.

Lemma last_on_acc p acts : forall acc,
  last_on p acts acc = match last_on p acts None with Some x => Some x | None => acc end.
Proof.
  induction acts as [|b acts IH]; intro acc; [reflexivity|]. cbn [last_on].
  destruct (beqb (target b) p).
  - rewrite (IH (Some b)). destruct (last_on p acts None); reflexivity.
  - apply IH.
Qed.

(** the file at [p] after a run of actions is decided by the last action on [p] *)
Lemma fold_effect p acts : forall fs,
  lookup p (fold_left (apply_action now) acts fs) = effect (last_on p acts None) (lookup p fs).
Proof.
  induction acts as [|a acts IH]; intro fs; [reflexivity|].
  cbn [fold_left last_on]. rewrite IH, (last_on_acc p acts (if beqb (target a) p then Some a else None)).
  destruct (last_on p acts None) as [x|].
  - destruct x; reflexivity.
  - rewrite apply_lookup. destruct (beqb (target a) p); reflexivity.
Qed.

Lemma last_on_app p a : forall b,
  last_on p (a ++ b) None = match last_on p b None with Some x => Some x | None => last_on p a None end.
Proof.
  induction a as [|x a IH]; intro b; cbn [app last_on].
  - destruct (last_on p b None); reflexivity.
  - rewrite (last_on_acc p (a ++ b) (if beqb (target x) p then Some x else None)),
            (last_on_acc p a (if beqb (target x) p then Some x else None)), IH.
    destruct (last_on p b None); [reflexivity|]. destruct (last_on p a None); reflexivity.
Qed.

Lemma last_on_none p acts : (forall a, In a acts -> target a <> p) -> last_on p acts None = None.
Proof.
  induction acts as [|x acts IH]; intro H; [reflexivity|]. cbn [last_on].
  assert (beqb (target x) p = false) as -> by (apply beqb_false_iff; apply H; left; reflexivity).
  apply IH. intros a Ha. apply H. right. exact Ha.
Qed.

Lemma last_on_some_in p acts : forall acc a,
  last_on p acts acc = Some a -> (In a acts /\ target a = p) \/ acc = Some a.
Proof.
  induction acts as [|x acts IH]; intros acc a H; [right; exact H|].
  cbn [last_on] in H. apply IH in H as [[Hin Ht]|Hacc].
  - left. split; [right; exact Hin|exact Ht].
  - destruct (beqb (target x) p) eqn:E.
    + inversion Hacc; subst. apply beqb_eq in E. left. split; [left; reflexivity|exact E].
    + right. exact Hacc.
Qed.

Lemma last_on_none_inv p acts : forall acc,
  last_on p acts acc = None -> (forall a, In a acts -> target a <> p) /\ acc = None.
Proof.
  induction acts as [|x acts IH]; intros acc H; [split; [intros a []|exact H]|].
  cbn [last_on] in H. apply IH in H as [Hall Hacc].
  destruct (beqb (target x) p) eqn:E; [discriminate|].
  split; [|exact Hacc]. intros a [<-|Ha]; [apply beqb_false_iff; exact E|apply Hall; exact Ha].
Qed.

Lemma last_on_all_same p acts a0 :
  In a0 acts -> target a0 = p -> (forall b, In b acts -> target b = p -> b = a0) -> last_on p acts None = Some a0.
Proof.
  intros Hin Ht Hall. destruct (last_on p acts None) as [y|] eqn:E.
  - apply last_on_some_in in E as [[Hy1 Hy2]|E]; [|discriminate]. f_equal. apply Hall; assumption.
  - apply last_on_none_inv in E as [E _]. exfalso. exact (E a0 Hin Ht).
Qed.

(** * paths *)
Lemma output_of_inj a b : output_of a = output_of b -> a = b.
Proof. unfold output_of. apply app_inv_tail. Qed.

Lemma template_of_output t : template_of (output_of t) = t.
Proof.
  unfold template_of, output_of. rewrite app_length. cbn [List.length lit].
  replace (List.length t + 3 - 3)%nat with (List.length t) by lia.
  rewrite firstn_app, Nat.sub_diag, firstn_all. cbn. apply app_nil_r.
Qed.

Lemma has_prefix_app_same a : forall b c, has_prefix b c = true -> has_prefix (a ++ b) (a ++ c) = true.
Proof.
  induction a as [|x a IH]; intros b c Hb; [exact Hb|]. cbn [app has_prefix]. rewrite N.eqb_refl. cbn [andb].
  apply IH. exact Hb.
Qed.

Lemma is_output_output_of t : is_template t = true -> is_output (output_of t) = true.
Proof.
  unfold is_template, is_output, output_of, has_suffix. intro H.
  rewrite rev_app_distr.
  change c_GeneratedFileExtension with (c_GohtFileExtension ++ lit ".go").
  rewrite rev_app_distr. apply has_prefix_app_same. exact H.
Qed.

(** the directories on the way to a template and to its output are the same *)
Lemma dirs_aux_no_sep t : forall cur, ~ In 47 t -> dirs_aux t cur = [].
Proof.
  induction t as [|y t IH]; intros cur H; [reflexivity|]. cbn [dirs_aux].
  destruct (N.eqb_spec y 47) as [->|Hy]; [exfalso; apply H; left; reflexivity|].
  apply IH. intro K. apply H. right. exact K.
Qed.

Lemma dirs_aux_app s : forall cur t, ~ In 47 t -> dirs_aux (s ++ t) cur = dirs_aux s cur.
Proof.
  induction s as [|x s IH]; intros cur t Ht; cbn [app dirs_aux].
  - apply dirs_aux_no_sep. exact Ht.
  - destruct (N.eqb x 47); [f_equal|]; apply IH; exact Ht.
Qed.

Lemma skipped_output fl t : skipped fl (output_of t) = skipped fl t.
Proof.
  unfold skipped, dir_segments, output_of. rewrite dirs_aux_app; [reflexivity|].
  cbn. intuition discriminate.
Qed.

(** * the actions of one run *)
Variable fl : flags.
Variable fs : fsys.
Variable order : list (bytes * file).

(** what the walk guarantees about the queue: its entries are files of the tree that are templates outside
    skipped directories, each queued once *)
Hypothesis order_in_fs : forall t f, In (t, f) order -> lookup t fs = Some f.
Hypothesis order_templates : forall t f, In (t, f) order -> is_template t = true /\ skipped fl t = false.

Notation result := (generate_with compile now fl fs order).

Lemma removal_targets a : In a (removals fl fs) -> exists p, a = Remove p /\ orphan fl fs p = true /\ (exists f, In (p, f) fs).
Proof.
  unfold removals. rewrite in_map_iff. intros [[p f] [<- Hin]]. apply filter_In in Hin as [Hin Ho].
  exists p. cbn [fst] in *. repeat split; [exact Ho|exists f; exact Hin].
Qed.

Lemma write_targets a : In a (flat_map (process compile) order) ->
  exists t f c, a = Write (output_of t) c /\ In (t, f) order /\ compile (f_content f) = Some c.
Proof.
  rewrite in_flat_map. intros [[t f] [Hin Ha]]. unfold process in Ha. cbn [fst snd] in Ha.
  destruct (compile (f_content f)) as [c|] eqn:E; [|contradiction].
  destruct Ha as [<-|[]]. exists t, f, c. auto.
Qed.

Lemma result_lookup p :
  lookup p result =
  effect (match last_on p (flat_map (process compile) order) None with
          | Some x => Some x
          | None => last_on p (removals fl fs) None
          end) (lookup p fs).
Proof. unfold generate_with. rewrite fold_effect, last_on_app. reflexivity. Qed.

(** (4) frame: nothing but generated files is ever created, changed or removed *)
Theorem frame_non_output p : is_output p = false -> lookup p result = lookup p fs.
Proof.
  intro Hp. rewrite result_lookup.
  rewrite (last_on_none p (flat_map (process compile) order)).
  - rewrite (last_on_none p (removals fl fs)); [reflexivity|].
    intros a Ha Ht. apply removal_targets in Ha as [q [-> [Ho _]]]. cbn in Ht. subst q.
    unfold orphan in Ho. rewrite Hp in Ho. rewrite !andb_false_r in Ho. cbn in Ho. discriminate.
  - intros a Ha Ht. apply write_targets in Ha as [t [f [c [-> [Hin _]]]]]. cbn in Ht. subst p.
    rewrite is_output_output_of in Hp by (eapply order_templates; eauto). discriminate.
Qed.

(** (6) nothing inside a skipped directory is created, changed or removed *)
Theorem frame_skipped p : skipped fl p = true -> lookup p result = lookup p fs.
Proof.
  intro Hp. rewrite result_lookup.
  rewrite (last_on_none p (flat_map (process compile) order)).
  - rewrite (last_on_none p (removals fl fs)); [reflexivity|].
    intros a Ha Ht. apply removal_targets in Ha as [q [-> [Ho _]]]. cbn in Ht. subst q.
    unfold orphan in Ho. rewrite Hp in Ho. cbn in Ho. discriminate.
  - intros a Ha Ht. apply write_targets in Ha as [t [f [c [-> [Hin _]]]]]. cbn in Ht. subst p.
    rewrite skipped_output in Hp. destruct (order_templates _ _ Hin) as [_ Hs]. congruence.
Qed.

Lemma in_order_unique t f f' : In (t, f) order -> In (t, f') order -> f = f'.
Proof. intros H1 H2. apply order_in_fs in H1. apply order_in_fs in H2. congruence. Qed.

(** (1) a queued template that compiles gets the compilation of its current content as sibling output *)
Theorem written t f c :
  In (t, f) order -> compile (f_content f) = Some c -> lookup (output_of t) result = Some (mkFile c now).
Proof.
  intros Hin Hc. rewrite result_lookup.
  rewrite (last_on_all_same (output_of t) (flat_map (process compile) order) (Write (output_of t) c)).
  - reflexivity.
  - apply in_flat_map. exists (t, f). split; [exact Hin|]. unfold process. cbn [fst snd]. rewrite Hc. left. reflexivity.
  - reflexivity.
  - intros b Hb Ht. apply write_targets in Hb as [t' [f' [c' [-> [Hin' Hc']]]]]. cbn in Ht.
    apply output_of_inj in Ht. subst t'. rewrite (in_order_unique _ _ _ Hin' Hin) in Hc'. congruence.
Qed.

(** (2)(3) the output of an existing template that is not queued, or whose compilation fails, is untouched *)
Theorem output_untouched t ft :
  lookup t fs = Some ft -> (forall f, In (t, f) order -> compile (f_content f) = None) ->
  lookup (output_of t) result = lookup (output_of t) fs.
Proof.
  intros Ht Hfail. rewrite result_lookup.
  rewrite (last_on_none (output_of t) (flat_map (process compile) order)).
  - rewrite (last_on_none (output_of t) (removals fl fs)); [reflexivity|].
    intros a Ha Hta. apply removal_targets in Ha as [q [-> [Ho _]]]. cbn in Hta. subst q.
    unfold orphan in Ho. rewrite template_of_output, Ht in Ho. rewrite andb_false_r in Ho. discriminate.
  - intros a Ha Hta. apply write_targets in Ha as [t' [f' [c' [-> [Hin' Hc']]]]]. cbn in Hta.
    apply output_of_inj in Hta. subst t'. rewrite (Hfail _ Hin') in Hc'. discriminate.
Qed.

(** (5) an output whose template no longer exists is removed (unless --keep, see [orphan]) *)
Theorem orphan_removed p f : orphan fl fs p = true -> In (p, f) fs -> lookup p result = None.
Proof.
  intros Ho Hin. rewrite result_lookup.
  rewrite (last_on_none p (flat_map (process compile) order)).
  - rewrite (last_on_all_same p (removals fl fs) (Remove p)); [reflexivity| | reflexivity |].
    + unfold removals. apply in_map_iff. exists (p, f). split; [reflexivity|]. apply filter_In. split; [exact Hin|exact Ho].
    + intros b Hb Htb. apply removal_targets in Hb as [q [-> _]]. cbn in Htb. subst q. reflexivity.
  - intros a Ha Hta. apply write_targets in Ha as [t' [f' [c' [-> [Hin' _]]]]]. cbn in Hta. subst p.
    unfold orphan in Ho. rewrite template_of_output, (order_in_fs _ _ Hin') in Ho. rewrite andb_false_r in Ho. discriminate.
Qed.

(** with --keep nothing is an orphan *)
Theorem keep_keeps p : fl_keep fl = true -> orphan fl fs p = false.
Proof. intro H. unfold orphan. rewrite H. cbn. rewrite andb_false_r. reflexivity. Qed.

(** an output that is not an orphan and not written stays *)
Theorem not_orphan_not_written p :
  orphan fl fs p = false -> (forall t f c, In (t, f) order -> compile (f_content f) = Some c -> output_of t <> p) ->
  lookup p result = lookup p fs.
Proof.
  intros Ho Hw. rewrite result_lookup.
  rewrite (last_on_none p (flat_map (process compile) order)).
  - rewrite (last_on_none p (removals fl fs)); [reflexivity|].
    intros a Ha Hta. apply removal_targets in Ha as [q [-> [Hq _]]]. cbn in Hta. subst q. congruence.
  - intros a Ha Hta. apply write_targets in Ha as [t' [f' [c' [-> [Hin' Hc']]]]]. cbn in Hta.
    exact (Hw _ _ _ Hin' Hc' Hta).
Qed.

End Proofs.

(** * the worker pool: the result does not depend on the order in which queued templates are processed *)
Lemma writes_perm compile p order order' fs :
  (forall t f, In (t, f) order -> lookup t fs = Some f) ->
  Permutation order order' ->
  last_on p (flat_map (process compile) order) None = last_on p (flat_map (process compile) order') None.
Proof.
  intros Hfs Hperm.
  assert (Hfs' : forall t f, In (t, f) order' -> lookup t fs = Some f).
  { intros t f H. apply Hfs. eapply Permutation_in; [apply Permutation_sym; exact Hperm|exact H]. }
  destruct (last_on p (flat_map (process compile) order) None) as [a|] eqn:E.
  - apply last_on_some_in in E as [[Hin Ht]|E]; [|discriminate].
    destruct (write_targets compile order a Hin) as [t [f [c [-> [Hino Hc]]]]].
    symmetry. apply last_on_all_same.
    + apply in_flat_map. exists (t, f). split; [eapply Permutation_in; eauto|].
      unfold process. cbn [fst snd]. rewrite Hc. left. reflexivity.
    + exact Ht.
    + intros b Hb Htb. destruct (write_targets compile order' b Hb) as [t' [f' [c' [-> [Hin' Hc']]]]].
      cbn in Ht, Htb. rewrite <- Ht in Htb. apply output_of_inj in Htb. subst t'.
      assert (f' = f) by (apply Hfs' in Hin'; apply Hfs in Hino; congruence). subst f'. congruence.
  - apply last_on_none_inv in E as [E _]. symmetry. apply last_on_none.
    intros b Hb Htb. destruct (write_targets compile order' b Hb) as [t' [f' [c' [-> [Hin' Hc']]]]].
    apply (E (Write (output_of t') c')); [|exact Htb].
    apply in_flat_map. exists (t', f'). split; [eapply Permutation_in; [apply Permutation_sym; exact Hperm|exact Hin']|].
    unfold process. cbn [fst snd]. rewrite Hc'. left. reflexivity.
Qed.

Theorem schedule_independent compile now fl fs order order' :
  (forall t f, In (t, f) order -> lookup t fs = Some f) ->
  Permutation order order' ->
  forall p, lookup p (generate_with compile now fl fs order) = lookup p (generate_with compile now fl fs order').
Proof.
  intros Hfs Hperm p. unfold generate_with. rewrite !fold_effect, !last_on_app.
  rewrite (writes_perm compile p order order' fs Hfs Hperm). reflexivity.
Qed.

(** the queue the walk builds satisfies the hypotheses used above *)
Lemma queue_in_fs fl fs : NoDup (map fst fs) -> forall t f, In (t, f) (queue fl fs) -> lookup t fs = Some f.
Proof.
  intros Hnd t f Hin. unfold queue in Hin. apply filter_In in Hin as [Hin _].
  clear -Hnd Hin. induction fs as [|[k v] fs IH]; [contradiction|].
  cbn [map fst] in Hnd. inversion Hnd as [|? ? Hk Hnd']; subst. cbn [lookup].
  destruct Hin as [E|Hin].
  - inversion E; subst. rewrite beqb_refl. reflexivity.
  - destruct (beqb t k) eqn:Ek.
    + apply beqb_eq in Ek. subst k. exfalso. apply Hk. apply in_map_iff. exists (t, f). split; [reflexivity|exact Hin].
    + apply IH; assumption.
Qed.

Lemma queue_templates fl fs : forall t f, In (t, f) (queue fl fs) -> is_template t = true /\ skipped fl t = false.
Proof.
  intros t f Hin. unfold queue in Hin. apply filter_In in Hin as [_ Hs]. unfold stale in Hs. cbn [fst snd] in Hs.
  apply andb_true_iff in Hs as [Hs _]. apply andb_true_iff in Hs as [Hs1 Hs2].
  split; [exact Hs2|]. destruct (skipped fl t); [discriminate|reflexivity].
Qed.

Lemma lookup_in (fs : fsys) : forall t f, lookup t fs = Some f -> In (t, f) fs.
Proof.
  induction fs as [|[k v] fs IH]; intros t f H; [discriminate|]. cbn [lookup] in H.
  destruct (beqb t k) eqn:E.
  - apply beqb_eq in E. inversion H; subst. left. reflexivity.
  - right. apply IH. exact H.
Qed.
