(** No input makes the compiler deadlock on its token channel (C06): the lexer never sends more tokens in one
    state call than the channel holds, whatever the parser does in between. *)
From GV Require Import Compiler.Compile Proofs.LexProofs.
From Coq Require Import Lia.
Open Scope N_scope.

(** the channel holds more than one state call sends (checked against the constant regenerated from lexer.go) *)
Lemma cap_ok : (4 < c_token_queue_cap)%nat.
Proof. apply Nat.ltb_lt. vm_compute. reflexivity. Qed.

Definition lok (lx : lexer) : Prop := ol (lx_st lx) = 0%nat.

Lemma next_token_ok fuel : forall lx, lok lx ->
  match next_token fuel lx with PTok _ lx' => lok lx' | PDeadlock => False | _ => True end.
Proof.
  induction fuel as [|f IH]; intros lx H; destruct lx as [st l q bl]; unfold lok in *; cbn [lx_st] in *.
  - cbn [next_token lx_queue lx_state lx_st]. destruct q; [|exact H]. destruct st; try exact I; exact H.
  - cbn [next_token lx_queue lx_state lx_st]. destruct q as [|t q]; [|exact H].
    assert (Hs : forall st0, match (let '(st', l') := step st0 l in
                   if l_panic l' then PPanic
                   else if Nat.ltb c_token_queue_cap (List.length (rev (l_out l'))) then PDeadlock
                        else next_token f (mkLexer st' (with_out l' []) (rev (l_out l')) false)) with
                 | PTok _ lx' => ol (lx_st lx') = 0%nat | PDeadlock => False | _ => True end).
    { intro st0. pose proof (step_emits_few st0 l) as Hb. destruct (step st0 l) as [st' l']. cbn [snd] in Hb.
      destruct (l_panic l'); [exact I|].
      rewrite rev_length. unfold ol in Hb, H. rewrite H in Hb.
      destruct (Nat.ltb_spec c_token_queue_cap (List.length (l_out l'))) as [Hlt|_].
      - pose proof cap_ok. lia.
      - apply (IH (mkLexer st' (with_out l' []) (rev (l_out l')) false)). reflexivity. }
    destruct st; try apply Hs. exact H.
Qed.

Section P.
Variable lexfuel : nat.
(** the lift through the parser is generic: [L] is any property of the lexer that every pulled token preserves,
    [bad] any set of lexer outcomes that cannot happen under [L] (and does not contain the parser's loop budget) *)
Variable L : lexer -> Prop.
Variable bad : pulled -> Prop.
Hypothesis Hnext : forall lx, L lx -> match next_token lexfuel lx with PTok _ lx' => L lx' | c => ~ bad c end.
Hypothesis Hbudget : ~ bad PBudget.

Definition P (p : parser) : Prop := L (p_lexer p).

Definition okr {A} (Q : A -> Prop) (r : presult A) : Prop :=
  match r with ROk a => Q a | RErr _ q => True | RCrash c => ~ bad c end.

Lemma p_next_ok p : P p -> okr (fun tp => P (snd tp)) (p_next lexfuel p).
Proof.
  intro H. unfold p_next. pose proof (Hnext (p_lexer p) H) as Hn.
  destruct (next_token lexfuel (p_lexer p)); cbn [okr snd]; exact Hn.
Qed.

Lemma P_set_stack p s : P p -> P (set_stack p s). Proof. exact (fun H => H). Qed.
Lemma P_add_child p n : P p -> P (add_child p n). Proof. unfold add_child. destruct (p_stack p); exact (fun H => H). Qed.
Lemma P_add_node p k : P p -> P (add_node p k). Proof. exact (fun H => H). Qed.
Lemma P_pop p : P p -> P (pop p). Proof. unfold pop. destruct (p_stack p) as [|f [|g r]]; exact (fun H => H). Qed.
Lemma P_set_top_kind p k : P p -> P (set_top_kind p k). Proof. unfold set_top_kind. destruct (p_stack p); exact (fun H => H). Qed.

Lemma back_to_indent_ok fuel i : forall p, P p -> okr P (back_to_indent fuel i p).
Proof.
  induction fuel as [|f IH]; intros p H; cbn [back_to_indent]; [exact H|].
  destruct (is_root (top_kind p)); [exact I|]. destruct (Z.leb _ i); [exact H|]. apply IH. apply P_pop. exact H.
Qed.

Lemma back_to_type_ok fuel t : forall p, P p -> okr P (back_to_type fuel t p).
Proof.
  induction fuel as [|f IH]; intros p H; cbn [back_to_type]; [exact H|].
  destruct (ntype_eqb _ t); [exact H|]. destruct (is_root (top_kind p)); [exact I|]. apply IH. apply P_pop. exact H.
Qed.

Lemma back_to_parent_ok p : P p -> okr P (back_to_parent p).
Proof. intro H. unfold back_to_parent. destruct (is_root (top_kind p)); [exact I|]. apply P_pop. exact H. Qed.

(** every way in which a parse method continues after pulling one token *)
Lemma after_next_ok {A} (Q : A -> Prop) p (f : token -> parser -> presult A) :
  P p -> (forall tk p1, P p1 -> okr Q (f tk p1)) ->
  okr Q (match p_next lexfuel p with ROk (tk, p1) => f tk p1 | RErr e q => RErr e q | RCrash c => RCrash c end).
Proof.
  intros H Hf. pose proof (p_next_ok p H) as Hn. destruct (p_next lexfuel p) as [[tk p1]|e q|c]; cbn [okr snd] in *; [apply Hf; exact Hn|exact I|exact Hn].
Qed.

Lemma handle_node_ok fuel : forall indent p, P p -> okr P (handle_node lexfuel fuel indent p).
Proof.
  induction fuel as [|f IH]; intros indent p H; cbn [handle_node]; cbv zeta;
    destruct (t_typ (p_peek p)); try exact I;
    try (apply after_next_ok; [exact H|]; intros tk p1 H1; cbn [okr];
         first [apply P_add_child; exact H1 | apply P_add_node; exact H1 | exact H1 ]);
    try (apply back_to_type_ok; exact H).
  all: try (destruct (Z.leb _ _); [apply back_to_indent_ok; exact H|]; apply after_next_ok; [exact H|]; intros tk p1 H1; first [exact H1|apply IH; exact H1]).
  all: try (apply after_next_ok; [exact H|]; intros tk p1 H1; repeat (match goal with |- context [if ?c then _ else _] => destruct c end); cbn [okr]; try exact I; apply P_add_node; exact H1).
Qed.

Lemma parse_attributes_ok fuel origin0 indent0 : forall d p, P p ->
  okr (fun dp => P (snd dp)) (parse_attributes lexfuel fuel origin0 indent0 d p).
Proof.
  induction fuel as [|f IH]; intros d p H; cbn [parse_attributes]; cbv zeta; [exact H|].
  destruct (negb _); [exact H|].
  pose proof (p_next_ok p H) as Hn. destruct (p_next lexfuel p) as [[nt p1]|e q|c]; cbn [okr snd] in *; [|exact I|exact Hn].
  destruct (toktype_eqb (t_typ (p_peek p1)) TAttrOperator); [|apply IH; exact Hn].
  pose proof (p_next_ok p1 Hn) as Hn2. destruct (p_next lexfuel p1) as [[op p2]|e q|c]; cbn [okr snd] in *; [|exact I|exact Hn2].
  destruct (_ && _); [exact I|]. destruct (_ && _); [exact I|].
  pose proof (p_next_ok p2 Hn2) as Hn3. destruct (p_next lexfuel p2) as [[og p3]|e q|c]; cbn [okr snd] in *; [|exact I|exact Hn3].
  destruct (if toktype_eqb (t_typ og) TAttrDynamicValue then _ else _); [apply IH; exact Hn3|exact I].
Qed.

Lemma parse_element_ok fuel origin indent d p : P p -> okr P (parse_element lexfuel fuel origin indent d p).
Proof.
  intro H. unfold parse_element. cbv zeta.
  assert (Hh : forall i, okr P (handle_node lexfuel fuel i p)) by (intro i; apply handle_node_ok; exact H).
  assert (Hc : forall f : token -> elem,
             okr P (match p_next lexfuel p with
                    | ROk (tk, p1) => ROk (set_top_kind p1 (KElement origin indent (f tk)))
                    | RErr e q => RErr e q | RCrash c => RCrash c end)).
  { intro f. apply after_next_ok; [exact H|]. intros tk p1 H1. apply P_set_top_kind. exact H1. }
  destruct (e_complete d).
  - destruct (t_typ (p_peek p)); try apply Hh.
    destruct (Z.leb _ indent); [apply back_to_indent_ok; exact H|].
    destruct (e_disallow d || e_selfclosing d); [destruct (e_selfclosing d); exact I|].
    (* the remaining element cases *)
    apply Hh.
  - destruct (t_typ (p_peek p)); try apply Hh; try apply Hc.
    + pose proof (p_next_ok p H) as Hn. destruct (p_next lexfuel p) as [[tk p1]|e q|c]; cbn [okr snd] in *; [|exact I|exact Hn].
      destruct (Nat.eqb _ 0); [apply P_add_child|]; apply P_set_top_kind; exact Hn.
    + pose proof (parse_attributes_ok (S fuel) origin indent d p H) as Ha.
      destruct (parse_attributes lexfuel (S fuel) origin indent d p) as [[d' p1]|e q|c]; cbn [okr snd] in *; [apply P_set_top_kind; exact Ha|exact I|exact Ha].
Qed.

Lemma parse_step_ok fuel p : P p -> okr P (parse_step lexfuel fuel p).
Proof.
  intro H. unfold parse_step. cbv zeta.
  assert (Hh : forall i, okr P (handle_node lexfuel fuel i p)) by (intro i; apply handle_node_ok; exact H).
  Ltac an H := apply after_next_ok; [exact H|]; let tk := fresh "tk" in let p1 := fresh "p1" in let H1 := fresh "H1" in intros tk p1 H1; cbn [okr];
               first [ exact H1 | apply P_set_top_kind; exact H1 | apply P_add_node; exact H1 | apply P_add_child; exact H1
                     | apply back_to_type_ok; exact H1 | apply back_to_parent_ok; exact H1 ].
  destruct (top_kind p) as [pkg user|toks|origin|origin|origin indent d|origin|origin indent|origin|origin indent|origin indent complete|origin|origin indent|origin|fk origin indent];
    try exact I.
  - destruct (t_typ (p_peek p)); try exact I; an H.
  - destruct (t_typ (p_peek p)); try exact I; try (an H); apply back_to_type_ok; exact H.
  - destruct (t_typ (p_peek p)); try apply Hh. an H.
  - apply parse_element_ok. exact H.
  - destruct (t_typ (p_peek p)); try apply Hh.
    destruct (Z.leb _ indent); [apply back_to_indent_ok; exact H|]. destruct (negb _); [exact I|apply Hh].
  - destruct (t_typ (p_peek p)); try apply Hh. apply back_to_parent_ok. exact H.
  - destruct (t_typ (p_peek p)); try apply Hh. destruct complete; [apply Hh|an H].
  - apply Hh.
  - match goal with |- context [if ?c then _ else _] => destruct c end; [an H|].
    destruct (t_typ (p_peek p)); try exact I. an H.
Qed.

Lemma parse_loop_ok fuel : forall p, P p -> okr P (parse_loop lexfuel fuel p).
Proof.
  induction fuel as [|f IH]; intros p H; cbn [parse_loop]; [exact Hbudget|].
  pose proof (parse_step_ok (S f) p H) as Hs. destruct (parse_step lexfuel (S f) p) as [p1|e q|c]; cbn [okr] in *; [|exact I|exact Hs].
  destruct (toktype_eqb _ TEOF); [exact Hs|apply IH; exact Hs].
Qed.
End P.

(** the whole parse, for any such [L] and [bad] *)
Theorem parse_never_bad (L : lexer -> Prop) (bad : pulled -> Prop) input :
  (forall lx, L lx -> match next_token (lex_fuel input) lx with PTok _ lx' => L lx' | c => ~ bad c end) -> ~ bad PBudget ->
  L (new_lexer input) -> forall c, parse_bytes input = Crashed c -> ~ bad c.
Proof.
  intros Hnext Hbudget H0 c. unfold parse_bytes. cbv zeta. cbn [p_lexer].
  pose proof (Hnext (new_lexer input) H0) as Hn.
  destruct (next_token (lex_fuel input) (new_lexer input)) as [t lx| | | |]; try (intro K; injection K as <-; exact Hn).
  match goal with |- context [parse_loop ?lf ?pf ?p1] =>
    pose proof (parse_loop_ok lf L bad Hnext Hbudget pf p1 Hn) as Hl; destruct (parse_loop lf pf p1) as [p2|e p2|c2] end;
    cbn [okr] in Hl; try discriminate. intro K. injection K as <-. exact Hl.
Qed.

Theorem parse_never_deadlocks input : parse_bytes input <> Crashed PDeadlock.
Proof.
  intro K. refine (parse_never_bad lok (fun c => c = PDeadlock) input _ _ _ PDeadlock K eq_refl).
  - intros lx H. pose proof (next_token_ok (lex_fuel input) lx H) as Hn. destruct (next_token (lex_fuel input) lx); try discriminate; [exact Hn|contradiction].
  - discriminate.
  - reflexivity.
Qed.

Theorem compile_never_deadlocks input : compile_parse input <> ODeadlock.
Proof.
  unfold compile_parse. pose proof (parse_never_deadlocks input) as H.
  destruct (parse_bytes input) as [t e|c]; [discriminate|]. destruct c; try discriminate. congruence.
Qed.
