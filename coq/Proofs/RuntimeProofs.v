(** The children slot implements lexical scoping (C05); the buffer pool keeps renders isolated (C13). *)
From GV Require Import Runtime.Children Runtime.Pool.
Open Scope N_scope.

(** * C05 *)
Theorem children_lexical templates : forall fuel stmts children,
  exec_stmts templates fuel stmts children None = (denote_stmts templates fuel stmts children, None).
Proof.
  induction fuel as [|f IH]; intros stmts children; [reflexivity|].
  destruct stmts as [|s rest]; [reflexivity|]. cbn [exec_stmts denote_stmts].
  destruct s as [x| |callee [blk|]].
  - rewrite IH. reflexivity.
  - destruct children as [[body cap]|]; [rewrite IH|]; rewrite IH; reflexivity.
  - rewrite IH, IH. reflexivity.
  - rewrite IH, IH. reflexivity.
Qed.

Corollary template_lexical templates fuel i :
  exec_template templates fuel i = denote_template templates fuel i.
Proof. unfold exec_template, denote_template. rewrite children_lexical. reflexivity. Qed.

(** the slot is empty again whenever a template body or a block has finished *)
Corollary slot_empty_after templates fuel stmts children :
  snd (exec_stmts templates fuel stmts children None) = None.
Proof. rewrite children_lexical. reflexivity. Qed.

(** a template rendered without nested content sees no children, whatever its caller was given *)
Corollary childless_call_sees_none templates fuel callee rest children :
  denote_stmts templates (S fuel) (SRender callee None :: rest) children =
  denote_stmts templates fuel (body_of templates callee) None ++ denote_stmts templates fuel rest children.
Proof. reflexivity. Qed.

(** * C13 *)
Definition pool_inv (w : world) : Prop := Forall (fun b => b = []) (w_pool w).

Lemma take_nth_in {A} n : forall (l : list A) x r, take_nth n l = Some (x, r) -> In x l /\ (forall y, In y r -> In y l).
Proof.
  induction n as [|n IH]; intros [|a l] x r H; try discriminate; cbn [take_nth] in H.
  - inversion H; subst. split; [left; reflexivity|intros y Hy; right; exact Hy].
  - destruct (take_nth n l) as [[y r']|] eqn:E; [|discriminate]. inversion H; subst.
    destruct (IH _ _ _ E) as [H1 H2]. split; [right; exact H1|].
    intros z [<-|Hz]; [left; reflexivity|right; apply H2; exact Hz].
Qed.

Lemma pool_inv_step w s : pool_inv w -> pool_inv (pool_step w s).
Proof.
  intro H. destruct s as [r [n|]|r x|r ok]; cbn [pool_step].
  - destruct (owned_get r (w_owned w)); [exact H|].
    destruct (take_nth n (w_pool w)) as [[b rest]|] eqn:E; [|exact H].
    unfold pool_inv in *. cbn [w_pool]. apply Forall_forall. intros y Hy.
    destruct (take_nth_in _ _ _ _ E) as [_ H2]. eapply Forall_forall in H; [exact H|apply H2; exact Hy].
  - destruct (owned_get r (w_owned w)); exact H.
  - destruct (owned_get r (w_owned w)); exact H.
  - destruct (owned_get r (w_owned w)); [|exact H]. unfold pool_inv in *. cbn [w_pool]. constructor; [reflexivity|exact H].
Qed.

Lemma owned_get_set r k b o : owned_get r (owned_set k b o) = if Nat.eqb k r then Some b else owned_get r o.
Proof.
  induction o as [|[k' x] o IH]; cbn [owned_set owned_get].
  - reflexivity.
  - destruct (Nat.eqb_spec k' k) as [->|Hk]; cbn [owned_get].
    + destruct (Nat.eqb_spec k r); reflexivity.
    + destruct (Nat.eqb_spec k' r) as [->|Hr].
      * destruct (Nat.eqb_spec k r); [congruence|reflexivity].
      * exact IH.
Qed.

Lemma owned_get_del r k o : owned_get r (owned_del k o) = if Nat.eqb k r then None else owned_get r o.
Proof.
  unfold owned_del. induction o as [|[k' x] o IH]; cbn [filter fst owned_get].
  - destruct (Nat.eqb k r); reflexivity.
  - destruct (Nat.eqb_spec k' k) as [->|Hk]; cbn [negb].
    + rewrite IH. destruct (Nat.eqb_spec k r); reflexivity.
    + cbn [owned_get]. destruct (Nat.eqb_spec k' r) as [->|Hr].
      * destruct (Nat.eqb_spec k r); [congruence|reflexivity].
      * exact IH.
Qed.

Definition step_rid (s : pstep) : rid := match s with PGet k _ | PWrite k _ | PFinish k _ => k end.

(** a step of another render does not touch this render's buffer, nor what it has written *)
Lemma other_step_owned r w s : step_rid s <> r -> owned_get r (w_owned (pool_step w s)) = owned_get r (w_owned w).
Proof.
  intro H. destruct s as [k [n|]|k x|k ok]; cbn [step_rid] in H; cbn [pool_step];
    destruct (owned_get k (w_owned w)) eqn:E; try reflexivity; cbn [w_owned].
  - destruct (take_nth n (w_pool w)) as [[b rest]|]; cbn [w_owned]; rewrite owned_get_set;
      destruct (Nat.eqb_spec k r); congruence.
  - rewrite owned_get_set. destruct (Nat.eqb_spec k r); congruence.
  - rewrite owned_get_set. destruct (Nat.eqb_spec k r); congruence.
  - rewrite owned_get_del. destruct (Nat.eqb_spec k r); congruence.
Qed.

Lemma written_mono w s x : In x (w_written w) -> In x (w_written (pool_step w s)).
Proof.
  intro H. destruct s as [k [n|]|k y|k ok]; cbn [pool_step]; destruct (owned_get k (w_owned w)); try exact H.
  - destruct (take_nth n (w_pool w)) as [[b rest]|]; exact H.
  - cbn [w_written]. destruct ok; [right|]; exact H.
Qed.

Lemma written_mono_run steps : forall w x, In x (w_written w) -> In x (w_written (pool_run steps w)).
Proof.
  induction steps as [|s steps IH]; intros w x H; [exact H|]. cbn [pool_run fold_left]. apply IH. apply written_mono. exact H.
Qed.

Definition is_write (r : rid) (s : pstep) : Prop := exists x, s = PWrite r x.

(** a render that holds buffer content [b]: whatever the other renders do in between, its remaining writes are
    appended to exactly that content and the final write delivers it *)
Lemma holding_render r : forall steps w b ws,
  owned_get r (w_owned w) = Some b ->
  steps_of r steps = ws ++ [PFinish r true] -> Forall (is_write r) ws ->
  In (r, nuke (b ++ writes_of ws)) (w_written (pool_run steps w)).
Proof.
  induction steps as [|s steps IH]; intros w b ws Hb Hs Hw.
  - cbn in Hs. destruct ws; discriminate.
  - cbn [pool_run fold_left]. cbn [steps_of filter] in Hs.
    destruct (Nat.eqb_spec (step_rid s) r) as [Hr|Hr].
    + assert (Hm : (match s with PGet k _ | PWrite k _ | PFinish k _ => Nat.eqb k r end) = true)
        by (destruct s; cbn [step_rid] in Hr; subst; apply Nat.eqb_refl).
      rewrite Hm in Hs. destruct ws as [|w0 ws].
      * (* the final step *)
        cbn [app] in Hs. injection Hs as Hs0 Hrest. rewrite Hs0. cbn [pool_step]. rewrite Hb.
        replace (b ++ writes_of []) with b by (cbn [writes_of]; rewrite app_nil_r; reflexivity).
        apply written_mono_run. cbn [w_written]. left. reflexivity.
      * cbn [app] in Hs. injection Hs as Hs0 Hrest. rewrite Hs0.
        inversion Hw as [|? ? [x Hx] Hw']. rewrite Hx. cbn [pool_step]. rewrite Hb.
        cbn [writes_of]. rewrite app_assoc.
        apply (IH _ (b ++ x) ws); [cbn [w_owned]; rewrite owned_get_set, Nat.eqb_refl; reflexivity|exact Hrest|exact Hw'].
    + assert (Hm : (match s with PGet k _ | PWrite k _ | PFinish k _ => Nat.eqb k r end) = false)
        by (destruct s; cbn [step_rid] in Hr; apply Nat.eqb_neq; exact Hr).
      rewrite Hm in Hs. apply (IH _ b ws); [rewrite other_step_owned by exact Hr; exact Hb|exact Hs|exact Hw].
Qed.

(** isolation: for every interleaving with other renders (successful, failed, unfinished), every choice the
    pool makes, and every pool content satisfying the invariant, a render writes exactly what it writes alone *)
Theorem render_isolated r steps w c ws :
  pool_inv w -> owned_get r (w_owned w) = None ->
  steps_of r steps = PGet r c :: ws ++ [PFinish r true] -> Forall (is_write r) ws ->
  In (r, nuke (writes_of ws)) (w_written (pool_run steps w)).
Proof.
  revert w. induction steps as [|s steps IH]; intros w Hinv Hno Hs Hw; [discriminate|].
  cbn [pool_run fold_left]. cbn [steps_of filter] in Hs.
  destruct (Nat.eqb_spec (step_rid s) r) as [Hr|Hr].
  - assert (Hm : (match s with PGet k _ | PWrite k _ | PFinish k _ => Nat.eqb k r end) = true)
      by (destruct s; cbn [step_rid] in Hr; subst; apply Nat.eqb_refl).
    rewrite Hm in Hs. injection Hs as Hs0 Hrest. rewrite Hs0.
    (* GetBuffer hands out an empty buffer: pooled buffers are empty by the invariant, new ones are empty *)
    assert (Hget : owned_get r (w_owned (pool_step w (PGet r c))) = Some []).
    { cbn [pool_step]. rewrite Hno. destruct c as [n|].
      - destruct (take_nth n (w_pool w)) as [[b rest]|] eqn:E; cbn [w_owned]; rewrite owned_get_set, Nat.eqb_refl; [|reflexivity].
        destruct (take_nth_in _ _ _ _ E) as [Hin _]. eapply Forall_forall in Hinv; [|exact Hin]. cbn in Hinv. subst b. reflexivity.
      - cbn [w_owned]. rewrite owned_get_set, Nat.eqb_refl. reflexivity. }
    apply (holding_render r steps _ [] ws Hget Hrest Hw).
  - assert (Hm : (match s with PGet k _ | PWrite k _ | PFinish k _ => Nat.eqb k r end) = false)
      by (destruct s; cbn [step_rid] in Hr; apply Nat.eqb_neq; exact Hr).
    rewrite Hm in Hs. apply IH; [apply pool_inv_step; exact Hinv|rewrite other_step_owned by exact Hr; exact Hno|exact Hs|exact Hw].
Qed.

Theorem pool_inv_run steps : forall w, pool_inv w -> pool_inv (pool_run steps w).
Proof.
  induction steps as [|s steps IH]; intros w H; [exact H|]. cbn [pool_run fold_left]. apply IH. apply pool_inv_step. exact H.
Qed.

(** a render hands something to its destination only through its own successful finish *)
Definition finishes_ok (r : rid) (s : pstep) : bool := match s with PFinish k true => Nat.eqb k r | _ => false end.

Lemma written_only_by_finish r s w x :
  In (r, x) (w_written (pool_step w s)) -> In (r, x) (w_written w) \/ finishes_ok r s = true.
Proof.
  destruct s as [k c|k y|k ok]; cbn [pool_step finishes_ok].
  - destruct (owned_get k (w_owned w)); [auto|]. destruct c as [n|]; [destruct (take_nth n (w_pool w)) as [[b rest]|]|]; cbn; auto.
  - destruct (owned_get k (w_owned w)); cbn; auto.
  - destruct (owned_get k (w_owned w)) as [b|]; [|auto]. destruct ok; cbn [w_written]; [|auto].
    intros [H|H]; [injection H as <- _; right; apply Nat.eqb_refl|left; exact H].
Qed.

Theorem nothing_without_finish r steps : forall w,
  (forall x, ~ In (r, x) (w_written w)) -> existsb (finishes_ok r) steps = false ->
  forall x, ~ In (r, x) (w_written (pool_run steps w)).
Proof.
  induction steps as [|s steps IH]; intros w H0 Hf x; [apply H0|].
  cbn [existsb] in Hf. apply Bool.orb_false_iff in Hf as [Hs Hrest]. cbn [pool_run fold_left].
  apply (IH (pool_step w s)); [|exact Hrest].
  intros y Hy. destruct (written_only_by_finish r s w y Hy) as [H|H]; [exact (H0 y H)|congruence].
Qed.
