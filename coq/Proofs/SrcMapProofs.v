(** The position map (property C16): shape of the entries of one Add, and mutual inverse of the two directions. *)
From GV Require Import Compiler.SrcMap.
Open Scope N_scope.

Definition src_key (e : smentry) : Z * Z := (se_sl e, se_sc e).
Definition tgt_key (e : smentry) : Z * Z := (se_tl e, se_tc e).

Definition key_eqb (l c : Z) (k : Z * Z) : bool := Z.eqb (fst k) l && Z.eqb (snd k) c.

Lemma key_eqb_eq l c k : key_eqb l c k = true <-> k = (l, c).
Proof.
  destruct k as [a b]. unfold key_eqb. cbn [fst snd]. rewrite andb_true_iff, !Z.eqb_eq. split.
  - intros [-> ->]. reflexivity.
  - intro H. inversion H. auto.
Qed.

(** * the last insertion for a key wins *)
Lemma s2t_aux_none es : forall l c acc,
  (forall e, In e es -> src_key e <> (l, c)) -> s2t_aux es l c acc = acc.
Proof.
  induction es as [|e es IH]; intros l c acc H; [reflexivity|]. cbn [s2t_aux].
  assert (Hk : Z.eqb (se_sl e) l && Z.eqb (se_sc e) c = false).
  { destruct (Z.eqb (se_sl e) l && Z.eqb (se_sc e) c) eqn:E; [|reflexivity].
    exfalso. apply (H e); [left; reflexivity|]. apply (key_eqb_eq l c (src_key e)). exact E. }
  rewrite Hk. apply IH. intros e' He'. apply H. right. exact He'.
Qed.

Lemma t2s_aux_none es : forall l c acc,
  (forall e, In e es -> tgt_key e <> (l, c)) -> t2s_aux es l c acc = acc.
Proof.
  induction es as [|e es IH]; intros l c acc H; [reflexivity|]. cbn [t2s_aux].
  assert (Hk : Z.eqb (se_tl e) l && Z.eqb (se_tc e) c = false).
  { destruct (Z.eqb (se_tl e) l && Z.eqb (se_tc e) c) eqn:E; [|reflexivity].
    exfalso. apply (H e); [left; reflexivity|]. apply (key_eqb_eq l c (tgt_key e)). exact E. }
  rewrite Hk. apply IH. intros e' He'. apply H. right. exact He'.
Qed.

(** with distinct keys, looking an entry's source up gives that entry's target *)
Lemma s2t_unique es : forall e acc,
  NoDup (map src_key es) -> In e es -> s2t_aux es (se_sl e) (se_sc e) acc = Some (se_tl e, se_tc e).
Proof.
  induction es as [|x es IH]; intros e acc Hnd Hin; [contradiction|].
  cbn [map] in Hnd. inversion Hnd as [|? ? Hx Hnd']; subst. cbn [s2t_aux].
  destruct Hin as [->|Hin].
  - rewrite !Z.eqb_refl. cbn [andb]. apply s2t_aux_none.
    intros e' He' Hk. apply Hx. apply in_map_iff. exists e'. split; [exact Hk|exact He'].
  - apply IH; assumption.
Qed.

Lemma t2s_unique es : forall e acc,
  NoDup (map tgt_key es) -> In e es -> t2s_aux es (se_tl e) (se_tc e) acc = Some (se_sl e, se_sc e).
Proof.
  induction es as [|x es IH]; intros e acc Hnd Hin; [contradiction|].
  cbn [map] in Hnd. inversion Hnd as [|? ? Hx Hnd']; subst. cbn [t2s_aux].
  destruct Hin as [->|Hin].
  - rewrite !Z.eqb_refl. cbn [andb]. apply t2s_aux_none.
    intros e' He' Hk. apply Hx. apply in_map_iff. exists e'. split; [exact Hk|exact He'].
  - apply IH; assumption.
Qed.

(** a successful lookup returns the target of some inserted entry with that source *)
Lemma s2t_aux_in es : forall l c acc r,
  s2t_aux es l c acc = Some r -> (exists e, In e es /\ src_key e = (l, c) /\ r = (se_tl e, se_tc e)) \/ acc = Some r.
Proof.
  induction es as [|x es IH]; intros l c acc r H; [right; exact H|]. cbn [s2t_aux] in H.
  apply IH in H as [[e [He [Hk Hr]]]|H].
  - left. exists e. split; [right; exact He|auto].
  - destruct (Z.eqb (se_sl x) l && Z.eqb (se_sc x) c) eqn:E.
    + left. exists x. split; [left; reflexivity|]. split; [apply (key_eqb_eq l c (src_key x)); exact E|]. inversion H. reflexivity.
    + right. exact H.
Qed.

Lemma t2s_aux_in es : forall l c acc r,
  t2s_aux es l c acc = Some r -> (exists e, In e es /\ tgt_key e = (l, c) /\ r = (se_sl e, se_sc e)) \/ acc = Some r.
Proof.
  induction es as [|x es IH]; intros l c acc r H; [right; exact H|]. cbn [t2s_aux] in H.
  apply IH in H as [[e [He [Hk Hr]]]|H].
  - left. exists e. split; [right; exact He|auto].
  - destruct (Z.eqb (se_tl x) l && Z.eqb (se_tc x) c) eqn:E.
    + left. exists x. split; [left; reflexivity|]. split; [apply (key_eqb_eq l c (tgt_key x)); exact E|]. inversion H. reflexivity.
    + right. exact H.
Qed.

(** * the two directions are mutually inverse when no two insertions share a template position or a generated position *)
Theorem round_trip_source es l c tl tc :
  NoDup (map src_key es) -> NoDup (map tgt_key es) ->
  s2t es l c = Some (tl, tc) -> t2s es tl tc = Some (l, c).
Proof.
  intros Hs Ht H. unfold s2t in H. apply s2t_aux_in in H as [[e [He [Hk Hr]]]|H]; [|discriminate].
  inversion Hr; subst tl tc. unfold src_key in Hk. inversion Hk; subst l c.
  unfold t2s. apply t2s_unique; assumption.
Qed.

Theorem round_trip_target es l c sl sc :
  NoDup (map src_key es) -> NoDup (map tgt_key es) ->
  t2s es l c = Some (sl, sc) -> s2t es sl sc = Some (l, c).
Proof.
  intros Hs Ht H. unfold t2s in H. apply t2s_aux_in in H as [[e [He [Hk Hr]]]|H]; [|discriminate].
  inversion Hr; subst sl sc. unfold tgt_key in Hk. inversion Hk; subst l c.
  unfold s2t. apply s2t_unique; assumption.
Qed.

(** * one Add: on every line of the fragment the translation is a shift by a constant, hence strictly increasing *)
Definition line_shift (a : smadd) (idx : nat) : Z :=
  match idx with O => (sa_tcol a - sa_col a)%Z | _ => 0%Z end.

Lemma add_lines_shape lines : forall idx a e,
  In e (add_lines lines idx a) ->
  exists k, (se_sl e = sa_line a + Z.of_nat (idx + k) - 1)%Z /\ (se_tl e = sa_tline a + Z.of_nat (idx + k) - 1)%Z /\
            (se_tc e - se_sc e = line_shift a (idx + k))%Z /\ (k < List.length lines)%nat.
Proof.
  induction lines as [|ln rest IH]; intros idx a e H; [contradiction|].
  cbn [add_lines] in H. apply in_app_or in H as [H|H].
  - apply in_map_iff in H as [c [<- _]]. exists 0%nat. rewrite Nat.add_0_r. cbn [se_sl se_tl se_sc se_tc List.length].
    repeat split; try lia. unfold line_shift. destruct idx; lia.
  - apply IH in H as [k [H1 [H2 [H3 H4]]]]. exists (S k).
    replace (idx + S k)%nat with (S idx + k)%nat by lia. cbn [List.length]. repeat split; try assumption; lia.
Qed.

Theorem add_is_shift_per_line a e :
  In e (add_entries a) ->
  exists idx, (se_sl e = sa_line a + Z.of_nat idx - 1)%Z /\ (se_tl e = sa_tline a + Z.of_nat idx - 1)%Z /\
              (se_tc e = se_sc e + line_shift a idx)%Z.
Proof.
  unfold add_entries. intro H. apply add_lines_shape in H as [k [H1 [H2 [H3 _]]]]. exists k.
  cbn [Nat.add] in *. repeat split; try assumption. lia.
Qed.

(** two positions of one fragment on the same template line keep their order and distance in the generated code *)
Corollary add_monotone a e1 e2 :
  In e1 (add_entries a) -> In e2 (add_entries a) -> se_sl e1 = se_sl e2 ->
  (se_tl e1 = se_tl e2 /\ se_tc e2 - se_tc e1 = se_sc e2 - se_sc e1)%Z.
Proof.
  intros H1 H2 Hl. apply add_is_shift_per_line in H1 as [i1 [A1 [B1 C1]]]. apply add_is_shift_per_line in H2 as [i2 [A2 [B2 C2]]].
  assert (i1 = i2) by lia. subst i2. split; lia.
Qed.

(** the decidable uniqueness test implies the hypotheses of the round-trip theorems *)
Lemma zpair_mem_in k l : zpair_mem k l = false -> ~ In k l.
Proof.
  induction l as [|x l IH]; intros H Hin; [contradiction|]. cbn [zpair_mem] in H.
  apply orb_false_iff in H as [H1 H2]. destruct Hin as [->|Hin]; [|exact (IH H2 Hin)].
  rewrite !Z.eqb_refl in H1. discriminate.
Qed.

Lemma zpairs_nodup_sound l : zpairs_nodup l = true -> NoDup l.
Proof.
  induction l as [|x l IH]; intro H; [constructor|]. cbn [zpairs_nodup] in H. apply andb_true_iff in H as [H1 H2].
  constructor; [apply zpair_mem_in; destruct (zpair_mem x l); [discriminate|reflexivity]|apply IH; exact H2].
Qed.

Theorem keys_unique_sound es : keys_unique es = true -> NoDup (map src_key es) /\ NoDup (map tgt_key es).
Proof.
  unfold keys_unique. intro H. apply andb_true_iff in H as [H1 H2]. split; apply zpairs_nodup_sound; assumption.
Qed.
