(** The whitespace-removal pass leaves the HTML of a static tree alone when its literals contain no marker
    character (C01 + C14): what Render hands to the destination is then exactly [html_node]. *)
From GV Require Import Compiler.Emit Base.Regex Proofs.NukeProofs Proofs.EmitProofs Proofs.StaticProofs.
From Coq Require Import Lia.
Open Scope N_scope.

Definition clean (s : bytes) : Prop := ~ In 126 s /\ ~ In 226 s.   (* = NukeProofs.inert *)

Lemma clean_app a b : clean a -> clean b -> clean (a ++ b).
Proof. intros [A1 A2] [B1 B2]. split; intro H; apply in_app_or in H as [H|H]; auto. Qed.

Lemma clean_nil : clean [].
Proof. split; intros []. Qed.

Lemma clean_const (s : bytes) : forallb (fun c => negb (N.eqb c 126) && negb (N.eqb c 226)) s = true -> clean s.
Proof.
  intro H. rewrite forallb_forall in H. split; intro Hin; specialize (H _ Hin); cbn in H; discriminate.
Qed.

Lemma clean_escape s : clean s -> clean (html_escape s).
Proof.
  unfold html_escape. induction s as [|c s IH]; intro H; [apply clean_nil|].
  cbn [flat_map]. apply clean_app.
  - unfold esc_byte. repeat match goal with |- context [if ?b then _ else _] => destruct b end;
      try (apply clean_const; reflexivity).
    destruct H as [H1 H2]. split; intros [->|[]]; [apply H1|apply H2]; left; reflexivity.
  - apply IH. destruct H as [H1 H2]. split; intro K; [apply H1|apply H2]; right; exact K.
Qed.

Lemma clean_concat (l : list bytes) : Forall clean l -> clean (List.concat l).
Proof. induction 1 as [|x l Hx _ IH]; [apply clean_nil|]. cbn [List.concat]. apply clean_app; assumption. Qed.

Lemma clean_join (l : list bytes) : Forall clean l -> clean (join (lit " ") l).
Proof.
  induction 1 as [|x l Hx Hl IH]; [apply clean_nil|]. cbn [join]. destruct l as [|y l']; [exact Hx|].
  apply clean_app; [exact Hx|]. apply clean_app; [apply clean_const; reflexivity|exact IH].
Qed.

(** the literals of a static tree hold no marker character *)
Definition clean_attr (a : attribute) : Prop := clean (a_name a) /\ clean (a_value a).

Definition clean_elem (d : elem) : Prop :=
  clean (e_tag d) /\ clean (e_id d) /\ Forall (fun c => clean (t_lit c)) (e_classes d) /\ Forall (fun kv => clean_attr (snd kv)) (e_attrs d).

Fixpoint clean_node (n : node) : Prop :=
  match n with
  | Node k ch =>
    let all := (fix all (l : list node) : Prop := match l with [] => True | c :: r => clean_node c /\ all r end) in
    match k with
    | KElement _ _ d => clean_elem d /\ all ch
    | KText o => clean (t_lit o)
    | KComment o _ => clean (t_lit o)
    | _ => True
    end
  end.

Ltac cc := first [apply clean_const; reflexivity | assumption | apply clean_escape; assumption].

Lemma clean_attr_html a : clean_attr a -> clean (attr_html a).
Proof.
  intros [Hn Hv]. unfold attr_html. destruct (a_value a) eqn:E.
  - apply clean_app; cc.
  - repeat (apply clean_app; try cc).
Qed.

Lemma clean_html_node n : clean_node n -> clean (html_node n).
Proof.
  induction n as [k ch IH] using node_ind2. intro H. cbn [clean_node] in H. cbn [html_node]. rewrite html_kids_eq.
  destruct k; try apply clean_nil; try (apply clean_const; reflexivity).
  - (* element *)
    destruct H as [(Ht & Hi & Hc & Ha) Hch].
    assert (Hkids : clean (html_list ch)).
    { unfold html_list. apply clean_concat. clear - IH Hch. induction IH as [|c r Hc _ IHr]; [constructor|].
      destruct Hch as [H1 H2]. constructor; [apply Hc; exact H1|apply IHr; exact H2]. }
    apply clean_app.
    + unfold elem_open_html. apply clean_app; [cc|]. apply clean_app; [cc|].
      apply clean_app; [destruct (e_id d) eqn:E; [apply clean_nil|repeat (apply clean_app; try cc)]|].
      apply clean_app.
      * unfold class_html. destruct (e_classes d) eqn:E; [apply clean_nil|]. repeat (apply clean_app; try cc).
        apply clean_escape. apply clean_join. clear - Hc. induction Hc; constructor; assumption.
      * apply clean_app; [|cc]. apply clean_concat. clear - Ha. induction Ha as [|kv l Hkv _ IHa]; [constructor|].
        constructor; [apply clean_attr_html; exact Hkv|exact IHa].
    + destruct (e_selfclosing d); [apply clean_nil|]. apply clean_app; [destruct (only_newline ch); [apply clean_nil|exact Hkids]|].
      repeat (apply clean_app; try cc).
  - (* comment *) repeat (apply clean_app; try cc).
  - (* text *) unfold text_html. destruct (toktype_eqb _ TPlainText); cc.
Qed.

Lemma clean_html_list l : (fix all (l : list node) : Prop := match l with [] => True | c :: r => clean_node c /\ all r end) l -> clean (html_list l).
Proof.
  intro H. unfold html_list. apply clean_concat. induction l as [|c r IH]; [constructor|]. destruct H as [H1 H2].
  constructor; [apply clean_html_node; exact H1|apply IH; exact H2].
Qed.

(** the pass is the identity on such a document *)
Theorem nuke_static_document l :
  (fix all (l : list node) : Prop := match l with [] => True | c :: r => clean_node c /\ all r end) l ->
  nuke (html_list l) = html_list l.
Proof. intro H. apply nuke_inert. exact (clean_html_list l H). Qed.
