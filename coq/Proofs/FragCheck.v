(** An executable test for membership in the fragment of SegProofs ([dyn_node], [kids_ok]) and its soundness: a
    template body that passes the test satisfies the hypotheses of the fragment theorem.  The test is extracted and
    run by the C01 check on every generated template, so that the evidence says to how much of the corpus the theorem
    applies. *)
From GV Require Import Compiler.Compile Proofs.Utf8Proofs Proofs.QuoteProofs Proofs.EmitProofs Proofs.StaticProofs Proofs.SegProofs.
From Coq Require Import Lia Bool.
Open Scope N_scope.

Definition bytes_okb (s : bytes) : bool := forallb (fun b => N.ltb b 256) s.
Definition plainb (c : N) : bool := N.ltb c 128 && negb (N.eqb c 34) && negb (N.eqb c 92) && negb (N.eqb c 10).
Definition is_nil {A} (l : list A) : bool := match l with [] => true | _ => false end.

Lemma bytes_okb_ok s : bytes_okb s = true -> bytes_ok s.
Proof. unfold bytes_okb, bytes_ok. rewrite forallb_forall, Forall_forall. intros H x Hx. apply N.ltb_lt. apply H. exact Hx. Qed.

Lemma plainb_ok c : plainb c = true -> plain c.
Proof.
  unfold plainb, plain. rewrite !andb_true_iff, !negb_true_iff. intros [[[H1 H2] H3] H4].
  apply N.ltb_lt in H1. apply N.eqb_neq in H2, H3, H4. auto.
Qed.

Lemma forallb_Forall {A} (f : A -> bool) (P : A -> Prop) l : (forall x, f x = true -> P x) -> forallb f l = true -> Forall P l.
Proof. intros H Hf. rewrite forallb_forall in Hf. apply Forall_forall. intros x Hx. apply H. apply Hf. exact Hx. Qed.

Lemma toktype_eqb_eq a b : toktype_eqb a b = true -> a = b.
Proof. destruct a, b; cbn; intro H; try discriminate; reflexivity. Qed.

Lemma is_nil_ok {A} (l : list A) : is_nil l = true -> l = [].
Proof. destruct l; [reflexivity|discriminate]. Qed.

Definition static_classb (c : token) : bool := toktype_eqb (t_typ c) TClass && bytes_okb (t_lit c).
Lemma static_classb_ok c : static_classb c = true -> static_class c.
Proof. unfold static_classb, static_class. rewrite andb_true_iff. intros [H1 H2]. split; [apply toktype_eqb_eq; exact H1|apply bytes_okb_ok; exact H2]. Qed.

Definition dyn_attrb (a : attribute) : bool :=
  forallb plainb (a_name a) &&
  (is_nil (a_value a) || (negb (a_bool a) && negb (a_dyn a) && bytes_okb (a_value a)) || (negb (a_bool a) && a_dyn a) || a_bool a).
Lemma dyn_attrb_ok a : dyn_attrb a = true -> dyn_attr a.
Proof.
  unfold dyn_attrb, dyn_attr. rewrite andb_true_iff. intros [H1 H2]. split; [apply (forallb_Forall plainb); [apply plainb_ok|exact H1]|].
  rewrite !orb_true_iff in H2. destruct H2 as [[[H|H]|H]|H].
  - left. apply is_nil_ok. exact H.
  - right; left. rewrite !andb_true_iff, !negb_true_iff in H. destruct H as [[Ha Hb] Hc]. repeat split; try assumption. apply bytes_okb_ok. exact Hc.
  - right; right; left. rewrite andb_true_iff, negb_true_iff in H. exact H.
  - right; right; right. exact H.
Qed.

Definition class_valueb (c : token) : bool :=
  toktype_eqb (t_typ c) TAttrDynamicValue ||
  (toktype_eqb (t_typ c) TAttrEscapedValue && match go_unquote (t_lit c) with Some n => bytes_okb n | None => false end).
Lemma class_valueb_ok c : class_valueb c = true -> class_value c.
Proof.
  unfold class_valueb, class_value, quoted_value. rewrite orb_true_iff, andb_true_iff. intros [H|[H1 H2]].
  - left. apply toktype_eqb_eq. exact H.
  - right. split; [apply toktype_eqb_eq; exact H1|]. destruct (go_unquote (t_lit c)) as [n|]; [|discriminate]. exists n. split; [reflexivity|apply bytes_okb_ok; exact H2].
Qed.

Definition dyn_elemb (d : elem) : bool :=
  bytes_okb (e_tag d) && bytes_okb (e_id d) && forallb static_classb (e_classes d) &&
  match e_objref d with Some o => toktype_eqb (t_typ o) TObjectRef | None => true end &&
  match omap_get (e_attrs d) (lit "class") with Some c => class_valueb (a_origin c) | None => true end &&
  forallb (fun kv => dyn_attrb (snd kv)) (e_attrs d).
Lemma dyn_elemb_ok d : dyn_elemb d = true -> dyn_elem d.
Proof.
  unfold dyn_elemb, dyn_elem. rewrite !andb_true_iff. intros [[[[[H1 H2] H3] H4] H5] H6].
  split; [apply bytes_okb_ok; exact H1|]. split; [apply bytes_okb_ok; exact H2|].
  split; [apply (forallb_Forall static_classb); [apply static_classb_ok|exact H3]|].
  split; [intros o Ho; rewrite Ho in H4; apply toktype_eqb_eq; exact H4|].
  split; [intros c Hc; rewrite Hc in H5; apply class_valueb_ok; exact H5|].
  apply (forallb_Forall (fun kv => dyn_attrb (snd kv))); [intros kv; apply dyn_attrb_ok|exact H6].
Qed.

Fixpoint adj_okb (l : list node) : bool :=
  match l with
  | c :: r => implb (ho r) (is_block c) && implb (is_block c) (negb (closes r)) && implb (manual_open c) (closes r) && adj_okb r
  | [] => true
  end.
Definition kids_okb (l : list node) : bool := negb (ho l) && adj_okb l.

Lemma adj_okb_ok l : adj_okb l = true -> adj_ok l.
Proof.
  induction l as [|c r IH]; [intros _; exact I|]. cbn [adj_okb adj_ok]. rewrite !andb_true_iff. intros [[[H1 H2] H3] H4].
  split; [intro K; rewrite K in H1; exact H1|]. split; [intro K; rewrite K in H2; cbn in H2; apply negb_true_iff in H2; exact H2|].
  split; [intro K; rewrite K in H3; exact H3|apply IH; exact H4].
Qed.
Lemma kids_okb_ok l : kids_okb l = true -> kids_ok l.
Proof. unfold kids_okb, kids_ok. rewrite andb_true_iff, negb_true_iff. intros [H1 H2]. split; [exact H1|apply adj_okb_ok; exact H2]. Qed.

Definition raw_childb (n : node) : bool :=
  match n with
  | Node (KText o) _ => toktype_eqb (t_typ o) TDynamicText || bytes_okb (t_lit o)
  | Node (KScript _) _ => true
  | _ => false
  end.
Lemma raw_childb_ok n : raw_childb n = true -> raw_child n.
Proof.
  destruct n as [k ch]. destruct k; cbn [raw_childb raw_child]; try discriminate; [|intros _; exact I].
  destruct (toktype_eqb (t_typ origin) TDynamicText) eqn:E; [intros _; left; reflexivity|]. cbn [orb]. intro H. right. split; [apply bytes_okb_ok; exact H|reflexivity].
Qed.

Definition dyn_textb (o : token) : bool :=
  toktype_eqb (t_typ o) TDynamicText || (bytes_okb (t_lit o) && negb (toktype_eqb (t_typ o) TPreserveText)).
Lemma dyn_textb_ok o : dyn_textb o = true -> dyn_text o.
Proof.
  unfold dyn_textb, dyn_text, static_text. destruct (toktype_eqb (t_typ o) TDynamicText) eqn:E; [intros _; right; reflexivity|].
  cbn [orb]. rewrite andb_true_iff, negb_true_iff. intros [H1 H2]. left. repeat split; [apply bytes_okb_ok; exact H1|exact H2].
Qed.

Definition silent_okb (o : token) : bool :=
  let code := go_trim_space (t_lit o) in
  (any_prefix c_openingStatements code && negb (has_suffix (lit "{") code) && negb (has_prefix (lit "}") code)) ||
  (negb (any_prefix c_openingStatements code) && negb (any_prefix c_elseStatements (t_lit o))) ||
  (any_prefix c_openingStatements code && has_suffix (lit "{") code && negb (any_prefix c_elseStatements (t_lit o))).

(** the test, node by node *)
Fixpoint dyn_nodeb (n : node) : bool :=
  match n with
  | Node k ch =>
    let all := (fix all (l : list node) : bool := match l with [] => true | c :: r => dyn_nodeb c && all r end) in
    match k with
    | KElement _ _ d => dyn_elemb d && kids_okb ch && all ch
    | KText o => dyn_textb o
    | KScript _ => true
    | KNewLine _ => true
    | KDoctype _ => true
    | KComment o _ => match t_lit o with [] => kids_okb ch && all ch | _ => bytes_okb (t_lit o) end
    | KFilter FJavaScript _ _ | KFilter FCss _ _ => kids_okb ch && all ch
    | KFilter FText o _ =>
      if beqb (t_lit o) (lit "escaped") then kids_okb ch && all ch
      else (beqb (t_lit o) (lit "plain") || beqb (t_lit o) (lit "preserve")) && forallb raw_childb ch
    | KSilent o _ _ =>
      match ch with
      | [] => negb (any_prefix c_elseStatements (t_lit o))
      | _ => silent_okb o && kids_okb ch && all ch
      end
    | KUnescape _ _ => forallb raw_childb ch
    | KChildren _ => true
    | KRender _ _ => kids_okb ch && all ch
    | _ => false
    end
  end.

Definition allb (l : list node) : bool := forallb dyn_nodeb l.
Lemma all_eq (l : list node) :
  (fix all (l : list node) : bool := match l with [] => true | c :: r => dyn_nodeb c && all r end) l = allb l.
Proof. induction l as [|c r IH]; [reflexivity|]. cbn [allb forallb]. rewrite IH. reflexivity. Qed.

Definition body_in_fragment (body : list node) : bool := allb body && kids_okb body.

Lemma allb_Forall l : Forall (fun c => dyn_nodeb c = true -> dyn_node c) l -> allb l = true -> Forall dyn_node l.
Proof.
  induction 1 as [|c r Hc _ IH]; [constructor|]. cbn [allb forallb]. rewrite andb_true_iff. intros [H1 H2].
  constructor; [apply Hc; exact H1|apply IH; exact H2].
Qed.

Theorem dyn_nodeb_ok n : dyn_nodeb n = true -> dyn_node n.
Proof.
  induction n as [k ch IH] using node_ind2. cbn [dyn_nodeb dyn_node]. rewrite !all_eq.
  assert (Hall : allb ch = true -> (fix all (l : list node) : Prop := match l with [] => True | c :: r => dyn_node c /\ all r end) ch).
  { intro H. apply dyn_all_eq. apply allb_Forall; assumption. }
  assert (Hraw : forallb raw_childb ch = true -> Forall raw_child ch) by (apply forallb_Forall; apply raw_childb_ok).
  destruct k; try discriminate; try (intros _; exact I).
  - (* element *)
    rewrite !andb_true_iff. intros [[H1 H2] H3]. split; [apply dyn_elemb_ok; exact H1|]. split; [apply kids_okb_ok; exact H2|apply Hall; exact H3].
  - (* comment *)
    destruct (t_lit origin) as [|b0 t] eqn:El.
    + rewrite andb_true_iff. intros [H1 H2]. right. split; [reflexivity|]. split; [apply kids_okb_ok; exact H1|apply Hall; exact H2].
    + intro H. left. split; [discriminate|apply bytes_okb_ok; exact H].
  - (* text *) apply dyn_textb_ok.
  - (* unescape *) exact Hraw.
  - (* silent *)
    destruct ch as [|c0 ch0].
    + rewrite negb_true_iff. exact (fun H => H).
    + rewrite !andb_true_iff. intros [[H1 H2] H3]. split; [|split; [apply kids_okb_ok; exact H2|apply Hall; exact H3]].
      unfold silent_okb in H1. cbv zeta in H1. rewrite !orb_true_iff, !andb_true_iff, !negb_true_iff in H1.
      destruct H1 as [[[[Ha Hb] Hc]|[Ha Hb]]|[[Ha Hb] Hc]].
      * left. unfold block_stmt. cbv zeta. repeat split; assumption.
      * right; left. split; assumption.
      * right; right. repeat split; assumption.
  - (* render *)
    rewrite andb_true_iff. intros [H1 H2]. split; [apply kids_okb_ok; exact H1|apply Hall; exact H2].
  - (* filters *)
    destruct fk.
    + rewrite andb_true_iff. intros [H1 H2]. split; [apply kids_okb_ok; exact H1|apply Hall; exact H2].
    + rewrite andb_true_iff. intros [H1 H2]. split; [apply kids_okb_ok; exact H1|apply Hall; exact H2].
    + destruct (beqb (t_lit origin) (lit "escaped")) eqn:Ee.
      * rewrite andb_true_iff. intros [H1 H2]. left. split; [apply beqb_eq; exact Ee|]. split; [apply kids_okb_ok; exact H1|apply Hall; exact H2].
      * rewrite andb_true_iff, orb_true_iff. intros [[Hp|Hp] H2]; right; [left|right]; (split; [apply beqb_eq; exact Hp|apply Hraw; exact H2]).
Qed.

Theorem body_in_fragment_sound body : body_in_fragment body = true -> Forall dyn_node body /\ kids_ok body.
Proof.
  unfold body_in_fragment. rewrite andb_true_iff. intros [H1 H2]. split; [|apply kids_okb_ok; exact H2].
  apply allb_Forall; [|exact H1]. apply Forall_forall. intros c _. apply dyn_nodeb_ok.
Qed.

(** the test for a whole file: every template body of an accepted file *)
Definition file_in_fragment (input : bytes) : option (nat * nat) :=
  match compile_parse input with
  | ODone (Node _ items) None =>
    let bodies := List.concat (map (fun it => match it with Node (KGoht _) body => [body] | _ => [] end) items) in
    Some (List.length (filter body_in_fragment bodies), List.length bodies)
  | _ => None
  end.
