(** The target half of the source map (C07): the writer's line/column counter always is the position of the
    end of the generated text, and every recorded entry points at the place in the generated text where the
    recorded fragment was written. *)
From GV Require Import Compiler.Emit Proofs.EmitProofs Proofs.EmitInv.
From Coq Require Import Lia.
Open Scope N_scope.

(** last index from the right, as a structural function *)
Fixpoint lib (c : N) (s : bytes) : option nat :=
  match s with
  | [] => None
  | x :: s' => match lib c s' with Some j => Some (S j) | None => if N.eqb x c then Some 0%nat else None end
  end.

Lemma last_index_aux_spec c s : forall i acc,
  last_index_byte_aux c s i acc = match lib c s with Some j => Some (i + j)%nat | None => acc end.
Proof.
  induction s as [|x s IH]; intros i acc; [reflexivity|].
  cbn [last_index_byte_aux lib]. rewrite IH. destruct (lib c s) as [j|].
  - f_equal. lia.
  - destruct (N.eqb x c); [f_equal; lia|reflexivity].
Qed.

Lemma last_index_spec c s : last_index_byte c s = lib c s.
Proof. unfold last_index_byte. rewrite last_index_aux_spec. destruct (lib c s); reflexivity. Qed.

Lemma lib_lt c s j : lib c s = Some j -> (j < List.length s)%nat.
Proof.
  revert j. induction s as [|x s IH]; intros j H; [discriminate|]. cbn [lib] in H. cbn [List.length].
  destruct (lib c s) as [k|].
  - injection H as <-. specialize (IH k eq_refl). lia.
  - destruct (N.eqb x c); [injection H as <-; lia|discriminate].
Qed.

Lemma lib_app c a b : lib c (a ++ b) = match lib c b with Some j => Some (List.length a + j)%nat | None => lib c a end.
Proof.
  induction a as [|x a IH]; [cbn; destruct (lib c b); reflexivity|].
  cbn [app lib List.length]. rewrite IH. destruct (lib c b); reflexivity.
Qed.

Lemma count_byte_app c a b : count_byte c (a ++ b) = (count_byte c a + count_byte c b)%nat.
Proof. induction a as [|x a IH]; [reflexivity|]. cbn [app count_byte]. rewrite IH. lia. Qed.

(** the position after writing [s] at position [p] (1-based line and column, in bytes) *)
Definition pos_after (p : Z * Z) (s : bytes) : Z * Z :=
  ((fst p + Z.of_nat (count_byte 10 s))%Z,
   match last_index_byte 10 s with
   | Some i => Z.of_nat (List.length s - i)
   | None => (snd p + Z.of_nat (List.length s))%Z
   end).

Definition pos_of (s : bytes) : Z * Z := pos_after (1%Z, 1%Z) s.

Lemma pos_after_app p a b : pos_after (pos_after p a) b = pos_after p (a ++ b).
Proof.
  unfold pos_after. cbn [fst snd]. rewrite !last_index_spec, lib_app, count_byte_app, app_length. f_equal; [lia|].
  destruct (lib 10 b) as [j|] eqn:Eb.
  - pose proof (lib_lt _ _ _ Eb). f_equal. lia.
  - destruct (lib 10 a) as [i|] eqn:Ea.
    + pose proof (lib_lt _ _ _ Ea). lia.
    + lia.
Qed.

Lemma pos_after_nil p : pos_after p [] = p.
Proof. destruct p as [l c]. unfold pos_after. cbn. f_equal; lia. Qed.

(** * the invariant *)
Definition entry_ok (out : bytes) (a : smadd) : Prop :=
  exists pre post, out = pre ++ sa_text a ++ post /\ pos_of pre = (sa_tline a, sa_tcol a).

Definition J (st : est) : Prop :=
  (w_line (fst st), w_col (fst st)) = pos_of (txt st) /\ Forall (entry_ok (txt st)) (w_adds (fst st)).

Lemma entry_ok_grow out x a : entry_ok out a -> entry_ok (out ++ x) a.
Proof. intros (pre & post & -> & Hp). exists pre, (post ++ x). split; [rewrite <- !app_assoc; reflexivity|exact Hp]. Qed.

Lemma concat_rev_cons (x : bytes) o : List.concat (rev (x :: o)) = List.concat (rev o) ++ x.
Proof. cbn [rev]. rewrite concat_app. cbn. rewrite app_nil_r. reflexivity. Qed.

Lemma J_wr x st : J st -> J (wr x st).
Proof.
  destruct st as [[o n l c a e] loc]. unfold J, txt. intros [Hp Ha]. unfold wr, write, w_write. cbn [fst snd w_err w_out w_line w_col w_adds] in *.
  destruct e; cbn [fst snd w_out w_line w_col w_adds]; [split; assumption|].
  rewrite concat_rev_cons. split.
  - unfold pos_of in *. rewrite <- pos_after_app, <- Hp. reflexivity.
  - eapply Forall_impl; [|exact Ha]. intros a0. apply entry_ok_grow.
Qed.

Lemma J_set_local l st : J st -> J (set_local st l).
Proof. destruct st as [w loc]. exact (fun H => H). Qed.

Lemma J_after_var st : J st -> J (after_var st).
Proof. destruct st as [[o n l c a e] loc]. unfold after_var, get_var_name. cbn [fst snd w_err]. destruct e; exact (fun H => H). Qed.

Lemma J_reset st : J st -> J (reset_var_name st).
Proof. destruct st as [[o n l c a e] loc]. exact (fun H => H). Qed.

Lemma J_fail m st : J st -> J (fail_with m st).
Proof. destruct st as [[o n l c a e] loc]. unfold fail_with. cbn [fst snd w_err]. destruct e; exact (fun H => H). Qed.

(** writing a fragment and recording it: the new entry points at the start of what was just written *)
Lemma J_write_record sm x t st0 : J st0 -> J (tw_add sm t x (fst (write x st0)) (snd (write x st0))).
Proof.
  intro H0. pose proof (J_wr x st0 H0) as Hw. revert H0 Hw.
  destruct st0 as [[o n l c a e] loc]. unfold J, txt, wr, write, w_write, tw_add. cbn [fst snd w_err w_out w_line w_col w_adds].
  destruct e; cbn [fst snd w_err w_out w_line w_col w_adds]; intros [Hp Ha] [Hp' Ha']; [split; assumption|].
  destruct sm; cbn [fst snd w_err w_out w_line w_col w_adds]; [|split; assumption].
  split; [exact Hp'|]. constructor; [|exact Ha'].
  rewrite concat_rev_cons. exists (List.concat (rev o)), []. cbn [sa_text sa_tline sa_tcol]. split; [rewrite app_nil_r; reflexivity|].
  symmetry. exact Hp.
Qed.

Lemma J_write_add sm x t st : J st -> J (tw_write_add sm x t st).
Proof.
  intro H. unfold tw_write_add, tw_write. apply J_write_record.
  apply (close_if_static_inv J J_wr J_set_local). exact H.
Qed.

Lemma J_write_indent_add sm x t st : J st -> J (tw_write_indent_add sm x t st).
Proof.
  intro H. unfold tw_write_indent_add, tw_write_indent. apply J_write_record. apply J_wr.
  apply (close_if_static_inv J J_wr J_set_local). exact H.
Qed.

Lemma J_init : J init_st.
Proof. split; [reflexivity|constructor]. Qed.

(** every tree: after emission the counter is the end position and every entry points at its text *)
Theorem emit_tree_targets sm root :
  let w := emit_tree sm root in
  (w_line w, w_col w) = pos_of (output_of w) /\
  Forall (fun a => exists pre post, output_of w = pre ++ sa_text a ++ post /\ pos_of pre = (sa_tline a, sa_tcol a)) (w_adds w).
Proof.
  cbv zeta. unfold emit_tree.
  pose proof (emit_node_inv J J_wr J_set_local J_after_var True (fun _ => J_reset) J_fail
                (fun sm t st => J_write_add sm (t_lit t) t st)
                (fun sm t st => J_write_add sm (go_trim_space (t_lit t)) t st)
                (fun sm a st => J_write_add sm (a_value a) (a_origin a) st)
                (fun sm t st => J_write_indent_add sm (t_lit t) t st)
                sm root (goht_ok_True root) None false init_st J_init) as H.
  exact H.
Qed.

(** character [k] of a recorded fragment sits in the generated text at the position reached by walking the
    fragment's first [k] characters from the recorded target *)
Theorem fragment_chars_at_target sm root a k :
  let w := emit_tree sm root in
  In a (w_adds w) -> (k < List.length (sa_text a))%nat ->
  exists pre post, output_of w = pre ++ [nth k (sa_text a) 0] ++ post /\
                   pos_of pre = pos_after (sa_tline a, sa_tcol a) (firstn k (sa_text a)).
Proof.
  cbv zeta. intros Hin Hk. destruct (emit_tree_targets sm root) as [_ Hall].
  rewrite Forall_forall in Hall. destruct (Hall a Hin) as (pre & post & Hout & Hpos).
  exists (pre ++ firstn k (sa_text a)), (skipn (S k) (sa_text a) ++ post). split.
  - rewrite Hout. rewrite <- !app_assoc. f_equal.
    rewrite <- (firstn_skipn k (sa_text a)) at 1. rewrite <- app_assoc. f_equal.
    rewrite app_assoc. f_equal.
    clear - Hk. revert k Hk. induction (sa_text a) as [|x l IH]; intros k Hk; [cbn in Hk; lia|].
    destruct k as [|k]; [reflexivity|]. cbn [skipn nth]. apply IH. cbn in Hk. lia.
  - unfold pos_of. rewrite <- pos_after_app. fold (pos_of pre). rewrite Hpos. reflexivity.
Qed.

Lemma pos_after_no_newline p s : count_byte 10 s = 0%nat -> pos_after p s = (fst p, (snd p + Z.of_nat (List.length s))%Z).
Proof.
  intro H. unfold pos_after. rewrite last_index_spec, H.
  assert (Hl : lib 10 s = None).
  { induction s as [|x s IH]; [reflexivity|]. cbn [count_byte] in H. cbn [lib].
    destruct (N.eqb_spec 10 x) as [<-|Hne]; [lia|]. rewrite IH by lia.
    destruct (N.eqb_spec x 10); [congruence|reflexivity]. }
  rewrite Hl. f_equal. lia.
Qed.

(** on one line: column [tcol + k] *)
Corollary fragment_chars_same_line sm root a k :
  let w := emit_tree sm root in
  In a (w_adds w) -> (k < List.length (sa_text a))%nat -> count_byte 10 (firstn k (sa_text a)) = 0%nat ->
  exists pre post, output_of w = pre ++ [nth k (sa_text a) 0] ++ post /\
                   pos_of pre = (sa_tline a, (sa_tcol a + Z.of_nat k)%Z).
Proof.
  cbv zeta. intros Hin Hk Hnl. destruct (fragment_chars_at_target sm root a k Hin Hk) as (pre & post & Ho & Hp).
  exists pre, post. split; [exact Ho|]. rewrite Hp, (pos_after_no_newline _ _ Hnl). cbn [fst snd]. f_equal. f_equal.
  rewrite firstn_length. lia.
Qed.

(** * End to end, for a fragment on one line *)
From GV Require Import Compiler.SrcMap Proofs.SrcMapProofs.

Lemma split_no_newline_aux s : forall cur, count_byte 10 s = 0%nat -> split_byte_aux 10 s cur = [rev cur ++ s].
Proof.
  induction s as [|x s IH]; intros cur H; [cbn; rewrite app_nil_r; reflexivity|].
  cbn [count_byte] in H. cbn [split_byte_aux]. destruct (N.eqb_spec 10 x) as [<-|Hne]; [lia|].
  destruct (N.eqb_spec x 10); [congruence|]. rewrite IH by lia. cbn [rev]. rewrite <- app_assoc. reflexivity.
Qed.

Lemma split_no_newline s : count_byte 10 s = 0%nat -> split_byte 10 s = [s].
Proof. intro H. unfold split_byte. rewrite split_no_newline_aux by exact H. reflexivity. Qed.

Lemma in_cols_upto n k : (k <= n)%nat -> In k (cols_upto n).
Proof.
  induction n as [|n IH]; intro H; cbn [cols_upto]; [left; lia|].
  apply in_or_app. destruct (Nat.eq_dec k (S n)) as [->|Hne]; [right; left; reflexivity|left; apply IH; lia].
Qed.

Lemma single_line_entry a k : count_byte 10 (sa_lit a) = 0%nat -> (k <= List.length (sa_lit a))%nat ->
  In (mkSE (sa_line a - 1) (sa_col a - 1 + Z.of_nat k) (sa_tline a - 1) (sa_tcol a - 1 + Z.of_nat k))%Z (add_entries a).
Proof.
  intros Hnl Hk. unfold add_entries. rewrite (split_no_newline _ Hnl). cbn [add_lines]. rewrite app_nil_r.
  apply in_map_iff. exists k. split; [|apply in_cols_upto; exact Hk].
  f_equal; lia.
Qed.

Theorem fragment_position_maps_to_same_char root out adds err a k :
  compose root = (out, adds, err) ->
  keys_unique (sm_entries adds) = true ->
  In a adds -> sa_text a = sa_lit a -> count_byte 10 (sa_lit a) = 0%nat -> (k < List.length (sa_lit a))%nat ->
  s2t (sm_entries adds) (sa_line a - 1) (sa_col a - 1 + Z.of_nat k) = Some (sa_tline a - 1, sa_tcol a - 1 + Z.of_nat k)%Z /\
  exists pre post, out = pre ++ [nth k (sa_lit a) 0] ++ post /\ pos_of pre = (sa_tline a, (sa_tcol a + Z.of_nat k)%Z).
Proof.
  intros Hc Hu Hin Htext Hnl Hk. unfold compose in Hc. injection Hc as Hout Hadds Herr.
  split.
  - destruct (keys_unique_sound _ Hu) as [Hnd _].
    pose proof (single_line_entry a k Hnl (Nat.lt_le_incl _ _ Hk)) as He.
    assert (Hin' : In (mkSE (sa_line a - 1) (sa_col a - 1 + Z.of_nat k) (sa_tline a - 1) (sa_tcol a - 1 + Z.of_nat k))%Z (sm_entries adds)).
    { unfold sm_entries. apply in_flat_map. exists a. split; assumption. }
    exact (s2t_unique _ _ None Hnd Hin').
  - subst out. rewrite <- Htext.
    apply (fragment_chars_same_line true root a k).
    + subst adds. apply in_rev in Hin. exact Hin.
    + rewrite Htext. exact Hk.
    + rewrite Htext. clear - Hnl. revert k. induction (sa_lit a) as [|x l IH]; intro k; [destruct k; reflexivity|].
      destruct k; [reflexivity|]. cbn [firstn count_byte] in *. destruct (N.eqb 10 x); [lia|]. apply IH. lia.
Qed.
