(** The whitespace-removal pass (property C14): what it removes and what it leaves alone.
    The proofs use the concrete marker constants regenerated from runtime.go. *)
From GV Require Import Base.Regex.
Open Scope N_scope.

(** text that cannot take part in a marker: no '~' and no first byte of the radioactive sign *)
Definition inert (s : bytes) : Prop := ~ In 126 s /\ ~ In 226 s.

Definition all_ws (s : bytes) : Prop := Forall (fun c => re_space c = true) s.

Lemma nuke_aux_fuel_irrelevant : forall f1 f2 s, (List.length s < f1)%nat -> (List.length s < f2)%nat -> nuke_aux f1 s = nuke_aux f2 s.
Proof.
  assert (Hd : forall s, (List.length (drop_ws s) <= List.length s)%nat).
  { induction s as [|c s IH]; [cbn; lia|]. cbn [drop_ws]. destruct (re_space c); cbn [List.length]; lia. }
  induction f1 as [|f1 IH]; intros f2 s H1 H2; [lia|].
  destruct f2 as [|f2]; [lia|]. cbn [nuke_aux]. destruct s as [|c rest]; [reflexivity|].
  cbn [List.length] in H1, H2.
  destruct (has_prefix c_NukeAfter (c :: rest)).
  - apply IH.
    + pose proof (Hd (skipn (List.length c_NukeAfter) (c :: rest))). pose proof (skipn_length (List.length c_NukeAfter) (c :: rest)).
      change (List.length c_NukeAfter) with 5%nat in *; change (List.length c_NukeBefore) with 5%nat in *; cbn [List.length] in *; lia.
    + pose proof (Hd (skipn (List.length c_NukeAfter) (c :: rest))). pose proof (skipn_length (List.length c_NukeAfter) (c :: rest)).
      change (List.length c_NukeAfter) with 5%nat in *; change (List.length c_NukeBefore) with 5%nat in *; cbn [List.length] in *; lia.
  - destruct (has_prefix c_NukeBefore (drop_ws (c :: rest))).
    + apply IH.
      * pose proof (skipn_length (List.length c_NukeBefore) (drop_ws (c :: rest))). pose proof (Hd (c :: rest)).
        change (List.length c_NukeAfter) with 5%nat in *; change (List.length c_NukeBefore) with 5%nat in *; cbn [List.length] in *; lia.
      * pose proof (skipn_length (List.length c_NukeBefore) (drop_ws (c :: rest))). pose proof (Hd (c :: rest)).
        change (List.length c_NukeAfter) with 5%nat in *; change (List.length c_NukeBefore) with 5%nat in *; cbn [List.length] in *; lia.
    + f_equal. apply IH; lia.
Qed.

(** one unfolding of [nuke] *)
Lemma nuke_unfold s :
  nuke s = match s with
           | [] => []
           | c :: rest =>
             if has_prefix c_NukeAfter s then nuke (drop_ws (skipn (List.length c_NukeAfter) s))
             else if has_prefix c_NukeBefore (drop_ws s) then nuke (skipn (List.length c_NukeBefore) (drop_ws s))
             else c :: nuke rest
           end.
Proof.
  assert (Hd : forall s, (List.length (drop_ws s) <= List.length s)%nat).
  { induction s0 as [|c s0 IH]; [cbn; lia|]. cbn [drop_ws]. destruct (re_space c); cbn [List.length]; lia. }
  unfold nuke at 1. destruct s as [|c rest]; [reflexivity|]. cbn [nuke_aux].
  destruct (has_prefix c_NukeAfter (c :: rest)).
  - unfold nuke. apply nuke_aux_fuel_irrelevant.
    + pose proof (Hd (skipn (List.length c_NukeAfter) (c :: rest))). pose proof (skipn_length (List.length c_NukeAfter) (c :: rest)).
      change (List.length c_NukeAfter) with 5%nat in *; change (List.length c_NukeBefore) with 5%nat in *; cbn [List.length] in *; lia.
    + lia.
  - destruct (has_prefix c_NukeBefore (drop_ws (c :: rest))).
    + unfold nuke. apply nuke_aux_fuel_irrelevant.
      * pose proof (skipn_length (List.length c_NukeBefore) (drop_ws (c :: rest))). pose proof (Hd (c :: rest)).
        change (List.length c_NukeAfter) with 5%nat in *; change (List.length c_NukeBefore) with 5%nat in *; cbn [List.length] in *; lia.
      * lia.
    + reflexivity.
Qed.

(** `<` : everything that is white space right after the marker goes, the marker goes *)
Theorem nuke_after t : nuke (c_NukeAfter ++ t) = nuke (drop_ws t).
Proof. rewrite nuke_unfold. reflexivity. Qed.

Lemma drop_ws_app_ws ws t : all_ws ws -> drop_ws (ws ++ t) = drop_ws t.
Proof. induction 1 as [|c ws Hc _ IH]; [reflexivity|]. cbn [app drop_ws]. rewrite Hc. exact IH. Qed.

Lemma drop_ws_before t : drop_ws (c_NukeBefore ++ t) = c_NukeBefore ++ t.
Proof. reflexivity. Qed.

(** `>` and the closing side of `<` : the white space in front of the marker goes, the marker goes *)
Theorem nuke_before ws t : all_ws ws -> nuke (ws ++ c_NukeBefore ++ t) = nuke t.
Proof.
  intro Hws. rewrite nuke_unfold.
  destruct (ws ++ c_NukeBefore ++ t) as [|c rest] eqn:E.
  - destruct ws; discriminate.
  - rewrite <- E.
    assert (Ha : has_prefix c_NukeAfter (ws ++ c_NukeBefore ++ t) = false).
    { destruct Hws as [|w ws' Hw _]; [reflexivity|]. cbn [app has_prefix c_NukeAfter].
      destruct (N.eqb_spec 126 w) as [<-|_]; [discriminate|reflexivity]. }
    rewrite Ha, (drop_ws_app_ws _ _ Hws), drop_ws_before. reflexivity.
Qed.

(** text followed by something that is not the tail of a marker is left alone up to its last non-blank character *)
Lemma not_after_head c rest : c <> 126 -> has_prefix c_NukeAfter (c :: rest) = false.
Proof. intro H. cbn [has_prefix c_NukeAfter]. destruct (N.eqb_spec 126 c); [congruence|reflexivity]. Qed.

Definition starts_226 (t : bytes) : Prop := match t with 226 :: _ => True | _ => False end.

(** in inert text that does not end in white space, followed by [t] not starting with byte 226, no match of the
    second alternative can start *)
Lemma no_before_in_text s : forall t,
  inert s -> s <> [] -> re_space (last s 0) = false -> ~ starts_226 t ->
  has_prefix c_NukeBefore (drop_ws (s ++ t)) = false.
Proof.
  induction s as [|c s IH]; intros t [H126 H226] Hne Hlast Ht; [contradiction|].
  cbn [app drop_ws]. destruct (re_space c) eqn:Ec.
  - destruct s as [|d s'].
    + cbn [last] in Hlast. congruence.
    + apply IH; try assumption.
      * split; intro K; [apply H126|apply H226]; right; exact K.
      * discriminate.
  - (* c is the first non-blank: a match needs c = '>' and the next byte 226 *)
    cbn [has_prefix c_NukeBefore]. destruct (N.eqb_spec 62 c) as [<-|_]; [|reflexivity].
    cbn [andb]. destruct (s ++ t) as [|d r] eqn:E; [reflexivity|].
    cbn [has_prefix]. destruct (N.eqb_spec 226 d) as [<-|_]; [|reflexivity].
    exfalso. destruct s as [|d' s'].
    + cbn [app] in E. subst t. apply Ht. exact I.
    + cbn [app] in E. inversion E; subst. apply H226. right. left. reflexivity.
Qed.

Theorem nuke_text s : forall t,
  inert s -> s <> [] -> re_space (last s 0) = false -> ~ starts_226 t ->
  nuke (s ++ t) = s ++ nuke t.
Proof.
  induction s as [|c s IH]; intros t Hi Hne Hlast Ht; [contradiction|].
  rewrite nuke_unfold. cbn [app].
  assert (Hc : c <> 126) by (intro E; apply (proj1 Hi); left; auto).
  rewrite (not_after_head c (s ++ t) Hc).
  change (c :: s ++ t) with ((c :: s) ++ t). rewrite (no_before_in_text (c :: s) t Hi Hne Hlast Ht).
  cbn [app]. f_equal. destruct s as [|d s'].
  - reflexivity.
  - apply IH; [|discriminate| |exact Ht].
    + destruct Hi as [H1 H2]. split; intro K; [apply H1|apply H2]; right; exact K.
    + exact Hlast.
Qed.

(** inert text on its own is returned unchanged: nothing but marker-adjacent white space is ever removed *)
Theorem nuke_inert s : inert s -> nuke s = s.
Proof.
  induction s as [|c s IH]; intro Hi; [reflexivity|].
  rewrite nuke_unfold.
  assert (Hc : c <> 126) by (intro E; apply (proj1 Hi); left; auto).
  rewrite (not_after_head c s Hc).
  assert (Hb : has_prefix c_NukeBefore (drop_ws (c :: s)) = false).
  { clear IH Hc. revert Hi. generalize (c :: s). intro u. induction u as [|x u IHu]; intros [H1 H2]; [reflexivity|].
    cbn [drop_ws]. destruct (re_space x).
    - apply IHu. split; intro K; [apply H1|apply H2]; right; exact K.
    - cbn [has_prefix c_NukeBefore]. destruct (N.eqb_spec 62 x) as [<-|_]; [|reflexivity]. cbn [andb].
      destruct u as [|y u']; [reflexivity|]. cbn [has_prefix].
      destruct (N.eqb_spec 226 y) as [<-|_]; [|reflexivity]. exfalso. apply H2. right. left. reflexivity. }
  rewrite Hb. f_equal. apply IH. destruct Hi as [H1 H2]. split; intro K; [apply H1|apply H2]; right; exact K.
Qed.

(** neither marker can occur in inert text: what Render writes for marker-free content holds no marker *)
Lemma has_prefix_in p : forall s x, has_prefix p s = true -> In x p -> In x s.
Proof.
  induction p as [|a p IH]; intros s x H Hin; [contradiction|].
  destruct s as [|b s]; [discriminate|]. cbn [has_prefix] in H. apply andb_true_iff in H as [H1 H2].
  apply N.eqb_eq in H1. subst b. destruct Hin as [<-|Hin]; [left; reflexivity|right; eapply IH; eauto].
Qed.

Lemma contains_in m : forall s x, contains m s = true -> In x m -> In x s.
Proof.
  induction s as [|b s IH]; intros x H Hin.
  - cbn [contains] in H. rewrite orb_false_r in H. eapply has_prefix_in; eauto.
  - cbn [contains] in H. apply orb_true_iff in H as [H|H]; [eapply has_prefix_in; eauto|right; eapply IH; eauto].
Qed.

Theorem inert_marker_free s : inert s -> contains c_NukeAfter s = false /\ contains c_NukeBefore s = false.
Proof.
  intros [_ H226]. split.
  - destruct (contains c_NukeAfter s) eqn:E; [|reflexivity]. exfalso. apply H226.
    eapply contains_in; [exact E|]. cbn. tauto.
  - destruct (contains c_NukeBefore s) eqn:E; [|reflexivity]. exfalso. apply H226.
    eapply contains_in; [exact E|]. cbn. tauto.
Qed.
