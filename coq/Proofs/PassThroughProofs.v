(** Go code, package clause and imports pass through the emitter intact (C11). *)
From GV Require Import Compiler.Emit Proofs.EmitProofs.
From Coq Require Import Lia.
Open Scope N_scope.

(** a write in a quiet state (no error, no open string literal) appends exactly its text *)
Lemma tw_wr_txt x st : quiet st -> txt (tw_wr x st) = txt st ++ x.
Proof.
  destruct st as [[o n l c a e] loc]. intros [He Hs]. cbn [fst snd w_err] in *. subst e.
  unfold tw_wr, tw_write, close_if_static. cbn [snd]. rewrite Hs. unfold write, w_write, txt. cbn [fst snd w_err w_out rev].
  rewrite concat_app. cbn. rewrite app_nil_r. reflexivity.
Qed.

Lemma tw_wri_txt x st : quiet st -> txt (tw_wri x st) = txt st ++ tabs (wl_indent (snd st)) ++ x.
Proof.
  destruct st as [[o n l c a e] loc]. intros [He Hs]. cbn [fst snd w_err] in *. subst e.
  unfold tw_wri, tw_write_indent, close_if_static. cbn [snd]. rewrite Hs. unfold wr, write, w_write, txt. cbn [fst snd w_err w_out rev].
  rewrite !concat_app. cbn. rewrite !app_nil_r, <- app_assoc. reflexivity.
Qed.

Lemma txt_set_local s l : txt (set_local s l) = txt s.
Proof. reflexivity. Qed.

Lemma tw_add_txt sm t x r st : txt (tw_add sm t x r st) = txt st.
Proof. destruct st as [[o n l c a e] loc]. unfold tw_add, txt. cbn [fst w_err]. destruct e; [reflexivity|]. destruct sm; reflexivity. Qed.

Lemma tw_write_add_txt sm x t st : quiet st -> txt (tw_write_add sm x t st) = txt st ++ x.
Proof. intro H. unfold tw_write_add. rewrite tw_add_txt. fold (tw_wr x st). apply tw_wr_txt. exact H. Qed.

Lemma tw_write_indent_add_txt sm x t st : quiet st -> txt (tw_write_indent_add sm x t st) = txt st ++ tabs (wl_indent (snd st)) ++ x.
Proof. intro H. unfold tw_write_indent_add. rewrite tw_add_txt. fold (tw_wri x st). apply tw_wri_txt. exact H. Qed.

(** * Go code outside templates is written out token by token, unchanged *)
Lemma fold_code_txt sm (toks : list token) : forall st, quiet st ->
  txt (fold_left (fun s (t : token) => if toktype_eqb (t_typ t) TNewLine then tw_wr (t_lit t) s else tw_write_add sm (t_lit t) t s) toks st)
  = txt st ++ List.concat (map t_lit toks).
Proof.
  induction toks as [|t toks IH]; intros st H; [cbn; rewrite app_nil_r; reflexivity|].
  cbn [fold_left map List.concat].
  assert (Hs : quiet (if toktype_eqb (t_typ t) TNewLine then tw_wr (t_lit t) st else tw_write_add sm (t_lit t) t st) /\
               txt (if toktype_eqb (t_typ t) TNewLine then tw_wr (t_lit t) st else tw_write_add sm (t_lit t) t st) = txt st ++ t_lit t).
  { destruct (toktype_eqb (t_typ t) TNewLine).
    - split; [apply tw_wr_quiet; exact H|apply tw_wr_txt; exact H].
    - split; [apply tw_write_add_quiet; exact H|apply tw_write_add_txt; exact H]. }
  destruct Hs as [Hq Ht]. rewrite IH by exact Hq. rewrite Ht, <- app_assoc. reflexivity.
Qed.

Theorem code_item_verbatim toks ch :
  item_text (Node (KCode toks) ch) = List.concat (map t_lit toks) /\ item_err (Node (KCode toks) ch) = None.
Proof.
  unfold item_text, item_err. rewrite emit_node_unfold. unfold emit_node_body. cbn [fst].
  assert (Q0 : quiet init_st) by (split; reflexivity).
  split; [rewrite fold_code_txt by exact Q0; reflexivity|].
  apply (fold_code_quiet false toks init_st Q0).
Qed.

(** * a template becomes a function with exactly the written receiver, name and parameters *)
Lemma appends_only sm n next nc st : exists d, w_out (fst (fst (emit_node sm n next nc st))) = d ++ w_out (fst st).
Proof.
  destruct (emit_node_sim st st sm sm n next nc st st (Rn_refl st)) as [(_ & _ & _ & d & Hd & _) _]. exists d. exact Hd.
Qed.

Lemma list_appends_only sm l : forall nc st, exists d, w_out (fst (emit_list sm l nc st)) = d ++ w_out (fst st).
Proof.
  induction l as [|c rest IH]; intros nc st; [exists []; reflexivity|].
  cbn [emit_list]. destruct (appends_only sm c (hd_error rest) nc st) as [d1 H1].
  destruct (emit_node sm c (hd_error rest) nc st) as [s1 f1]. cbn [fst] in H1.
  destruct (IH f1 s1) as [d2 H2]. exists (d2 ++ d1). rewrite H2, H1, app_assoc. reflexivity.
Qed.

Lemma prim_appends (f : est -> est) :
  (forall b b' s s', Rn b b' true s s' -> Rn b b' true (f s) (f s')) -> forall st, exists d, w_out (fst (f st)) = d ++ w_out (fst st).
Proof. intros Hf st. destruct (Hf st st st st (Rn_refl st)) as (_ & _ & _ & d & Hd & _). exists d. exact Hd. Qed.

Theorem goht_item_signature o ch :
  exists rest, item_text (Node (KGoht o) ch) = lit "func " ++ t_lit o ++ c_gohtEntry ++ rest.
Proof.
  unfold item_text. rewrite emit_node_unfold. unfold emit_node_body. cbv zeta. cbn [fst].
  assert (Q0 : quiet (reset_var_name init_st)) by (split; reflexivity).
  destruct (tw_wr_quiet (lit "func ") _ Q0) as [Q1 _].
  destruct (tw_write_add_quiet false (t_lit o) o _ Q1) as [Q2 _].
  set (st4 := tw_wr c_gohtEntry (tw_write_add false (t_lit o) o (tw_wr (lit "func ") (reset_var_name init_st)))).
  assert (H4 : txt st4 = lit "func " ++ t_lit o ++ c_gohtEntry).
  { subst st4. rewrite tw_wr_txt by exact Q2. rewrite tw_write_add_txt by exact Q1. rewrite tw_wr_txt by exact Q0.
    change (txt (reset_var_name init_st)) with (@nil N). cbn [app]. rewrite <- app_assoc. reflexivity. }
  destruct (list_appends_only false ch false (set_local st4 (indent_local (snd st4) 2))) as [d5 H5].
  set (st5 := emit_list false ch false _) in *.
  destruct (prim_appends tw_close (fun b b' s s' => tw_close_sim b b' true s s') st5) as [d6 H6].
  destruct (prim_appends (tw_wr c_gohtExit) (fun b b' s s' => tw_wr_sim b b' true c_gohtExit s s') (set_local (tw_close st5) (snd st4))) as [d7 H7].
  exists (List.concat (rev (d7 ++ d6 ++ d5))).
  unfold txt at 1. rewrite H7. cbn [set_local fst]. rewrite H6, H5. cbn [set_local fst].
  rewrite !app_assoc, rev_app_distr, concat_app. fold (txt st4). rewrite H4. rewrite <- !app_assoc. reflexivity.
Qed.

(** * the header: package clause, goht's imports once, then the user's imports in order *)
Lemma fold_imports_txt (l : list bytes) : forall st, quiet st ->
  txt (fold_left (fun s i => tw_wr (lit "import " ++ i ++ [10]) s) l st)
  = txt st ++ List.concat (map (fun i => lit "import " ++ i ++ [10]) l).
Proof.
  induction l as [|x l IH]; intros st H; [cbn; rewrite app_nil_r; reflexivity|].
  cbn [fold_left map List.concat]. destruct (tw_wr_quiet (lit "import " ++ x ++ [10]) st H) as [Hq _].
  rewrite IH by exact Hq. rewrite tw_wr_txt by exact H. rewrite <- app_assoc. reflexivity.
Qed.

Lemma fold_user_imports_txt sm (l : list token) : forall st, quiet st -> wl_indent (snd st) = 1%nat ->
  txt (fold_left (fun s (i : token) => tw_wr [10] (tw_write_indent_add sm (t_lit i) i s)) l st)
  = txt st ++ List.concat (map (fun i : token => [9] ++ t_lit i ++ [10]) l).
Proof.
  induction l as [|x l IH]; intros st H Hi; [cbn; rewrite app_nil_r; reflexivity|].
  cbn [fold_left map List.concat].
  destruct (tw_write_indent_add_quiet sm (t_lit x) x st H) as [Hq1 Hl1].
  destruct (tw_wr_quiet [10] _ Hq1) as [Hq2 Hl2].
  rewrite IH; [|exact Hq2|rewrite Hl2, Hl1; exact Hi].
  rewrite tw_wr_txt by exact Hq1. rewrite tw_write_indent_add_txt by exact H. rewrite Hi.
  cbn [tabs brepeat]. rewrite <- !app_assoc. reflexivity.
Qed.

Definition hdr6 (sm : bool) (pkg : token) : est :=
  let st2 := tw_wr (lit "package ") (tw_wr c_header init_st) in
  let st4 := if Z.ltb 0 (t_line pkg) then tw_write_add sm (t_lit pkg) pkg st2 else tw_wr (t_lit pkg) st2 in
  fold_left (fun s i => tw_wr (lit "import " ++ i ++ [10]) s) c_rootImports (tw_wr [10; 10] st4).

Lemma header_state_unfold sm pkg user :
  header_state sm pkg user =
  match user with
  | [] => hdr6 sm pkg
  | _ =>
    let s1 := tw_wr (lit "import (" ++ [10]) (hdr6 sm pkg) in
    let s2 := fold_left (fun s (i : token) => tw_wr [10] (tw_write_indent_add sm (t_lit i) i s)) user (set_local s1 (indent_local (snd s1) 1)) in
    tw_wr (lit ")" ++ [10]) (set_local s2 (snd s1))
  end.
Proof. unfold header_state, hdr6. rewrite emit_node_unfold. unfold emit_node_body. cbn [emit_list fst]. reflexivity. Qed.

Lemma hdr6_facts sm pkg :
  quiet (hdr6 sm pkg) /\ snd (hdr6 sm pkg) = wl_init /\
  txt (hdr6 sm pkg) = c_header ++ lit "package " ++ t_lit pkg ++ [10; 10] ++ List.concat (map (fun i => lit "import " ++ i ++ [10]) c_rootImports).
Proof.
  unfold hdr6. cbv zeta.
  assert (Q0 : quiet init_st) by (split; reflexivity).
  destruct (tw_wr_quiet c_header _ Q0) as [Q1 L1].
  destruct (tw_wr_quiet (lit "package ") _ Q1) as [Q2 L2].
  pose proof (tw_wr_txt (lit "package ") _ Q1) as T2. rewrite (tw_wr_txt c_header _ Q0) in T2.
  change (txt init_st) with (@nil N) in T2. rewrite app_nil_l in T2.
  assert (E2 : snd (tw_wr (lit "package ") (tw_wr c_header init_st)) = wl_init) by (rewrite L2, L1; reflexivity).
  generalize dependent (tw_wr (lit "package ") (tw_wr c_header init_st)). intros st2 Q2 _ T2 E2. clear L1 Q1.
  assert (H4 : forall st4, st4 = (if Z.ltb 0 (t_line pkg) then tw_write_add sm (t_lit pkg) pkg st2 else tw_wr (t_lit pkg) st2) ->
                quiet st4 /\ snd st4 = snd st2 /\ txt st4 = txt st2 ++ t_lit pkg).
  { intros st4 ->. destruct (Z.ltb 0 (t_line pkg)).
    - destruct (tw_write_add_quiet sm (t_lit pkg) pkg _ Q2). split; [assumption|]. split; [assumption|]. apply tw_write_add_txt. exact Q2.
    - destruct (tw_wr_quiet (t_lit pkg) _ Q2). split; [assumption|]. split; [assumption|]. apply tw_wr_txt. exact Q2. }
  destruct (H4 _ eq_refl) as (Q4 & L4 & T4). clear H4.
  generalize dependent (if Z.ltb 0 (t_line pkg) then tw_write_add sm (t_lit pkg) pkg st2 else tw_wr (t_lit pkg) st2). intros st4 Q4 L4 T4.
  destruct (tw_wr_quiet [10; 10] _ Q4) as [Q5 L5].
  pose proof (fold_imports_txt c_rootImports _ Q5) as T6.
  destruct (fold_imports_quiet c_rootImports _ Q5) as [Q6 L6].
  split; [exact Q6|]. split; [rewrite L6, L5, L4; exact E2|].
  rewrite T6, (tw_wr_txt [10; 10] _ Q4), T4, T2. rewrite <- !app_assoc. reflexivity.
Qed.

Theorem header_text_is pkg user :
  header_text pkg user =
    c_header ++ lit "package " ++ t_lit pkg ++ [10; 10] ++
    List.concat (map (fun i => lit "import " ++ i ++ [10]) c_rootImports) ++
    match user with
    | [] => []
    | _ => lit "import (" ++ [10] ++ List.concat (map (fun i : token => [9] ++ t_lit i ++ [10]) user) ++ lit ")" ++ [10]
    end.
Proof.
  unfold header_text. rewrite header_state_unfold.
  destruct (hdr6_facts false pkg) as (Q6 & E6 & T6).
  generalize dependent (hdr6 false pkg). intros st6 Q6 E6 T6.
  destruct user as [|u user].
  - rewrite T6. rewrite <- ?app_assoc. rewrite ?app_nil_r. reflexivity.
  - cbv zeta.
    destruct (tw_wr_quiet (lit "import (" ++ [10]) _ Q6) as [Q7 L7].
    pose proof (tw_wr_txt (lit "import (" ++ [10]) st6 Q6) as T7.
    generalize dependent (tw_wr (lit "import (" ++ [10]) st6). intros s1 Q7 L7 T7.
    assert (Q8 : quiet (set_local s1 (indent_local (snd s1) 1))).
    { destruct Q7 as [A B]. split; [exact A|]. cbn [set_local snd indent_local wl_static]. exact B. }
    assert (I8 : wl_indent (snd (set_local s1 (indent_local (snd s1) 1))) = 1%nat).
    { cbn [set_local snd indent_local wl_indent]. rewrite L7, E6. reflexivity. }
    pose proof (fold_user_imports_txt false (u :: user) _ Q8 I8) as T9.
    destruct (fold_user_imports_quiet false (u :: user) _ Q8) as [Q9 L9].
    generalize dependent (fold_left (fun s (i : token) => tw_wr [10] (tw_write_indent_add false (t_lit i) i s)) (u :: user) (set_local s1 (indent_local (snd s1) 1))).
    intros s2 T9 Q9 L9.
    assert (Q10 : quiet (set_local s2 (snd s1))).
    { destruct Q9 as [A _]. destruct Q7 as [_ B]. split; [exact A|exact B]. }
    rewrite tw_wr_txt by exact Q10.
    rewrite txt_set_local, T9, txt_set_local, T7, T6.
    rewrite <- !app_assoc. reflexivity.
Qed.

(** * the parser's import list: no duplicates, none of goht's own, earlier imports keep their place *)
Definition imports_wf (user : list token) : Prop :=
  NoDup (map t_lit user) /\ forall i, In i user -> mem_bytes (t_lit i) c_rootImports = false.

Lemma existsb_lit_false user t : existsb (fun i => beqb (t_lit i) (t_lit t)) user = false -> ~ In (t_lit t) (map t_lit user).
Proof.
  intros H Hin. apply in_map_iff in Hin as [i [Hi Hin]].
  assert (existsb (fun i => beqb (t_lit i) (t_lit t)) user = true); [|congruence].
  apply existsb_exists. exists i. split; [exact Hin|]. rewrite Hi. apply beqb_refl.
Qed.

Lemma NoDup_snoc {A} (l : list A) x : NoDup l -> ~ In x l -> NoDup (l ++ [x]).
Proof.
  induction 1 as [|y l Hy Hnd IH]; intro Hx; cbn [app]; [constructor; [intros []|constructor]|].
  constructor.
  - intro Hin. apply in_app_or in Hin as [Hin|[<-|[]]]; [contradiction|]. apply Hx. left. reflexivity.
  - apply IH. intro Hin. apply Hx. right. exact Hin.
Qed.

Theorem add_import_wf user t : imports_wf user -> imports_wf (add_import user t).
Proof.
  intros [Hnd Hno]. unfold add_import.
  destruct (mem_bytes (t_lit t) c_rootImports) eqn:Em; [split; assumption|].
  destruct (existsb (fun i => beqb (t_lit i) (t_lit t)) user) eqn:Ee; [split; assumption|].
  split.
  - rewrite map_app. cbn [map]. apply NoDup_snoc; [exact Hnd|]. apply existsb_lit_false. exact Ee.
  - intros i Hi. apply in_app_or in Hi as [Hi|[<-|[]]]; [apply Hno; exact Hi|exact Em].
Qed.

Theorem add_import_keeps user t : exists tail, add_import user t = user ++ tail /\ (tail = [] \/ tail = [t]).
Proof.
  unfold add_import. destruct (mem_bytes (t_lit t) c_rootImports); [exists []; rewrite app_nil_r; auto|].
  destruct (existsb _ user); [exists []; rewrite app_nil_r; auto|]. exists [t]. auto.
Qed.

Theorem add_import_present user t :
  mem_bytes (t_lit t) c_rootImports = true \/ In (t_lit t) (map t_lit (add_import user t)).
Proof.
  unfold add_import. destruct (mem_bytes (t_lit t) c_rootImports) eqn:Em; [left; reflexivity|right].
  destruct (existsb (fun i => beqb (t_lit i) (t_lit t)) user) eqn:Ee.
  - apply existsb_exists in Ee as [i [Hin Hb]]. apply beqb_eq in Hb. rewrite <- Hb. apply in_map. exact Hin.
  - rewrite map_app. apply in_or_app. right. left. reflexivity.
Qed.
