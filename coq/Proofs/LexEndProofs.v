(** Two facts about the token pump that the termination argument of the parser needs (C06):
    pulling a token uses up a linear budget ([tau]), except once the lexer has ended; and when the lexer has ended,
    the last token it delivered is the EOF or an error token. *)
From GV Require Import Compiler.Lexer Proofs.LexProofs Proofs.LexProgressProofs Proofs.LexTotalProofs Proofs.LexWorkProofs.
From Coq Require Import Lia.
Open Scope N_scope.

Definition tau (lx : lexer) : nat := (List.length (lx_queue lx) + 5 * mu2 (lx_state lx) (lx_st lx))%nat.
Definition at_end (lx : lexer) : Prop := lx_state lx = SNil /\ lx_queue lx = [].

Lemma mu2_with_out st l o : mu2 st (with_out l o) = mu2 st l.
Proof. reflexivity. Qed.

Theorem next_token_tau fuel : forall lx t lx', ol (lx_st lx) = 0%nat -> next_token fuel lx = PTok t lx' ->
  (tau lx' < tau lx)%nat \/ (at_end lx /\ lx' = lx).
Proof.
  induction fuel as [|f IH]; intros lx t lx' Hol H; destruct lx as [st l q bl]; cbn [next_token lx_queue lx_state lx_st] in *.
  - destruct q as [|t0 q].
    + destruct st; try discriminate. injection H as _ <-. right. split; [split; reflexivity|reflexivity].
    + injection H as _ <-. left. unfold tau. cbn [lx_queue lx_state lx_st List.length]. lia.
  - destruct q as [|t0 q]; [|injection H as _ <-; left; unfold tau; cbn [lx_queue lx_state lx_st List.length]; lia].
    assert (Hs : st <> SNil ->
       (let '(st', l') := step st l in
        if l_panic l' then PPanic
        else if Nat.ltb c_token_queue_cap (List.length (List.rev (l_out l'))) then PDeadlock
             else next_token f (mkLexer st' (with_out l' []) (List.rev (l_out l')) false)) = PTok t lx' ->
       (tau lx' < tau (mkLexer st l [] bl))%nat).
    { intros Hst K. pose proof (mu2_decreases st l Hst) as [Hd _]. pose proof (step_emits_few st l) as He.
      destruct (step st l) as [st' l']. cbn [fst snd] in *.
      destruct (l_panic l'); [discriminate|]. destruct (Nat.ltb _ _); [discriminate|].
      apply IH in K; [|reflexivity].
      assert (Hm : (tau (mkLexer st' (with_out l' []) (List.rev (l_out l')) false) < tau (mkLexer st l [] bl))%nat).
      { unfold tau. cbn [lx_queue lx_state lx_st List.length]. rewrite rev_length, mu2_with_out. unfold ol in *. cbn [lx_st] in Hol. lia. }
      destruct K as [K|[_ K]]; [lia|rewrite K; exact Hm]. }
    destruct st; try (left; apply Hs; [discriminate|exact H]).
    injection H as _ <-. right. split; [split; reflexivity|reflexivity].
Qed.

(** * when the lexer stops, the last token it sent says so *)
Lemma emit_out_hd t l : exists tk r, l_out (emit t l) = tk :: r /\ t_typ tk = t.
Proof. unfold emit. destruct (position l) as [[line col] bad]. destruct bad; eexists; eexists; split; reflexivity. Qed.

Lemma errorf_shape m l : fst (errorf m l) = SStopped /\ exists tk r, l_out (snd (errorf m l)) = tk :: r /\ t_typ tk = TError.
Proof. unfold errorf. destruct (position l) as [[line col] bad]. destruct bad; (split; [reflexivity|eexists; eexists; split; reflexivity]). Qed.

Definition end_shape (st : lstate) (l : lexst) (r : lstate * lexst) : Prop :=
  match fst r with
  | SNil => ((st = SStopped \/ st = SNil) /\ snd r = l) \/ exists tk q, l_out (snd r) = tk :: q /\ t_typ tk = TEOF
  | SStopped => exists tk q, l_out (snd r) = tk :: q /\ t_typ tk = TError
  | _ => True
  end.

Lemma haml_identifier_shape st0 l0 typ l : end_shape st0 l0 (haml_identifier typ l).
Proof.
  unfold haml_identifier, end_shape. destruct (current _).
  - destruct (errorf_shape (toktype_name typ ++ lit " identifier expected") (accept_until c_mayFollowIdentifier (snd (skip l)))) as [H1 H2].
    rewrite H1. exact H2.
  - exact I.
Qed.

Ltac end_case :=
  repeat first
  [ match goal with
    | |- context [haml_identifier ?t ?x] => apply haml_identifier_shape
    | |- context [errorf ?m ?x] =>
        let H1 := fresh "He" in let H2 := fresh "He" in
        destruct (errorf_shape m x) as [H1 H2]; destruct (errorf m x) as [? ?]; cbn [fst snd] in H1, H2; subst
    end
  | match goal with
    | |- context [if ?c then _ else _] => destruct c
    | |- context [match ?x with _ => _ end] => destruct x
    end ].

Theorem step_end st l : end_shape st l (step st l).
Proof.
  destruct st; unfold step; cbv zeta.
  all: end_case.
  all: unfold end_shape; cbn [fst snd]; try exact I; try assumption.
  all: try (right; apply emit_out_hd).
  all: try (left; split; [auto|reflexivity]).
Qed.

Definition final_tok (t : token) : bool := toktype_eqb (t_typ t) TEOF || toktype_eqb (t_typ t) TError.

(** [pk] is the token delivered last (the parser's look-ahead): once the lexer has stopped, the last token in the
    queue -- or [pk] if the queue is empty -- is the EOF or an error *)
Definition EndInv (lx : lexer) (pk : token) : Prop :=
  match lx_state lx with
  | SNil | SStopped => final_tok (List.last (lx_queue lx) pk) = true
  | _ => True
  end.

Lemma last_cons {A} (a : A) l d : List.last (a :: l) d = List.last l a.
Proof. revert a d. induction l as [|b l IH]; intros a d; [reflexivity|]. change (List.last (a :: b :: l) d) with (List.last (b :: l) d). rewrite (IH b d), (IH b a). reflexivity. Qed.

Lemma last_rev_cons {A} (a : A) l d : List.last (List.rev (a :: l)) d = a.
Proof. cbn [List.rev]. apply last_last. Qed.

Theorem next_token_end fuel : forall lx pk t lx', ol (lx_st lx) = 0%nat -> EndInv lx pk -> next_token fuel lx = PTok t lx' -> EndInv lx' t.
Proof.
  induction fuel as [|f IH]; intros lx pk t lx' Hol Hi H; destruct lx as [st l q bl]; cbn [next_token lx_queue lx_state lx_st] in *.
  - destruct q as [|t0 q].
    + destruct st; try discriminate. injection H as <- <-. reflexivity.
    + injection H as <- <-. unfold EndInv in *. cbn [lx_state lx_queue] in *. rewrite last_cons in Hi. exact Hi.
  - destruct q as [|t0 q]; [|injection H as <- <-; unfold EndInv in *; cbn [lx_state lx_queue] in *; rewrite last_cons in Hi; exact Hi].
    assert (Hs : st <> SNil ->
       (let '(st', l') := step st l in
        if l_panic l' then PPanic
        else if Nat.ltb c_token_queue_cap (List.length (List.rev (l_out l'))) then PDeadlock
             else next_token f (mkLexer st' (with_out l' []) (List.rev (l_out l')) false)) = PTok t lx' -> EndInv lx' t).
    { intros Hst K. pose proof (step_end st l) as He. destruct (step st l) as [st' l']. unfold end_shape in He. cbn [fst snd] in *.
      destruct (l_panic l'); [discriminate|]. destruct (Nat.ltb _ _); [discriminate|].
      apply (IH _ pk) in K; [exact K|reflexivity|].
      unfold EndInv. cbn [lx_state lx_queue].
      destruct st'; try exact I.
      - destruct He as (tk & r & Ho & Ht). rewrite Ho, last_rev_cons. unfold final_tok. rewrite Ht. reflexivity.
      - destruct He as [[[Hs|Hs] Hl]|(tk & r & Ho & Ht)]; [|congruence|].
        + subst st l'. unfold EndInv in Hi. cbn [lx_state lx_queue] in Hi. unfold ol in Hol. cbn [lx_st] in Hol.
          apply length_zero_iff_nil in Hol. rewrite Hol. exact Hi.
        + rewrite Ho, last_rev_cons. unfold final_tok. rewrite Ht. reflexivity. }
    destruct st; try (apply Hs; [discriminate|exact H]). injection H as <- <-. reflexivity.
Qed.
