(** UTF-8: decoding a valid sequence and re-encoding gives the same bytes, and conversely. *)
From GV Require Import Base.GoStr.
From Coq Require Import ZArith ZifyN ZifyBool ZifyNat Lia.
Open Scope N_scope.
Ltac Zify.zify_post_hook ::= Z.div_mod_to_equations.

Definition bytes_ok (s : bytes) : Prop := Forall (fun b => b < 256) s.

Ltac bool_hyps :=
  repeat match goal with
         | H : _ && _ = true |- _ => apply andb_true_iff in H; destruct H
         | H : _ || _ = false |- _ => apply orb_false_iff in H; destruct H
         | H : N.ltb _ _ = true |- _ => apply N.ltb_lt in H
         | H : N.ltb _ _ = false |- _ => apply N.ltb_ge in H
         | H : N.leb _ _ = true |- _ => apply N.leb_le in H
         | H : N.leb _ _ = false |- _ => apply N.leb_gt in H
         | H : N.eqb _ _ = true |- _ => apply N.eqb_eq in H
         | H : N.eqb _ _ = false |- _ => apply N.eqb_neq in H
         end.

(** the sequence [decode_rune] accepted is exactly the encoding of the rune it returned *)
Lemma encode_decode s r n :
  decode_rune s = Some (r, n) -> ~ (n = 1%nat /\ r = 65533) -> encode_rune r = firstn n s /\ valid_rune r = true.
Proof.
  unfold decode_rune. destruct s as [|b0 t]; [discriminate|].
  destruct (N.ltb b0 128) eqn:E0.
  - intros Hdec _. inversion Hdec; subst. bool_hyps. unfold encode_rune, valid_rune.
    destruct (N.ltb_spec r 128); [|lia]. split; [reflexivity|].
    destruct (N.ltb_spec r 55296); [reflexivity|lia].
  - destruct (N.ltb b0 194) eqn:E1; [intros Hdec Hne; inversion Hdec; subst; exfalso; apply Hne; auto|].
    destruct (N.ltb b0 224) eqn:E2.
    + destruct t as [|b1 t']; [intros Hdec Hne; inversion Hdec; subst; exfalso; apply Hne; auto|].
      unfold cont. destruct ((128 <=? b1) && (b1 <? 192)) eqn:Ec; [|intros Hdec Hne; inversion Hdec; subst; exfalso; apply Hne; auto].
      intros Hdec _. inversion Hdec; subst. bool_hyps. unfold encode_rune, valid_rune. cbn [firstn].
      destruct (N.ltb_spec ((b0 - 192) * 64 + (b1 - 128)) 128); [lia|].
      destruct (N.ltb_spec ((b0 - 192) * 64 + (b1 - 128)) 2048); [|lia].
      split.
      * f_equal; [|f_equal]; lia.
      * destruct (N.ltb_spec ((b0 - 192) * 64 + (b1 - 128)) 55296); [reflexivity|lia].
    + destruct (N.ltb b0 240) eqn:E3.
      * destruct t as [|b1 [|b2 t']]; try solve [intros Hdec Hne; inversion Hdec; subst; exfalso; apply Hne; auto].
        unfold cont.
        destruct (((if b0 =? 224 then 160 else 128) <=? b1) && (b1 <=? (if b0 =? 237 then 159 else 191)) && ((128 <=? b2) && (b2 <? 192))) eqn:Ec;
          [|intros Hdec Hne; inversion Hdec; subst; exfalso; apply Hne; auto].
        intros Hdec _. inversion Hdec; subst. clear Hdec. bool_hyps. unfold encode_rune, valid_rune. cbn [firstn].
        set (r := (b0 - 224) * 4096 + (b1 - 128) * 64 + (b2 - 128)).
        assert (Hb1 : 128 <= b1 < 192) by (destruct (N.eqb_spec b0 224); destruct (N.eqb_spec b0 237); lia).
        assert (Hr1 : 2048 <= r < 65536 /\ ~ (55296 <= r <= 57343) /\ r / 4096 = b0 - 224 /\ (r / 64) mod 64 = b1 - 128 /\ r mod 64 = b2 - 128).
        { subst r. destruct (N.eqb_spec b0 224); destruct (N.eqb_spec b0 237); lia. }
        destruct Hr1 as [Hr1 [Hr2 [Hr3 [Hr4 Hr5]]]].
        destruct (N.ltb_spec r 128); [lia|]. destruct (N.ltb_spec r 2048); [lia|].
        assert (Hs : (55296 <=? r) && (r <=? 57343) = false).
        { destruct (N.leb_spec 55296 r); destruct (N.leb_spec r 57343); try reflexivity. lia. }
        rewrite Hs. cbn [orb]. destruct (N.ltb_spec 1114111 r); [lia|]. destruct (N.ltb_spec r 65536); [|lia].
        split.
        -- rewrite Hr3, Hr4, Hr5. f_equal; [|f_equal; [|f_equal]]; lia.
        -- destruct (N.ltb_spec r 55296); [reflexivity|]. cbn [orb].
           destruct (N.ltb_spec 57343 r); [|lia]. destruct (N.leb_spec r 1114111); [reflexivity|lia].
      * destruct (N.ltb b0 245) eqn:E4; [|intros Hdec Hne; inversion Hdec; subst; exfalso; apply Hne; auto].
        destruct t as [|b1 [|b2 [|b3 t']]]; try solve [intros Hdec Hne; inversion Hdec; subst; exfalso; apply Hne; auto].
        unfold cont.
        destruct (((if b0 =? 240 then 144 else 128) <=? b1) && (b1 <=? (if b0 =? 244 then 143 else 191)) && ((128 <=? b2) && (b2 <? 192)) && ((128 <=? b3) && (b3 <? 192))) eqn:Ec;
          [|intros Hdec Hne; inversion Hdec; subst; exfalso; apply Hne; auto].
        intros Hdec _. inversion Hdec; subst. clear Hdec. bool_hyps. unfold encode_rune, valid_rune. cbn [firstn].
        set (r := (b0 - 240) * 262144 + (b1 - 128) * 4096 + (b2 - 128) * 64 + (b3 - 128)).
        assert (Hb1 : 128 <= b1 < 192) by (destruct (N.eqb_spec b0 240); destruct (N.eqb_spec b0 244); lia).
        assert (Hr : 65536 <= r <= 1114111 /\ r / 262144 = b0 - 240 /\ (r / 4096) mod 64 = b1 - 128 /\ (r / 64) mod 64 = b2 - 128 /\ r mod 64 = b3 - 128).
        { subst r. destruct (N.eqb_spec b0 240); destruct (N.eqb_spec b0 244); lia. }
        destruct Hr as [Hr1 [Hr2 [Hr3 [Hr4 Hr5]]]].
        destruct (N.ltb_spec r 128); [lia|]. destruct (N.ltb_spec r 2048); [lia|].
        assert (Hs : (55296 <=? r) && (r <=? 57343) = false).
        { destruct (N.leb_spec 55296 r); destruct (N.leb_spec r 57343); try reflexivity. lia. }
        rewrite Hs. cbn [orb]. destruct (N.ltb_spec 1114111 r); [lia|]. destruct (N.ltb_spec r 65536); [lia|].
        split.
        -- rewrite Hr2, Hr3, Hr4, Hr5. f_equal; [|f_equal; [|f_equal; [|f_equal]]]; lia.
        -- destruct (N.ltb_spec r 55296); [lia|]. cbn [orb].
           destruct (N.ltb_spec 57343 r); [|lia]. destruct (N.leb_spec r 1114111); [reflexivity|lia].
Qed.

(** decoding the encoding of a valid rune gives the rune back and consumes exactly its bytes *)
Lemma decode_encode r t :
  valid_rune r = true -> decode_rune (encode_rune r ++ t) = Some (r, List.length (encode_rune r)).
Proof.
  unfold valid_rune, encode_rune. intro Hv.
  destruct (N.ltb_spec r 128) as [H1|H1].
  - cbn [app decode_rune List.length]. destruct (N.ltb_spec r 128); [reflexivity|lia].
  - destruct (N.ltb_spec r 2048) as [H2|H2].
    + cbn [app List.length]. unfold decode_rune.
      destruct (N.ltb_spec (192 + r / 64) 128); [lia|]. destruct (N.ltb_spec (192 + r / 64) 194); [lia|].
      destruct (N.ltb_spec (192 + r / 64) 224); [|lia].
      unfold cont. destruct (N.leb_spec 128 (128 + r mod 64)); [|lia]. destruct (N.ltb_spec (128 + r mod 64) 192); [|lia].
      cbn [andb]. f_equal. f_equal. lia.
    + assert (Hs : (55296 <=? r) && (r <=? 57343) || (1114111 <? r) = false).
      { destruct (N.ltb_spec r 55296).
        - destruct (N.leb_spec 55296 r); [lia|]. cbn. destruct (N.ltb_spec 1114111 r); [lia|reflexivity].
        - cbn [orb] in Hv. bool_hyps. destruct (N.leb_spec r 57343); [lia|]. rewrite andb_false_r. cbn.
          destruct (N.ltb_spec 1114111 r); [lia|reflexivity]. }
      rewrite Hs.
      assert (Hr : r <= 1114111 /\ ~ (55296 <= r <= 57343)).
      { destruct (N.ltb_spec r 55296); [lia|]. cbn [orb] in Hv. bool_hyps. lia. }
      destruct Hr as [Hmax Hsur].
      destruct (N.ltb_spec r 65536) as [H3|H3].
      * cbn [app List.length]. unfold decode_rune.
        set (b0 := 224 + r / 4096). set (b1 := 128 + (r / 64) mod 64). set (b2 := 128 + r mod 64).
        assert (Hb : 224 <= b0 < 240 /\ 128 <= b1 < 192 /\ 128 <= b2 < 192 /\
                     (b0 = 224 -> 160 <= b1) /\ (b0 = 237 -> b1 <= 159) /\
                     (b0 - 224) * 4096 + (b1 - 128) * 64 + (b2 - 128) = r) by (subst b0 b1 b2; lia).
        destruct Hb as [Hb0 [Hb1 [Hb2 [Hlo [Hhi Hval]]]]].
        destruct (N.ltb_spec b0 128); [lia|]. destruct (N.ltb_spec b0 194); [lia|]. destruct (N.ltb_spec b0 224); [lia|].
        destruct (N.ltb_spec b0 240); [|lia].
        assert (Hc : ((if b0 =? 224 then 160 else 128) <=? b1) && (b1 <=? (if b0 =? 237 then 159 else 191)) && cont b2 = true).
        { unfold cont. destruct (N.eqb_spec b0 224); destruct (N.eqb_spec b0 237);
            repeat (apply andb_true_iff; split); try apply N.leb_le; try apply N.ltb_lt; try lia. }
        rewrite Hc. rewrite Hval. reflexivity.
      * cbn [app List.length]. unfold decode_rune.
        set (b0 := 240 + r / 262144). set (b1 := 128 + (r / 4096) mod 64). set (b2 := 128 + (r / 64) mod 64). set (b3 := 128 + r mod 64).
        assert (Hb : 240 <= b0 < 245 /\ 128 <= b1 < 192 /\ 128 <= b2 < 192 /\ 128 <= b3 < 192 /\
                     (b0 = 240 -> 144 <= b1) /\ (b0 = 244 -> b1 <= 143) /\
                     (b0 - 240) * 262144 + (b1 - 128) * 4096 + (b2 - 128) * 64 + (b3 - 128) = r) by (subst b0 b1 b2 b3; lia).
        destruct Hb as [Hb0 [Hb1 [Hb2 [Hb3 [Hlo [Hhi Hval]]]]]].
        destruct (N.ltb_spec b0 128); [lia|]. destruct (N.ltb_spec b0 194); [lia|]. destruct (N.ltb_spec b0 224); [lia|].
        destruct (N.ltb_spec b0 240); [lia|]. destruct (N.ltb_spec b0 245); [|lia].
        assert (Hc : ((if b0 =? 240 then 144 else 128) <=? b1) && (b1 <=? (if b0 =? 244 then 143 else 191)) && cont b2 && cont b3 = true).
        { unfold cont. destruct (N.eqb_spec b0 240); destruct (N.eqb_spec b0 244);
            repeat (apply andb_true_iff; split); try apply N.leb_le; try apply N.ltb_lt; try lia. }
        rewrite Hc. rewrite Hval. reflexivity.
Qed.
